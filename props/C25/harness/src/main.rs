//! C25 harness: gix-index `File::write_to` / `State::write_to` round trip and validity for git.
//! Case `rt <opt> <index bytes> <ops>`: decode the bytes (a git-layout index produced by the
//! generator's independent writer), toggle flag bits of entries (`ops`: records of be16 entry index
//! + be32 xor mask), write with the extension option, print the written bytes.
mod gitfmt;
use gitfmt::*;
use gixv_common::*;
use std::process::{Command, Stdio};

const MODES: [u32; 4] = [0o100644, 0o100755, 0o120000, 0o160000];
const F_REMOVE: u32 = 1 << 17;

fn gen_path(rng: &mut Rng) -> Vec<u8> {
    let comps = rng.range(1, 3);
    let mut p = Vec::new();
    for i in 0..comps {
        if i > 0 {
            p.push(b'/');
        }
        p.extend(rng.word(b"abx0", 1, 3));
    }
    p
}

fn long_path(rng: &mut Rng) -> Vec<u8> {
    // rarely: lengths around 2^16 and 2^17, where a 16-bit length computation wraps before it saturates
    let len = if rng.chance(1, 15) {
        *rng.pick(&[65535usize, 65536, 65537, 65546, 69630, 69631, 131077])
    } else {
        *rng.pick(&[4093usize, 4094, 4095, 4096, 4097, 4098, 4099, 4100, 4101, 4102, 4103, 4140, 5000])
    };
    let mut p = rng.word(b"ab", 2, 2);
    p.push(b'/');
    while p.len() < len {
        p.push(*rng.pick(b"abc"));
    }
    p
}

fn gen_entries(rng: &mut Rng, version: u32, max: usize) -> Vec<Ent> {
    let n = if rng.chance(1, 25) { 0 } else { rng.range(1, max as i64) as usize };
    let mut paths: Vec<Vec<u8>> = (0..n).map(|_| gen_path(rng)).collect();
    if rng.chance(1, 6) {
        paths.push(long_path(rng));
    }
    paths.sort();
    paths.dedup();
    // no file/directory conflicts: git ls-files would still list them, but keep the index sane
    let all = paths.clone();
    paths.retain(|p| !all.iter().any(|q| q.len() > p.len() && q.starts_with(p) && q[p.len()] == b'/'));
    let mut out = Vec::new();
    for p in paths {
        let stages: Vec<u32> = if rng.chance(1, 6) {
            let mut s: Vec<u32> = (1..=3).filter(|_| rng.chance(2, 3)).collect();
            if s.is_empty() {
                s.push(2);
            }
            s
        } else {
            vec![0]
        };
        for st in stages {
            let mut words = [0u32; 10];
            for w in words.iter_mut() {
                *w = match rng.below(4) {
                    0 => 0,
                    1 => rng.below(256) as u32,
                    2 => rng.next() as u32,
                    _ => *rng.pick(&[0xffff_ffffu32, 0x8000_0000, 0x0100_0000, 1]),
                };
            }
            words[6] = *rng.pick(&MODES);
            let mut id = [0u8; 20];
            id.copy_from_slice(&rng.bytes(20));
            let mut flags = st << 12;
            if st == 0 && rng.chance(1, 8) {
                flags |= F_ASSUME_VALID;
            }
            if version >= 3 && st == 0 && rng.chance(1, 5) {
                flags |= F_EXTENDED;
                flags |= *rng.pick(&[F_INTENT_TO_ADD, F_SKIP_WORKTREE, F_INTENT_TO_ADD | F_SKIP_WORKTREE]);
            }
            out.push(Ent { words, id, flags, path: p.clone() });
        }
    }
    out
}

fn gen_tree(rng: &mut Rng, depth: usize, name: Vec<u8>) -> TreeNode {
    let nk = if depth >= 3 { 0 } else { rng.below(4) as usize };
    let mut names: Vec<Vec<u8>> = (0..nk).map(|_| rng.word(b"ab-", 1, 3)).collect();
    names.sort();
    names.dedup();
    names.sort_by(|a, b| a.len().cmp(&b.len()).then(a.cmp(b)));
    let kids = names.into_iter().map(|n| gen_tree(rng, depth + 1, n)).collect();
    let mut id = [0u8; 20];
    id.copy_from_slice(&rng.bytes(20));
    let num = if rng.chance(1, 4) { None } else { Some(rng.below(50) as u32) };
    if num.is_none() {
        id = [0u8; 20];
    }
    TreeNode { name, id, num, kids }
}

fn gen_case(rng: &mut Rng) -> Case {
    let version = *rng.pick(&[2u32, 3, 3, 4]);
    let max = if rng.chance(1, 10) { 25 } else { 7 };
    let mut entries = gen_entries(rng, version, max);
    let mut exts: Vec<([u8; 4], Vec<u8>)> = Vec::new();
    if rng.chance(1, 12) && version >= 3 && !entries.is_empty() {
        let i = rng.below(entries.len() as u64) as usize;
        if entries[i].stage() == 0 && entries[i].path.len() < 100 {
            entries[i].words[6] = 0o040000;
            entries[i].path.push(b'/');
            entries[i].flags |= F_EXTENDED | F_SKIP_WORKTREE;
            entries.sort_by(|a, b| a.path.cmp(&b.path).then(a.stage().cmp(&b.stage())));
        }
    }
    if rng.chance(3, 5) {
        let mut p = Vec::new();
        tree_payload(&gen_tree(rng, 0, vec![]), &mut p);
        exts.push((*b"TREE", p));
    }
    if entries.iter().any(|e| e.words[6] == 0o040000) || rng.chance(1, 25) {
        exts.push((*b"sdir", vec![]));
    }
    let l = write_index(version, &entries, &[entries.len()], false, &exts, rng.chance(1, 3));
    // ops
    let mut ops = Vec::new();
    if !entries.is_empty() && rng.chance(3, 5) {
        for _ in 0..rng.range(1, 3) {
            let i = rng.below(entries.len() as u64 + 1) as u16;
            let mask: u32 = match rng.below(8) {
                0 | 1 => F_REMOVE,
                2 => F_SKIP_WORKTREE,
                3 => F_INTENT_TO_ADD,
                4 => F_EXTENDED,
                5 => F_ASSUME_VALID,
                6 => 1 << rng.range(16, 28), // in-memory only flags
                _ => *rng.pick(&[F_EXTENDED | F_SKIP_WORKTREE, 1 << 12, 1 << 13, F_REMOVE | F_EXTENDED]),
            };
            ops.extend_from_slice(&i.to_be_bytes());
            ops.extend_from_slice(&mask.to_be_bytes());
        }
    }
    vec![tag("rt"), num(rng.below(5)), l.bytes, ops]
}

fn gen(rng: &mut Rng, n: usize) -> Vec<Case> {
    let mut out: Vec<Case> = Vec::new();
    // boundary block: every path length around the saturation point and every padding residue,
    // followed by a short entry; with and without extended flags
    for len in [
        1usize, 2, 3, 4, 5, 6, 7, 8, 9, 4093, 4094, 4095, 4096, 4097, 4098, 4099, 4100, 4101, 4102, 4103, 4140, 65535, 65536,
        65537, 65546, 69630, 69631, 131077,
    ] {
        for ext in [false, true] {
            if ext && len > 65536 {
                continue;
            }
            let mut a = gen_entries(rng, 2, 1);
            a.truncate(1);
            if a.is_empty() {
                continue;
            }
            a[0].path = vec![b'a'; len];
            a[0].flags = if ext { F_EXTENDED | F_SKIP_WORKTREE } else { 0 };
            let mut b = a[0].clone();
            b.path = b"b".to_vec();
            let l = write_index(if ext { 3 } else { 2 }, &[a[0].clone(), b], &[2], false, &[], false);
            out.push(vec![tag("rt"), num(len % 5), l.bytes, vec![]]);
        }
    }
    while out.len() < n {
        out.push(gen_case(rng));
    }
    out.truncate(n.max(1));
    out
}

// ------------------------------------------------------------------------------------------
fn options(opt: u64) -> gix_index::write::Options {
    use gix_index::write::Extensions;
    gix_index::write::Options {
        extensions: match opt {
            0 => Extensions::All,
            1 => Extensions::None,
            2 => Extensions::Given { tree_cache: true, end_of_index_entry: false },
            3 => Extensions::Given { tree_cache: false, end_of_index_entry: true },
            _ => Extensions::Given { tree_cache: true, end_of_index_entry: true },
        },
        skip_hash: false,
    }
}

fn decode(data: &[u8], threads: usize) -> Result<gix_index::State, gix_index::decode::Error> {
    gix_index::State::from_bytes(
        data,
        filetime::FileTime::zero(),
        gix_hash::Kind::Sha1,
        gix_index::decode::Options { thread_limit: Some(threads), ..Default::default() },
    )
    .map(|r| r.0)
}

fn apply_ops(state: &mut gix_index::State, ops: &[u8]) {
    let mut p = 0;
    while p + 6 <= ops.len() {
        let i = u16::from_be_bytes([ops[p], ops[p + 1]]) as usize;
        let mask = u32::from_be_bytes(ops[p + 2..p + 6].try_into().unwrap());
        if let Some(e) = state.entries_mut().get_mut(i) {
            e.flags = gix_index::entry::Flags::from_bits_retain(e.flags.bits() ^ mask);
        }
        p += 6;
    }
}

fn write(state: gix_index::State, opt: u64) -> std::io::Result<(gix_index::Version, Vec<u8>)> {
    let file = gix_index::File::from_state(state, "/nonexistent/index");
    let mut out = Vec::new();
    let (v, _hash) = file.write_to(&mut out, options(opt))?;
    Ok((v, out))
}

fn vnum(v: gix_index::Version) -> u32 {
    match v {
        gix_index::Version::V2 => 2,
        gix_index::Version::V3 => 3,
        gix_index::Version::V4 => 4,
    }
}

fn imp(c: &Case) -> String {
    use gix_index::decode::Error;
    if f_str(c, 0) != b"rt" {
        return "-".into();
    }
    match decode(f_str(c, 2), 1) {
        Ok(mut s) => {
            apply_ops(&mut s, f_str(c, 3));
            match write(s, f_u64(c, 1)) {
                Ok((v, out)) => format!("ok v{} {}", vnum(v), hexs(&out)),
                Err(_) => "werr".into(),
            }
        }
        Err(Error::Header(_)) => "derr Header".into(),
        Err(Error::Entry { .. }) => "derr Entry".into(),
        Err(Error::Extension(_)) => "derr Extension".into(),
        Err(Error::UnexpectedTrailerLength { .. }) => "derr Trailer".into(),
        Err(Error::ChecksumMismatch { .. }) => "derr Checksum".into(),
    }
}

// ------------------------------------------------------------------------------------------
fn ent_of(s: &gix_index::State, e: &gix_index::Entry) -> Ent {
    let st = &e.stat;
    Ent {
        words: [st.ctime.secs, st.ctime.nsecs, st.mtime.secs, st.mtime.nsecs, st.dev, st.ino, e.mode.bits(), st.uid, st.gid, st.size],
        id: e.id.as_bytes().try_into().unwrap(),
        flags: e.flags.bits(),
        path: e.path(s).to_vec(),
    }
}

/// the flags that survive being written: stage, assume-valid, the two extended flags, and EXTENDED
/// (set when it was set or when an extended flag is present, as git does)
fn persisted(flags: u32) -> u32 {
    let mut f = flags & (0x3000 | F_ASSUME_VALID | F_EXTENDED | F_INTENT_TO_ADD | F_SKIP_WORKTREE);
    if f & (F_INTENT_TO_ADD | F_SKIP_WORKTREE) != 0 {
        f |= F_EXTENDED;
    }
    f
}

fn git_ls_files(index: &[u8]) -> Result<Vec<Ent>, String> {
    static CNT: std::sync::atomic::AtomicU64 = std::sync::atomic::AtomicU64::new(0);
    let dir = std::env::temp_dir().join(format!(
        "gixv-c25-{}-{}",
        std::process::id(),
        CNT.fetch_add(1, std::sync::atomic::Ordering::SeqCst)
    ));
    let _ = std::fs::remove_dir_all(&dir);
    std::fs::create_dir_all(dir.join(".git/objects")).unwrap();
    std::fs::create_dir_all(dir.join(".git/refs/heads")).unwrap();
    std::fs::write(dir.join(".git/HEAD"), "ref: refs/heads/main\n").unwrap();
    std::fs::write(dir.join(".git/config"), "[core]\n\trepositoryformatversion = 0\n\tbare = false\n\tquotePath = false\n").unwrap();
    std::fs::write(dir.join(".git/index"), index).unwrap();
    let o = Command::new("/usr/bin/git")
        .current_dir(&dir)
        .env_clear()
        .env("PATH", "/usr/bin:/bin")
        .env("HOME", &dir)
        .env("GIT_CONFIG_NOSYSTEM", "1")
        .args(["ls-files", "--stage", "--debug"])
        .stdin(Stdio::null())
        .output()
        .map_err(|e| e.to_string());
    let _ = std::fs::remove_dir_all(&dir);
    let o = o?;
    if !o.status.success() {
        return Err(format!("git ls-files failed: {}", String::from_utf8_lossy(&o.stderr).replace('\n', " ")));
    }
    let text = String::from_utf8_lossy(&o.stdout).to_string();
    let lines: Vec<&str> = text.lines().collect();
    let two = |l: &str, a: &str, b: &str| -> Option<(u32, u32)> {
        let l = l.trim_start().strip_prefix(a)?;
        let (x, y) = l.split_once(b)?;
        Some((x.trim().parse().ok()?, y.trim().parse().ok()?))
    };
    let mut res = Vec::new();
    let mut i = 0;
    while i + 5 < lines.len() {
        let (meta, path) = lines[i].split_once('\t').ok_or("ls-files line")?;
        let mut it = meta.split(' ');
        let mode = u32::from_str_radix(it.next().ok_or("mode")?, 8).map_err(|e| e.to_string())?;
        let id = unhex(it.next().ok_or("id")?);
        let stage: u32 = it.next().ok_or("stage")?.parse().map_err(|_| "stage")?;
        let (cs, cn) = two(lines[i + 1], "ctime:", ":").ok_or("ctime")?;
        let (ms, mn) = two(lines[i + 2], "mtime:", ":").ok_or("mtime")?;
        let (dev, ino) = two(lines[i + 3], "dev:", "\tino:").ok_or("dev")?;
        let (uid, gid) = two(lines[i + 4], "uid:", "\tgid:").ok_or("uid")?;
        let l5 = lines[i + 5].trim_start().strip_prefix("size:").ok_or("size")?;
        let (size, flags) = l5.split_once("\tflags:").ok_or("flags")?;
        let size: u32 = size.trim().parse().map_err(|_| "size")?;
        let flags = u32::from_str_radix(flags.trim(), 16).map_err(|_| "flags")?;
        if (flags >> 12) & 3 != stage {
            return Err("git: stage and flags disagree".into());
        }
        res.push(Ent {
            words: [cs, cn, ms, mn, dev, ino, mode, uid, gid, size],
            id: id.try_into().map_err(|_| "id len")?,
            flags: flags & 0xffff_f000,
            path: path.as_bytes().to_vec(),
        });
        i += 6;
    }
    Ok(res)
}

fn tree_of(t: &gix_index::extension::Tree) -> TreeNode {
    TreeNode {
        name: t.name.to_vec(),
        id: t.id.as_bytes().try_into().unwrap(),
        num: t.num_entries,
        kids: t.children.iter().map(tree_of).collect(),
    }
}

fn prop(c: &Case) -> Verdict {
    if f_str(c, 0) != b"rt" {
        return Verdict::ok(false, "?");
    }
    let opt = f_u64(c, 1);
    let mut s = match decode(f_str(c, 2), 1) {
        Ok(s) => s,
        Err(_) => return Verdict::ok(false, "undecodable-input"),
    };
    apply_ops(&mut s, f_str(c, 3));
    // what must come back
    let want: Vec<Ent> = s
        .entries()
        .iter()
        .filter(|e| e.flags.bits() & F_REMOVE == 0)
        .map(|e| {
            let mut x = ent_of(&s, e);
            x.flags = persisted(x.flags);
            x
        })
        .collect();
    let want_tree = if matches!(opt, 0 | 2 | 4) { s.tree().map(tree_of) } else { None };
    let want_sparse = s.is_sparse();
    let any_ext = s.entries().iter().any(|e| e.flags.bits() & (F_EXTENDED | F_INTENT_TO_ADD | F_SKIP_WORKTREE) != 0);
    let removed_any = want.len() != s.entries().len();
    let (v, out) = match write(s, opt) {
        Ok(x) => x,
        Err(e) => return Verdict::fail("write-error", e.to_string()),
    };
    if vnum(v) != if any_ext { 3 } else { 2 } {
        return Verdict::fail("version", format!("wrote v{} with extended flags present: {any_ext}", vnum(v)));
    }
    // 1. reading back yields an equal state, for several thread limits
    for t in [1usize, 2, 4] {
        let back = match decode(&out, t) {
            Ok(b) => b,
            Err(e) => return Verdict::fail("reread-error", format!("thread_limit={t}: {e}")),
        };
        if vnum(back.version()) != vnum(v) {
            return Verdict::fail("reread-version", "");
        }
        let got: Vec<Ent> = back.entries().iter().map(|e| ent_of(&back, e)).collect();
        if got.len() != want.len() {
            return Verdict::fail("reread-count", format!("{} vs {}", got.len(), want.len()));
        }
        for (i, (g, w)) in got.iter().zip(&want).enumerate() {
            if g.flags != w.flags {
                return Verdict::fail("reread-flags", format!("entry {i}: read {:x}, want {:x}", g.flags, w.flags));
            }
            if g != w {
                return Verdict::fail("reread-entry", format!("entry {i}"));
            }
        }
        if back.tree().map(tree_of) != want_tree {
            return Verdict::fail("reread-tree", "");
        }
        if back.is_sparse() != want_sparse {
            return Verdict::fail("reread-sparse", "");
        }
    }
    // 2. the layout is git's: the independent strict reader accepts it and sees the same
    let parsed = match parse_index(&out) {
        Some(p) => p,
        None => return Verdict::fail("layout", "the reference reader rejects the written file"),
    };
    if parsed.entries != want {
        return Verdict::fail("layout-entries", "");
    }
    if parsed.trailer != sha1(&out[..out.len() - 20]) {
        return Verdict::fail("checksum", "");
    }
    // 3. git accepts the file (it verifies the checksum) and lists the same entries.  A sparse index is
    //    expanded by git from tree objects which do not exist here: the strict reader has to do.
    if want_sparse {
        return Verdict::ok(!want.is_empty(), format!("v{}-sparse", vnum(v)));
    }
    // (a git process per case is slow on a loaded machine: every third file, and every long-path file)
    let long = want.iter().any(|e| e.path.len() >= 0xfff);
    let pick = long || parsed.trailer[0] % 3 == 0;
    match if pick { git_ls_files(&out) } else { Ok(want.clone()) } {
        Ok(listed) => {
            if listed != want {
                let i = listed.iter().zip(&want).position(|(a, b)| a != b).unwrap_or(listed.len().min(want.len()));
                return Verdict::fail(
                    "git-lists-differently",
                    format!("{} vs {} entries, first difference at {i}: {:?} / {:?}", listed.len(), want.len(), listed.get(i).map(|e| (e.flags, &e.words)), want.get(i).map(|e| (e.flags, &e.words))),
                );
            }
        }
        Err(e) => return Verdict::fail("git-rejects", e),
    }
    Verdict::ok(
        !want.is_empty(),
        format!(
            "v{}{}{}{}{}{}",
            vnum(v),
            if long { "-longpath" } else { "" },
            if removed_any { "-removed" } else { "" },
            if want_tree.is_some() { "-tree" } else { "" },
            if parsed.has_eoie { "-eoie" } else { "" },
            if pick { "-git" } else { "" }
        ),
    )
}

fn main() {
    main_with(Harness { gen, imp, prop, git: None, deadline: std::time::Duration::from_secs(180) });
}
