//! Independent plain-Rust writer and reader of git's index format (after read-cache.c, cache-tree.c,
//! resolve-undo.c of git 2.39), used as generator and as oracle.  Shares no code with gix-index.
#![allow(dead_code)]

pub const F_EXTENDED: u32 = 1 << 14;
pub const F_ASSUME_VALID: u32 = 1 << 15;
pub const F_INTENT_TO_ADD: u32 = 1 << 29;
pub const F_SKIP_WORKTREE: u32 = 1 << 30;

#[derive(Clone, Debug, PartialEq, Eq)]
pub struct Ent {
    /// ctime.s ctime.ns mtime.s mtime.ns dev ino mode uid gid size
    pub words: [u32; 10],
    pub id: [u8; 20],
    /// in-memory flags: stage bits 12..13, EXTENDED 14, ASSUME_VALID 15, INTENT_TO_ADD 29, SKIP_WORKTREE 30
    pub flags: u32,
    pub path: Vec<u8>,
}
impl Ent {
    pub fn stage(&self) -> u32 {
        (self.flags >> 12) & 3
    }
}

#[derive(Clone, Debug, PartialEq, Eq)]
pub struct TreeNode {
    pub name: Vec<u8>,
    pub id: [u8; 20],
    pub num: Option<u32>,
    pub kids: Vec<TreeNode>,
}

#[derive(Clone, Debug, PartialEq, Eq)]
pub struct Reuc {
    pub name: Vec<u8>,
    pub stages: [Option<(u32, [u8; 20])>; 3],
}

pub fn sha1(d: &[u8]) -> [u8; 20] {
    let mut h = sha1_smol::Sha1::new();
    h.update(d);
    h.digest().bytes()
}

pub fn encode_varint(mut value: u64) -> Vec<u8> {
    let mut out = vec![(value & 127) as u8];
    loop {
        value >>= 7;
        if value == 0 {
            break;
        }
        value -= 1;
        out.push(128 | (value & 127) as u8);
    }
    out.reverse();
    out
}

fn common_prefix(a: &[u8], b: &[u8]) -> usize {
    a.iter().zip(b.iter()).take_while(|(x, y)| x == y).count()
}

pub fn tree_payload(t: &TreeNode, out: &mut Vec<u8>) {
    out.extend_from_slice(&t.name);
    out.push(0);
    match t.num {
        Some(n) => out.extend_from_slice(n.to_string().as_bytes()),
        None => out.extend_from_slice(b"-1"),
    }
    out.push(b' ');
    out.extend_from_slice(t.kids.len().to_string().as_bytes());
    out.push(b'\n');
    if t.num.is_some() {
        out.extend_from_slice(&t.id);
    }
    for k in &t.kids {
        tree_payload(k, out);
    }
}

pub fn reuc_payload(rs: &[Reuc]) -> Vec<u8> {
    let mut out = Vec::new();
    for r in rs {
        out.extend_from_slice(&r.name);
        out.push(0);
        for s in &r.stages {
            out.extend_from_slice(format!("{:o}", s.map_or(0, |x| x.0)).as_bytes());
            out.push(0);
        }
        for s in r.stages.iter().flatten() {
            out.extend_from_slice(&s.1);
        }
    }
    out
}

pub struct Layout {
    pub bytes: Vec<u8>,
    /// byte ranges in which a mutation could make the implementation allocate absurd amounts
    pub entry_starts: Vec<usize>,
    pub ext_start: usize,
}

/// Write an index the way git does. `blocks`: sizes of the offset-table blocks (sum = entries.len()).
pub fn write_index(
    version: u32,
    entries: &[Ent],
    blocks: &[usize],
    ieot: bool,
    exts: &[([u8; 4], Vec<u8>)],
    eoie: bool,
) -> Layout {
    let mut out = Vec::new();
    out.extend_from_slice(b"DIRC");
    out.extend_from_slice(&version.to_be_bytes());
    out.extend_from_slice(&(entries.len() as u32).to_be_bytes());
    let mut prev: Vec<u8> = Vec::new();
    let mut block_table = Vec::new();
    let mut entry_starts = Vec::new();
    let mut idx = 0usize;
    for (bi, bsize) in blocks.iter().enumerate() {
        block_table.push((out.len() as u32, *bsize as u32));
        for k in 0..*bsize {
            let e = &entries[idx];
            idx += 1;
            let start = out.len();
            entry_starts.push(start);
            for w in e.words {
                out.extend_from_slice(&w.to_be_bytes());
            }
            out.extend_from_slice(&e.id);
            let f16 = (e.flags & 0xf000) as u16 | (e.path.len().min(0xfff) as u16);
            out.extend_from_slice(&f16.to_be_bytes());
            if e.flags & F_EXTENDED != 0 {
                out.extend_from_slice(&((e.flags >> 16) as u16).to_be_bytes());
            }
            if version == 4 {
                let common = if k == 0 && bi > 0 { 0 } else { common_prefix(&prev, &e.path) };
                out.extend_from_slice(&encode_varint((prev.len() - common) as u64));
                out.extend_from_slice(&e.path[common..]);
                out.push(0);
            } else {
                out.extend_from_slice(&e.path);
                let len = out.len() - start;
                let padded = (len + 8) & !7;
                out.resize(start + padded, 0);
            }
            prev = e.path.clone();
        }
    }
    assert_eq!(idx, entries.len());
    let ext_start = out.len();
    let mut toc = Vec::new();
    let mut all: Vec<([u8; 4], Vec<u8>)> = Vec::new();
    if ieot {
        let mut p = 1u32.to_be_bytes().to_vec();
        for (o, c) in &block_table {
            p.extend_from_slice(&o.to_be_bytes());
            p.extend_from_slice(&c.to_be_bytes());
        }
        all.push((*b"IEOT", p));
    }
    all.extend(exts.iter().cloned());
    for (sig, p) in &all {
        out.extend_from_slice(sig);
        out.extend_from_slice(&(p.len() as u32).to_be_bytes());
        out.extend_from_slice(p);
        toc.extend_from_slice(sig);
        toc.extend_from_slice(&(p.len() as u32).to_be_bytes());
    }
    if eoie {
        out.extend_from_slice(b"EOIE");
        out.extend_from_slice(&24u32.to_be_bytes());
        out.extend_from_slice(&(ext_start as u32).to_be_bytes());
        out.extend_from_slice(&sha1(&toc));
    }
    let h = sha1(&out);
    out.extend_from_slice(&h);
    Layout { bytes: out, entry_starts, ext_start }
}

// ---------------------------------------------------------------------------------------------
// reference reader (strict): what git would load
#[derive(Debug, Default, Clone, PartialEq, Eq)]
pub struct Parsed {
    pub version: u32,
    pub entries: Vec<Ent>,
    pub entry_starts: Vec<usize>,
    pub tree: Option<TreeNode>,
    pub reuc: Option<Vec<Reuc>>,
    pub link: Option<([u8; 20], bool)>,
    pub sdir: bool,
    pub has_eoie: bool,
    pub has_ieot: bool,
    pub has_untr: bool,
    /// EOIE present, offset right and hash right
    pub eoie_ok: bool,
    /// IEOT present and naming exactly entry boundaries covering all entries in order
    pub ieot_ok: bool,
    pub ieot_blocks: usize,
    pub trailer: [u8; 20],
}

fn be32(d: &[u8], at: usize) -> Option<u32> {
    d.get(at..at + 4).map(|b| u32::from_be_bytes(b.try_into().unwrap()))
}

fn decode_varint(d: &[u8], pos: &mut usize) -> Option<u64> {
    let mut c = *d.get(*pos)?;
    *pos += 1;
    let mut val = (c & 127) as u64;
    while c & 128 != 0 {
        val = val.checked_add(1)?;
        if val >> 57 != 0 {
            return None; // overflow, git returns 0 (error)
        }
        c = *d.get(*pos)?;
        *pos += 1;
        val = (val << 7) + (c & 127) as u64;
    }
    Some(val)
}

fn parse_tree(d: &[u8], pos: &mut usize, depth: usize) -> Option<TreeNode> {
    if depth > 64 {
        return None;
    }
    let nul = d[*pos..].iter().position(|b| *b == 0)? + *pos;
    let name = d[*pos..nul].to_vec();
    *pos = nul + 1;
    let sp = d[*pos..].iter().position(|b| *b == b' ')? + *pos;
    let num: i64 = std::str::from_utf8(&d[*pos..sp]).ok()?.parse().ok()?;
    if !(d[*pos] == b'-' || d[*pos].is_ascii_digit()) {
        return None;
    }
    *pos = sp + 1;
    let nl = d[*pos..].iter().position(|b| *b == b'\n')? + *pos;
    if d[*pos..nl].is_empty() || !d[*pos..nl].iter().all(u8::is_ascii_digit) {
        return None;
    }
    let nsub: usize = std::str::from_utf8(&d[*pos..nl]).ok()?.parse().ok()?;
    *pos = nl + 1;
    let mut id = [0u8; 20];
    if num >= 0 {
        id.copy_from_slice(d.get(*pos..*pos + 20)?);
        *pos += 20;
    }
    if nsub > d.len() {
        return None;
    }
    let mut kids = Vec::new();
    for _ in 0..nsub {
        kids.push(parse_tree(d, pos, depth + 1)?);
    }
    let num = if num >= 0 { Some(u32::try_from(num).ok()?) } else { None };
    Some(TreeNode { name, id, num, kids })
}

fn parse_reuc(d: &[u8]) -> Option<Vec<Reuc>> {
    let mut pos = 0;
    let mut out = Vec::new();
    while pos < d.len() {
        let nul = d[pos..].iter().position(|b| *b == 0)? + pos;
        let name = d[pos..nul].to_vec();
        pos = nul + 1;
        let mut modes = [0u32; 3];
        for m in &mut modes {
            let nul = d[pos..].iter().position(|b| *b == 0)? + pos;
            let s = std::str::from_utf8(&d[pos..nul]).ok()?;
            if s.is_empty() || !s.bytes().all(|b| (b'0'..=b'7').contains(&b)) {
                return None;
            }
            *m = u32::from_str_radix(s, 8).ok()?;
            pos = nul + 1;
        }
        let mut stages = [None, None, None];
        for i in 0..3 {
            if modes[i] != 0 {
                let mut id = [0u8; 20];
                id.copy_from_slice(d.get(pos..pos + 20)?);
                pos += 20;
                stages[i] = Some((modes[i], id));
            }
        }
        out.push(Reuc { name, stages });
    }
    Some(out)
}

/// Serial, strict parse.  None = git would not load this file (or we cannot tell).
pub fn parse_index(d: &[u8]) -> Option<Parsed> {
    if d.len() < 32 || &d[..4] != b"DIRC" {
        return None;
    }
    let version = be32(d, 4)?;
    if !(2..=4).contains(&version) {
        return None;
    }
    let n = be32(d, 8)? as usize;
    if n > d.len() {
        return None;
    }
    let end = d.len() - 20;
    let mut p = Parsed { version, ..Default::default() };
    p.trailer.copy_from_slice(&d[end..]);
    let mut pos = 12usize;
    let mut prev: Vec<u8> = Vec::new();
    let mut strips: Vec<(usize, usize)> = Vec::new();
    for _ in 0..n {
        let start = pos;
        if pos + 62 > end {
            return None;
        }
        let mut words = [0u32; 10];
        for (i, w) in words.iter_mut().enumerate() {
            *w = be32(d, pos + 4 * i)?;
        }
        pos += 40;
        let mut id = [0u8; 20];
        id.copy_from_slice(&d[pos..pos + 20]);
        pos += 20;
        let f16 = u16::from_be_bytes([d[pos], d[pos + 1]]) as u32;
        pos += 2;
        let mut flags = f16 & 0xf000;
        if f16 & F_EXTENDED != 0 {
            if version < 3 {
                // git: "unknown index entry format" only for unknown bits; extended in v2 is an error
                return None;
            }
            let x = u16::from_be_bytes([*d.get(pos)?, *d.get(pos + 1)?]) as u32;
            pos += 2;
            if (x << 16) & !(F_INTENT_TO_ADD | F_SKIP_WORKTREE) != 0 {
                return None;
            }
            flags |= x << 16;
        }
        let len = (f16 & 0xfff) as usize;
        let path;
        if version == 4 {
            let strip = decode_varint(d, &mut pos)? as usize;
            if strip > prev.len() {
                return None;
            }
            strips.push((strip, prev.len()));
            let nul = d.get(pos..end)?.iter().position(|b| *b == 0)? + pos;
            let mut pth = prev[..prev.len() - strip].to_vec();
            pth.extend_from_slice(&d[pos..nul]);
            pos = nul + 1;
            if pth.len().min(0xfff) != len {
                return None;
            }
            path = pth;
        } else {
            let plen = if len == 0xfff {
                let nul = d.get(pos..end)?.iter().position(|b| *b == 0)?;
                if nul < 0xfff {
                    return None;
                }
                nul
            } else {
                len
            };
            let pth = d.get(pos..pos + plen)?.to_vec();
            if pth.contains(&0) {
                return None;
            }
            let size = (pos + plen - start + 8) & !7;
            if start + size > end {
                return None;
            }
            if d[pos + plen..start + size].iter().any(|b| *b != 0) {
                return None;
            }
            pos = start + size;
            path = pth;
        }
        // canonical modes only
        if ![0o100644, 0o100755, 0o120000, 0o160000, 0o040000].contains(&words[6]) {
            return None;
        }
        prev = path.clone();
        p.entry_starts.push(start);
        p.entries.push(Ent { words, id, flags, path });
    }
    let ext_start = pos;
    let mut toc = Vec::new();
    let mut ieot: Option<Vec<(u32, u32)>> = None;
    let mut eoie: Option<(u32, [u8; 20])> = None;
    while pos < end {
        if eoie.is_some() {
            return None; // EOIE must be last
        }
        let sig: [u8; 4] = d.get(pos..pos + 4)?.try_into().unwrap();
        let size = be32(d, pos + 4)? as usize;
        let x = d.get(pos + 8..pos + 8 + size)?;
        if pos + 8 + size > end {
            return None;
        }
        match &sig {
            b"TREE" => {
                let mut tp = 0;
                let t = parse_tree(x, &mut tp, 0)?;
                if tp != x.len() {
                    return None;
                }
                p.tree = Some(t);
            }
            b"REUC" => p.reuc = Some(parse_reuc(x)?),
            b"UNTR" => p.has_untr = true,
            b"FSMN" => return None, // out of scope
            b"EOIE" => {
                if size != 24 {
                    return None;
                }
                p.has_eoie = true;
                eoie = Some((be32(x, 0)?, x[4..24].try_into().unwrap()));
            }
            b"IEOT" => {
                p.has_ieot = true;
                if be32(x, 0)? != 1 || (x.len() - 4) % 8 != 0 || x.len() == 4 {
                    return None;
                }
                ieot = Some(
                    (0..(x.len() - 4) / 8)
                        .map(|i| (be32(x, 4 + 8 * i).unwrap(), be32(x, 8 + 8 * i).unwrap()))
                        .collect(),
                );
            }
            b"link" => {
                if x.len() < 20 {
                    return None;
                }
                p.link = Some((x[..20].try_into().unwrap(), x.len() > 20));
                if x.len() > 20 {
                    // two ewah bitmaps, exactly
                    let mut q = 20;
                    for _ in 0..2 {
                        let words = be32(x, q + 4)? as usize;
                        q += 8 + words * 8 + 4;
                        if q > x.len() {
                            return None;
                        }
                    }
                    if q != x.len() {
                        return None;
                    }
                }
            }
            b"sdir" => {
                if size != 0 {
                    return None;
                }
                p.sdir = true;
            }
            other => {
                if other[0].is_ascii_lowercase() || !other.iter().all(|b| b.is_ascii_uppercase()) {
                    return None;
                }
            }
        }
        if &sig != b"EOIE" {
            toc.extend_from_slice(&sig);
            toc.extend_from_slice(&(size as u32).to_be_bytes());
        }
        pos += 8 + size;
    }
    if pos != end {
        return None;
    }
    if let Some((off, h)) = eoie {
        p.eoie_ok = off as usize == ext_start && h == sha1(&toc) && !toc.is_empty();
        if !p.eoie_ok && (off as usize != ext_start || h != sha1(&toc)) {
            return None; // a wrong EOIE is not something git writes
        }
    }
    if let Some(t) = ieot {
        let mut idx = 0usize;
        let mut ok = true;
        for (o, c) in &t {
            if *c == 0 || idx >= p.entry_starts.len() || p.entry_starts[idx] != *o as usize {
                ok = false;
                break;
            }
            idx += *c as usize;
        }
        if !ok || idx != p.entries.len() {
            return None; // git trusts the table; a wrong one is not git-written
        }
        if version == 4 {
            // git invalidates the previous name at the start of every block but the first: the whole
            // previous name is stripped there. Anything else is not git-written (serial and threaded
            // readers, git's included, would disagree on it).
            let mut idx = 0usize;
            for (bi, (_, c)) in t.iter().enumerate() {
                if bi > 0 && strips[idx].0 != strips[idx].1 {
                    return None;
                }
                idx += *c as usize;
            }
        }
        p.ieot_ok = true;
        p.ieot_blocks = t.len();
    }
    Some(p)
}
