//! C56 harness: deflate::Write / hash::Write / compute_hash / compute_stream_hash under arbitrary chunking.
//!
//! cases (field 0 = tag):
//!   defl <limit> <op>...            deflate::Write<Sink>;  op = 'w'data (one write call) | 'a'data (write_all) | 'f' (flush) | 'r' (reset)
//!   hw   <limit> <room|-> <op>...   hash::Write<Sink>
//!   hd   <limit> <op>...            hash::Write<deflate::Write<Sink>>  (the stack gix-odb's loose object writer uses)
//!   ch   <kind> <data>              gix_object::compute_hash
//!   cs   <kind> <stream_len> <interrupt 0|1> <chunk>...   gix_object::compute_stream_hash over a reader delivering these chunks
use gix_features::zlib::stream::deflate;
use gixv_common::*;
use std::collections::VecDeque;
use std::io::{self, Read, Write};
use std::sync::atomic::AtomicBool;

// ---------------------------------------------------------------- test doubles
/// innermost writer: records everything; `limit` > 0 = at most that many bytes per call;
/// `room` = Some(r): fails once r bytes were taken.
struct Sink {
    got: Vec<u8>,
    limit: usize,
    room: Option<usize>,
    zero_calls: usize,
    cap: usize,
}
impl Sink {
    fn new(limit: usize, room: Option<usize>, c: &Case) -> Self {
        let payload: usize = c.iter().map(|f| f.len()).sum();
        Sink { got: Vec::new(), limit, room, zero_calls: 0, cap: 2 * payload + (1 << 20) }
    }
}
impl Write for Sink {
    fn write(&mut self, buf: &[u8]) -> io::Result<usize> {
        let mut n = if self.limit == 0 { buf.len() } else { buf.len().min(self.limit) };
        if let Some(r) = self.room {
            if r == 0 && n > 0 {
                return Err(io::Error::new(io::ErrorKind::Other, "full"));
            }
            n = n.min(r);
        }
        if buf.is_empty() {
            self.zero_calls += 1;
        }
        // safety net for the shared machine: a writer above that loops forever while producing output
        // (e.g. a mutated write_inner that re-feeds its input) is stopped here instead of eating memory.
        // The cap is twice the case's total payload plus 1 MiB; deflate never expands that much.
        if self.got.len() + n > self.cap {
            return Err(io::Error::new(io::ErrorKind::Other, "full"));
        }
        if let Some(r) = self.room.as_mut() {
            *r -= n;
        }
        self.got.extend_from_slice(&buf[..n]);
        Ok(n)
    }
    fn flush(&mut self) -> io::Result<()> {
        Ok(())
    }
}

struct ChunkReader(VecDeque<Vec<u8>>);
impl Read for ChunkReader {
    fn read(&mut self, buf: &mut [u8]) -> io::Result<usize> {
        match self.0.pop_front() {
            None => Ok(0),
            Some(c) => {
                let n = c.len().min(buf.len());
                buf[..n].copy_from_slice(&c[..n]);
                if n < c.len() {
                    self.0.push_front(c[n..].to_vec());
                }
                Ok(n)
            }
        }
    }
}

fn err_name(e: &io::Error) -> &'static str {
    match e.kind() {
        io::ErrorKind::WriteZero => "WriteZero",
        io::ErrorKind::UnexpectedEof => "UnexpectedEof",
        _ => {
            let m = e.to_string();
            if m.contains("full") {
                "Full"
            } else if m.contains("Interrupted") {
                "Interrupted"
            } else {
                "Compress"
            }
        }
    }
}

fn adler32(b: &[u8]) -> u32 {
    let (mut a, mut s) = (1u32, 0u32);
    for &x in b {
        a = (a + x as u32) % 65521;
        s = (s + a) % 65521;
    }
    s * 65536 + a
}
fn fingerprint(b: &[u8]) -> String {
    format!("{}:{}", b.len(), adler32(b))
}

/// Inflate every complete zlib stream at the front of `s` with flate2 directly (not through gix).
/// Returns the streams and, if something is left that is not a complete stream, what it inflated to so far.
fn inflate_streams(mut s: &[u8]) -> (Vec<Vec<u8>>, Option<Vec<u8>>) {
    let mut out = Vec::new();
    while !s.is_empty() {
        let mut d = flate2::Decompress::new(true);
        let mut o: Vec<u8> = Vec::with_capacity(1 << 16);
        loop {
            if o.len() == o.capacity() {
                o.reserve(o.len().max(1 << 16));
            }
            let before_in = d.total_in();
            let before_out = d.total_out();
            let st = d.decompress_vec(&s[d.total_in() as usize..], &mut o, flate2::FlushDecompress::None);
            match st {
                Ok(flate2::Status::StreamEnd) => break,
                Ok(_) => {
                    if d.total_in() == before_in && d.total_out() == before_out && o.len() < o.capacity() {
                        return (out, Some(o)); // truncated
                    }
                }
                Err(_) => return (out, Some(o)),
            }
        }
        s = &s[d.total_in() as usize..];
        out.push(o);
    }
    (out, None)
}

fn streams_text(content: &[u8]) -> String {
    let (streams, tail) = inflate_streams(content);
    let body = if streams.is_empty() {
        "-".to_string()
    } else {
        streams.iter().map(|s| fingerprint(s)).collect::<Vec<_>>().join(",")
    };
    format!("streams={} tail={}", body, if tail.is_none() { "ok" } else { "bad" })
}

// ---------------------------------------------------------------- op interpreter
/// What happened, for `impl` (text) and `prop` (structured).
struct OpLog {
    tokens: Vec<String>,
    stopped: bool,
    /// per executed op: (op char, payload len, accepted bytes; usize::MAX = error)
    results: Vec<(u8, usize, usize)>,
}

fn run_ops<T: Write>(t: &mut T, ops: &[Vec<u8>], mut reset: impl FnMut(&mut T)) -> OpLog {
    let mut log = OpLog { tokens: Vec::new(), stopped: false, results: Vec::new() };
    for op in ops {
        let Some((&c, payload)) = op.split_first() else { continue };
        match c {
            b'w' => match t.write(payload) {
                Ok(n) => {
                    log.tokens.push(format!("w={n}"));
                    log.results.push((c, payload.len(), n));
                }
                Err(e) => {
                    log.tokens.push(format!("w=err:{}", err_name(&e)));
                    log.results.push((c, payload.len(), usize::MAX));
                    log.stopped = true;
                    break;
                }
            },
            b'a' => match t.write_all(payload) {
                Ok(()) => {
                    log.tokens.push("a=ok".into());
                    log.results.push((c, payload.len(), payload.len()));
                }
                Err(e) => {
                    log.tokens.push(format!("a=err:{}", err_name(&e)));
                    log.results.push((c, payload.len(), usize::MAX));
                    log.stopped = true;
                    break;
                }
            },
            b'f' => match t.flush() {
                Ok(()) => {
                    log.tokens.push("f=ok".into());
                    log.results.push((c, 0, 0));
                }
                Err(e) => {
                    log.tokens.push(format!("f=err:{}", err_name(&e)));
                    log.results.push((c, 0, usize::MAX));
                    log.stopped = true;
                    break;
                }
            },
            b'r' => {
                reset(t);
                log.tokens.push("r".into());
                log.results.push((c, 0, 0));
            }
            _ => log.tokens.push("?".into()),
        }
    }
    log
}

fn finish_line(log: &OpLog, fin: String) -> String {
    let head = log.tokens.join(" ");
    if log.stopped {
        format!("{head} | stopped")
    } else {
        format!("{head} | {fin}")
    }
}

fn room_of(f: &[u8]) -> Option<usize> {
    if f.is_empty() {
        None
    } else {
        std::str::from_utf8(f).ok().and_then(|s| s.parse().ok())
    }
}

fn kind_of(f: &[u8]) -> Option<gix_object::Kind> {
    match f {
        b"tree" => Some(gix_object::Kind::Tree),
        b"blob" => Some(gix_object::Kind::Blob),
        b"commit" => Some(gix_object::Kind::Commit),
        b"tag" => Some(gix_object::Kind::Tag),
        _ => None,
    }
}

type D = deflate::Write<Sink>;
type HS = gix_features::hash::Write<Sink>;
type HD = gix_features::hash::Write<D>;

fn run_defl(c: &Case) -> (OpLog, D) {
    let mut w = deflate::Write::new(Sink::new(f_u64(c, 1) as usize, None, c));
    let log = run_ops(&mut w, &c[2.min(c.len())..], |w| w.reset());
    (log, w)
}
fn run_hw(c: &Case) -> (OpLog, HS) {
    let mut w = gix_features::hash::Write::new(
        Sink::new(f_u64(c, 1) as usize, room_of(f_str(c, 2)), c),
        gix_hash::Kind::Sha1,
    );
    let log = run_ops(&mut w, &c[3.min(c.len())..], |_| {});
    (log, w)
}
fn run_hd(c: &Case) -> (OpLog, HD) {
    let mut w = gix_features::hash::Write::new(
        deflate::Write::new(Sink::new(f_u64(c, 1) as usize, None, c)),
        gix_hash::Kind::Sha1,
    );
    let log = run_ops(&mut w, &c[2.min(c.len())..], |_| {});
    (log, w)
}

fn run_cs(c: &Case) -> Option<io::Result<gix_hash::ObjectId>> {
    let kind = kind_of(f_str(c, 1))?;
    let mut rd = ChunkReader(c[4.min(c.len())..].iter().cloned().collect());
    let interrupt = AtomicBool::new(f_str(c, 3) != b"0");
    Some(gix_object::compute_stream_hash(
        gix_hash::Kind::Sha1,
        kind,
        &mut rd,
        f_u64(c, 2),
        &mut gix_features::progress::Discard,
        &interrupt,
    ))
}

fn imp(c: &Case) -> String {
    match f_str(c, 0) {
        b"defl" => {
            let (log, w) = run_defl(c);
            let sink = w.into_inner();
            finish_line(&log, format!("zero={} {}", sink.zero_calls, streams_text(&sink.got)))
        }
        b"hw" => {
            let (log, w) = run_hw(c);
            let digest = w.hash.digest();
            finish_line(
                &log,
                format!("digest={} inner={} zero={}", hexs(&digest), fingerprint(&w.inner.got), w.inner.zero_calls),
            )
        }
        b"hd" => {
            let (log, w) = run_hd(c);
            let digest = w.hash.digest();
            let sink = w.inner.into_inner();
            finish_line(
                &log,
                format!("digest={} zero={} {}", hexs(&digest), sink.zero_calls, streams_text(&sink.got)),
            )
        }
        b"ch" => match kind_of(f_str(c, 1)) {
            Some(k) => format!("id={}", gix_object::compute_hash(gix_hash::Kind::Sha1, k, f_str(c, 2)).to_hex()),
            None => "?".into(),
        },
        b"cs" => match run_cs(c) {
            Some(Ok(id)) => format!("ok {}", id.to_hex()),
            Some(Err(e)) => format!("err {}", err_name(&e)),
            None => "?".into(),
        },
        _ => "?".into(),
    }
}

// ---------------------------------------------------------------- independent oracles
/// SHA-1 straight from FIPS 180-4, written here so that the oracle shares no code with gix.
fn naive_sha1(msg: &[u8]) -> [u8; 20] {
    let mut h: [u32; 5] = [0x67452301, 0xEFCDAB89, 0x98BADCFE, 0x10325476, 0xC3D2E1F0];
    let mut m = msg.to_vec();
    m.push(0x80);
    while m.len() % 64 != 56 {
        m.push(0);
    }
    m.extend_from_slice(&((msg.len() as u64) * 8).to_be_bytes());
    for blk in m.chunks(64) {
        let mut w = [0u32; 80];
        for i in 0..16 {
            w[i] = u32::from_be_bytes([blk[4 * i], blk[4 * i + 1], blk[4 * i + 2], blk[4 * i + 3]]);
        }
        for i in 16..80 {
            w[i] = (w[i - 3] ^ w[i - 8] ^ w[i - 14] ^ w[i - 16]).rotate_left(1);
        }
        let (mut a, mut b, mut c, mut d, mut e) = (h[0], h[1], h[2], h[3], h[4]);
        for (i, wi) in w.iter().enumerate() {
            let (f, k) = match i / 20 {
                0 => ((b & c) | (!b & d), 0x5A827999u32),
                1 => (b ^ c ^ d, 0x6ED9EBA1),
                2 => ((b & c) | (b & d) | (c & d), 0x8F1BBCDC),
                _ => (b ^ c ^ d, 0xCA62C1D6),
            };
            let t = a.rotate_left(5).wrapping_add(f).wrapping_add(e).wrapping_add(k).wrapping_add(*wi);
            e = d;
            d = c;
            c = b.rotate_left(30);
            b = a;
            a = t;
        }
        h[0] = h[0].wrapping_add(a);
        h[1] = h[1].wrapping_add(b);
        h[2] = h[2].wrapping_add(c);
        h[3] = h[3].wrapping_add(d);
        h[4] = h[4].wrapping_add(e);
    }
    let mut out = [0u8; 20];
    for i in 0..5 {
        out[4 * i..4 * i + 4].copy_from_slice(&h[i].to_be_bytes());
    }
    out
}

fn header_text(kind: &[u8], len: u64) -> Vec<u8> {
    let mut v = kind.to_vec();
    v.extend_from_slice(format!(" {len}").as_bytes());
    v.push(0);
    v
}

/// `git hash-object` on the same object (real git as oracle); None if git could not be run.
fn git_hash_object(kind: &[u8], data: &[u8]) -> Option<String> {
    use std::process::{Command, Stdio};
    let dir = std::env::temp_dir().join(format!("gixv-c56-{}-{:?}", std::process::id(), std::thread::current().id()));
    std::fs::create_dir_all(&dir).ok()?;
    let mut child = Command::new("git")
        .current_dir(&dir)
        .env("GIT_CONFIG_NOSYSTEM", "1")
        .env("HOME", &dir)
        .args(["hash-object", "--literally", "-t", std::str::from_utf8(kind).ok()?, "--stdin"])
        .stdin(Stdio::piped())
        .stdout(Stdio::piped())
        .stderr(Stdio::null())
        .spawn()
        .ok()?;
    let mut stdin = child.stdin.take()?;
    let data2 = data.to_vec();
    let t = std::thread::spawn(move || {
        let _ = stdin.write_all(&data2);
    });
    let out = child.wait_with_output().ok()?;
    let _ = t.join();
    let _ = std::fs::remove_dir_all(&dir);
    if !out.status.success() {
        return None;
    }
    Some(String::from_utf8_lossy(&out.stdout).trim().to_string())
}

/// inflate `content` through gix's own streaming inflater (gix-features/src/zlib/stream/inflate.rs)
fn gix_inflate_first_stream(content: &[u8], expect_len: usize) -> Option<Vec<u8>> {
    let mut rd = io::BufReader::with_capacity(4096, content);
    let mut state = gix_features::zlib::Decompress::new(true);
    let mut out = vec![0u8; expect_len + 16];
    let n = gix_features::zlib::stream::inflate::read(&mut rd, &mut state, &mut out).ok()?;
    out.truncate(n);
    Some(out)
}

/// What the op sequence is expected to leave in a deflate sink, derived from the accepted byte counts.
struct Expect {
    streams: Vec<Vec<u8>>,
    /// bytes accepted into a stream that was never finished (None = the last stream was finished / nothing pending)
    open: Option<Vec<u8>>,
    abandoned: bool,
    /// all accepted bytes in order (what a hasher above must have seen)
    accepted: Vec<u8>,
    early_refusal: Option<String>,
    any_data: bool,
}

fn expectation(ops: &[Vec<u8>], log: &OpLog, has_finish: bool) -> Result<Expect, String> {
    let mut ex = Expect { streams: vec![], open: Some(vec![]), abandoned: false, accepted: vec![], early_refusal: None, any_data: false };
    let mut finished = false;
    let real_ops: Vec<&Vec<u8>> = ops.iter().filter(|o| !o.is_empty() && b"wafr".contains(&o[0])).collect();
    for (i, &(c, plen, n)) in log.results.iter().enumerate() {
        let payload = &real_ops[i][1..];
        match c {
            b'w' | b'a' => {
                if n == usize::MAX {
                    if has_finish && !finished && !(plen == 0) {
                        ex.early_refusal = Some(format!("op {i}: {} of {plen} bytes failed on an open stream", c as char));
                    }
                    break;
                }
                if n > plen {
                    return Err(format!("op {i}: write returned {n} for a buffer of {plen}"));
                }
                if has_finish && !finished && n != plen {
                    ex.early_refusal = Some(format!("op {i}: write accepted {n} of {plen} bytes on an open stream"));
                }
                if has_finish && finished && n != 0 {
                    return Err(format!("op {i}: {n} bytes accepted after the stream was finished"));
                }
                ex.accepted.extend_from_slice(&payload[..n]);
                if n > 0 {
                    ex.any_data = true;
                }
                if let Some(o) = ex.open.as_mut() {
                    o.extend_from_slice(&payload[..n]);
                }
            }
            b'f' => {
                if n == usize::MAX {
                    if has_finish {
                        ex.early_refusal = Some(format!("op {i}: flush failed"));
                    }
                    break;
                }
                if has_finish && !finished {
                    ex.streams.push(ex.open.take().unwrap_or_default());
                    finished = true;
                }
            }
            b'r' => {
                if !finished && ex.open.as_ref().map_or(false, |o| !o.is_empty()) {
                    ex.abandoned = true;
                }
                finished = false;
                ex.open = Some(vec![]);
            }
            _ => {}
        }
    }
    if ex.open.as_ref().map_or(false, |o| o.is_empty()) {
        ex.open = None;
    }
    Ok(ex)
}

fn check_deflate_sink(content: &[u8], ex: &Expect) -> Result<(), (String, String)> {
    if ex.abandoned {
        return Ok(());
    }
    let (streams, tail) = inflate_streams(content);
    if streams.len() != ex.streams.len() {
        return Err(("stream-count".into(), format!("{} complete streams in the output, {} were finished", streams.len(), ex.streams.len())));
    }
    for (i, (got, want)) in streams.iter().zip(&ex.streams).enumerate() {
        if got != want {
            let at = got.iter().zip(want.iter()).position(|(a, b)| a != b).unwrap_or(got.len().min(want.len()));
            return Err((
                "inflate-mismatch".into(),
                format!("stream {i}: inflated {} bytes, written {} bytes, first difference at {at}", got.len(), want.len()),
            ));
        }
    }
    match (&tail, &ex.open) {
        (None, _) => {}
        (Some(part), Some(open)) => {
            if !open.starts_with(part) {
                return Err(("partial-stream-garbage".into(), "the unfinished stream does not inflate to a prefix of what was written".into()));
            }
        }
        (Some(_), None) => return Err(("trailing-garbage".into(), "bytes after the last finished stream".into())),
    }
    // the first stream also through gix's own inflater
    if let Some(first) = ex.streams.first() {
        match gix_inflate_first_stream(content, first.len()) {
            Some(got) if &got == first => {}
            Some(got) => return Err(("gix-inflate-mismatch".into(), format!("gix inflate::read gave {} bytes, expected {}", got.len(), first.len()))),
            None => return Err(("gix-inflate-mismatch".into(), "gix inflate::read failed on the produced stream".into())),
        }
    }
    Ok(())
}

/// the eof position a reader delivering `chunks` shows to read_exact: first empty chunk or the end
fn reader_eof_pos(chunks: &[Vec<u8>]) -> usize {
    let mut pos = 0;
    for c in chunks {
        if c.is_empty() {
            return pos;
        }
        pos += c.len();
    }
    pos
}

fn prop(c: &Case) -> Verdict {
    match f_str(c, 0) {
        b"defl" => {
            let (log, w) = run_defl(c);
            let sink = w.into_inner();
            let ex = match expectation(&c[2.min(c.len())..], &log, true) {
                Ok(e) => e,
                Err(d) => return Verdict::fail("write-count", d),
            };
            if let Some(d) = &ex.early_refusal {
                return Verdict::fail("write-refused", d.clone());
            }
            if sink.zero_calls != 0 {
                return Verdict::fail("empty-inner-write", format!("{} empty writes reached the inner writer", sink.zero_calls));
            }
            if let Err((cls, d)) = check_deflate_sink(&sink.got, &ex) {
                return Verdict::fail(cls, d);
            }
            Verdict::ok(ex.any_data && !ex.streams.is_empty() && !ex.abandoned, if ex.abandoned { "defl-abandoned" } else { "defl" })
        }
        b"hw" => {
            let (log, w) = run_hw(c);
            let ex = match expectation(&c[3.min(c.len())..], &log, false) {
                Ok(e) => e,
                Err(d) => return Verdict::fail("write-count", d),
            };
            if log.stopped {
                // the sink ran full (or refused): the bytes it took are still exactly what was hashed? cannot be observed
                // through the public API after write_all failed part-way; only the sink prefix property is checked
                if !ex.accepted.starts_with(&w.inner.got) && !w.inner.got.starts_with(&ex.accepted) {
                    return Verdict::fail("inner-content", "sink content is not consistent with the writes".to_string());
                }
                return Verdict::ok(false, "hw-stopped");
            }
            let digest = w.hash.digest();
            if w.inner.got != ex.accepted {
                return Verdict::fail("inner-content", format!("inner writer got {} bytes, {} were accepted", w.inner.got.len(), ex.accepted.len()));
            }
            if digest != naive_sha1(&ex.accepted) {
                return Verdict::fail("hash-write-digest", "digest of hash::Write differs from SHA-1 of the accepted bytes".to_string());
            }
            let one = {
                let mut h = gix_features::hash::hasher(gix_hash::Kind::Sha1);
                h.update(&ex.accepted);
                h.digest()
            };
            if digest != one {
                return Verdict::fail("hash-write-digest", "digest of hash::Write differs from the one-shot hasher".to_string());
            }
            Verdict::ok(ex.any_data, "hw")
        }
        b"hd" => {
            let (log, w) = run_hd(c);
            let digest = w.hash.digest();
            let sink = w.inner.into_inner();
            let ex = match expectation(&c[2.min(c.len())..], &log, true) {
                Ok(e) => e,
                Err(d) => return Verdict::fail("write-count", d),
            };
            if let Some(d) = &ex.early_refusal {
                return Verdict::fail("write-refused", d.clone());
            }
            if let Err((cls, d)) = check_deflate_sink(&sink.got, &ex) {
                return Verdict::fail(cls, d);
            }
            if log.stopped {
                return Verdict::ok(false, "hd-stopped");
            }
            if digest != naive_sha1(&ex.accepted) {
                return Verdict::fail("hash-write-digest", "digest differs from SHA-1 of the accepted bytes".to_string());
            }
            // if what was written is a loose object (header + body), all ways of computing its id must agree
            let mut cls = "hd";
            if let Some(nul) = ex.accepted.iter().position(|&b| b == 0) {
                let (head, body) = (&ex.accepted[..nul], &ex.accepted[nul + 1..]);
                if let Some(sp) = head.iter().position(|&b| b == b' ') {
                    if let (Some(kind), Ok(len)) = (kind_of(&head[..sp]), String::from_utf8_lossy(&head[sp + 1..]).parse::<usize>()) {
                        if len == body.len() && header_text(&head[..sp], len as u64) == ex.accepted[..=nul] {
                            cls = "hd-object";
                            let id = gix_object::compute_hash(gix_hash::Kind::Sha1, kind, body);
                            if id.as_bytes() != digest {
                                return Verdict::fail("id-mismatch", "hash-while-writing differs from compute_hash".to_string());
                            }
                            let mut rd = ChunkReader(VecDeque::from(vec![body.to_vec()]));
                            let sid = gix_object::compute_stream_hash(
                                gix_hash::Kind::Sha1, kind, &mut rd, len as u64,
                                &mut gix_features::progress::Discard, &AtomicBool::new(false),
                            );
                            if sid.ok().map(|i| i.as_bytes().to_vec()) != Some(digest.to_vec()) {
                                return Verdict::fail("id-mismatch", "hash-while-writing differs from compute_stream_hash".to_string());
                            }
                        }
                    }
                }
            }
            Verdict::ok(ex.any_data && !ex.streams.is_empty() && !ex.abandoned, cls)
        }
        b"ch" => {
            let Some(kind) = kind_of(f_str(c, 1)) else { return Verdict::ok(false, "bad-kind") };
            let data = f_str(c, 2);
            let id = gix_object::compute_hash(gix_hash::Kind::Sha1, kind, data);
            let mut all = header_text(f_str(c, 1), data.len() as u64);
            all.extend_from_slice(data);
            if id.as_bytes() != naive_sha1(&all) {
                return Verdict::fail("id-mismatch", "compute_hash differs from SHA-1(\"<kind> <len>\\0\" + data)".to_string());
            }
            let mut rd = ChunkReader(VecDeque::from(vec![data.to_vec()]));
            let sid = gix_object::compute_stream_hash(
                gix_hash::Kind::Sha1, kind, &mut rd, data.len() as u64,
                &mut gix_features::progress::Discard, &AtomicBool::new(false),
            );
            if sid.ok() != Some(id) {
                return Verdict::fail("id-mismatch", "compute_stream_hash differs from compute_hash".to_string());
            }
            // a sample of cases also against real git
            if data.len() <= (1 << 20) && adler32(data) % 16 == 0 {
                if let Some(g) = git_hash_object(f_str(c, 1), data) {
                    if g != id.to_hex().to_string() {
                        return Verdict::fail("git-id-mismatch", format!("git hash-object says {g}"));
                    }
                    return Verdict::ok(true, "ch-git");
                }
            }
            Verdict::ok(true, "ch")
        }
        b"cs" => {
            let Some(kind) = kind_of(f_str(c, 1)) else { return Verdict::ok(false, "bad-kind") };
            let chunks = &c[4.min(c.len())..];
            let stream_len = f_u64(c, 2);
            let interrupt = f_str(c, 3) != b"0";
            let eof = reader_eof_pos(chunks) as u64;
            let got = run_cs(c).expect("kind checked");
            let expected: Result<[u8; 20], &str> = if eof < stream_len {
                if interrupt && eof / 65535 >= 1 { Err("Interrupted") } else { Err("UnexpectedEof") }
            } else if interrupt && stream_len > 0 {
                Err("Interrupted")
            } else {
                let all: Vec<u8> = chunks.iter().flatten().copied().collect();
                let body = &all[..stream_len as usize];
                let mut m = header_text(f_str(c, 1), stream_len);
                m.extend_from_slice(body);
                let want = naive_sha1(&m);
                let id = gix_object::compute_hash(gix_hash::Kind::Sha1, kind, body);
                if id.as_bytes() != want {
                    return Verdict::fail("id-mismatch", "compute_hash differs from SHA-1 of header + data".to_string());
                }
                Ok(want)
            };
            match (got, expected) {
                (Ok(id), Ok(want)) => {
                    if id.as_bytes() == want {
                        Verdict::ok(true, "cs")
                    } else {
                        Verdict::fail("id-mismatch", "compute_stream_hash differs from compute_hash of the same bytes".to_string())
                    }
                }
                (Err(e), Err(want)) => {
                    if err_name(&e) == want {
                        Verdict::ok(false, format!("cs-{want}"))
                    } else {
                        Verdict::fail("stream-error", format!("expected {want}, got {}", err_name(&e)))
                    }
                }
                (Ok(_), Err(want)) => Verdict::fail("stream-error", format!("expected error {want}, got an id")),
                (Err(e), Ok(_)) => Verdict::fail("stream-error", format!("expected an id, got {}", err_name(&e))),
            }
        }
        _ => Verdict::ok(false, "unknown-op"),
    }
}

// ---------------------------------------------------------------- generator
fn gen_data(rng: &mut Rng, len: usize) -> Vec<u8> {
    match rng.below(6) {
        0 => rng.bytes(len),                                  // incompressible
        1 => vec![*rng.pick(b"\0a\xff"); len],                // one byte repeated
        2 => rng.word(b"ab \n", len, len),                    // tiny alphabet
        3 => {
            // repeated phrase: long matches
            let pl = 1 + rng.below(300) as usize;
            let p = rng.bytes(pl);
            p.iter().cycle().take(len).copied().collect()
        }
        4 => {
            // alternating compressible / incompressible runs
            let mut v = Vec::with_capacity(len);
            while v.len() < len {
                let run = 1 + rng.below(20000) as usize;
                if rng.chance(1, 2) {
                    v.extend(rng.bytes(run));
                } else {
                    v.extend(std::iter::repeat(b'z').take(run));
                }
            }
            v.truncate(len);
            v
        }
        _ => rng.word(b"0123456789abcdef\n", len, len),
    }
}

const EDGES: &[usize] = &[0, 1, 2, 3, 63, 64, 65, 4095, 4096, 32767, 32768, 32769, 36864, 65534, 65535, 65536, 65537, 85196, 131070, 131071];

fn gen_len(rng: &mut Rng, big_ok: bool) -> usize {
    match rng.below(20) {
        0 => 0,
        1..=5 => rng.below(200) as usize,
        6..=10 => rng.below(6000) as usize,
        11..=13 => (*rng.pick(EDGES) as i64 + rng.range(-2, 2)).max(0) as usize,
        14..=16 => rng.below(70_000) as usize,
        17 | 18 => if big_ok { rng.below(250_000) as usize } else { rng.below(40_000) as usize },
        _ => if big_ok { rng.below(140_000) as usize } else { rng.below(70_000) as usize },
    }
}

/// split `len` into write sizes
fn gen_splits(rng: &mut Rng, len: usize) -> Vec<usize> {
    let mut out = Vec::new();
    let mut left = len;
    let style = rng.below(7);
    let fixed = match style {
        0 => 1 + rng.below(3) as usize,
        1 => *rng.pick(&[32767usize, 32768, 32769, 36864, 65535, 65536, 4096]),
        _ => 0,
    };
    // never more than ~600 writes per case
    let min_piece = len / 600 + 1;
    while left > 0 {
        if rng.chance(1, 12) {
            out.push(0);
        }
        let mut n = match style {
            0 | 1 => fixed.max(if style == 0 { min_piece } else { 1 }),
            2 => left,
            3 => 1 + rng.below(left as u64) as usize,
            4 => (*rng.pick(EDGES)).max(1),
            5 => (1 + rng.below(100) as usize).max(min_piece),
            _ => (1 + rng.below(40_000) as usize).max(min_piece),
        };
        n = n.min(left);
        out.push(n);
        left -= n;
    }
    if rng.chance(1, 6) {
        out.push(0);
    }
    out
}

fn ops_for(rng: &mut Rng, data: &[u8], splits: &[usize], all_write_all: bool) -> Vec<Vec<u8>> {
    let mut ops = Vec::new();
    let mut at = 0;
    for &n in splits {
        let mut op = vec![if all_write_all || rng.chance(1, 2) { b'a' } else { b'w' }];
        op.extend_from_slice(&data[at..at + n]);
        at += n;
        ops.push(op);
    }
    ops
}

fn limit_for(rng: &mut Rng, len: usize) -> usize {
    if rng.chance(2, 3) {
        0
    } else {
        // partial writes of the inner writer; keep the number of inner calls moderate
        (len / 200 + 1) * (1 + rng.below(50) as usize)
    }
}

fn gen_deflate_case(rng: &mut Rng, tagname: &str, len: usize) -> Case {
    let mut c = vec![tag(tagname), num(limit_for(rng, len))];
    let streams = if tagname == "defl" && rng.chance(1, 6) { 2 + rng.below(2) as usize } else { 1 };
    for s in 0..streams {
        if tagname == "defl" && (s > 0 || rng.chance(1, 10)) {
            c.push(tag("r"));
        }
        let l = if s == 0 { len } else { gen_len(rng, false) };
        let data = gen_data(rng, l);
        if tagname == "hd" && rng.chance(4, 5) {
            // a loose object: header, then the body in pieces
            let kind: &[u8] = *rng.pick(&[&b"blob"[..], b"tree", b"commit", b"tag"]);
            let mut h = vec![b'a'];
            h.extend(header_text(kind, l as u64));
            c.push(h);
            let sp = gen_splits(rng, l);
            let wa = rng.chance(1, 2);
            c.extend(ops_for(rng, &data, &sp, wa));
        } else {
            let sp = gen_splits(rng, l);
            c.extend(ops_for(rng, &data, &sp, false));
        }
        c.push(tag("f"));
        // behaviour after the end of the stream: second flush, refused writes
        if rng.chance(1, 5) {
            for _ in 0..1 + rng.below(3) {
                c.push(match rng.below(4) {
                    0 => tag("f"),
                    1 => tag("w"),
                    2 => tag("wx"),
                    _ => tag("a"),
                });
            }
        }
    }
    if rng.chance(1, 25) {
        c.push(tag("ax")); // write_all after the end: WriteZero
    }
    c
}

fn gen_hw_case(rng: &mut Rng, len: usize) -> Case {
    let data = gen_data(rng, len);
    let limit = if rng.chance(1, 3) { 0 } else { (len / 300 + 1) * (1 + rng.below(8) as usize) };
    let room = if rng.chance(1, 6) { num(rng.below(len as u64 + 10)) } else { vec![] };
    let mut c = vec![tag("hw"), num(limit), room];
    let sp = gen_splits(rng, len);
    c.extend(ops_for(rng, &data, &sp, false));
    if rng.chance(1, 2) {
        c.push(tag("f"));
    }
    c
}

fn gen_cs_case(rng: &mut Rng, len: usize) -> Case {
    let data = gen_data(rng, len);
    let kind: &[u8] = *rng.pick(&[&b"blob"[..], b"tree", b"commit", b"tag"]);
    let stream_len = match rng.below(12) {
        0 => len as u64 + 1 + rng.below(5),
        1 => rng.below(len as u64 + 1),
        2 => (len as u64).saturating_sub(1),
        3 => len as u64 + 65535,
        _ => len as u64,
    };
    let mut c = vec![tag("cs"), kind.to_vec(), num(stream_len), num(if rng.chance(1, 15) { 1 } else { 0 })];
    let sp = gen_splits(rng, len);
    let mut at = 0;
    for n in sp {
        if n == 0 && !rng.chance(1, 4) {
            continue; // an empty chunk is an early end-of-file for read_exact: keep some
        }
        c.push(data[at..at + n].to_vec());
        at += n;
    }
    c
}

fn gen(rng: &mut Rng, n: usize) -> Vec<Case> {
    let mut out: Vec<Case> = Vec::new();
    // ---- boundary block
    out.push(vec![tag("defl"), num(0), tag("f")]); // empty stream
    out.push(vec![tag("defl"), num(0)]); // nothing at all
    out.push(vec![tag("defl"), num(0), tag("w"), tag("a"), tag("f"), tag("f"), tag("wx"), tag("ax")]);
    out.push(vec![tag("hd"), num(0), tag("ablob 0\0"), tag("f")]);
    out.push(vec![tag("hw"), num(0), vec![], tag("w"), tag("a"), tag("f")]);
    for k in ["blob", "tree", "commit", "tag"] {
        out.push(vec![tag("ch"), tag(k), vec![]]);
        out.push(vec![tag("ch"), tag(k), tag("hi there\n")]);
        out.push(vec![tag("cs"), tag(k), num(0), num(0)]);
        out.push(vec![tag("cs"), tag(k), num(0), num(1)]);
    }
    for &e in EDGES {
        for d in [0usize, 1] {
            let len = e + d;
            // one write of exactly that size of incompressible data; and the size as the split
            let data = rng.bytes(len);
            let mut op = vec![b'w'];
            op.extend_from_slice(&data);
            out.push(vec![tag("defl"), num(0), op.clone(), tag("f")]);
            if len <= 70_000 {
                let mut c = vec![tag("cs"), tag("blob"), num(len), num(0)];
                c.push(data.clone());
                out.push(c);
                let mut c = vec![tag("cs"), tag("blob"), num(len + 1), num(0)];
                c.push(data.clone());
                out.push(c);
                out.push(vec![tag("hw"), num(0), vec![], op.clone()]);
            }
        }
    }
    // ---- mixture
    let mut i = 0usize;
    while out.len() < n {
        i += 1;
        // rare large cases (MiB range) — deflate only, the model's SHA-1 is slow
        if i % 400 == 200 {
            let len = (1 << 20) + rng.below(3 << 20) as usize;
            out.push(gen_deflate_case(rng, "defl", len));
            continue;
        }
        if i % 1500 == 700 {
            let len = (1 << 19) + rng.below(1 << 20) as usize;
            out.push(gen_deflate_case(rng, "hd", len));
            continue;
        }
        match rng.below(20) {
            0..=8 => {
                let len = gen_len(rng, true);
                out.push(gen_deflate_case(rng, "defl", len));
            }
            9..=11 => {
                let len = gen_len(rng, false);
                out.push(gen_deflate_case(rng, "hd", len));
            }
            12..=14 => {
                let len = gen_len(rng, false);
                out.push(gen_hw_case(rng, len));
            }
            15 | 16 => {
                let len = gen_len(rng, false);
                let kind: &[u8] = *rng.pick(&[&b"blob"[..], b"tree", b"commit", b"tag"]);
                out.push(vec![tag("ch"), kind.to_vec(), gen_data(rng, len)]);
            }
            _ => {
                let len = gen_len(rng, false);
                out.push(gen_cs_case(rng, len));
            }
        }
    }
    out.truncate(n.max(1));
    out
}

fn main() {
    main_with(Harness { gen, imp, prop, git: None, deadline: std::time::Duration::from_secs(120) });
}
