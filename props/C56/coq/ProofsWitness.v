(* C56 — non-vacuity: a compressor that satisfies the contract and the measure (it copies its input,
   at most `cap` bytes per call, so large inputs are consumed in parts; inflate is the identity). *)
From Coq Require Import List NArith Bool Lia ZArith ZifyBool ZifyNat ZifyN.
From GixV.Base Require Import Bytes BytesFacts Outcome.
From GixV.C56 Require Import Model Spec Proofs.
Import ListNotations.
Local Open Scope N_scope.

Definition idc_step (c : bool) (inp : bytes) (cap : N) (fl : flush) : option (bool * (N * bytes * status)) :=
  if c then Some (c, (0, [], match fl with
                             | FFinish => if is_nil inp then SStreamEnd else SBufError
                             | FNone => SBufError end))
  else
    let n := N.min (lenN inp) cap in
    let out := fst (split_at n inp) in
    match fl with
    | FFinish => if n =? lenN inp then Some (true, (n, out, SStreamEnd)) else Some (false, (n, out, SOk))
    | FNone => Some (false, (n, out, if n =? 0 then SBufError else SOk))
    end.
Definition idc_inflate (s : bytes) : option bytes := Some s.
Definition idc_mu (c : bool) : nat := if c then 0%nat else 1%nat.

Lemma idc_out c inp cap fl c' n out st : idc_step c inp cap fl = Some (c', (n, out, st)) ->
  n <= lenN inp /\ n <= cap /\ out = takeN n inp /\ (c = true -> n = 0 /\ c' = true) /\
  (st = SStreamEnd -> c' = true) .
Proof.
  unfold idc_step. destruct c.
  - intros H. injection H as <- <- <- <-. rewrite takeN_0. repeat split; auto; lia.
  - destruct fl.
    + intros H. injection H as <- <- <- <-. rewrite split_at_fst. repeat split; try lia; try discriminate.
      destruct (_ =? 0); discriminate.
    + destruct (_ =? lenN inp) eqn:E; intros H; injection H as <- <- <- <-; rewrite split_at_fst;
        repeat split; try lia; try discriminate; auto.
Qed.

Lemma idc_reach c i o : Reach idc_step false c i o -> i = o.
Proof.
  induction 1 as [|c i o inp cap fl c' n out st HR IH Ec]; [reflexivity|].
  destruct (idc_out _ _ _ _ _ _ _ _ Ec) as (_ & _ & -> & _). subst. reflexivity.
Qed.

Lemma idc_contract : compressor_contract idc_step false idc_inflate.
Proof.
  constructor.
  - intros c inp cap fl c' n out st Ec. destruct (idc_out _ _ _ _ _ _ _ _ Ec) as (Hn & Hc & -> & _).
    split; [exact Hn|]. rewrite lenN_spec. unfold takeN. rewrite firstn_length. lia.
  - intros c i o inp cap fl c' n out HR Ec. destruct (idc_out _ _ _ _ _ _ _ _ Ec) as (_ & _ & -> & _).
    rewrite (idc_reach _ _ _ HR). reflexivity.
  - intros c cap c' n st Hcap Ec. unfold idc_step in Ec. destruct c.
    + cbn [is_nil] in Ec. injection Ec as _ _ <-. reflexivity.
    + change (lenN []) with 0 in Ec. rewrite N.min_0_l in Ec. change (0 =? 0) with true in Ec.
      cbn iota in Ec. injection Ec as _ _ <-. reflexivity.
Qed.

Lemma idc_measure : compressor_measure idc_step idc_mu 2.
Proof.
  constructor.
  - intros c inp cap fl c' n out st Ec. destruct (idc_out _ _ _ _ _ _ _ _ Ec) as (_ & _ & _ & Hc & _).
    destruct c; [destruct (Hc eq_refl) as [-> ->]; cbn; lia|]. destruct c'; cbn; lia.
  - intros c inp cap fl c' n out st Ec Hp. destruct (idc_out _ _ _ _ _ _ _ _ Ec) as (_ & _ & Ho & Hc & _).
    assert (0 < n).
    { destruct Hp as [|Hp]; [auto|]. destruct (N.eq_dec n 0) as [->|]; [|lia]. rewrite takeN_0 in Ho. congruence. }
    destruct c; [destruct (Hc eq_refl); lia|]. destruct c'; cbn; lia.
Qed.
