(* C56 — SHA-1 (FIPS 180-4) as a plain function on byte strings.  Used ONLY to make the model
   executable (Run.v instantiates the [H] parameter of Model.v with it, so that the model prints the
   same digests as gix's hasher).  No theorem depends on it: in Properties.v the hash function is a
   universally quantified parameter. *)
From Coq Require Import List NArith.
From GixV.Base Require Import Bytes.
Import ListNotations.
Local Open Scope N_scope.

Definition mask32 : N := 4294967295.
Definition add32 (a b : N) : N := N.land (a + b) mask32.
Definition rotl (n x : N) : N := N.land (N.lor (N.shiftl x n) (N.shiftr x (32 - n))) mask32.

Definition sha_f (t : N) (b c d : N) : N :=
  if t <? 20 then N.lor (N.land b c) (N.land (N.lxor b mask32) d)
  else if t <? 40 then N.lxor (N.lxor b c) d
  else if t <? 60 then N.lor (N.lor (N.land b c) (N.land b d)) (N.land c d)
  else N.lxor (N.lxor b c) d.
Definition sha_k (t : N) : N :=
  if t <? 20 then 1518500249 else if t <? 40 then 1859775393
  else if t <? 60 then 2400959708 else 3395469782.

(* the message schedule is kept as a 16-word sliding window, newest first *)
Definition next_w (win : list N) : N :=
  rotl 1 (N.lxor (N.lxor (nth 2 win 0) (nth 7 win 0)) (N.lxor (nth 13 win 0) (nth 15 win 0))).

Definition state5 := (N * N * N * N * N)%type.

Definition round (t : N) (w : N) (s : state5) : state5 :=
  let '(a, b, c, d, e) := s in
  let tmp := add32 (add32 (add32 (rotl 5 a) (sha_f t b c d)) (add32 e w)) (sha_k t) in
  (tmp, a, rotl 30 b, c, d).

(* rounds 0..15 consume the block words (given oldest first), building the window *)
Fixpoint rounds_a (ws : list N) (t : N) (win : list N) (s : state5) : list N * state5 :=
  match ws with
  | [] => (win, s)
  | w :: ws' => rounds_a ws' (t + 1) (w :: win) (round t w s)
  end.
Fixpoint rounds_b (n : nat) (t : N) (win : list N) (s : state5) : state5 :=
  match n with
  | O => s
  | S n' => let w := next_w win in
            rounds_b n' (t + 1) (w :: firstn 15 win) (round t w s)
  end.

Fixpoint words_of (l : bytes) : list N :=
  match l with
  | a :: b :: c :: d :: r =>
      (b2N a * 16777216 + b2N b * 65536 + b2N c * 256 + b2N d) :: words_of r
  | _ => []
  end.

Definition compress (h : state5) (blk : bytes) : state5 :=
  let '(win, s) := rounds_a (words_of blk) 0 [] h in
  let '(a, b, c, d, e) := rounds_b 64 16 win s in
  let '(h0, h1, h2, h3, h4) := h in
  (add32 h0 a, add32 h1 b, add32 h2 c, add32 h3 d, add32 h4 e).

Definition h_init : state5 := (1732584193, 4023233417, 2562383102, 271733878, 3285377520).

Definition be_bytes (n : nat) (x : N) : bytes :=   (* n big-endian bytes of x *)
  (fix go (k : nat) (x : N) (acc : bytes) : bytes :=
     match k with O => acc | S k' => go k' (x / 256) (N2b (x mod 256) :: acc) end) n x [].

(* split off up to 64 bytes, tail-recursively *)
Fixpoint take_rev (n : nat) (l acc : bytes) : bytes * bytes :=
  match n, l with
  | S n', x :: r => take_rev n' r (x :: acc)
  | _, _ => (acc, l)
  end.

Definition pad_tail (tail : bytes) (total : N) : bytes :=
  let l := N.of_nat (length tail) in                 (* < 64 *)
  let zeros := if l <? 56 then 55 - l else 119 - l in
  tail ++ Byte.x80 :: repeat Byte.x00 (N.to_nat zeros) ++ be_bytes 8 (total * 8).

Fixpoint blocks (fuel : nat) (h : state5) (l : bytes) : state5 :=
  match fuel with
  | O => h
  | S f => match l with
           | [] => h
           | _ => let '(r, rest) := take_rev 64 l [] in blocks f (compress h (rev' r)) rest
           end
  end.

(* full blocks of the message first, then the padded tail (one or two blocks) *)
Fixpoint main_blocks (fuel : nat) (h : state5) (l : bytes) (total : N) : state5 :=
  match fuel with
  | O => h
  | S f =>
      let '(r, rest) := take_rev 64 l [] in
      if (length r =? 64)%nat then main_blocks f (compress h (rev' r)) rest total
      else blocks 3 h (pad_tail (rev' r) total)
  end.

Fixpoint lenN_acc (l : bytes) (acc : N) : N :=
  match l with [] => acc | _ :: r => lenN_acc r (acc + 1) end.

Definition sha1 (m : bytes) : bytes :=
  let total := lenN_acc m 0 in
  let '(a, b, c, d, e) := main_blocks (S (N.to_nat (total / 64))) h_init m total in
  be_bytes 4 a ++ be_bytes 4 b ++ be_bytes 4 c ++ be_bytes 4 d ++ be_bytes 4 e.

(* FIPS test vectors *)
Example sha1_abc : hex_encode (sha1 (bs "abc")) = bs "a9993e364706816aba3e25717850c26c9cd0d89d".
Proof. vm_compute. reflexivity. Qed.
Example sha1_empty : hex_encode (sha1 []) = bs "da39a3ee5e6b4b0d3255bfef95601890afd80709".
Proof. vm_compute. reflexivity. Qed.
Example sha1_two_blocks :
  hex_encode (sha1 (bs "abcdbcdecdefdefgefghfghighijhijkijkljklmklmnlmnomnopnopq"))
  = bs "84983e441c3bd26ebaae4aa1f95129e5e54670f1".
Proof. vm_compute. reflexivity. Qed.
