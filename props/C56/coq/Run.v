(* C56 — transcript printer: the same observable line the Rust harness prints for a case.
   The model's parameters are instantiated here: compressor := RefComp (NOT zlib — therefore only
   observables that every contract-satisfying compressor shares are printed: return values of the
   calls, and for every complete stream in the sink its inflated length and Adler-32),
   H := SHA-1 (Sha1.v), so digests are compared byte for byte. *)
From Coq Require Import List NArith Bool.
From GixV.Base Require Import Bytes Outcome.
From GixV.C56 Require Import Model RefComp Sha1.
Import ListNotations.
Local Open Scope N_scope.

Definition K_FUEL : nat := 62.     (* 2^62 loop iterations *)

Definition err_name (e : err) : bytes :=
  match e with
  | ECompress => bs "Compress" | EFull => bs "Full" | EWriteZero => bs "WriteZero"
  | EUnexpectedEof => bs "UnexpectedEof" | EInterrupted => bs "Interrupted"
  end.

(* Adler-32 of a byte string, as "len:adler" *)
Fixpoint adler_acc (l : bytes) (a b : N) : N :=
  match l with
  | [] => b * 65536 + a
  | x :: r => let a' := a + b2N x in
              let a' := if 65521 <=? a' then a' - 65521 else a' in
              let b' := b + a' in
              let b' := if 65521 <=? b' then b' - 65521 else b' in
              adler_acc r a' b'
  end.
Definition fingerprint (l : bytes) : bytes :=
  N_to_dec (Model.lenN l) ++ bs ":" ++ N_to_dec (adler_acc l 1 0).

(* ---- generic op interpreter over a writer stack ---- *)
Inductive run_state (T : Type) := Running (t : T) | Stopped | Panicked | Hung.
Arguments Running {T} t. Arguments Stopped {T}. Arguments Panicked {T}. Arguments Hung {T}.

Section Ops.
  Context {T : Type}.
  Variable wr : T -> bytes -> outcome (T * N) err.
  Variable fl : T -> outcome T err.
  Variable rs : T -> T.

  Definition tok (name : bytes) (v : bytes) : bytes := name ++ bs "=" ++ v.

  Fixpoint run_ops (t : T) (ops : list bytes) (acc : list bytes) : run_state T * list bytes :=
    match ops with
    | [] => (Running t, acc)
    | op :: rest =>
      match op with
      | [] => run_ops t rest acc
      | c :: payload =>
        if beqb c Byte.x77 then
          match wr t payload with
          | Ok (t', n) => run_ops t' rest (tok (bs "w") (N_to_dec n) :: acc)
          | Err e => (Stopped, tok (bs "w") (bs "err:" ++ err_name e) :: acc)
          | Panic => (Panicked, acc) | OutOfFuel => (Hung, acc)
          end
        else if beqb c Byte.x61 then
          match write_all wr t payload with
          | Ok t' => run_ops t' rest (tok (bs "a") (bs "ok") :: acc)
          | Err e => (Stopped, tok (bs "a") (bs "err:" ++ err_name e) :: acc)
          | Panic => (Panicked, acc) | OutOfFuel => (Hung, acc)
          end
        else if beqb c Byte.x66 then
          match fl t with
          | Ok t' => run_ops t' rest (tok (bs "f") (bs "ok") :: acc)
          | Err e => (Stopped, tok (bs "f") (bs "err:" ++ err_name e) :: acc)
          | Panic => (Panicked, acc) | OutOfFuel => (Hung, acc)
          end
        else if beqb c Byte.x72 then run_ops (rs t) rest (bs "r" :: acc)
        else run_ops t rest (bs "?" :: acc)
      end
    end.

  Definition show_ops (t : T) (ops : list bytes) (final : T -> bytes) : bytes :=
    match run_ops t ops [] with
    | (Running t', acc) => join_sp (rev' acc) ++ bs " | " ++ final t'
    | (Stopped, acc) => join_sp (rev' acc) ++ bs " | stopped"
    | (Panicked, _) => bs "PANIC"
    | (Hung, _) => bs "HANG"
    end.
End Ops.

(* every complete stream at the front of the sink content, then whether anything is left over *)
Fixpoint show_streams (fuel : nat) (s : bytes) (acc : list bytes) : bytes :=
  match fuel with
  | O => bs "?"
  | S f =>
    match s with
    | [] => bs "streams=" ++ (if is_nil acc then bs "-" else concat (rev' acc)) ++ bs " tail=ok"
    | _ => match rc_inflate_prefix s with
           | Some (p, rest) =>
               show_streams f rest (((if is_nil acc then [] else bs ",") ++ fingerprint p) :: acc)
           | None => bs "streams=" ++ (if is_nil acc then bs "-" else concat (rev' acc)) ++ bs " tail=bad"
           end
    end
  end.
Definition streams_of (s : bytes) : bytes := show_streams (S (length s / 3)) s [].

(* ---- the three writer stacks ---- *)
Definition D := @dwriter rc sink.
Definition d_write : D -> bytes -> outcome (D * N) err := dwrite rc_step sink_write K_FUEL.
Definition d_flush : D -> outcome D err := dflush rc_step sink_write K_FUEL.
Definition d_reset : D -> D := dreset rc_init.
Definition d_final (d : D) : bytes :=
  bs "zero=" ++ N_to_dec (s_zero (d_inner d)) ++ bs " " ++ streams_of (sink_content (d_inner d)).

Definition HS := @hwriter sink.
Definition hs_final (h : HS) : bytes :=
  bs "digest=" ++ hex_encode (hdigest sha1 (h_hash h)) ++ bs " inner=" ++
  fingerprint (sink_content (h_inner h)) ++ bs " zero=" ++ N_to_dec (s_zero (h_inner h)).

Definition HD := @hwriter D.
Definition hd_final (h : HD) : bytes :=
  bs "digest=" ++ hex_encode (hdigest sha1 (h_hash h)) ++ bs " " ++ d_final (h_inner h).

Definition kind_of (b : bytes) : option kind :=
  if bytes_eqb b (bs "tree") then Some KTree else if bytes_eqb b (bs "blob") then Some KBlob
  else if bytes_eqb b (bs "commit") then Some KCommit else if bytes_eqb b (bs "tag") then Some KTag
  else None.

Definition room_of (b : bytes) : option N := if is_nil b then None else dec_to_N b.

(* cases:
     defl <limit> <op>...            deflate::Write<Sink>;   op = 'w'data | 'a'data | 'f' | 'r'
     hw   <limit> <room|-> <op>...   hash::Write<Sink>
     hd   <limit> <op>...            hash::Write<deflate::Write<Sink>>   (the loose object writer's stack)
     ch   <kind> <data>              compute_hash
     cs   <kind> <stream_len> <interrupt> <chunk>...   compute_stream_hash over a chunked reader *)
Definition run_model (fs : list bytes) : bytes :=
  let op := nth_field 0 fs in
  if bytes_eqb op (bs "defl") then
    show_ops d_write d_flush d_reset (dnew rc_init (sink_new (field_N 1 fs) None)) (skipn 2 fs) d_final
  else if bytes_eqb op (bs "hw") then
    show_ops (hwrite sink_write) (hflush sink_flush) (fun h => h)
             (hnew (sink_new (field_N 1 fs) (room_of (nth_field 2 fs)))) (skipn 3 fs) hs_final
  else if bytes_eqb op (bs "hd") then
    show_ops (hwrite d_write) (hflush d_flush) (fun h => h)
             (hnew (dnew rc_init (sink_new (field_N 1 fs) None))) (skipn 2 fs) hd_final
  else if bytes_eqb op (bs "ch") then
    match kind_of (nth_field 1 fs) with
    | Some k => bs "id=" ++ hex_encode (compute_hash sha1 k (nth_field 2 fs))
    | None => bs "?"
    end
  else if bytes_eqb op (bs "cs") then
    match kind_of (nth_field 1 fs) with
    | Some k =>
        match compute_stream_hash sha1 k (skipn 4 fs) (field_N 2 fs)
                (negb (bytes_eqb (nth_field 3 fs) (bs "0"))) with
        | Ok d => bs "ok " ++ hex_encode d
        | Err e => bs "err " ++ err_name e
        | Panic => bs "PANIC"
        | OutOfFuel => bs "HANG"
        end
    | None => bs "?"
    end
  else bs "?".

Definition run (fs : list bytes) : bytes :=
  match fs with
  | _mode :: rest => run_model rest
  | [] => bs "?"
  end.
