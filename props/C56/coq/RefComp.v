(* C56 — a reference compressor used to EXECUTE the model (Run.v) and as the witness that the
   compressor contract of Properties.v is satisfiable (ProofsRef.v proves that it satisfies it).
   It is not zlib: it stores the input in frames  [flag][len_hi][len_lo][payload], flag 1 = last
   frame, at most WIN = 65535 payload bytes per frame.  It behaves like a real streaming
   compressor in the ways the write loop can notice: it buffers input, consumes only part of a large
   input per call, emits at most `cap` bytes per call, keeps pending output between calls, answers
   StreamEnd only after Finish once everything is drained, BufError when it cannot make progress,
   and accepts no input after the end of the stream. *)
From Coq Require Import List NArith Bool.
From GixV.Base Require Import Bytes Outcome.
From GixV.C56 Require Import Model.
Import ListNotations.
Local Open Scope N_scope.

Definition WIN : N := 65535.
Record rc := { pend : bytes; win : bytes (* newest first *); wlen : N; fin : bool }.
Definition rc_init : rc := {| pend := []; win := []; wlen := 0; fin := false |}.

Definition frame (final : bool) (payload_rev : bytes) (len : N) : bytes :=
  (if final then Byte.x01 else Byte.x00) :: N2b (len / 256) :: N2b (len mod 256) :: rev' payload_rev.

Definition rc_step (c : rc) (inp : bytes) (cap : N) (fl : flush)
  : option (rc * (N * bytes * status)) :=
  if fin c && is_nil (pend c) then
    Some (c, (0, [], match fl with
                     | FFinish => if is_nil inp then SStreamEnd else SBufError
                     | FNone => SBufError
                     end))
  else
    let '(o1, pend1) := split_at cap (pend c) in
    if negb (is_nil pend1) then
      Some ({| pend := pend1; win := win c; wlen := wlen c; fin := fin c |}, (0, o1, SOk))
    else if fin c then
      Some ({| pend := []; win := win c; wlen := wlen c; fin := true |}, (0, o1, SStreamEnd))
    else
      let '(a, rest) := split_at (WIN - wlen c) inp in
      let n := lenN a in
      let win1 := rev_append a (win c) in
      let wlen1 := wlen c + n in
      let finish := match fl with FFinish => is_nil rest | FNone => false end in
      let '(newp, win2, wlen2) :=
        if finish then (frame true win1 wlen1, [], 0)
        else if wlen1 =? WIN then (frame false win1 wlen1, [], 0)
        else ([], win1, wlen1) in
      let '(o2, pend2) := split_at (cap - lenN o1) newp in
      let st := if finish && is_nil pend2 then SStreamEnd
                else if (n =? 0) && is_nil o1 && is_nil o2 then SBufError else SOk in
      Some ({| pend := pend2; win := win2; wlen := wlen2; fin := finish |}, (n, o1 ++ o2, st)).

(* decoder: one stream from the front of [s]; returns (payload, rest of s) *)
Fixpoint rc_inflate1 (fuel : nat) (s : bytes) (acc : list bytes) : option (bytes * bytes) :=
  match fuel with
  | O => None
  | S f =>
    match s with
    | fl :: hi :: lo :: r =>
        let len := b2N hi * 256 + b2N lo in
        let '(p, r') := split_at len r in
        if lenN p <? len then None
        else if beqb fl Byte.x01 then Some (concat (rev' (p :: acc)), r')
        else if beqb fl Byte.x00 then rc_inflate1 f r' (p :: acc)
        else None
    | _ => None
    end
  end.
Definition rc_inflate_prefix (s : bytes) : option (bytes * bytes) := rc_inflate1 (length s) s [].
(* a whole stream and nothing else *)
Definition rc_inflate (s : bytes) : option bytes :=
  match rc_inflate_prefix s with
  | Some (p, []) => Some p
  | _ => None
  end.
