(* C56 — specification side: the compressor contract, and whole "sessions" (any list of buffers
   written through a writer stack, then finished) whose results the theorems talk about. *)
From Coq Require Import List NArith Bool.
From GixV.Base Require Import Bytes Outcome.
From GixV.C56 Require Import Model.
Import ListNotations.
Local Open Scope N_scope.

Definition takeN (n : N) (l : bytes) : bytes := firstn (N.to_nat n) l.      (* &l[..n] *)
Definition dropN (n : N) (l : bytes) : bytes := skipn (N.to_nat n) l.       (* &l[n..] *)

(* ---- generic sessions over any writer [wr] ---- *)
Section Sessions.
  Context {T : Type}.
  Variable wr : T -> bytes -> outcome (T * N) err.
  (* every buffer with write_all *)
  Fixpoint write_all_list (t : T) (ws : list bytes) : outcome T err :=
    match ws with
    | [] => Ok t
    | w :: r => match write_all wr t w with
                | Ok t' => write_all_list t' r
                | Err e => Err e | Panic => Panic | OutOfFuel => OutOfFuel
                end
    end.
  (* every buffer with ONE write call; the returned counts are collected *)
  Fixpoint write_list (t : T) (ws : list bytes) : outcome (T * list N) err :=
    match ws with
    | [] => Ok (t, [])
    | w :: r => match wr t w with
                | Ok (t', n) => match write_list t' r with
                                | Ok (t'', ns) => Ok (t'', n :: ns)
                                | Err e => Err e | Panic => Panic | OutOfFuel => OutOfFuel
                                end
                | Err e => Err e | Panic => Panic | OutOfFuel => OutOfFuel
                end
    end.
End Sessions.

(* the bytes a sequence of single write calls accepted: the first n_i bytes of buffer i *)
Fixpoint accepted (ws : list bytes) (ns : list N) : bytes :=
  match ws, ns with
  | w :: r, n :: m => takeN n w ++ accepted r m
  | _, _ => []
  end.

(* ---- the compressor contract ---- *)
Section Contract.
  Context {C : Type}.
  Variable cstep : C -> bytes -> N -> flush -> option (C * (N * bytes * status)).
  Variable cinit : C.
  Variable inflate : bytes -> option bytes.

  (* [Reach c i o]: starting from a fresh compressor, some sequence of compress calls consumed
     exactly the bytes i, produced exactly the bytes o, and left the compressor in state c *)
  Inductive Reach : C -> bytes -> bytes -> Prop :=
  | Reach0 : Reach cinit [] []
  | ReachS c i o inp cap fl c' n out st :
      Reach c i o -> cstep c inp cap fl = Some (c', (n, out, st)) ->
      Reach c' (i ++ takeN n inp) (o ++ out).

  Record compressor_contract : Prop := {
    (* a call consumes at most what it is given and fills at most the output buffer *)
    cc_bounds : forall c inp cap fl c' n out st, cstep c inp cap fl = Some (c', (n, out, st)) ->
                  n <= lenN inp /\ lenN out <= cap;
    (* when a call answers StreamEnd, everything produced so far inflates to everything consumed so far *)
    cc_end : forall c i o inp cap fl c' n out, Reach c i o ->
                  cstep c inp cap fl = Some (c', (n, out, SStreamEnd)) ->
                  inflate (o ++ out) = Some (i ++ takeN n inp);
    (* Finish with no input and room in the output buffer: either output is produced or the stream has ended *)
    cc_finish : forall c cap c' n st, 0 < cap ->
                  cstep c [] cap FFinish = Some (c', (n, [], st)) -> st = SStreamEnd
  }.

  (* termination measure: [mu c] bounds the work left without new input; consuming n bytes adds
     less than K*n to it; a call that makes progress (consumes or produces) decreases mu + K*input *)
  Record compressor_measure (mu : C -> nat) (K : nat) : Prop := {
    cm_le : forall c inp cap fl c' n out st, cstep c inp cap fl = Some (c', (n, out, st)) ->
              (mu c' <= mu c + K * N.to_nat n)%nat;
    cm_lt : forall c inp cap fl c' n out st, cstep c inp cap fl = Some (c', (n, out, st)) ->
              (0 < n \/ out <> []) -> (mu c' < mu c + K * N.to_nat n)%nat
  }.
End Contract.

(* ---- deflate sessions over the recording sink ---- *)
Section DeflateSessions.
  Context {C : Type}.
  Variable cstep : C -> bytes -> N -> flush -> option (C * (N * bytes * status)).
  Variable cinit : C.
  Variable k : nat.
  Definition DW := @dwriter C sink.
  Definition dw : DW -> bytes -> outcome (DW * N) err := dwrite cstep sink_write k.
  Definition df : DW -> outcome DW err := dflush cstep sink_write k.

  (* new; write_all each buffer; flush; into_inner *)
  Definition deflate_session (limit : N) (ws : list bytes) : outcome sink err :=
    match write_all_list dw (dnew cinit (sink_new limit None)) ws with
    | Ok d => omap (fun d' => d_inner d') (df d)
    | Err e => Err e | Panic => Panic | OutOfFuel => OutOfFuel
    end.
  (* new; one write call per buffer; flush; into_inner — with the returned counts *)
  Definition deflate_session_w (limit : N) (ws : list bytes) : outcome (sink * list N) err :=
    match write_list dw (dnew cinit (sink_new limit None)) ws with
    | Ok (d, ns) => omap (fun d' => (d_inner d', ns)) (df d)
    | Err e => Err e | Panic => Panic | OutOfFuel => OutOfFuel
    end.
  (* two streams into the same inner writer: ...; flush; reset; ...; flush *)
  Definition deflate_two_streams (limit : N) (ws1 ws2 : list bytes) : outcome sink err :=
    match write_all_list dw (dnew cinit (sink_new limit None)) ws1 with
    | Ok d => match df d with
              | Ok d1 => match write_all_list dw (dreset cinit d1) ws2 with
                         | Ok d2 => omap (fun d' => d_inner d') (df d2)
                         | Err e => Err e | Panic => Panic | OutOfFuel => OutOfFuel
                         end
              | Err e => Err e | Panic => Panic | OutOfFuel => OutOfFuel
              end
    | Err e => Err e | Panic => Panic | OutOfFuel => OutOfFuel
    end.

  (* the loose-object writer's stack: hash::Write<deflate::Write<sink>>; header, body pieces, flush *)
  Definition HDW := @hwriter DW.
  Definition loose_session (limit : N) (ws : list bytes) : outcome (hasher * sink) err :=
    match write_all_list (hwrite dw) (hnew (dnew cinit (sink_new limit None))) ws with
    | Ok h => omap (fun h' => (h_hash h', d_inner (h_inner h'))) (hflush df h)
    | Err e => Err e | Panic => Panic | OutOfFuel => OutOfFuel
    end.
End DeflateSessions.
