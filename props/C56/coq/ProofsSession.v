(* C56 — session-level lemmas: the statements of Properties.v. *)
From Coq Require Import List NArith Bool Lia ZArith ZifyBool ZifyNat ZifyN.
From GixV.Base Require Import Bytes BytesFacts Outcome.
From GixV.C56 Require Import Model Spec Proofs ProofsDeflate.
Import ListNotations.
Local Open Scope N_scope.

Lemma sink_inv_new limit : sink_inv limit [] (sink_new limit None) [].
Proof. unfold sink_inv, sink_new, sink_content. cbn. auto. Qed.

Lemma DFin_content {C} inflate limit (d : @dwriter C sink) i :
  DFin inflate limit [] d i -> inflate (sink_content (d_inner d)) = Some i /\ s_zero (d_inner d) = 0.
Proof.
  intros (o & Hi & (_ & _ & Hz & Hc)). cbn [app] in Hc. rewrite app_nil_r in Hc. rewrite Hc. auto.
Qed.

Section Sessions.
  Context {C : Type}.
  Variable cstep : C -> bytes -> N -> flush -> option (C * (N * bytes * status)).
  Variable cinit : C.
  Variable inflate : bytes -> option bytes.
  Hypothesis CC : compressor_contract cstep cinit inflate.
  Variable k : nat.

  Lemma L_chunking_irrelevant limit ws s :
    deflate_session cstep cinit k limit ws = Ok s ->
    inflate (sink_content s) = Some (concat ws) /\ s_zero s = 0.
  Proof.
    unfold deflate_session, dw, df, omap, obind. intros H.
    destruct (write_all_list _ _ ws) as [d| | |] eqn:E; try discriminate.
    destruct (dflush _ _ _ d) as [d'| | |] eqn:Ef; try discriminate.
    apply Ok_inj in H. subst s.
    pose proof (DInv_new cstep cinit limit [] _ (sink_inv_new limit)) as H0.
    pose proof (dwrite_all_list_spec cstep cinit inflate CC k limit [] ws _ [] d H0 E) as H1.
    cbn [app] in H1.
    destruct (dflush_spec cstep cinit inflate CC k limit [] d _ d' H1 Ef) as [HF _].
    eapply DFin_content; eauto.
  Qed.

  Lemma L_no_lost_or_duplicated_input limit ws s ns :
    deflate_session_w cstep cinit k limit ws = Ok (s, ns) ->
    Forall2 (fun w n => n <= lenN w) ws ns /\
    inflate (sink_content s) = Some (accepted ws ns).
  Proof.
    unfold deflate_session_w, dw, df, omap, obind. intros H.
    destruct (write_list _ _ ws) as [[d ns']| | |] eqn:E; try discriminate.
    destruct (dflush _ _ _ d) as [d'| | |] eqn:Ef; try discriminate.
    apply Ok_inj in H. injection H as <- <-.
    pose proof (DInv_new cstep cinit limit [] _ (sink_inv_new limit)) as H0.
    destruct (dwrite_list_spec cstep cinit inflate CC k limit [] ws _ [] d ns' H0 E) as [Hall H1].
    cbn [app] in H1.
    destruct (dflush_spec cstep cinit inflate CC k limit [] d _ d' H1 Ef) as [HF _].
    split; [exact Hall|]. eapply DFin_content; eauto.
  Qed.

  Lemma L_two_streams limit ws1 ws2 s :
    deflate_two_streams cstep cinit k limit ws1 ws2 = Ok s ->
    exists o1 o2, sink_content s = o1 ++ o2 /\
                  inflate o1 = Some (concat ws1) /\ inflate o2 = Some (concat ws2).
  Proof.
    unfold deflate_two_streams, dw, df, omap, obind. intros H.
    destruct (write_all_list _ _ ws1) as [d| | |] eqn:E1; try discriminate.
    destruct (dflush _ _ _ d) as [d1| | |] eqn:Ef1; try discriminate.
    destruct (write_all_list _ _ ws2) as [d2| | |] eqn:E2; try discriminate.
    destruct (dflush _ _ _ d2) as [d3| | |] eqn:Ef2; try discriminate.
    apply Ok_inj in H. subst s.
    pose proof (DInv_new cstep cinit limit [] _ (sink_inv_new limit)) as H0.
    pose proof (dwrite_all_list_spec cstep cinit inflate CC k limit [] ws1 _ [] d H0 E1) as H1.
    cbn [app] in H1.
    destruct (dflush_spec cstep cinit inflate CC k limit [] d _ d1 H1 Ef1) as [HF1 _].
    destruct (DFin_reset cstep cinit inflate limit [] d1 _ HF1) as (o1 & Hi1 & HR).
    pose proof (dwrite_all_list_spec cstep cinit inflate CC k limit _ ws2 _ [] d2 HR E2) as H2.
    cbn [app] in H2.
    destruct (dflush_spec cstep cinit inflate CC k limit _ d2 _ d3 H2 Ef2) as [HF2 _].
    destruct HF2 as (o2 & Hi2 & (_ & _ & _ & Hc)). rewrite app_nil_r in Hc. cbn [app] in Hc.
    exists o1, o2. auto.
  Qed.

  (* ---- the loose object writer's stack ---- *)
  Lemma L_loose_session limit ws hs s :
    loose_session cstep cinit k limit ws = Ok (hs, s) ->
    hfed hs = concat ws /\ inflate (sink_content s) = Some (concat ws) /\ s_zero s = 0.
  Proof.
    unfold loose_session, omap, obind. intros H.
    destruct (write_all_list _ _ ws) as [h| | |] eqn:E; try discriminate.
    destruct (hflush _ h) as [h'| | |] eqn:Ef; try discriminate.
    apply Ok_inj in H. injection H as <- <-.
    set (I := fun (h : @hwriter (@dwriter C sink)) (a : bytes) =>
                DInv cstep cinit limit [] (h_inner h) a /\ hfed (h_hash h) = a).
    assert (HI : I h ([] ++ concat ws)).
    { apply (write_all_list_ok (hwrite (dw cstep k)) I) with (w := hnew (dnew cinit (sink_new limit None))); auto.
      - intros w a b w' n [Ha1 Ha2] Hw. destruct (hwrite_spec _ _ _ _ _ Hw) as (Hn & Hf & Hd).
        split; [exact Hn|]. unfold I. split.
        + apply (dwrite_spec cstep cinit inflate CC k limit [] _ _ _ _ _ Ha1 Hd).
        + rewrite <- Ha2. exact Hf.
      - split; [apply DInv_new, sink_inv_new|reflexivity]. }
    cbn [app] in HI. destruct HI as [HD Hfed].
    unfold hflush, omap, obind in Ef.
    destruct (df cstep k (h_inner h)) as [d'| | |] eqn:Ed; try discriminate.
    apply Ok_inj in Ef. subst h'. cbn [h_hash h_inner].
    destruct (dflush_spec cstep cinit inflate CC k limit [] _ _ d' HD Ed) as [HF _].
    split; [exact Hfed|]. eapply DFin_content; eauto.
  Qed.

  (* ---- totality ---- *)
  Variable mu : C -> nat.
  Variable K : nat.
  Hypothesis CM : compressor_measure cstep mu K.

  Lemma dwrite_total limit B d i buf : DInv cstep cinit limit [] d i ->
    (mu cinit + K * B < 2 ^ k)%nat -> (length i + length buf <= B)%nat ->
    dwrite cstep sink_write k d buf <> Panic /\ dwrite cstep sink_write k d buf <> OutOfFuel.
  Proof.
    intros HD Hk HB. split; [eapply dwrite_no_panic; eauto|].
    unfold dwrite, write_inner.
    pose proof (write_inner_iter cstep cinit inflate CC k limit FNone [] d i buf HD
                  (fun e => ltac:(discriminate e))) as HP.
    destruct HD as (o & HR & _).
    pose proof (Reach_mu cstep cinit inflate CC mu K CM _ _ _ HR) as Hmu.
    pose proof (write_inner_fuel cstep cinit inflate CC mu K CM k (d_comp d) (d_inner d) buf FNone) as HF.
    destruct (iter_pow _ k _) as [r|s'].
    - intros ->. exact HP.
    - exfalso. apply HF. nia.
  Qed.

  Lemma dflush_total limit B d i : DInv cstep cinit limit [] d i ->
    (mu cinit + K * B < 2 ^ k)%nat -> (length i <= B)%nat ->
    dflush cstep sink_write k d <> Panic /\ dflush cstep sink_write k d <> OutOfFuel.
  Proof.
    intros HD Hk HB. split; [eapply dflush_no_panic; eauto|].
    unfold dflush, omap, obind, write_inner.
    pose proof (write_inner_iter cstep cinit inflate CC k limit FFinish [] d i [] HD (fun _ => eq_refl)) as HP.
    destruct HD as (o & HR & _).
    pose proof (Reach_mu cstep cinit inflate CC mu K CM _ _ _ HR) as Hmu.
    pose proof (write_inner_fuel cstep cinit inflate CC mu K CM k (d_comp d) (d_inner d) [] FFinish) as HF.
    destruct (iter_pow _ k _) as [r|s'].
    - destruct r as [[d1 n]| | |]; try discriminate. exfalso. exact HP.
    - exfalso. apply HF. cbn [length]. nia.
  Qed.

  Lemma L_session_total limit ws :
    (mu cinit + K * length (concat ws) < 2 ^ k)%nat ->
    deflate_session cstep cinit k limit ws <> Panic /\ deflate_session cstep cinit k limit ws <> OutOfFuel.
  Proof.
    intros Hk. unfold deflate_session, dw, df.
    pose proof (DInv_new cstep cinit limit [] _ (sink_inv_new limit)) as H0.
    destruct (write_all_list_total (dwrite cstep sink_write k) (DInv cstep cinit limit [])
                (fun w a b w' n Ha Hw => dwrite_spec cstep cinit inflate CC k limit [] w a b w' n Ha Hw)
                (length (concat ws))
                (fun w a buf Ha HB => dwrite_total limit (length (concat ws)) w a buf Ha Hk HB)
                ws _ [] H0 ltac:(cbn [length]; lia)) as [Hp Ho].
    destruct (write_all_list _ _ ws) as [d| | |] eqn:E; try congruence; try (split; discriminate).
    pose proof (dwrite_all_list_spec cstep cinit inflate CC k limit [] ws _ [] d H0 E) as H1.
    cbn [app] in H1.
    destruct (dflush_total limit (length (concat ws)) d _ H1 Hk (le_n _)) as [Hp' Ho'].
    unfold omap, obind. destruct (dflush _ _ _ d); try congruence; split; discriminate.
  Qed.
End Sessions.

(* ---------------------------------------------------------------- hashing *)
Lemma L_hash_write_eq_oneshot {W} (wr : W -> bytes -> outcome (W * N) err) (H : bytes -> bytes) w ws h' :
  write_all_list (hwrite wr) (hnew w) ws = Ok h' -> hdigest H (h_hash h') = H (concat ws).
Proof. intros E. unfold hdigest. rewrite (hwrite_all_list_spec wr ws _ _ E). reflexivity. Qed.

Lemma L_hash_write_counts {W} (wr : W -> bytes -> outcome (W * N) err) (H : bytes -> bytes) w ws h' ns :
  write_list (hwrite wr) (hnew w) ws = Ok (h', ns) ->
  Forall2 (fun b n => n <= lenN b) ws ns /\ hdigest H (h_hash h') = H (accepted ws ns).
Proof.
  intros E. destruct (hwrite_list_spec wr ws _ _ _ E) as [Hall Hf]. split; [exact Hall|].
  unfold hdigest. rewrite Hf. reflexivity.
Qed.

Lemma L_hash_write_sink limit room ws h' ns :
  write_list (hwrite sink_write) (hnew (sink_new limit room)) ws = Ok (h', ns) ->
  sink_content (h_inner h') = hfed (h_hash h').
Proof.
  assert (G : forall ws h h' ns, sink_content (h_inner h) = hfed (h_hash h) ->
              write_list (hwrite sink_write) h ws = Ok (h', ns) ->
              sink_content (h_inner h') = hfed (h_hash h')).
  { clear. induction ws as [|w r IH]; intros h h' ns H0 H; cbn [write_list] in H.
    - apply Ok_inj in H. injection H as <- <-. exact H0.
    - destruct (hwrite sink_write h w) as [[h1 n]| | |] eqn:E; try discriminate.
      destruct (write_list _ h1 r) as [[h2 ns']| | |] eqn:E2; try discriminate.
      apply Ok_inj in H. injection H as <- <-.
      destruct (hwrite_sink_consistent _ _ _ _ E) as [Hc Hf].
      eapply IH; [|exact E2]. rewrite Hc, Hf, H0. reflexivity. }
  apply G. reflexivity.
Qed.

Lemma L_hash_write_all_sink limit room ws h' :
  write_all_list (hwrite sink_write) (hnew (sink_new limit room)) ws = Ok h' ->
  sink_content (h_inner h') = concat ws /\ hfed (h_hash h') = concat ws.
Proof.
  intros E.
  set (I := fun (h : @hwriter sink) (a : bytes) => sink_content (h_inner h) = a /\ hfed (h_hash h) = a).
  assert (HI : I h' ([] ++ concat ws)).
  { apply (write_all_list_ok (hwrite sink_write) I) with (w := hnew (sink_new limit room)); auto.
    - intros w a b w' n [Ha1 Ha2] Hw. destruct (hwrite_sink_consistent _ _ _ _ Hw) as [Hc Hf].
      destruct (hwrite_spec _ _ _ _ _ Hw) as (Hn & _ & _).
      split; [exact Hn|]. unfold I. split; [rewrite Hc, Ha1|rewrite Hf, Ha2]; reflexivity.
    - split; reflexivity. }
  exact HI.
Qed.

Lemma lenN_takeN n l : n <= lenN l -> lenN (takeN n l) = n.
Proof. intros H. rewrite lenN_spec, takeN_length by exact H. lia. Qed.

Lemma L_stream_hash_eq_oneshot H k r n d :
  compute_stream_hash H k r n false = Ok d ->
  n <= lenN (concat r) /\ d = compute_hash H k (takeN n (concat r)).
Proof.
  intros E. destruct (compute_stream_hash_spec _ _ _ _ _ E) as [Hn ->]. split; [exact Hn|].
  rewrite compute_hash_spec. rewrite <- lenN_spec, lenN_takeN by exact Hn. reflexivity.
Qed.

Lemma L_stream_hash_interrupted H k r n d :
  compute_stream_hash H k r n true = Ok d -> n = 0.
Proof.
  unfold compute_stream_hash, omap, obind. intros E.
  destruct (bytes_with_hasher _ r n _ true) as [h'| | |] eqn:Eb; try discriminate.
  apply bytes_with_hasher_interrupted in Eb. tauto.
Qed.

(* all three ways of computing an object id agree *)
Lemma L_ids_agree {C} cstep cinit inflate (CC : @compressor_contract C cstep cinit inflate)
  kf limit H k body pieces r hs s d :
  concat pieces = body -> concat r = body ->
  loose_session cstep cinit kf limit (loose_header k (lenN body) :: pieces) = Ok (hs, s) ->
  compute_stream_hash H k r (lenN body) false = Ok d ->
  hdigest H hs = compute_hash H k body /\ d = compute_hash H k body /\
  inflate (sink_content s) = Some (loose_header k (lenN body) ++ body).
Proof.
  intros Hp Hr EL ES.
  destruct (L_loose_session cstep cinit inflate CC kf limit _ _ _ EL) as (Hf & Hi & _).
  cbn [concat] in Hf, Hi. rewrite Hp in Hf, Hi.
  destruct (L_stream_hash_eq_oneshot _ _ _ _ _ ES) as [_ ->]. rewrite Hr.
  rewrite takeN_all by lia. repeat split; auto.
  unfold hdigest. rewrite Hf, compute_hash_spec, <- lenN_spec. reflexivity.
Qed.

Lemma L_compute_hash_git H k data :
  compute_hash H k data =
  H (kind_bytes k ++ [sp] ++ N_to_dec (N.of_nat (length data)) ++ [Byte.x00] ++ data).
Proof.
  rewrite compute_hash_spec. unfold loose_header. rewrite <- !app_assoc. reflexivity.
Qed.
