(* C56 — executable model of
     gix-features/src/zlib/stream/deflate/mod.rs   (deflate::Write: write_inner, write, flush, reset)
     gix-features/src/hash.rs                      (hash::Write, bytes_with_hasher)
     gix-object/src/lib.rs, encode.rs              (compute_hash, compute_stream_hash, loose_header)
     std::io::Write::write_all, std::io::Read::read_exact (default methods, transcribed)
   The compressor (flate2::Compress) and the hash function (SHA-1) are PARAMETERS of the model:
   Run.v instantiates them with a reference compressor (RefComp.v) and SHA-1 (Sha1.v) to execute it,
   Properties.v quantifies over every compressor that satisfies the stated contract and every hash
   function.  No proofs in this file. *)
From Coq Require Import List NArith Bool.
From GixV.Base Require Import Bytes Outcome.
Import ListNotations.
Local Open Scope N_scope.

Inductive flush := FNone | FFinish.                       (* flate2::FlushCompress::{None,Finish} *)
Inductive status := SOk | SBufError | SStreamEnd.         (* flate2::Status *)
Inductive err := ECompress | EFull | EWriteZero | EUnexpectedEof | EInterrupted.

Definition BUF_SIZE : N := 32768.                         (* const BUF_SIZE: usize = 4096 * 8 *)

(* ---- slice helpers (linear, tail recursive) ---- *)
Fixpoint lenN_acc (l : bytes) (acc : N) : N :=
  match l with [] => acc | _ :: r => lenN_acc r (acc + 1) end.
Definition lenN (l : bytes) : N := lenN_acc l 0.

Fixpoint take_rev (n : nat) (l acc : bytes) : bytes * bytes :=
  match n, l with
  | S n', x :: r => take_rev n' r (x :: acc)
  | _, _ => (acc, l)
  end.
(* (&l[..min(n,len)], &l[min(n,len)..]) *)
Definition split_at (n : N) (l : bytes) : bytes * bytes :=
  let '(r, rest) := take_rev (N.to_nat n) l [] in (rev' r, rest).

Definition is_nil {A} (l : list A) : bool := match l with [] => true | _ => false end.

(* ---- a test sink: the innermost writer ----
   Records every write call.  [s_limit] > 0: accepts at most that many bytes per call (partial
   writes); [s_room] = Some r: fails with an error once r bytes were taken ("device full"). *)
Record sink := { s_chunks : list bytes; s_limit : N; s_room : option N; s_zero : N }.
Definition sink_new (limit : N) (room : option N) : sink :=
  {| s_chunks := []; s_limit := limit; s_room := room; s_zero := 0 |}.
Definition sink_content (s : sink) : bytes := concat (rev' (s_chunks s)).

Definition sink_write (s : sink) (buf : bytes) : outcome (sink * N) err :=
  let l := lenN buf in
  let n1 := if s_limit s =? 0 then l else N.min l (s_limit s) in
  let z := if l =? 0 then s_zero s + 1 else s_zero s in
  match s_room s with
  | None =>
      Ok ({| s_chunks := fst (split_at n1 buf) :: s_chunks s; s_limit := s_limit s;
             s_room := None; s_zero := z |}, n1)
  | Some r =>
      if (r =? 0) && (0 <? n1) then Err EFull
      else let n := N.min n1 r in
           Ok ({| s_chunks := fst (split_at n buf) :: s_chunks s; s_limit := s_limit s;
                  s_room := Some (r - n); s_zero := z |}, n)
  end.
Definition sink_flush (s : sink) : outcome sink err := Ok s.

(* ---- std::io::Write::write_all (default method) ----
     while !buf.is_empty() { match self.write(buf) {
         Ok(0) => return Err(WriteZero), Ok(n) => buf = &buf[n..], Err(e) => return Err(e) } }
   ([ErrorKind::Interrupted] is never produced by the writers modelled here.)
   Every iteration drops at least one byte, so [length buf] iterations suffice. *)
Section WriteAll.
  Context {W : Type}.
  Variable wr : W -> bytes -> outcome (W * N) err.
  Fixpoint write_all_fuel (fuel : nat) (w : W) (buf : bytes) : outcome W err :=
    match buf with
    | [] => Ok w
    | _ =>
      match fuel with
      | O => OutOfFuel
      | S f =>
        match wr w buf with
        | Ok (w', n) =>
            if n =? 0 then Err EWriteZero
            else if lenN buf <? n then Panic                      (* &buf[n..] out of range *)
            else write_all_fuel f w' (snd (split_at n buf))
        | Err e => Err e
        | Panic => Panic
        | OutOfFuel => OutOfFuel
        end
      end
    end.
  Definition write_all (w : W) (buf : bytes) : outcome W err :=
    write_all_fuel (length buf) w buf.
End WriteAll.

(* ---- loops without a structural argument: a step function iterated up to 2^k times ---- *)
Inductive step_res (S R : Type) := Done (r : R) | More (s : S).
Arguments Done {S R} r. Arguments More {S R} s.
Fixpoint iter_pow {S R} (step : S -> step_res S R) (k : nat) (s : S) : step_res S R :=
  match k with
  | O => step s
  | Datatypes.S k' => match iter_pow step k' s with
                      | Done r => Done r
                      | More s' => iter_pow step k' s'
                      end
  end.

(* ---- deflate::Write ---- *)
Section Deflate.
  Context {C W : Type}.
  (* one call of Compress::compress(input, &mut out[..cap], flush):
     None = Err(CompressError); Some (state', (consumed, produced, status)) where
     consumed = total_in() difference, produced = the bytes written to the output buffer
     (its length is the total_out() difference). *)
  Variable cstep : C -> bytes -> N -> flush -> option (C * (N * bytes * status)).
  Variable cinit : C.
  Variable wr : W -> bytes -> outcome (W * N) err.        (* the inner writer's write *)

  Record dwriter := { d_comp : C; d_inner : W }.
  Definition dnew (w : W) : dwriter := {| d_comp := cinit; d_inner := w |}.
  Definition dreset (d : dwriter) : dwriter := {| d_comp := cinit; d_inner := d_inner d |}.

  (* fn write_inner(&mut self, mut buf: &[u8], flush) -> io::Result<usize>: one iteration of its
     `loop`.  [wi_acc] = total_in() - total_in_when_start so far. *)
  Record wi_state := { wi_c : C; wi_w : W; wi_buf : bytes; wi_acc : N }.
  Definition wi_step (fl : flush) (s : wi_state) : step_res wi_state (outcome (dwriter * N) err) :=
    match cstep (wi_c s) (wi_buf s) BUF_SIZE fl with
    | None => Done (Err ECompress)
    | Some (c', (consumed, out, st)) =>
      let written := lenN out in
      if BUF_SIZE <? written then Done Panic                        (* &self.buf[..written] *)
      else
        match (if 0 <? written then write_all wr (wi_w s) out else Ok (wi_w s)) with
        | Ok w' =>
          match st with
          | SStreamEnd => Done (Ok ({| d_comp := c'; d_inner := w' |}, wi_acc s + consumed))
          | SOk | SBufError =>
            if lenN (wi_buf s) <? consumed then Done Panic          (* &buf[consumed..] *)
            else
              if (0 <? written) || (0 <? consumed)
              then More {| wi_c := c'; wi_w := w'; wi_buf := snd (split_at consumed (wi_buf s));
                           wi_acc := wi_acc s + consumed |}
              else Done (Ok ({| d_comp := c'; d_inner := w' |}, wi_acc s + consumed))
          end
        | Err e => Done (Err e)
        | Panic => Done Panic
        | OutOfFuel => Done OutOfFuel
        end
    end.
  (* fuel [k] allows 2^k iterations of the loop *)
  Definition write_inner (k : nat) (c : C) (w : W) (buf : bytes) (fl : flush)
    : outcome (dwriter * N) err :=
    match iter_pow (wi_step fl) k {| wi_c := c; wi_w := w; wi_buf := buf; wi_acc := 0 |} with
    | Done r => r
    | More _ => OutOfFuel
    end.

  Variable k : nat.                                        (* Properties prove when 2^k is enough *)
  Definition dwrite (d : dwriter) (buf : bytes) : outcome (dwriter * N) err :=
    write_inner k (d_comp d) (d_inner d) buf FNone.
  Definition dflush (d : dwriter) : outcome dwriter err :=
    omap fst (write_inner k (d_comp d) (d_inner d) [] FFinish).
End Deflate.
Arguments d_comp {C W}. Arguments d_inner {C W}.

(* ---- hash::Write ----
   The hasher is modelled by the list of byte strings passed to [update] (newest first); its digest
   is [H] of their concatenation — that IS the contract of an incremental hash function. *)
Definition hasher := list bytes.
Definition hasher_new : hasher := [].
Definition hupdate (h : hasher) (b : bytes) : hasher := b :: h.
Definition hfed (h : hasher) : bytes := concat (rev' h).
Definition hdigest (H : bytes -> bytes) (h : hasher) : bytes := H (hfed h).

Section HashWrite.
  Context {W : Type}.
  Variable wr : W -> bytes -> outcome (W * N) err.
  Variable wflush : W -> outcome W err.
  Record hwriter := { h_hash : hasher; h_inner : W }.
  Definition hnew (w : W) : hwriter := {| h_hash := hasher_new; h_inner := w |}.
  (* let written = self.inner.write(buf)?; self.hash.update(&buf[..written]); Ok(written) *)
  Definition hwrite (h : hwriter) (buf : bytes) : outcome (hwriter * N) err :=
    match wr (h_inner h) buf with
    | Ok (w', n) =>
        if lenN buf <? n then Panic                                 (* &buf[..written] *)
        else Ok ({| h_hash := hupdate (h_hash h) (fst (split_at n buf)); h_inner := w' |}, n)
    | Err e => Err e
    | Panic => Panic
    | OutOfFuel => OutOfFuel
    end.
  Definition hflush (h : hwriter) : outcome hwriter err :=
    omap (fun w' => {| h_hash := h_hash h; h_inner := w' |}) (wflush (h_inner h)).
End HashWrite.
Arguments h_hash {W}. Arguments h_inner {W}.

(* ---- gix_object::encode::loose_header, compute_hash ---- *)
Inductive kind := KTree | KBlob | KCommit | KTag.
Definition kind_bytes (k : kind) : bytes :=
  match k with KTree => bs "tree" | KBlob => bs "blob" | KCommit => bs "commit" | KTag => bs "tag" end.
Definition loose_header (k : kind) (size : N) : bytes :=
  kind_bytes k ++ [sp] ++ N_to_dec size ++ [Byte.x00].

Definition compute_hash (H : bytes -> bytes) (k : kind) (data : bytes) : bytes :=
  hdigest H (hupdate (hupdate hasher_new (loose_header k (lenN data))) data).

(* ---- a reader: the chunks successive read() calls will deliver (each clipped to the buffer it
   is given; an empty chunk is a read returning 0; after the last chunk every read returns 0) ---- *)
Definition reader := list bytes.
Definition rd_read (r : reader) (cap : N) : reader * bytes :=
  match r with
  | [] => ([], [])
  | c :: r' => let '(a, b) := split_at cap c in ((if is_nil b then r' else b :: r'), a)
  end.

(* std::io::Read::read_exact (default):
     while !buf.is_empty() { match self.read(buf) { Ok(0) => break, Ok(n) => buf = &mut buf[n..], .. } }
     if !buf.is_empty() { Err(UnexpectedEof) } else { Ok(()) }
   [got] collects what was read, newest first. *)
Fixpoint read_exact (fuel : nat) (r : reader) (need : N) (got : list bytes)
  : outcome (reader * list bytes) err :=
  if need =? 0 then Ok (r, got)
  else match fuel with
       | O => OutOfFuel
       | S f => let '(r', a) := rd_read r need in
                let n := lenN a in
                if n =? 0 then Err EUnexpectedEof
                else read_exact f r' (need - n) (a :: got)
       end.

Definition HASH_BUF : N := 65535.                          (* const BUF_SIZE: usize = u16::MAX *)

(* gix_features::hash::bytes_with_hasher (progress reporting has no observable effect) *)
Fixpoint bytes_with_hasher (fuel : nat) (r : reader) (bytes_left : N) (h : hasher) (interrupt : bool)
  : outcome hasher err :=
  if bytes_left =? 0 then Ok h
  else match fuel with
       | O => OutOfFuel
       | S f =>
         let want := N.min HASH_BUF bytes_left in
         match read_exact (S (N.to_nat want)) r want [] with
         | Ok (r', got) =>
             let h' := hupdate h (concat (rev' got)) in
             if interrupt then Err EInterrupted
             else bytes_with_hasher f r' (bytes_left - want) h' interrupt
         | Err e => Err e
         | Panic => Panic
         | OutOfFuel => OutOfFuel
         end
       end.

Definition reader_total (r : reader) : N := fold_left (fun a c => a + lenN c) r 0.

Definition compute_stream_hash (H : bytes -> bytes) (k : kind) (r : reader) (stream_len : N)
  (interrupt : bool) : outcome bytes err :=
  let h := hupdate hasher_new (loose_header k stream_len) in
  omap (hdigest H)
       (bytes_with_hasher (S (N.to_nat (reader_total r))) r stream_len h interrupt).
