(* C56 — lemmas: slice helpers, the sink, write_all, hash::Write, compute_hash / compute_stream_hash. *)
From Coq Require Import List NArith Bool Lia ZArith ZifyBool ZifyNat ZifyN.
From GixV.Base Require Import Bytes BytesFacts Outcome.
From GixV.C56 Require Import Model Spec.
Import ListNotations.
Local Open Scope N_scope.

(* ---------------------------------------------------------------- slice helpers *)
Lemma lenN_acc_spec l : forall acc, lenN_acc l acc = acc + N.of_nat (length l).
Proof. induction l as [|x l IH]; intros acc; cbn [lenN_acc length]; [lia|]. rewrite IH. lia. Qed.
Lemma lenN_spec l : lenN l = N.of_nat (length l).
Proof. unfold lenN. rewrite lenN_acc_spec. lia. Qed.

Lemma rev'_rev {A} (l : list A) : rev' l = rev l.
Proof. unfold rev'. symmetry. apply rev_alt. Qed.

Lemma take_rev_spec n : forall l acc, take_rev n l acc = (rev (firstn n l) ++ acc, skipn n l).
Proof.
  induction n as [|n IH]; intros l acc; [destruct l; reflexivity|].
  destruct l as [|x r]; [reflexivity|]. cbn [take_rev firstn skipn rev]. rewrite IH.
  rewrite <- app_assoc. reflexivity.
Qed.
Lemma split_at_spec n l : split_at n l = (firstn (N.to_nat n) l, skipn (N.to_nat n) l).
Proof. unfold split_at. rewrite take_rev_spec, rev'_rev, app_nil_r, rev_involutive. reflexivity. Qed.

Lemma split_at_fst n l : fst (split_at n l) = takeN n l.
Proof. rewrite split_at_spec. reflexivity. Qed.
Lemma split_at_snd n l : snd (split_at n l) = dropN n l.
Proof. rewrite split_at_spec. reflexivity. Qed.
Lemma take_drop n l : takeN n l ++ dropN n l = l.
Proof. apply firstn_skipn. Qed.
Lemma takeN_all n l : lenN l <= n -> takeN n l = l.
Proof. rewrite lenN_spec. intros H. apply firstn_all2. lia. Qed.
Lemma dropN_length n l : n <= lenN l -> length (dropN n l) = (length l - N.to_nat n)%nat.
Proof. intros _. apply skipn_length. Qed.
Lemma takeN_length n l : n <= lenN l -> length (takeN n l) = N.to_nat n.
Proof. rewrite lenN_spec. intros H. apply firstn_length_le. lia. Qed.
Lemma takeN_0 l : takeN 0 l = [].
Proof. reflexivity. Qed.
Lemma dropN_0 l : dropN 0 l = l.
Proof. reflexivity. Qed.
(* taking a then b more *)
Lemma takeN_add a b l : takeN (a + b) l = takeN a l ++ takeN b (dropN a l).
Proof.
  unfold takeN, dropN. rewrite N2Nat.inj_add.
  rewrite <- (firstn_skipn (N.to_nat a) l) at 1.
  destruct (Nat.le_gt_cases (N.to_nat a) (length l)) as [Hle|Hgt].
  - rewrite firstn_app. rewrite firstn_length_le by exact Hle.
    replace (N.to_nat a + N.to_nat b - N.to_nat a)%nat with (N.to_nat b) by lia.
    rewrite firstn_all2; [reflexivity|]. rewrite firstn_length. lia.
  - rewrite (skipn_all2 l) by lia. rewrite app_nil_r, firstn_nil, app_nil_r.
    rewrite !firstn_all2; try reflexivity; try lia. rewrite firstn_length. lia.
Qed.
Lemma skipn_add {A} a : forall b (l : list A), skipn (a + b) l = skipn b (skipn a l).
Proof.
  induction a as [|a IH]; intros b l; [reflexivity|].
  destruct l; [cbn; rewrite skipn_nil; reflexivity|]. cbn [Nat.add skipn]. apply IH.
Qed.
Lemma dropN_add a b l : dropN (a + b) l = dropN b (dropN a l).
Proof. unfold dropN. rewrite N2Nat.inj_add. apply skipn_add. Qed.

Lemma concat_rev'_cons (c : bytes) (l : list bytes) : concat (rev' (c :: l)) = concat (rev' l) ++ c.
Proof. rewrite !rev'_rev. cbn [rev]. rewrite concat_app. cbn [concat]. rewrite app_nil_r. reflexivity. Qed.

(* ---------------------------------------------------------------- the sink *)
Lemma sink_write_spec s buf s' n :
  sink_write s buf = Ok (s', n) ->
  n <= lenN buf /\ sink_content s' = sink_content s ++ takeN n buf /\
  s_limit s' = s_limit s /\ (s_room s = None -> s_room s' = None) /\
  (s_room s = None -> buf <> [] -> 0 < n) /\
  s_zero s' = (if lenN buf =? 0 then s_zero s + 1 else s_zero s).
Proof.
  unfold sink_write. intros H.
  destruct (s_room s) as [r|] eqn:Er.
  - destruct ((r =? 0) && (0 <? _)) eqn:E; [discriminate|].
    apply Ok_inj in H. injection H as <- <-. unfold sink_content. cbn [s_chunks s_limit s_room s_zero].
    rewrite concat_rev'_cons, split_at_fst. repeat split; try congruence; try discriminate.
    destruct (s_limit s =? 0); lia.
  - apply Ok_inj in H. injection H as <- <-. unfold sink_content. cbn [s_chunks s_limit s_room s_zero].
    rewrite concat_rev'_cons, split_at_fst. repeat split; try congruence.
    + destruct (s_limit s =? 0); lia.
    + intros _ Hne. assert (0 < lenN buf) by (rewrite lenN_spec; destruct buf; [congruence|cbn [length]; lia]).
      destruct (s_limit s =? 0) eqn:El; lia.
Qed.

Lemma sink_write_total s buf : sink_write s buf <> Panic /\ sink_write s buf <> OutOfFuel.
Proof.
  unfold sink_write. destruct (s_room s); [destruct (_ && _)|]; split; discriminate.
Qed.

(* ---------------------------------------------------------------- write_all, generically *)
Lemma write_all_fuel_S {W} (wr : W -> bytes -> outcome (W * N) err) f w buf : buf <> [] ->
  write_all_fuel wr (S f) w buf =
  match wr w buf with
  | Ok (w', n) => if n =? 0 then Err EWriteZero else if lenN buf <? n then Panic
                  else write_all_fuel wr f w' (snd (split_at n buf))
  | Err e => Err e | Panic => Panic | OutOfFuel => OutOfFuel
  end.
Proof. destruct buf; [congruence|reflexivity]. Qed.
Lemma write_all_fuel_nil {W} (wr : W -> bytes -> outcome (W * N) err) f w : write_all_fuel wr f w [] = Ok w.
Proof. destruct f; reflexivity. Qed.
Lemma length_pos_ne (buf : bytes) : buf <> [] -> (0 < length buf)%nat.
Proof. destruct buf; [congruence|cbn; lia]. Qed.
Lemma nil_or_not (buf : bytes) : buf = [] \/ buf <> [].
Proof. destruct buf; [left; reflexivity|right; discriminate]. Qed.

Section WriteAllFacts.
  Context {W : Type}.
  Variable wr : W -> bytes -> outcome (W * N) err.
  (* [I w a]: writer state w has accepted the bytes a so far *)
  Variable I : W -> bytes -> Prop.
  Hypothesis wr_step : forall w a buf w' n, I w a -> wr w buf = Ok (w', n) ->
    n <= lenN buf /\ I w' (a ++ takeN n buf).

  Lemma write_all_fuel_ok fuel : forall w a buf w', (length buf <= fuel)%nat -> I w a ->
    write_all_fuel wr fuel w buf = Ok w' -> I w' (a ++ buf).
  Proof.
    induction fuel as [|f IH]; intros w a buf w' Hf HI H.
    - destruct buf; [|cbn in Hf; lia]. cbn in H. apply Ok_inj in H. subst. rewrite app_nil_r. exact HI.
    - destruct (nil_or_not buf) as [->|Hne].
      { cbn in H. apply Ok_inj in H. subst. rewrite app_nil_r. exact HI. }
      rewrite write_all_fuel_S in H by exact Hne. pose proof (length_pos_ne _ Hne) as Hpos.
      destruct (wr w buf) as [[w1 n]| | |] eqn:Ew; try discriminate.
      destruct (n =? 0) eqn:En; [discriminate|].
      destruct (lenN buf <? n) eqn:El; [discriminate|].
      destruct (wr_step _ _ _ _ _ HI Ew) as [Hn HI1].
      rewrite split_at_snd in H.
      apply (IH w1 (a ++ takeN n buf)) in H.
      + rewrite <- app_assoc, take_drop in H. exact H.
      + rewrite dropN_length by lia. lia.
      + exact HI1.
  Qed.

  Lemma write_all_ok w a buf w' : I w a -> write_all wr w buf = Ok w' -> I w' (a ++ buf).
  Proof. intros HI H. apply (write_all_fuel_ok (length buf) w a buf w'); auto. Qed.

  Lemma write_all_list_ok ws : forall w a w', I w a ->
    write_all_list wr w ws = Ok w' -> I w' (a ++ concat ws).
  Proof.
    induction ws as [|b r IH]; intros w a w' HI H; cbn [write_all_list concat] in *.
    - apply Ok_inj in H. subst. rewrite app_nil_r. exact HI.
    - destruct (write_all wr w b) as [w1| | |] eqn:E; try discriminate.
      rewrite app_assoc. eapply IH; [|exact H]. eapply write_all_ok; eauto.
  Qed.

  (* totality: no Panic, no OutOfFuel, provided the writer itself is total as long as the bytes
     accepted so far plus the bytes offered stay within a budget B *)
  Variable B : nat.
  Hypothesis wr_total : forall w a buf, I w a -> (length a + length buf <= B)%nat ->
    wr w buf <> Panic /\ wr w buf <> OutOfFuel.
  Lemma write_all_fuel_total fuel : forall w a buf, (length buf <= fuel)%nat -> I w a ->
    (length a + length buf <= B)%nat ->
    write_all_fuel wr fuel w buf <> Panic /\ write_all_fuel wr fuel w buf <> OutOfFuel.
  Proof.
    induction fuel as [|f IH]; intros w a buf Hf HI HB.
    - destruct buf; [|cbn in Hf; lia]. cbn. split; discriminate.
    - destruct (nil_or_not buf) as [->|Hne]; [cbn; split; discriminate|].
      rewrite write_all_fuel_S by exact Hne. pose proof (length_pos_ne _ Hne) as Hpos.
      destruct (wr_total w a buf HI HB) as [Hp Ho].
      destruct (wr w buf) as [[w1 n]| | |] eqn:Ew; try (split; discriminate); try congruence.
      destruct (n =? 0) eqn:En; [split; discriminate|].
      destruct (wr_step _ _ _ _ _ HI Ew) as [Hn HI1].
      destruct (lenN buf <? n) eqn:El; [lia|].
      rewrite split_at_snd. apply (IH _ (a ++ takeN n buf)); [|exact HI1|].
      + rewrite dropN_length by lia. lia.
      + rewrite app_length, takeN_length, dropN_length by lia. rewrite lenN_spec in Hn. lia.
  Qed.
  Lemma write_all_total w a buf : I w a -> (length a + length buf <= B)%nat ->
    write_all wr w buf <> Panic /\ write_all wr w buf <> OutOfFuel.
  Proof. intros HI HB. apply (write_all_fuel_total (length buf) w a buf); auto. Qed.

  Lemma write_all_list_total ws : forall w a, I w a -> (length a + length (concat ws) <= B)%nat ->
    write_all_list wr w ws <> Panic /\ write_all_list wr w ws <> OutOfFuel.
  Proof.
    induction ws as [|b r IH]; intros w a HI HB; cbn [write_all_list concat] in *; [split; discriminate|].
    rewrite app_length in HB.
    destruct (write_all_total w a b HI ltac:(lia)) as [Hp Ho].
    destruct (write_all wr w b) as [w1| | |] eqn:E; try congruence; try (split; discriminate).
    apply (IH w1 (a ++ b)); [eapply write_all_ok; eauto|]. rewrite app_length. lia.
  Qed.
End WriteAllFacts.

(* write_all never hands an empty buffer to the writer: stated for the sink's counter *)
Definition sink_inv (limit : N) (pre : bytes) (s : sink) (a : bytes) : Prop :=
  s_room s = None /\ s_limit s = limit /\ s_zero s = 0 /\ sink_content s = pre ++ a.

Lemma write_all_sink fuel : forall s buf, (length buf <= fuel)%nat -> s_room s = None ->
  exists s', write_all_fuel sink_write fuel s buf = Ok s' /\
             sink_content s' = sink_content s ++ buf /\ s_room s' = None /\
             s_limit s' = s_limit s /\ s_zero s' = s_zero s.
Proof.
  induction fuel as [|f IH]; intros s buf Hf Hr.
  - destruct buf; [|cbn in Hf; lia]. exists s. cbn. rewrite app_nil_r. auto.
  - destruct (nil_or_not buf) as [->|Hne]; [exists s; cbn; rewrite app_nil_r; auto|].
    rewrite write_all_fuel_S by exact Hne. pose proof (length_pos_ne _ Hne) as Hlp.
    destruct (sink_write s buf) as [[s1 n]| | |] eqn:Ew.
    + destruct (sink_write_spec _ _ _ _ Ew) as (Hn & Hc & Hl & Hro & Hpos & Hz).
      specialize (Hro Hr). specialize (Hpos Hr Hne).
      replace (n =? 0) with false by lia. replace (lenN buf <? n) with false by lia.
      rewrite split_at_snd.
      destruct (IH s1 (dropN n buf)) as (s' & H1 & H2 & H3 & H4 & H5); [|exact Hro|].
      { rewrite dropN_length by lia. lia. }
      exists s'. split; [exact H1|]. rewrite H2, Hc, <- app_assoc, take_drop, H4, H5, Hl, Hz.
      assert (lenN buf =? 0 = false) as ->.
      { rewrite lenN_spec. lia. }
      auto.
    + unfold sink_write in Ew. rewrite Hr in Ew. discriminate.
    + destruct (sink_write_total s buf); congruence.
    + destruct (sink_write_total s buf); congruence.
Qed.

(* ---------------------------------------------------------------- hash::Write *)
Lemma hfed_update h b : hfed (hupdate h b) = hfed h ++ b.
Proof. unfold hfed, hupdate. apply concat_rev'_cons. Qed.

Section HashWriteFacts.
  Context {W : Type}.
  Variable wr : W -> bytes -> outcome (W * N) err.

  (* one write call: exactly the accepted prefix is hashed, whatever the inner writer does *)
  Lemma hwrite_spec h buf h' n : hwrite wr h buf = Ok (h', n) ->
    n <= lenN buf /\ hfed (h_hash h') = hfed (h_hash h) ++ takeN n buf /\
    wr (h_inner h) buf = Ok (h_inner h', n).
  Proof.
    unfold hwrite. intros H. destruct (wr (h_inner h) buf) as [[w' m]| | |] eqn:Ew; try discriminate.
    destruct (lenN buf <? m) eqn:El; [discriminate|]. apply Ok_inj in H. injection H as <- <-.
    cbn [h_hash h_inner]. rewrite hfed_update, split_at_fst. repeat split; auto. lia.
  Qed.

  Lemma hwrite_all h buf h' : write_all (hwrite wr) h buf = Ok h' ->
    hfed (h_hash h') = hfed (h_hash h) ++ buf.
  Proof.
    intros H.
    apply (write_all_ok (hwrite wr) (fun h a => hfed (h_hash h) = a)) with (w := h) (a := hfed (h_hash h)) (buf := buf);
      auto.
    intros w a b w' n Ha Hw. destruct (hwrite_spec _ _ _ _ Hw) as (Hn & Hf & _).
    split; [exact Hn|]. rewrite Hf, Ha. reflexivity.
  Qed.

  Lemma hflush_spec (wflush : W -> outcome W err) h h' : hflush wflush h = Ok h' -> h_hash h' = h_hash h.
  Proof.
    unfold hflush, omap, obind. destruct (wflush (h_inner h)); try discriminate.
    intros H. apply Ok_inj in H. subst. reflexivity.
  Qed.

  (* a whole session: any list of buffers, each written with write_all *)
  Lemma hwrite_all_list_spec ws : forall h h', write_all_list (hwrite wr) h ws = Ok h' ->
    hfed (h_hash h') = hfed (h_hash h) ++ concat ws.
  Proof.
    induction ws as [|w r IH]; intros h h' H; cbn [write_all_list concat] in *.
    - apply Ok_inj in H. subst. rewrite app_nil_r. reflexivity.
    - destruct (write_all (hwrite wr) h w) as [h1| | |] eqn:E; try discriminate.
      rewrite (IH _ _ H), (hwrite_all _ _ _ E), app_assoc. reflexivity.
  Qed.

  (* single write calls: the returned counts say exactly what was hashed *)
  Lemma hwrite_list_spec ws : forall h h' ns, write_list (hwrite wr) h ws = Ok (h', ns) ->
    Forall2 (fun w n => n <= lenN w) ws ns /\
    hfed (h_hash h') = hfed (h_hash h) ++ accepted ws ns.
  Proof.
    induction ws as [|w r IH]; intros h h' ns H; cbn [write_list] in H.
    - apply Ok_inj in H. injection H as <- <-. cbn [accepted]. rewrite app_nil_r. auto.
    - destruct (hwrite wr h w) as [[h1 n]| | |] eqn:E; try discriminate.
      destruct (write_list (hwrite wr) h1 r) as [[h2 ns']| | |] eqn:E2; try discriminate.
      apply Ok_inj in H. injection H as <- <-.
      destruct (IH _ _ _ E2) as (Hall & Hf).
      destruct (hwrite_spec _ _ _ _ E) as (Hn & Hf1 & _).
      cbn [accepted]. split; [constructor; auto|]. rewrite Hf, Hf1, app_assoc. reflexivity.
  Qed.
End HashWriteFacts.

(* with the recording sink below: the sink received exactly the bytes that were hashed *)
Lemma hwrite_sink_consistent h buf h' n : hwrite sink_write h buf = Ok (h', n) ->
  sink_content (h_inner h') = sink_content (h_inner h) ++ takeN n buf /\
  hfed (h_hash h') = hfed (h_hash h) ++ takeN n buf.
Proof.
  intros H. destruct (hwrite_spec _ _ _ _ _ H) as (Hn & Hf & Hw).
  destruct (sink_write_spec _ _ _ _ Hw) as (_ & Hc & _). auto.
Qed.

(* ---------------------------------------------------------------- compute_hash *)
Lemma compute_hash_spec H k data :
  compute_hash H k data = H (loose_header k (N.of_nat (length data)) ++ data).
Proof.
  unfold compute_hash, hdigest. rewrite !hfed_update, lenN_spec. reflexivity.
Qed.

(* ---------------------------------------------------------------- readers, read_exact *)
Lemma rd_read_spec r cap r' a : rd_read r cap = (r', a) ->
  a = takeN cap (concat r) /\ concat r' = dropN cap (concat r) \/
  (* the head chunk was shorter than cap: a prefix, possibly empty *)
  (exists c rest, r = c :: rest /\ a = c /\ r' = rest /\ lenN c <= cap) \/ (r = [] /\ a = [] /\ r' = []).
Proof.
  unfold rd_read. destruct r as [|c rest]; intros H.
  - injection H as <- <-. right. right. auto.
  - rewrite split_at_spec in H. destruct (skipn (N.to_nat cap) c) as [|y t] eqn:Es; cbn [is_nil] in H.
    + injection H as <- <-. right. left. exists c, rest.
      pose proof (skipn_length (N.to_nat cap) c) as L. rewrite Es in L. cbn [length] in L.
      repeat split; auto.
      * apply firstn_all2. lia.
      * rewrite lenN_spec. lia.
    + injection H as <- <-. left.
      assert (Hlt : (N.to_nat cap < length c)%nat).
      { destruct (Nat.le_gt_cases (length c) (N.to_nat cap)) as [Hle|]; [|auto].
        rewrite skipn_all2 in Es by exact Hle. discriminate. }
      unfold takeN, dropN. cbn [concat]. split.
      * rewrite firstn_app. replace (N.to_nat cap - length c)%nat with 0%nat by lia.
        rewrite firstn_O, app_nil_r. reflexivity.
      * rewrite skipn_app. replace (N.to_nat cap - length c)%nat with 0%nat by lia.
        rewrite <- Es. reflexivity.
Qed.

(* in every case: what was read is a prefix of the stream and the rest of the stream is what remains *)
Lemma rd_read_stream r cap r' a : rd_read r cap = (r', a) ->
  concat r = a ++ concat r' /\ lenN a <= cap.
Proof.
  intros H. destruct (rd_read_spec _ _ _ _ H) as [[-> ->]|[(c & rest & -> & -> & -> & Hl)|(-> & -> & ->)]].
  - split; [symmetry; apply take_drop|]. rewrite lenN_spec. unfold takeN. rewrite firstn_length. lia.
  - cbn [concat]. auto.
  - split; [reflexivity|]. rewrite lenN_spec. cbn [length]. lia.
Qed.

Lemma read_exact_spec fuel : forall r need got r' got', read_exact fuel r need got = Ok (r', got') ->
  exists x, concat (rev' got') = concat (rev' got) ++ x /\ lenN x = need /\ concat r = x ++ concat r'.
Proof.
  induction fuel as [|f IH]; intros r need got r' got' H; cbn [read_exact] in H.
  - destruct (need =? 0) eqn:E; [|discriminate]. apply Ok_inj in H. injection H as <- <-.
    exists []. rewrite app_nil_r. repeat split; auto. rewrite lenN_spec. cbn. lia.
  - destruct (need =? 0) eqn:E.
    { apply Ok_inj in H. injection H as <- <-. exists []. rewrite app_nil_r. repeat split; auto.
      rewrite lenN_spec. cbn. lia. }
    destruct (rd_read r need) as [r1 a] eqn:Er.
    destruct (lenN a =? 0) eqn:Ea; [discriminate|].
    destruct (rd_read_stream _ _ _ _ Er) as [Hc Hl].
    destruct (IH _ _ _ _ _ H) as (x & Hx & Hlx & Hcx).
    exists (a ++ x). rewrite Hx, concat_rev'_cons, <- app_assoc. repeat split; auto.
    + repeat rewrite lenN_spec in *. rewrite app_length. lia.
    + rewrite Hc, Hcx, app_assoc. reflexivity.
Qed.

Lemma bytes_with_hasher_spec fuel : forall r left h h',
  bytes_with_hasher fuel r left h false = Ok h' ->
  exists x, hfed h' = hfed h ++ x /\ lenN x = left /\ x = takeN left (concat r).
Proof.
  induction fuel as [|f IH]; intros r left h h' H; cbn [bytes_with_hasher] in H.
  - destruct (left =? 0) eqn:E; [|discriminate]. apply Ok_inj in H. subst h'.
    exists []. rewrite app_nil_r. assert (left = 0) as -> by lia. repeat split; auto.
  - destruct (left =? 0) eqn:E.
    { apply Ok_inj in H. subst h'. exists []. rewrite app_nil_r. assert (left = 0) as -> by lia.
      repeat split; auto. }
    destruct (read_exact _ r (N.min HASH_BUF left) []) as [[r1 got]| | |] eqn:Er; try discriminate.
    destruct (read_exact_spec _ _ _ _ _ _ Er) as (x & Hx & Hlx & Hcx). cbn in Hx.
    destruct (IH _ _ _ _ H) as (y & Hy & Hly & Hcy).
    exists (x ++ y). rewrite Hy, hfed_update, Hx, <- app_assoc. repeat split; auto.
    + repeat rewrite lenN_spec in *. rewrite app_length. lia.
    + rewrite Hcx. replace left with (N.min HASH_BUF left + (left - N.min HASH_BUF left)) at 1 by lia.
      rewrite takeN_add. f_equal.
      * unfold takeN. rewrite firstn_app. rewrite lenN_spec in Hlx.
        replace (N.to_nat (N.min HASH_BUF left) - length x)%nat with 0%nat by lia.
        rewrite firstn_O, app_nil_r. symmetry. apply firstn_all2. lia.
      * rewrite Hcy. f_equal. unfold dropN. rewrite skipn_app. rewrite lenN_spec in Hlx.
        replace (N.to_nat (N.min HASH_BUF left) - length x)%nat with 0%nat by lia.
        rewrite skipn_all2 by lia. reflexivity.
Qed.

Lemma compute_stream_hash_spec H k r n d :
  compute_stream_hash H k r n false = Ok d ->
  n <= lenN (concat r) /\ d = H (loose_header k n ++ takeN n (concat r)).
Proof.
  unfold compute_stream_hash, omap, obind. intros E.
  destruct (bytes_with_hasher _ r n _ false) as [h'| | |] eqn:Eb; try discriminate.
  apply Ok_inj in E. subst d.
  destruct (bytes_with_hasher_spec _ _ _ _ _ Eb) as (x & Hx & Hlx & ->).
  unfold hdigest. rewrite Hx, hfed_update. cbn [hfed hasher_new rev' rev_append concat app]. split; [|reflexivity].
  rewrite lenN_spec in *. unfold takeN in Hlx. rewrite firstn_length in Hlx. lia.
Qed.

(* with the interrupt flag raised nothing is ever returned for a non-empty stream *)
Lemma bytes_with_hasher_interrupted fuel r left h h' :
  bytes_with_hasher fuel r left h true = Ok h' -> left = 0 /\ h' = h.
Proof.
  destruct fuel; cbn [bytes_with_hasher]; intros H.
  - destruct (left =? 0) eqn:E; [|discriminate]. apply Ok_inj in H. split; [lia|auto].
  - destruct (left =? 0) eqn:E; [apply Ok_inj in H; split; [lia|auto]|].
    destruct (read_exact _ _ _ _) as [[r1 got]| | |]; discriminate.
Qed.

(* never a panic, never out of fuel (fuel = 1 + number of bytes the reader can deliver) *)
Lemma read_exact_total fuel : forall r need got, (N.to_nat need <= fuel)%nat ->
  read_exact fuel r need got <> Panic /\ read_exact fuel r need got <> OutOfFuel.
Proof.
  induction fuel as [|f IH]; intros r need got Hf; cbn [read_exact].
  - replace (need =? 0) with true by lia. split; discriminate.
  - destruct (need =? 0) eqn:E; [split; discriminate|].
    destruct (rd_read r need) as [r1 a] eqn:Er.
    destruct (lenN a =? 0) eqn:Ea; [split; discriminate|].
    apply IH. lia.
Qed.

Lemma reader_total_spec r : reader_total r = lenN (concat r).
Proof.
  unfold reader_total. rewrite lenN_spec.
  assert (G : forall a, fold_left (fun a c => a + lenN c) r a = a + N.of_nat (length (concat r))).
  { induction r as [|c r IH]; intros a; cbn [fold_left concat]; [cbn; lia|].
    rewrite IH, app_length, lenN_spec. lia. }
  rewrite G. lia.
Qed.

Lemma bytes_with_hasher_total fuel : forall r left h i, (length (concat r) < fuel)%nat ->
  bytes_with_hasher fuel r left h i <> Panic /\ bytes_with_hasher fuel r left h i <> OutOfFuel.
Proof.
  induction fuel as [|f IH]; intros r left h i Hf; [lia|]. cbn [bytes_with_hasher].
  destruct (left =? 0) eqn:E; [split; discriminate|].
  destruct (read_exact_total (S (N.to_nat (N.min HASH_BUF left))) r (N.min HASH_BUF left) []) as [Hp Ho]; [lia|].
  destruct (read_exact _ r (N.min HASH_BUF left) []) as [[r1 got]| | |] eqn:Er; try congruence; try (split; discriminate).
  destruct i; [split; discriminate|].
  destruct (read_exact_spec _ _ _ _ _ _ Er) as (x & _ & Hlx & Hcx).
  apply IH. rewrite Hcx, app_length in Hf. rewrite lenN_spec in Hlx. unfold HASH_BUF in *. lia.
Qed.

Lemma compute_stream_hash_total H k r n i :
  compute_stream_hash H k r n i <> Panic /\ compute_stream_hash H k r n i <> OutOfFuel.
Proof.
  unfold compute_stream_hash, omap, obind.
  destruct (bytes_with_hasher_total (S (N.to_nat (reader_total r))) r n
              (hupdate hasher_new (loose_header k n)) i) as [Hp Ho].
  { rewrite reader_total_spec, lenN_spec. lia. }
  destruct (bytes_with_hasher _ _ _ _ _); try congruence; split; discriminate.
Qed.
