(* C56 — Streaming compression and hashing do not depend on chunking.
   Only statements here; every proof is [exact <lemma>].

   Model.v: deflate::Write (write_inner loop, write, flush, reset), std's write_all and read_exact,
   hash::Write, bytes_with_hasher, loose_header, compute_hash, compute_stream_hash.
   The compressor is any [cstep]/[cinit] with an [inflate] satisfying [compressor_contract] (Spec.v):
   a call consumes a prefix of its input and fills at most the output buffer; whenever a call answers
   StreamEnd, all output so far inflates to all input consumed so far; Finish with no input either
   produces output or answers StreamEnd.  The hash function [H] is ANY function on byte strings
   (the hasher's contract — digest = H of the concatenated updates — is built into the model).
   [sink] is a recording inner writer that may accept only [limit] bytes per call.
   [deflate_session]   = new; write_all every buffer; flush; into_inner
   [deflate_session_w] = the same with ONE write call per buffer, returning the counts
   [loose_session]     = hash::Write<deflate::Write<sink>> (gix-odb's loose object writer's stack).
   Fuel [k] allows 2^k iterations of the write_inner loop. *)
From Coq Require Import List NArith.
From GixV.Base Require Import Bytes BytesFacts Outcome.
From GixV.C56 Require Import Model Spec Proofs ProofsDeflate ProofsSession ProofsWitness.
Import ListNotations.
Local Open Scope N_scope.

Section WithCompressor.
  Context {C : Type}.
  Variable cstep : C -> bytes -> N -> flush -> option (C * (N * bytes * status)).
  Variable cinit : C.
  Variable inflate : bytes -> option bytes.
  Hypothesis CC : compressor_contract cstep cinit inflate.
  Variable k : nat.

  (* any split of the input into writes gives an output that inflates to the concatenation; and no
     empty write ever reaches the inner writer *)
  Theorem chunking_irrelevant : forall limit ws s,
    deflate_session cstep cinit k limit ws = Ok s ->
    inflate (sink_content s) = Some (concat ws) /\ s_zero s = 0.
  Proof. exact (L_chunking_irrelevant cstep cinit inflate CC k). Qed.

  (* with single write calls: every call reports a count within its buffer, and the output inflates
     to exactly the reported prefixes, in order — nothing lost, nothing duplicated *)
  Theorem no_lost_or_duplicated_input : forall limit ws s ns,
    deflate_session_w cstep cinit k limit ws = Ok (s, ns) ->
    Forall2 (fun w n => n <= lenN w) ws ns /\
    inflate (sink_content s) = Some (accepted ws ns).
  Proof. exact (L_no_lost_or_duplicated_input cstep cinit inflate CC k). Qed.

  (* flush; reset; ...: two complete streams one after the other in the same inner writer *)
  Theorem reset_starts_a_new_stream : forall limit ws1 ws2 s,
    deflate_two_streams cstep cinit k limit ws1 ws2 = Ok s ->
    exists o1 o2, sink_content s = o1 ++ o2 /\
                  inflate o1 = Some (concat ws1) /\ inflate o2 = Some (concat ws2).
  Proof. exact (L_two_streams cstep cinit inflate CC k). Qed.

  (* hashing while compressing: the hasher saw, and the stream inflates to, the concatenation *)
  Theorem loose_writer_stack : forall limit ws hs s,
    loose_session cstep cinit k limit ws = Ok (hs, s) ->
    hfed hs = concat ws /\ inflate (sink_content s) = Some (concat ws) /\ s_zero s = 0.
  Proof. exact (L_loose_session cstep cinit inflate CC k). Qed.

  (* never a panic (slice indices stay in range), and the loop terminates within 2^k iterations
     when the compressor has a termination measure *)
  Theorem deflate_never_panics_nor_hangs : forall mu K, compressor_measure cstep mu K ->
    forall limit ws, (mu cinit + K * length (concat ws) < 2 ^ k)%nat ->
    deflate_session cstep cinit k limit ws <> Panic /\
    deflate_session cstep cinit k limit ws <> OutOfFuel.
  Proof. exact (L_session_total cstep cinit inflate CC k). Qed.
End WithCompressor.

(* ---- hashing: for every hash function H and EVERY inner writer ---- *)

(* hashing while writing = hashing in one call *)
Theorem hash_write_eq_oneshot : forall W (wr : W -> bytes -> outcome (W * N) err) H w ws h',
  write_all_list (hwrite wr) (hnew w) ws = Ok h' -> hdigest H (h_hash h') = H (concat ws).
Proof. exact (@L_hash_write_eq_oneshot). Qed.

(* single write calls: exactly the accepted prefixes are hashed, even when the inner writer accepts
   only part of a buffer *)
Theorem hash_write_hashes_what_was_accepted : forall W (wr : W -> bytes -> outcome (W * N) err) H w ws h' ns,
  write_list (hwrite wr) (hnew w) ws = Ok (h', ns) ->
  Forall2 (fun b n => n <= lenN b) ws ns /\ hdigest H (h_hash h') = H (accepted ws ns).
Proof. exact (@L_hash_write_counts). Qed.

(* ... and the inner writer received exactly the hashed bytes *)
Theorem hash_write_inner_gets_the_hashed_bytes : forall limit room ws h' ns,
  write_list (hwrite sink_write) (hnew (sink_new limit room)) ws = Ok (h', ns) ->
  sink_content (h_inner h') = hfed (h_hash h').
Proof. exact L_hash_write_sink. Qed.

(* the object id is the hash of "<kind> <decimal length>\0" followed by the data *)
Theorem compute_hash_is_git_object_hash : forall H k data,
  compute_hash H k data =
  H (kind_bytes k ++ [sp] ++ N_to_dec (N.of_nat (length data)) ++ [Byte.x00] ++ data).
Proof. exact L_compute_hash_git. Qed.

(* hashing a stream = hashing in one call, whatever pieces the reader delivers *)
Theorem stream_hash_eq_oneshot : forall H k r n d,
  compute_stream_hash H k r n false = Ok d ->
  n <= lenN (concat r) /\ d = compute_hash H k (takeN n (concat r)).
Proof. exact L_stream_hash_eq_oneshot. Qed.

Theorem stream_hash_never_panics_nor_hangs : forall H k r n i,
  compute_stream_hash H k r n i <> Panic /\ compute_stream_hash H k r n i <> OutOfFuel.
Proof. exact compute_stream_hash_total. Qed.

(* an interrupted run never yields an id for a non-empty stream *)
Theorem stream_hash_interrupted : forall H k r n d,
  compute_stream_hash H k r n true = Ok d -> n = 0.
Proof. exact L_stream_hash_interrupted. Qed.

(* hashing while writing, hashing a stream and hashing in one call: the same id for the same object *)
Theorem ids_agree : forall C cstep cinit inflate, @compressor_contract C cstep cinit inflate ->
  forall kf limit H k body pieces r hs s d,
  concat pieces = body -> concat r = body ->
  loose_session cstep cinit kf limit (loose_header k (lenN body) :: pieces) = Ok (hs, s) ->
  compute_stream_hash H k r (lenN body) false = Ok d ->
  hdigest H hs = compute_hash H k body /\ d = compute_hash H k body /\
  inflate (sink_content s) = Some (loose_header k (lenN body) ++ body).
Proof. exact (@L_ids_agree). Qed.

(* ---- non-vacuity ---- *)
(* the contract and the measure are satisfiable (a copying compressor that takes at most `cap`
   bytes per call, so that big inputs need several loop iterations) *)
Theorem contract_is_satisfiable :
  compressor_contract idc_step false idc_inflate /\ compressor_measure idc_step idc_mu 2.
Proof. exact (conj idc_contract idc_measure). Qed.

Example session_example :
  exists s, deflate_session idc_step false 8 3 [bs "ab"; []; bs "cdefgh"] = Ok s /\
            sink_content s = bs "abcdefgh" /\ s_chunks s = [bs "fgh"; bs "cde"; bs "ab"].
Proof. eexists. split; [vm_compute; reflexivity|split; vm_compute; reflexivity]. Qed.

Example loose_example :
  exists hs s, loose_session idc_step false 8 0 [loose_header KBlob 2; bs "h"; bs "i"] = Ok (hs, s) /\
               hfed hs = bs "blob 2" ++ [Byte.x00] ++ bs "hi".
Proof. eexists. eexists. split; vm_compute; reflexivity. Qed.

Example stream_hash_example :
  compute_stream_hash (fun x => x) KBlob [bs "ab"; bs "c"; bs "tail"] 3 false
  = Ok (bs "blob 3" ++ [Byte.x00] ++ bs "abc").
Proof. vm_compute. reflexivity. Qed.

Example hash_write_partial_example :
  exists h', write_list (hwrite sink_write) (hnew (sink_new 2 None)) [bs "abc"; bs "d"] = Ok (h', [2; 1]) /\
             hfed (h_hash h') = bs "abd".
Proof. eexists. split; vm_compute; reflexivity. Qed.
