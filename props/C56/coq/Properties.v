From GixV.Base Require Import Bytes Outcome.
From GixV.C56 Require Import Model Proofs.
