(* C56 — lemmas about deflate::Write under the compressor contract. *)
From Coq Require Import List NArith Bool Lia ZArith ZifyBool ZifyNat ZifyN.
From GixV.Base Require Import Bytes BytesFacts Outcome.
From GixV.C56 Require Import Model Spec Proofs.
Import ListNotations.
Local Open Scope N_scope.

(* ---------------------------------------------------------------- iter_pow *)
Lemma iter_pow_inv {S R} (step : S -> step_res S R) (Inv : S -> Prop) (Post : R -> Prop) :
  (forall s, Inv s -> match step s with More s' => Inv s' | Done r => Post r end) ->
  forall k s, Inv s -> match iter_pow step k s with More s' => Inv s' | Done r => Post r end.
Proof.
  intros Hstep. induction k as [|k IH]; intros s Hs; cbn [iter_pow]; [apply Hstep; exact Hs|].
  pose proof (IH s Hs) as H1. destruct (iter_pow step k s) as [r|s1]; [exact H1|]. apply IH. exact H1.
Qed.

Lemma iter_pow_measure {S R} (step : S -> step_res S R) (Inv : S -> Prop) (phi : S -> nat) :
  (forall s, Inv s -> match step s with More s' => Inv s' /\ (phi s' < phi s)%nat | Done _ => True end) ->
  forall k s, Inv s ->
    match iter_pow step k s with More s' => Inv s' /\ (phi s' + 2 ^ k <= phi s)%nat | Done _ => True end.
Proof.
  intros Hstep. induction k as [|k IH]; intros s Hs; cbn [iter_pow].
  - pose proof (Hstep s Hs) as H. destruct (step s); [exact I|]. cbn [Nat.pow]. destruct H. split; [auto|lia].
  - pose proof (IH s Hs) as H1. destruct (iter_pow step k s) as [r|s1]; [exact I|].
    destruct H1 as [Hs1 Hm1]. pose proof (IH s1 Hs1) as H2.
    destruct (iter_pow step k s1) as [r|s2]; [exact I|]. destruct H2 as [Hs2 Hm2].
    split; [auto|]. cbn [Nat.pow]. lia.
Qed.

Lemma lenN_pos_ne (l : bytes) : (0 <? lenN l) = false -> l = [].
Proof. rewrite lenN_spec. destruct l; [auto|cbn [length]; lia]. Qed.

Section DeflateFacts.
  Context {C : Type}.
  Variable cstep : C -> bytes -> N -> flush -> option (C * (N * bytes * status)).
  Variable cinit : C.
  Variable inflate : bytes -> option bytes.
  Hypothesis CC : compressor_contract cstep cinit inflate.
  Variable k : nat.
  Variable limit : N.

  Notation Reach := (Reach cstep cinit).
  Notation D := (@dwriter C sink).

  (* [DInv pre d i]: the sink holds [pre] (earlier streams) followed by the output of a compressor
     run that consumed exactly i; no empty write ever reached the sink *)
  Definition DInv (pre : bytes) (d : D) (i : bytes) : Prop :=
    exists o, Reach (d_comp d) i o /\ sink_inv limit (pre ++ o) (d_inner d) [].
  (* ... and the stream is complete *)
  Definition DFin (pre : bytes) (d : D) (i : bytes) : Prop :=
    exists o, inflate o = Some i /\ sink_inv limit (pre ++ o) (d_inner d) [].

  Definition WInv (pre i0 b0 : bytes) (s : @wi_state C sink) : Prop :=
    wi_acc s <= lenN b0 /\ wi_buf s = dropN (wi_acc s) b0 /\
    exists o, Reach (wi_c s) (i0 ++ takeN (wi_acc s) b0) o /\ sink_inv limit (pre ++ o) (wi_w s) [].

  Definition WPost (fl : flush) (pre i0 b0 : bytes) (r : outcome (D * N) err) : Prop :=
    match r with
    | Ok (d, n) => n <= lenN b0 /\ DInv pre d (i0 ++ takeN n b0) /\
                   (fl = FFinish -> b0 = [] -> DFin pre d i0)
    | Err _ => True
    | Panic => False
    | OutOfFuel => False
    end.

  Lemma sink_inv_write_all pre s out : sink_inv limit pre s [] ->
    exists s', write_all sink_write s out = Ok s' /\ sink_inv limit (pre ++ out) s' [].
  Proof.
    unfold sink_inv. rewrite app_nil_r. intros (Hr & Hl & Hz & Hc).
    destruct (write_all_sink (length out) s out (le_n _) Hr) as (s' & H1 & H2 & H3 & H4 & H5).
    exists s'. split; [exact H1|]. rewrite app_nil_r, H2, Hc, H4, H5. auto.
  Qed.

  Lemma wi_step_inv fl pre i0 b0 s : WInv pre i0 b0 s -> (fl = FFinish -> b0 = []) ->
    match wi_step cstep sink_write fl s with
    | More s' => WInv pre i0 b0 s'
    | Done r => WPost fl pre i0 b0 r
    end.
  Proof.
    intros (Hacc & Hbuf & o & HR & HS) Hfl. unfold wi_step.
    destruct (cstep (wi_c s) (wi_buf s) BUF_SIZE fl) as [[c' [[n out] st]]|] eqn:Ec; [|exact I].
    destruct (cc_bounds _ _ _ CC _ _ _ _ _ _ _ _ Ec) as [Hn Hout].
    replace (BUF_SIZE <? lenN out) with false by lia.
    (* the sink after the (possibly skipped) write_all *)
    assert (Hw : exists w', (if 0 <? lenN out then write_all sink_write (wi_w s) out else Ok (wi_w s)) = Ok w'
                            /\ sink_inv limit (pre ++ o ++ out) w' []).
    { destruct (0 <? lenN out) eqn:E0.
      - destruct (sink_inv_write_all _ _ out HS) as (w' & H1 & H2). exists w'. rewrite <- app_assoc in H2. auto.
      - apply lenN_pos_ne in E0. subst out. exists (wi_w s). rewrite app_nil_r. auto. }
    destruct Hw as (w' & -> & HS').
    pose proof (ReachS _ _ _ _ _ _ _ _ _ _ _ _ HR Ec) as HR'.
    (* the input consumed so far, extended by this call *)
    assert (Hin : (i0 ++ takeN (wi_acc s) b0) ++ takeN n (wi_buf s) = i0 ++ takeN (wi_acc s + n) b0).
    { rewrite <- app_assoc, Hbuf, takeN_add. reflexivity. }
    assert (Hlen : lenN (wi_buf s) = lenN b0 - wi_acc s).
    { rewrite Hbuf, !lenN_spec. unfold dropN. rewrite skipn_length. rewrite lenN_spec in Hacc. lia. }
    rewrite Hin in HR'.
    assert (HD : DInv pre {| d_comp := c'; d_inner := w' |} (i0 ++ takeN (wi_acc s + n) b0)).
    { exists (o ++ out). cbn [d_comp d_inner]. split; [exact HR'|exact HS']. }
    destruct st.
    - (* Ok *)
      replace (lenN (wi_buf s) <? n) with false by lia.
      destruct ((0 <? lenN out) || (0 <? n)) eqn:Eprog.
      + unfold WInv. cbn [wi_c wi_w wi_buf wi_acc]. split; [lia|]. split.
        { rewrite split_at_snd, Hbuf, <- dropN_add. reflexivity. }
        exists (o ++ out). split; [exact HR'|exact HS'].
      + cbn [WPost]. split; [lia|]. split; [exact HD|].
        intros -> ->. exfalso.
        assert (out = []) by (apply lenN_pos_ne; lia). subst out.
        assert (Hb : wi_buf s = []) by (rewrite Hbuf; unfold dropN; apply skipn_nil).
        rewrite Hb in Ec.
        assert (SOk = SStreamEnd); [|discriminate].
        eapply (cc_finish _ _ _ CC); [|exact Ec]. unfold BUF_SIZE. lia.
    - (* BufError *)
      replace (lenN (wi_buf s) <? n) with false by lia.
      destruct ((0 <? lenN out) || (0 <? n)) eqn:Eprog.
      + unfold WInv. cbn [wi_c wi_w wi_buf wi_acc]. split; [lia|]. split.
        { rewrite split_at_snd, Hbuf, <- dropN_add. reflexivity. }
        exists (o ++ out). split; [exact HR'|exact HS'].
      + cbn [WPost]. split; [lia|]. split; [exact HD|].
        intros -> ->. exfalso.
        assert (out = []) by (apply lenN_pos_ne; lia). subst out.
        assert (Hb : wi_buf s = []) by (rewrite Hbuf; unfold dropN; apply skipn_nil).
        rewrite Hb in Ec.
        assert (SBufError = SStreamEnd); [|discriminate].
        eapply (cc_finish _ _ _ CC); [|exact Ec]. unfold BUF_SIZE. lia.
    - (* StreamEnd *)
      cbn [WPost]. split; [lia|]. split; [exact HD|].
      intros _ ->.
      pose proof (cc_end _ _ _ CC _ _ _ _ _ _ _ _ _ HR Ec) as Hinf.
      exists (o ++ out). split.
      + rewrite Hinf. f_equal. rewrite Hbuf. unfold takeN, dropN. rewrite skipn_nil, !firstn_nil, !app_nil_r. reflexivity.
      + exact HS'.
  Qed.

  Lemma write_inner_iter fl pre d i buf : DInv pre d i -> (fl = FFinish -> buf = []) ->
    match iter_pow (wi_step cstep sink_write fl) k
            {| wi_c := d_comp d; wi_w := d_inner d; wi_buf := buf; wi_acc := 0 |} with
    | Done r => WPost fl pre i buf r
    | More _ => True
    end.
  Proof.
    intros (o & HR & HS) Hfl.
    pose proof (iter_pow_inv (wi_step cstep sink_write fl) (WInv pre i buf) (WPost fl pre i buf)
                  (fun s Hs => wi_step_inv fl pre i buf s Hs Hfl) k
                  {| wi_c := d_comp d; wi_w := d_inner d; wi_buf := buf; wi_acc := 0 |}) as H.
    match type of H with ?A -> _ => assert (HA : A) end.
    { unfold WInv. cbn [wi_c wi_w wi_buf wi_acc]. split; [lia|]. split; [reflexivity|].
      exists o. rewrite takeN_0, app_nil_r. auto. }
    specialize (H HA). destruct (iter_pow _ k _) as [r|s']; [exact H|exact I].
  Qed.

  (* partial correctness of write / flush *)
  Lemma dwrite_spec pre d i buf d' n : DInv pre d i ->
    dwrite cstep sink_write k d buf = Ok (d', n) -> n <= lenN buf /\ DInv pre d' (i ++ takeN n buf).
  Proof.
    intros HD H. unfold dwrite, write_inner in H.
    pose proof (write_inner_iter FNone pre d i buf HD (fun e => ltac:(discriminate e))) as HP.
    destruct (iter_pow _ k _) as [r|s']; [|discriminate]. subst r. cbn [WPost] in HP. tauto.
  Qed.
  Lemma dwrite_no_panic pre d i buf : DInv pre d i -> dwrite cstep sink_write k d buf <> Panic.
  Proof.
    intros HD H. unfold dwrite, write_inner in H.
    pose proof (write_inner_iter FNone pre d i buf HD (fun e => ltac:(discriminate e))) as HP.
    destruct (iter_pow _ k _) as [r|s']; [|discriminate]. subst r. exact HP.
  Qed.
  Lemma dflush_spec pre d i d' : DInv pre d i ->
    dflush cstep sink_write k d = Ok d' -> DFin pre d' i /\ DInv pre d' i.
  Proof.
    intros HD H. unfold dflush, omap, obind, write_inner in H.
    pose proof (write_inner_iter FFinish pre d i [] HD (fun _ => eq_refl)) as HP.
    destruct (iter_pow _ k _) as [r|s']; [|discriminate].
    destruct r as [[d1 n]| | |]; try discriminate. apply Ok_inj in H. cbn [fst] in H. subst d1.
    cbn [WPost] in HP. destruct HP as (_ & HI & HF). split; [auto|].
    unfold takeN in HI. rewrite firstn_nil, app_nil_r in HI. exact HI.
  Qed.
  Lemma dflush_no_panic pre d i : DInv pre d i -> dflush cstep sink_write k d <> Panic.
  Proof.
    intros HD H. unfold dflush, omap, obind, write_inner in H.
    pose proof (write_inner_iter FFinish pre d i [] HD (fun _ => eq_refl)) as HP.
    destruct (iter_pow _ k _) as [r|s']; [|discriminate].
    destruct r as [[d1 n]| | |]; try discriminate. exact HP.
  Qed.

  Lemma DInv_new pre s : sink_inv limit pre s [] -> DInv pre (dnew cinit s) [].
  Proof. intros HS. exists []. cbn [dnew d_comp d_inner]. rewrite app_nil_r. split; [constructor|exact HS]. Qed.

  (* flush; reset: what the sink holds becomes the prefix of a new stream *)
  Lemma DFin_reset pre d i : DFin pre d i ->
    exists o, inflate o = Some i /\ DInv (pre ++ o) (dreset cinit d) [].
  Proof.
    intros (o & Hi & HS). exists o. split; [exact Hi|]. exists []. cbn [dreset d_comp d_inner].
    rewrite app_nil_r. split; [constructor|exact HS].
  Qed.

  (* ---- sessions ---- *)
  Lemma dwrite_all_spec pre d i buf d' : DInv pre d i ->
    write_all (dwrite cstep sink_write k) d buf = Ok d' -> DInv pre d' (i ++ buf).
  Proof.
    intros HD H.
    apply (write_all_ok (dwrite cstep sink_write k) (DInv pre)) with (w := d) (buf := buf); auto.
    intros w a b w' n Ha Hw. apply (dwrite_spec pre w a b w' n Ha Hw).
  Qed.
  Lemma dwrite_all_list_spec pre ws : forall d i d', DInv pre d i ->
    write_all_list (dwrite cstep sink_write k) d ws = Ok d' -> DInv pre d' (i ++ concat ws).
  Proof.
    induction ws as [|w r IH]; intros d i d' HD H; cbn [write_all_list concat] in *.
    - apply Ok_inj in H. subst. rewrite app_nil_r. exact HD.
    - destruct (write_all _ d w) as [d1| | |] eqn:E; try discriminate.
      rewrite app_assoc. eapply IH; [|exact H]. eapply dwrite_all_spec; eauto.
  Qed.
  Lemma dwrite_list_spec pre ws : forall d i d' ns, DInv pre d i ->
    write_list (dwrite cstep sink_write k) d ws = Ok (d', ns) ->
    Forall2 (fun w n => n <= lenN w) ws ns /\ DInv pre d' (i ++ accepted ws ns).
  Proof.
    induction ws as [|w r IH]; intros d i d' ns HD H; cbn [write_list] in H.
    - apply Ok_inj in H. injection H as <- <-. cbn [accepted]. rewrite app_nil_r. auto.
    - destruct (dwrite _ _ _ d w) as [[d1 n]| | |] eqn:E; try discriminate.
      destruct (write_list _ d1 r) as [[d2 ns']| | |] eqn:E2; try discriminate.
      apply Ok_inj in H. injection H as <- <-.
      destruct (dwrite_spec pre d i w d1 n HD E) as [Hn HD1].
      destruct (IH _ _ _ _ HD1 E2) as [Hall HD2].
      cbn [accepted]. rewrite app_assoc. split; [constructor; auto|exact HD2].
  Qed.
End DeflateFacts.

(* ---------------------------------------------------------------- termination *)
Section DeflateTermination.
  Context {C : Type}.
  Variable cstep : C -> bytes -> N -> flush -> option (C * (N * bytes * status)).
  Variable cinit : C.
  Variable inflate : bytes -> option bytes.
  Hypothesis CC : compressor_contract cstep cinit inflate.
  Variable mu : C -> nat.
  Variable K : nat.
  Hypothesis CM : compressor_measure cstep mu K.

  Definition phi (s : @wi_state C sink) : nat := (mu (wi_c s) + K * length (wi_buf s))%nat.

  Lemma wi_step_measure fl s :
    match wi_step cstep sink_write fl s with
    | More s' => True /\ (phi s' < phi s)%nat
    | Done _ => True
    end.
  Proof.
    unfold wi_step.
    destruct (cstep (wi_c s) (wi_buf s) BUF_SIZE fl) as [[c' [[n out] st]]|] eqn:Ec; [|exact I].
    destruct (cc_bounds _ _ _ CC _ _ _ _ _ _ _ _ Ec) as [Hn Hout].
    destruct (BUF_SIZE <? lenN out); [exact I|].
    destruct (if 0 <? lenN out then _ else _) as [w'| | |]; try exact I.
    assert (G : (0 <? lenN out) || (0 <? n) = true ->
                (mu c' + K * length (dropN n (wi_buf s)) < mu (wi_c s) + K * length (wi_buf s))%nat).
    { intros Hp. assert (Hprog : 0 < n \/ out <> []).
      { destruct (0 <? n) eqn:E; [left; lia|right]. rewrite orb_false_r in Hp. intros ->. cbn in Hp. discriminate. }
      pose proof (cm_lt _ _ _ CM _ _ _ _ _ _ _ _ Ec Hprog) as Hlt.
      rewrite dropN_length by exact Hn. rewrite lenN_spec in Hn. nia. }
    destruct st; try exact I.
    - destruct (lenN (wi_buf s) <? n); [exact I|].
      destruct ((0 <? lenN out) || (0 <? n)) eqn:Ep; [|exact I].
      split; [exact I|]. unfold phi. cbn [wi_c wi_buf]. rewrite split_at_snd. apply G. reflexivity.
    - destruct (lenN (wi_buf s) <? n); [exact I|].
      destruct ((0 <? lenN out) || (0 <? n)) eqn:Ep; [|exact I].
      split; [exact I|]. unfold phi. cbn [wi_c wi_buf]. rewrite split_at_snd. apply G. reflexivity.
  Qed.

  Lemma write_inner_fuel k c (w : sink) buf fl : (mu c + K * length buf < 2 ^ k)%nat ->
    match iter_pow (wi_step cstep sink_write fl) k {| wi_c := c; wi_w := w; wi_buf := buf; wi_acc := 0 |} with
    | More _ => False
    | Done _ => True
    end.
  Proof.
    intros Hk.
    pose proof (iter_pow_measure (wi_step cstep sink_write fl) (fun _ => True) phi
                  (fun s _ => wi_step_measure fl s) k
                  {| wi_c := c; wi_w := w; wi_buf := buf; wi_acc := 0 |} I) as H.
    destruct (iter_pow _ k _) as [r|s']; [exact I|]. destruct H as [_ H].
    unfold phi in H at 2. cbn [wi_c wi_buf] in H. lia.
  Qed.

  (* mu stays below its initial value plus K per consumed byte *)
  Lemma Reach_mu c i o : Reach cstep cinit c i o -> (mu c <= mu cinit + K * length i)%nat.
  Proof.
    induction 1 as [|c i o inp cap fl c' n out st HR IH Ec]; [lia|].
    pose proof (cm_le _ _ _ CM _ _ _ _ _ _ _ _ Ec) as Hle.
    destruct (cc_bounds _ _ _ CC _ _ _ _ _ _ _ _ Ec) as [Hn _].
    rewrite app_length. unfold takeN. rewrite firstn_length_le by (rewrite lenN_spec in Hn; lia). nia.
  Qed.
End DeflateTermination.
