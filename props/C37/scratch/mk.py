#!/usr/bin/env python3
"""mk.py icase  where=content ...  -- fpath dpath ...   (python escapes in content)"""
import sys
def hx(b): return b.hex() if b else "-"
a=sys.argv[1:]
icase=a[0]; a=a[1:]
i=a.index("--")
files=a[:i]; qs=a[i+1:]
out=[hx(b"ig"),hx(icase.encode()),hx(str(len(files)).encode())]
for f in files:
    w,c=f.split("=",1)
    out+= [hx(w.encode()), hx(c.encode().decode("unicode_escape").encode("latin1"))]
for q in qs: out.append(hx(q.encode().decode("unicode_escape").encode("latin1")))
print(" ".join(out))
