(* C37 — copy of props/C36/coq/ProofsBytes.v: facts about single bytes, each an exhaustive computation over the 256 bytes. *)
From Coq Require Import Lia.
From GixV.Base Require Import Bytes BytesFacts.
From GixV.C37 Require Import Wild GitWild.

Lemma beqb_sym a b : beqb a b = beqb b a.
Proof.
  destruct (beqb a b) eqn:E1, (beqb b a) eqn:E2; try reflexivity.
  - apply beqb_eq in E1. subst. assert (beqb b b = true) by now apply beqb_eq. congruence.
  - apply beqb_eq in E2. subst. assert (beqb a a = true) by now apply beqb_eq. congruence.
Qed.

Lemma beqb_refl a : beqb a a = true.
Proof. now apply beqb_eq. Qed.

Lemma beqb_neq a b : a <> b -> beqb a b = false.
Proof. intros H. destruct (beqb a b) eqn:E; [apply beqb_eq in E; contradiction | reflexivity]. Qed.

Ltac by_bytes := intros; match goal with |- ?l = ?r => idtac end.

(* possibly_lowercase is git's fold *)
Lemma lc_fold : forall cf c, lc cf c = fold cf c.
Proof.
  intros [] c; [|reflexivity].
  apply beqb_eq. revert c. apply forall_bytes. vm_compute. reflexivity.
Qed.

Lemma glob_char_spec : forall c, glob_char c = g_is_glob_special c.
Proof.
  intros c. apply Bool.eqb_prop. revert c. apply forall_bytes. vm_compute. reflexivity.
Qed.

(* lower-casing never produces or removes one of the bytes the matcher looks for *)
Definition special (x : byte) : bool :=
  beqb x cSTAR || beqb x cBSL || beqb x cSLASH || beqb x cLBR || beqb x cRBR || beqb x cCOLON ||
  beqb x cBANG || beqb x cCARET || beqb x cDASH || beqb x cQM || beqb x x00.

Lemma lc_special : forall cf c x, special x = true -> beqb (lc cf c) x = beqb c x.
Proof.
  intros [] c x H; [|reflexivity].
  apply Bool.eqb_prop. revert H. revert c x.
  assert (forall c x, (negb (special x) || Bool.eqb (beqb (lc true c) x) (beqb c x)) = true) as A.
  { apply forall_bytes2. vm_compute. reflexivity. }
  intros c x H. specialize (A c x). rewrite H in A. exact A.
Qed.

Lemma fold_special : forall cf c x, special x = true -> beqb (fold cf c) x = beqb c x.
Proof. intros. rewrite <- lc_fold. now apply lc_special. Qed.

Lemma fold_slash cf : fold cf cSLASH = cSLASH.
Proof. destruct cf; reflexivity. Qed.

(* ---- the ctype predicates of the two sides agree on every byte ---- *)
Lemma class_bytes_agree : forall t,
  is_alnum t = g_isalnum t /\ is_alpha t = g_isalpha t /\ (beqb t x20 || beqb t x09) = g_isblank t /\
  is_control t = g_iscntrl t /\ is_digit_b t = g_isdigit t /\ is_graphic t = g_isgraph t /\
  is_lower t = g_islower t /\ in_range 32 126 t = g_isprint t /\ is_punct t = g_ispunct t /\
  (beqb t x20 || beqb t x09 || beqb t x0a || beqb t x0d) = g_isspace t /\
  is_upper t = g_isupper t /\ is_hexdigit t = g_isxdigit t.
Proof.
  intros t.
  assert (forall t,
    (Bool.eqb (is_alnum t) (g_isalnum t) && Bool.eqb (is_alpha t) (g_isalpha t) &&
     Bool.eqb (beqb t x20 || beqb t x09) (g_isblank t) && Bool.eqb (is_control t) (g_iscntrl t) &&
     Bool.eqb (is_digit_b t) (g_isdigit t) && Bool.eqb (is_graphic t) (g_isgraph t) &&
     Bool.eqb (is_lower t) (g_islower t) && Bool.eqb (in_range 32 126 t) (g_isprint t) &&
     Bool.eqb (is_punct t) (g_ispunct t) &&
     Bool.eqb (beqb t x20 || beqb t x09 || beqb t x0a || beqb t x0d) (g_isspace t) &&
     Bool.eqb (is_upper t) (g_isupper t) && Bool.eqb (is_hexdigit t) (g_isxdigit t)) = true) as A.
  { apply forall_bytes. vm_compute. reflexivity. }
  specialize (A t).
  repeat (apply Bool.andb_true_iff in A; destruct A as [A ?]).
  repeat split; now apply Bool.eqb_prop.
Qed.

Lemma class_agree : forall cf name t, m_class cf name t = g_class cf name t.
Proof.
  intros cf name t. unfold m_class, g_class.
  destruct (class_bytes_agree t) as (H1 & H2 & H3 & H4 & H5 & H6 & H7 & H8 & H9 & H10 & H11 & H12).
  rewrite H10, H1, H2, H3, H4, H5, H6, H7, H8, H9, H11, H12. reflexivity.
Qed.

(* without case folding the range tests agree *)
Lemma range_agree_nofold : forall t prev hi, m_range false t prev hi = g_range false t prev hi.
Proof. reflexivity. Qed.
