(* C37 — line level facts: trailing spaces, line splitting, last match wins. *)
From Coq Require Import List Bool Lia.
Import ListNotations.
From GixV.Base Require Import Bytes.
From GixV.C37 Require Import Wild Model Spec.

(* ---- truncate_non_escaped_trailing_spaces is git's trim_trailing_spaces ---------------------- *)
Lemma scan_eq : forall n l pos ls, length l <= n -> trunc_scan l pos ls = g_trim_scan l pos ls.
Proof.
  induction n as [|n IH]; intros l pos ls Hn.
  - destruct l; [reflexivity|cbn [length] in Hn; lia].
  - destruct l as [|c r]; [reflexivity|]. cbn [length] in Hn. cbn [trunc_scan g_trim_scan].
    destruct (beqb c cSP).
    + destruct ls; apply IH; lia.
    + destruct (beqb c cBSL).
      * destruct r as [|e r']; [reflexivity|]. cbn [length] in Hn. apply IH. lia.
      * apply IH. lia.
Qed.

Lemma truncate_is_git l : truncate_trailing_spaces l = g_trim_trailing_spaces l.
Proof. unfold truncate_trailing_spaces, g_trim_trailing_spaces. rewrite (scan_eq (length l)); [reflexivity|lia]. Qed.

(* ---- lines: bstr's lines_with_terminator on the buffer = git's scan of buffer + LF ------------ *)
Fixpoint last_piece_empty (acc l : bytes) : bool :=
  match l with
  | [] => match acc with [] => true | _ => false end
  | c :: r => if beqb c cLF then last_piece_empty [] r else last_piece_empty (c :: acc) r
  end.

Lemma split_lf : forall l acc,
  g_split acc (l ++ [cLF]) = split_lines acc l ++ (if last_piece_empty acc l then [[]] else []).
Proof.
  induction l as [|c r IH]; intros acc.
  - cbn [app g_split split_lines last_piece_empty]. change (beqb cLF cLF) with true. cbn iota.
    destruct acc; reflexivity.
  - cbn [app g_split split_lines last_piece_empty]. destruct (beqb c cLF).
    + rewrite IH. reflexivity.
    + apply IH.
Qed.

Lemma skip_bom_app l : skip_bom (l ++ [cLF]) = skip_bom l ++ [cLF].
Proof.
  destruct l as [|a [|b [|c r]]]; try reflexivity.
  - cbn [app skip_bom]. change (beqb cLF xbf) with false. rewrite andb_false_r. reflexivity.
  - cbn [app skip_bom]. destruct (beqb a xef && beqb b xbb && beqb c xbf); reflexivity.
Qed.

Lemma lines_are_gits content :
  exists tail, (tail = [] \/ tail = [[]]) /\
    g_split [] (skip_bom (content ++ [cLF])) = split_lines [] (skip_bom content) ++ tail.
Proof.
  rewrite skip_bom_app, split_lf.
  destruct (last_piece_empty [] (skip_bom content)); eexists; split; try reflexivity; auto.
Qed.

(* a trailing empty segment adds no pattern *)
Lemma g_entries_tail : forall segs n, g_entries n (segs ++ [[]]) = g_entries n segs.
Proof.
  induction segs as [|s r IH]; intros n; cbn [app g_entries]; [reflexivity|].
  destruct s as [|f s']; [apply IH|]. destruct (beqb f cHASH); [apply IH|]. rewrite IH. reflexivity.
Qed.

Lemma g_parse_file_lines content :
  content <> [] -> g_parse_file content = g_entries 1 (split_lines [] (skip_bom content)).
Proof.
  intros Hne. unfold g_parse_file. destruct content as [|c r]; [contradiction|].
  destruct (lines_are_gits (c :: r)) as [tail [[Ht|Ht] E]]; rewrite E, Ht.
  - rewrite app_nil_r. reflexivity.
  - apply g_entries_tail.
Qed.

(* git's CR rule on a segment is strip_cr *)
Lemma git_cr_is_strip_cr seg :
  seg <> [] -> (if beqb (last_byte seg) cCR then removelast seg else seg) = strip_cr seg.
Proof. destruct seg; [contradiction|reflexivity]. Qed.

(* ---- last match wins ---------------------------------------------------------------------------- *)
Lemma find_app {A} (f : A -> bool) (a b : list A) :
  find f (a ++ b) = match find f a with Some x => Some x | None => find f b end.
Proof. induction a as [|x a IH]; cbn [app find]; [reflexivity|]. destruct (f x); [reflexivity|exact IH]. Qed.

Lemma find_rev_last {A} (f : A -> bool) : forall (l : list A) m,
  find f (rev l) = Some m ->
  exists a b, l = a ++ m :: b /\ f m = true /\ forallb (fun x => negb (f x)) b = true.
Proof.
  induction l as [|x t IH]; intros m H; [discriminate|].
  cbn [rev] in H. rewrite find_app in H.
  destruct (find f (rev t)) as [y|] eqn:E.
  - inversion H; subst. destruct (IH m eq_refl) as (a & b & -> & Hm & Hb).
    exists (x :: a), b. repeat split; assumption.
  - cbn [find] in H. destruct (f x) eqn:Fx; [|discriminate]. inversion H; subst.
    exists [], t. repeat split; [exact Fx|].
    clear -E. induction t as [|y t IH]; [reflexivity|].
    cbn [rev] in E. rewrite find_app in E. destruct (find f (rev t)) eqn:E2; [discriminate|].
    cbn [find] in E. destruct (f y) eqn:Fy; [discriminate|]. cbn [forallb]. rewrite Fy. cbn [negb andb].
    apply IH. reflexivity.
Qed.

Lemma find_rev_none {A} (f : A -> bool) : forall (l : list A),
  find f (rev l) = None -> forallb (fun x => negb (f x)) l = true.
Proof.
  induction l as [|x t IH]; intros H; [reflexivity|].
  cbn [rev] in H. rewrite find_app in H. destruct (find f (rev t)) eqn:E; [discriminate|].
  cbn [find] in H. destruct (f x) eqn:Fx; [discriminate|]. cbn [forallb]. rewrite Fx. cbn [negb andb].
  apply IH. reflexivity.
Qed.

Lemma list_match_last cf l path bpos is_dir m :
  list_match cf l path bpos is_dir = Some m ->
  exists p' b' before after,
    strip_base cf (lbase l) path bpos = Some (p', b') /\
    lpats l = before ++ m :: after /\
    matches_rrp (mpat m) cf p' b' is_dir = true /\
    forallb (fun x => negb (matches_rrp (mpat x) cf p' b' is_dir)) after = true.
Proof.
  unfold list_match. destruct (strip_base cf (lbase l) path bpos) as [[p' b']|]; [|discriminate].
  intros H. apply find_rev_last in H. destruct H as (a & b & E & Hm & Hb).
  exists p', b', a, b. repeat split; assumption.
Qed.

Lemma g_from_list_last wm cf l pathname basename is_dir p :
  g_from_list wm cf l pathname basename is_dir = Some p ->
  exists before after,
    gpats l = before ++ p :: after /\
    g_pattern_matches wm cf l pathname basename is_dir p = true /\
    forallb (fun x => negb (g_pattern_matches wm cf l pathname basename is_dir x)) after = true.
Proof. unfold g_from_list. intros H. apply find_rev_last in H. exact H. Qed.
