(* C37 — executable model of the ignore machinery of gitoxide, as the code is after the `fix:` commits
   listed in NOTES.md:
     gix-ignore/src/parse.rs            Lines::next, truncate_non_escaped_trailing_spaces
     gix-glob/src/search/pattern.rs     List::from_bytes (base), strip_base_handle_recompute_basename_pos
     gix-glob/src/pattern.rs            Pattern::matches_repo_relative_path  (Pattern::matches is in Wild.v)
     gix-ignore/src/search.rs           pattern_matching_relative_path / pattern_idx_matching_relative_path,
                                        Search::pattern_matching_relative_path, Search::from_git_dir
     gix-worktree/src/stack/state/ignore.rs   push_directory, matching_exclude_pattern(_no_dir)
     gix-worktree/src/stack/{mod,platform}.rs at_entry -> matching_exclude_pattern for a path whose leading
                                        directories were pushed by gix_fs::Stack (one push_directory per level)
   Pattern lists are kept in PRIORITY order (the list consulted first comes first), i.e. the reverse of the
   Vec order of the Rust code, which iterates `.rev()` everywhere.  The override group is empty (no
   command-line patterns), `Source::WorktreeThenIdMappingIfNotSkipped` with an empty index.
   No proofs in this file. *)
From GixV.Base Require Import Bytes.
From GixV.C37 Require Import Wild.
Local Open Scope N_scope.

Definition cLF : byte := x0a.
Definition cCR : byte := x0d.
Definition cSP : byte := x20.
Definition cHASH : byte := x23.
Definition cDOLLAR : byte := x24.
Definition cD : byte := x44.       (* 'D': tag of a per-directory file in the case protocol *)

(* ---- gix_ignore::parse ---------------------------------------------------------------------- *)

(* bstr `lines_with_terminator()` followed by `strip_suffix("\n")`: the pieces between LFs; a last
   piece without LF is a line only if it is not empty *)
Fixpoint split_lines (acc : bytes) (l : bytes) : list bytes :=
  match l with
  | [] => match acc with [] => [] | _ => [rev acc] end
  | c :: r => if beqb c cLF then rev acc :: split_lines [] r else split_lines (c :: acc) r
  end.

(* `line.strip_suffix("\r")` *)
Definition strip_cr (l : bytes) : bytes :=
  match l with
  | [] => []
  | _ => if beqb (last_byte l) cCR then removelast l else l
  end.

(* only the UTF-8 byte order mark is skipped *)
Definition skip_bom (l : bytes) : bytes :=
  match l with
  | a :: b :: c :: r => if beqb a xef && beqb b xbb && beqb c xbf then r else l
  | _ => l
  end.

(* truncate_non_escaped_trailing_spaces: None = `return buf` from inside the loop,
   Some last_space_pos at the end of the loop *)
Fixpoint trunc_scan (l : bytes) (pos : nat) (last_space : option nat) : option (option nat) :=
  match l with
  | [] => Some last_space
  | c :: r =>
      if beqb c cSP then
        trunc_scan r (S pos) (Some (match last_space with Some p => p | None => pos end))
      else if beqb c cBSL then
        match r with
        | [] => None
        | _ :: r' => trunc_scan r' (S (S pos)) None
        end
      else trunc_scan r (S pos) None
  end.

Definition truncate_trailing_spaces (l : bytes) : bytes :=
  match trunc_scan l 0 None with
  | Some (Some p) => firstn p l
  | _ => l
  end.

(* the body of `Lines::next` for one line (terminator and CR already removed):
   None = `continue`, Some (pattern, precious) *)
Definition parse_line (line : bytes) : option (pattern * bool) :=
  match line with
  | [] => None
  | first :: rest =>
      if beqb first cHASH then None
      else if beqb first cDOLLAR then
        match parse_pattern false (truncate_trailing_spaces rest) with
        | Some p => Some (p, true)
        | None => None
        end
      else
        let second_is_dollar := match rest with s :: _ => beqb s cDOLLAR | [] => false end in
        if beqb first cBANG && second_is_dollar then None
        else
          let line' := if beqb first cBSL && second_is_dollar then rest else line in
          match parse_pattern true (truncate_trailing_spaces line') with
          | Some p => Some (p, false)
          | None => None
          end
  end.

Record mapping := { mpat : pattern; mline : N; mprecious : bool }.

Fixpoint parse_lines (n : N) (ls : list bytes) : list mapping :=
  match ls with
  | [] => []
  | l :: r =>
      match parse_line (strip_cr l) with
      | Some (p, k) => {| mpat := p; mline := n; mprecious := k |} :: parse_lines (n + 1) r
      | None => parse_lines (n + 1) r
      end
  end.

(* gix_ignore::parse(bytes) collected, as `Ignore::bytes_to_patterns` does *)
Definition parse_ignore (buf : bytes) : list mapping := parse_lines 1 (split_lines [] (skip_bom buf)).

(* ---- pattern lists ---------------------------------------------------------------------------- *)

(* gix_glob::search::pattern::List: [lsrc] identifies the source file ("X", "I", "D"<dir>), [lbase] is
   the directory of the file relative to the worktree root with a trailing slash (None at the top
   level and for the global files) *)
Record plist := { lsrc : bytes; lbase : option bytes; lpats : list mapping }.

(* `relative_path.rfind(b"/").map(|p| p + 1)` *)
Fixpoint basename_pos_from (l : bytes) (i : nat) (acc : option nat) : option nat :=
  match l with
  | [] => acc
  | c :: r => basename_pos_from r (S i) (if beqb c cSLASH then Some (S i) else acc)
  end.
Definition basename_pos (path : bytes) : option nat := basename_pos_from path 0 None.

(* strip_base_handle_recompute_basename_pos; `pos - base.len()` is written with the truncating
   subtraction of nat: Properties.basename_pos_never_underflows shows that it cannot underflow *)
Definition base_matches (cf : bool) (base path : bytes) : bool :=
  if cf then
    if Nat.ltb (length path) (length base) then false
    else eq_ignore_case (firstn (length base) path) base
  else starts_with path base.

Definition strip_base (cf : bool) (base : option bytes) (path : bytes) (bpos : option nat)
  : option (bytes * option nat) :=
  match base with
  | None => Some (path, bpos)
  | Some b =>
      if base_matches cf b path then
        Some (skipn (length b) path,
              match bpos with
              | Some p => let q := (p - length b)%nat in if Nat.eqb q 0 then None else Some q
              | None => None
              end)
      else None
  end.

(* Pattern::matches_repo_relative_path(path, basename_start_pos, is_dir, case, NO_MATCH_SLASH_LITERAL) *)
Definition matches_rrp (pt : pattern) (cf : bool) (path : bytes) (bpos : option nat) (is_dir : bool) : bool :=
  if negb is_dir && has_flag (pmode pt) MUST_BE_DIR then false
  else if has_flag (pmode pt) NO_SUB_DIR && negb (has_flag (pmode pt) ABSOLUTE) then
    pattern_matches pt cf true (skipn (match bpos with Some p => p | None => O end) path)
  else pattern_matches pt cf true path.

(* gix_ignore::search::pattern_(idx_)matching_relative_path: the last pattern of the list that matches *)
Definition list_match (cf : bool) (l : plist) (path : bytes) (bpos : option nat) (is_dir : bool)
  : option mapping :=
  match strip_base cf (lbase l) path bpos with
  | None => None
  | Some (p', b') => find (fun m => matches_rrp (mpat m) cf p' b' is_dir) (rev (lpats l))
  end.

(* Search::pattern_matching_relative_path over lists in priority order *)
Fixpoint search_match (cf : bool) (lists : list plist) (path : bytes) (is_dir : bool)
  : option (plist * mapping) :=
  match lists with
  | [] => None
  | l :: r =>
      match list_match cf l path (basename_pos path) is_dir with
      | Some m => Some (l, m)
      | None => search_match cf r path is_dir
      end
  end.

(* groups.iter().rev(): overrides (empty), the directory stack, the globals *)
Definition groups_match (cf : bool) (globals stack : list plist) (path : bytes) (is_dir : bool)
  : option (plist * mapping) :=
  match search_match cf stack path is_dir with
  | Some r => Some r
  | None => search_match cf globals path is_dir
  end.

Definition is_negative (r : plist * mapping) : bool := has_flag (pmode (mpat (snd r))) NEGATIVE.

(* ---- the directory stack (generic in the matcher, so that Spec.v and the proofs can share it) ---- *)

Section Walk.
  Variable L R : Type.
  Variable load : bytes -> L.                                   (* the list push_directory adds for a directory *)
  Variable M : list L -> bytes -> bool -> option R.             (* match against the stack built so far (+ globals) *)
  Variable neg : R -> bool.

  (* one push_directory per leading directory, top-most first: first the directory itself is matched
     against what is on the stack (matched_directory_patterns_stack), then its ignore file is pushed.
     Both stacks have the most recent entry first. *)
  Fixpoint push_dirs (dirs : list bytes) (stack : list L) (matched : list (option R))
    : list L * list (option R) :=
    match dirs with
    | [] => (stack, matched)
    | d :: r => push_dirs r (load d :: stack) (M stack d true :: matched)
    end.

  (* `.iter().rev().filter_map(|v| *v).next()` *)
  Fixpoint deepest_some (matched : list (option R)) : option R :=
    match matched with
    | [] => None
    | Some r :: _ => Some r
    | None :: t => deepest_some t
    end.

  (* Ignore::matching_exclude_pattern *)
  Definition decide (stack : list L) (matched : list (option R)) (path : bytes) (is_dir : bool) : option R :=
    match deepest_some matched with
    | Some dm =>
        if neg dm then
          match M stack path is_dir with
          | Some r => Some r
          | None => Some dm
          end
        else Some dm
    | None => M stack path is_dir
    end.

  (* at_entry(path) on a fresh stack: the root is pushed first (it is never matched itself) *)
  Definition stack_query (dirs : list bytes) (path : bytes) (is_dir : bool) : option R :=
    let '(stack, matched) := push_dirs dirs [load []] [None] in
    decide stack matched path is_dir.
End Walk.

(* the leading directories of a path, top-most first: "a/b/c" -> a, a/b *)
Fixpoint leading_dirs (acc : bytes) (l : bytes) : list bytes :=
  match l with
  | [] => []
  | c :: r => if beqb c cSLASH then rev acc :: leading_dirs (c :: acc) r else leading_dirs (c :: acc) r
  end.

(* ---- the files of a case ---------------------------------------------------------------------- *)

Definition files := list (bytes * bytes).          (* (where, content); the first entry of a `where` counts *)

Fixpoint lookup (fs : files) (w : bytes) : option bytes :=
  match fs with
  | [] => None
  | (w', c) :: r => if bytes_eqb w' w then Some c else lookup r w
  end.

(* push_directory: `<dir>/.gitignore` if it exists (List::from_bytes with root = worktree root),
   otherwise an empty list *)
Definition dir_list (fs : files) (dir : bytes) : plist :=
  match lookup fs (cD :: dir) with
  | Some content =>
      {| lsrc := cD :: dir;
         lbase := match dir with [] => None | _ => Some (dir ++ [cSLASH]) end;
         lpats := parse_ignore content |}
  | None => {| lsrc := cD :: dir; lbase := None; lpats := [] |}
  end.

(* Search::from_git_dir: the excludes file, then info/exclude; priority order is the reverse *)
Definition global_lists (fs : files) : list plist :=
  (match lookup fs (bs "I") with
   | Some c => [{| lsrc := bs "I"; lbase := None; lpats := parse_ignore c |}]
   | None => []
   end) ++
  (match lookup fs (bs "X") with
   | Some c => [{| lsrc := bs "X"; lbase := None; lpats := parse_ignore c |}]
   | None => []
   end).

Definition ignore_query (cf : bool) (fs : files) (path : bytes) (is_dir : bool) : option (plist * mapping) :=
  stack_query plist (plist * mapping) (dir_list fs) (groups_match cf (global_lists fs)) is_negative
              (leading_dirs [] path) path is_dir.

(* Platform::is_excluded *)
Definition is_excluded (cf : bool) (fs : files) (path : bytes) (is_dir : bool) : bool :=
  match ignore_query cf fs path is_dir with
  | Some r => negb (is_negative r)
  | None => false
  end.
