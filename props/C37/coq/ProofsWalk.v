(* C37 — the directory stack of gix-worktree (Model.Walk) against git's prep_exclude walk (Spec.GitWalk),
   for ANY list type, loader and matcher shared by both sides. *)
From Coq Require Import List Bool.
Import ListNotations.
From GixV.Base Require Import Bytes.
From GixV.C37 Require Import Wild Model Spec.

Section WalkFacts.
  Variable L R : Type.
  Variable load : bytes -> L.
  Variable M : list L -> bytes -> bool -> option R.
  Variable neg : R -> bool.

  (* what each leading directory is matched by, top-most first, and the stack after all pushes *)
  Fixpoint dir_matches (dirs : list bytes) (stack : list L) : list (option R) :=
    match dirs with
    | [] => []
    | d :: r => M stack d true :: dir_matches r (load d :: stack)
    end.

  Fixpoint final_stack (dirs : list bytes) (stack : list L) : list L :=
    match dirs with
    | [] => stack
    | d :: r => final_stack r (load d :: stack)
    end.

  Lemma push_dirs_spec : forall dirs stack matched,
    push_dirs L R load M dirs stack matched =
    (final_stack dirs stack, rev (dir_matches dirs stack) ++ matched).
  Proof.
    induction dirs as [|d r IH]; intros stack matched; cbn [push_dirs dir_matches final_stack rev app].
    - reflexivity.
    - rewrite IH. rewrite <- app_assoc. reflexivity.
  Qed.

  (* the first directory (from the top) matched by a non-negative pattern *)
  Fixpoint first_positive (ms : list (option R)) : option R :=
    match ms with
    | [] => None
    | Some m :: t => if neg m then first_positive t else Some m
    | None :: t => first_positive t
    end.

  (* the deepest directory with any match *)
  Fixpoint last_some (ms : list (option R)) : option R :=
    match ms with
    | [] => None
    | x :: t => match last_some t with Some r => Some r | None => x end
    end.

  Lemma git_walk_spec path is_dir : forall dirs stack,
    git_walk L R load M neg dirs stack path is_dir =
    match first_positive (dir_matches dirs stack) with
    | Some m => Some m
    | None => M (final_stack dirs stack) path is_dir
    end.
  Proof.
    induction dirs as [|d r IH]; intros stack; cbn [git_walk dir_matches first_positive final_stack].
    - reflexivity.
    - destruct (M stack d true) as [m|]; [destruct (neg m)|]; try apply IH. reflexivity.
  Qed.

  Lemma deepest_some_app (a b : list (option R)) :
    deepest_some R (a ++ b) = match deepest_some R a with Some r => Some r | None => deepest_some R b end.
  Proof.
    induction a as [|x a IH]; cbn [app deepest_some]; [destruct (deepest_some R b); reflexivity|].
    destruct x; [reflexivity|exact IH].
  Qed.

  Lemma deepest_rev ms : deepest_some R (rev ms) = last_some ms.
  Proof.
    induction ms as [|x t IH]; cbn [rev last_some]; [reflexivity|].
    rewrite deepest_some_app, IH. destruct (last_some t); [reflexivity|]. destruct x; reflexivity.
  Qed.

  (* the stack rule of gitoxide, written over the top-down list of directory matches *)
  Definition stack_rule (ms : list (option R)) (own : option R) : option R :=
    match last_some ms with
    | Some dm => if neg dm then match own with Some r => Some r | None => Some dm end else Some dm
    | None => own
    end.

  Definition git_rule (ms : list (option R)) (own : option R) : option R :=
    match first_positive ms with Some m => Some m | None => own end.

  Lemma stack_query_spec dirs path is_dir :
    stack_query L R load M neg dirs path is_dir =
    stack_rule (dir_matches dirs [load []]) (M (final_stack dirs [load []]) path is_dir).
  Proof.
    unfold stack_query. rewrite push_dirs_spec. unfold decide, stack_rule.
    rewrite deepest_some_app, deepest_rev. cbn [deepest_some].
    destruct (last_some (dir_matches dirs [load []])); reflexivity.
  Qed.

  Lemma git_query_spec dirs path is_dir :
    git_query L R load M neg dirs path is_dir =
    git_rule (dir_matches dirs [load []]) (M (final_stack dirs [load []]) path is_dir).
  Proof. unfold git_query, git_rule. apply git_walk_spec. Qed.

  (* the known class: the top-most excluded directory has a directory below it that some pattern matches *)
  Definition is_some (x : option R) : bool := match x with Some _ => true | None => false end.

  Fixpoint shadowed (ms : list (option R)) : bool :=
    match ms with
    | [] => false
    | Some m :: t => if neg m then shadowed t else existsb is_some t
    | None :: t => shadowed t
    end.

  Lemma last_some_none ms : existsb is_some ms = false -> last_some ms = None.
  Proof.
    induction ms as [|x t IH]; cbn [existsb last_some]; [reflexivity|].
    intros H. apply orb_false_iff in H. destruct H as [Hx Ht]. rewrite (IH Ht).
    destruct x; [discriminate Hx|reflexivity].
  Qed.

  Lemma not_shadowed_positive : forall ms m,
    shadowed ms = false -> first_positive ms = Some m -> last_some ms = Some m.
  Proof.
    induction ms as [|x t IH]; intros m Hs Hf; cbn [shadowed first_positive last_some] in *; [discriminate|].
    destruct x as [y|].
    - destruct (neg y) eqn:E.
      + rewrite (IH m Hs Hf). reflexivity.
      + inversion Hf; subst. rewrite (last_some_none t Hs). reflexivity.
    - rewrite (IH m Hs Hf). reflexivity.
  Qed.

  Lemma no_positive_all_negative : forall ms dm,
    first_positive ms = None -> last_some ms = Some dm -> neg dm = true.
  Proof.
    induction ms as [|x t IH]; intros dm Hf Hl; cbn [first_positive last_some] in *; [discriminate|].
    destruct x as [y|].
    - destruct (neg y) eqn:E; [|discriminate].
      destruct (last_some t) as [r|] eqn:El.
      + inversion Hl; subst. exact (IH dm Hf eq_refl).
      + inversion Hl; subst. exact E.
    - destruct (last_some t) as [r|] eqn:El; [|discriminate].
      inversion Hl; subst. exact (IH dm Hf eq_refl).
  Qed.

  Definition excluded (r : option R) : bool := match r with Some m => negb (neg m) | None => false end.

  (* outside the known class the two rules give the same pattern, except that gitoxide reports the
     negative pattern of a leading directory where git reports nothing *)
  Lemma rules_agree ms own :
    shadowed ms = false ->
    stack_rule ms own = git_rule ms own \/
    (git_rule ms own = None /\ exists dm, stack_rule ms own = Some dm /\ neg dm = true /\ last_some ms = Some dm).
  Proof.
    intros Hs. unfold stack_rule, git_rule.
    destruct (first_positive ms) as [m|] eqn:Ef.
    - rewrite (not_shadowed_positive ms m Hs Ef).
      destruct (neg m) eqn:E; [|left; reflexivity].
      (* a first positive entry is not negative *)
      exfalso. clear Hs. revert Ef. induction ms as [|x t IH]; cbn [first_positive]; [discriminate|].
      destruct x as [y|]; [|exact IH]. destruct (neg y) eqn:Ey; [exact IH|].
      intros H; inversion H; subst. rewrite E in Ey. discriminate.
    - destruct (last_some ms) as [dm|] eqn:El; [|left; reflexivity].
      rewrite (no_positive_all_negative ms dm Ef El).
      destruct own as [r|]; [left; reflexivity|].
      right. split; [reflexivity|]. exists dm. repeat split. exact (no_positive_all_negative ms dm Ef El).
  Qed.

  Lemma rules_agree_excluded ms own :
    shadowed ms = false -> excluded (stack_rule ms own) = excluded (git_rule ms own).
  Proof.
    intros Hs. destruct (rules_agree ms own Hs) as [H|(Hg & dm & Hx & Hn & _)].
    - rewrite H. reflexivity.
    - rewrite Hg, Hx. cbn [excluded]. rewrite Hn. reflexivity.
  Qed.

  (* in the other direction: whenever git finds the path excluded because of a leading directory,
     a shadowed stack is the only way for gitoxide to answer with another pattern *)
  Lemma rules_differ_only_if_shadowed ms own m :
    first_positive ms = Some m -> stack_rule ms own <> Some m -> shadowed ms = true.
  Proof.
    intros Hf Hd. destruct (shadowed ms) eqn:Hs; [reflexivity|]. exfalso. apply Hd.
    unfold stack_rule. rewrite (not_shadowed_positive ms m Hs Hf).
    assert (neg m = false) as E.
    { clear Hd Hs. revert Hf. induction ms as [|x t IH]; cbn [first_positive]; [discriminate|].
      destruct x as [y|]; [|exact IH]. destruct (neg y) eqn:Ey; [exact IH|].
      intros H; inversion H; subst. exact Ey. }
    rewrite E. reflexivity.
  Qed.
End WalkFacts.
