(* C37 — Ignore decisions agree with git check-ignore: the theorems.  See NOTES.md for what is proved
   (the decision procedure over pattern lists, line handling, the shortcuts of Pattern::matches) and
   what is only tested (pattern-level agreement of parse_path_pattern/match_pathname with gix-glob's
   flags, the `*literal` shortcut, wildmatch itself which is C36's subject). *)
From Coq Require Import List Bool.
Import ListNotations.
From GixV.Base Require Import Bytes.
From GixV.C37 Require Import Wild GitWild Model Spec ProofsBytes ProofsShortcut ProofsSuffix ProofsParse ProofsWalk.

(* The whole property, for reference: for all ignore files, paths and both settings of core.ignoreCase
   the pattern gitoxide reports is the one git reports. It is FALSE of the code (see the refutations
   below and the known classes of findings.txt); what is proved are the parts that follow. *)
Definition same_answer (a : option (plist * mapping)) (b : option (glist * gpat)) : Prop :=
  match a, b with
  | None, None => True
  | Some (l, m), Some (g, p) =>
      lsrc l = gsrc g /\ mline m = gline p /\ is_negative (l, m) = g_negative (g, p)
  | _, _ => False
  end.
Definition ignore_is_git_full_statement : Prop :=
  forall cf fs path is_dir,
    same_answer (ignore_query cf fs path is_dir) (git_ignore_query git_wildmatch cf fs path is_dir).

(* ---- the decision procedure ------------------------------------------------------------------- *)

(* For ANY kind of pattern list, loader of per-directory files and matcher (the same on both sides):
   the directory stack of gix-worktree (every leading directory is matched when it is pushed, the
   deepest one with a match decides) returns what git's prep_exclude/last_matching_pattern walk returns
   (stop at the top-most excluded directory, files below it are not even read), unless the top-most
   excluded directory has a directory below it that some pattern matches (class
   deepest-directory-match-wins); the only other difference is that gitoxide reports the negative
   pattern that matched a leading directory where git reports no pattern at all (class
   negative-parent-dir-match-reported). *)
Theorem stack_rule_is_git_walk_except_known :
  forall (L R : Type) (load : bytes -> L) (M : list L -> bytes -> bool -> option R) (neg : R -> bool)
         (dirs : list bytes) (path : bytes) (is_dir : bool),
    shadowed R neg (dir_matches L R load M dirs [load []]) = false ->
    stack_query L R load M neg dirs path is_dir = git_query L R load M neg dirs path is_dir \/
    (git_query L R load M neg dirs path is_dir = None /\
     exists dm, stack_query L R load M neg dirs path is_dir = Some dm /\ neg dm = true).
Proof.
  intros. rewrite stack_query_spec, git_query_spec.
  destruct (rules_agree R neg _ (M (final_stack L load dirs [load []]) path is_dir) H)
    as [E|(Hg & dm & Hx & Hn & _)]; [left; exact E|right].
  split; [exact Hg|]. exists dm. split; assumption.
Qed.

(* ... and the ignored / not ignored answer is the same without exception outside that class *)
Theorem excluded_is_git_walk_except_known :
  forall (L R : Type) (load : bytes -> L) (M : list L -> bytes -> bool -> option R) (neg : R -> bool)
         (dirs : list bytes) (path : bytes) (is_dir : bool),
    shadowed R neg (dir_matches L R load M dirs [load []]) = false ->
    excluded R neg (stack_query L R load M neg dirs path is_dir) =
    excluded R neg (git_query L R load M neg dirs path is_dir).
Proof. intros. rewrite stack_query_spec, git_query_spec. now apply rules_agree_excluded. Qed.

(* the class is exact in this direction: when git answers with the pattern that excluded a leading
   directory and gitoxide answers anything else, the stack is shadowed *)
Theorem deviation_below_excluded_directory_only_if_known :
  forall (L R : Type) (load : bytes -> L) (M : list L -> bytes -> bool -> option R) (neg : R -> bool)
         (dirs : list bytes) (path : bytes) (is_dir : bool) (m : R),
    first_positive R neg (dir_matches L R load M dirs [load []]) = Some m ->
    stack_query L R load M neg dirs path is_dir <> Some m ->
    shadowed R neg (dir_matches L R load M dirs [load []]) = true.
Proof. intros until m. rewrite stack_query_spec. apply rules_differ_only_if_shadowed. Qed.

(* the model of gix-worktree is an instance: Platform::is_excluded is git's walk over gitoxide's own
   pattern lists and matcher *)
Theorem is_excluded_is_git_walk_except_known :
  forall cf fs path is_dir,
    shadowed (plist * mapping) is_negative
      (dir_matches plist (plist * mapping) (dir_list fs) (groups_match cf (global_lists fs))
                   (leading_dirs [] path) [dir_list fs []]) = false ->
    is_excluded cf fs path is_dir =
    excluded (plist * mapping) is_negative
      (git_query plist (plist * mapping) (dir_list fs) (groups_match cf (global_lists fs)) is_negative
                 (leading_dirs [] path) path is_dir).
Proof.
  intros cf fs path is_dir H. unfold is_excluded, ignore_query.
  rewrite <- (excluded_is_git_walk_except_known _ _ _ _ _ _ path is_dir H). reflexivity.
Qed.

Definition bsl (s : String.string) : bytes := bs s.
Definition lf (l : list bytes) : bytes := concat (map (fun x => x ++ [cLF]) l).

(* the class is not empty: "a/" + "!a/b/" re-includes a/b/c in gitoxide, git ignores it (a parent
   directory that is excluded cannot be re-included) *)
Theorem ignore_is_git_refuted_reinclude :
  let fs := [(bs "D", lf [bs "a/"; bs "!a/b/"])] in
  is_excluded false fs (bs "a/b/c") false = false /\
  (match git_ignore_query git_wildmatch false fs (bs "a/b/c") false with
   | Some r => negb (g_negative r) | None => false end) = true.
Proof. vm_compute. split; reflexivity. Qed.

(* and the second class: "!a/" makes gitoxide report that pattern for a/x, git reports nothing *)
Theorem ignore_is_git_refuted_negative_parent :
  let fs := [(bs "D", lf [bs "!a/"])] in
  (match ignore_query false fs (bs "a/x") false with Some r => is_negative r | None => false end) = true /\
  git_ignore_query git_wildmatch false fs (bs "a/x") false = None.
Proof. vm_compute. split; reflexivity. Qed.

(* ---- inside one pattern list: the last matching pattern wins ---------------------------------- *)
Theorem last_match_wins :
  forall cf l path bpos is_dir m,
    list_match cf l path bpos is_dir = Some m ->
    exists p' b' before after,
      strip_base cf (lbase l) path bpos = Some (p', b') /\
      lpats l = before ++ m :: after /\
      matches_rrp (mpat m) cf p' b' is_dir = true /\
      forallb (fun x => negb (matches_rrp (mpat x) cf p' b' is_dir)) after = true.
Proof. exact list_match_last. Qed.

Theorem last_match_wins_git :
  forall wm cf l pathname basename is_dir p,
    g_from_list wm cf l pathname basename is_dir = Some p ->
    exists before after,
      gpats l = before ++ p :: after /\
      g_pattern_matches wm cf l pathname basename is_dir p = true /\
      forallb (fun x => negb (g_pattern_matches wm cf l pathname basename is_dir x)) after = true.
Proof. exact g_from_list_last. Qed.

(* ---- lines ---------------------------------------------------------------------------------------- *)

(* truncate_non_escaped_trailing_spaces is git's trim_trailing_spaces, on every line *)
Theorem trailing_spaces_are_gits : forall l, truncate_trailing_spaces l = g_trim_trailing_spaces l.
Proof. exact truncate_is_git. Qed.

(* the lines gix_ignore::parse sees (and therefore their numbers) are the segments git's
   add_patterns_from_buffer sees in the buffer with LF appended, up to one trailing empty segment,
   for every buffer, with or without BOM, CRLF, final LF *)
Theorem line_splitting_is_gits :
  forall content, exists tail, (tail = [] \/ tail = [[]]) /\
    g_split [] (skip_bom (content ++ [cLF])) = split_lines [] (skip_bom content) ++ tail.
Proof. exact lines_are_gits. Qed.

Theorem git_file_is_entries_of_gix_lines :
  forall content, content <> [] ->
    g_parse_file content = g_entries 1 (split_lines [] (skip_bom content)).
Proof. exact g_parse_file_lines. Qed.

Theorem cr_rule_is_gits :
  forall seg, seg <> [] -> (if beqb (last_byte seg) cCR then removelast seg else seg) = strip_cr seg.
Proof. exact git_cr_is_strip_cr. Qed.

(* ---- the shortcuts of Pattern::matches --------------------------------------------------------- *)

(* every pattern the parser produces (with or without negation support) records the wildcard position
   of exactly the text it stores *)
Theorem parsed_pattern_wildcard_pos :
  forall may_alter line pt, parse_pattern may_alter line = Some pt -> pfwp pt = first_wildcard_pos (ptext pt).
Proof. exact parse_fwp. Qed.

(* shortcut_sound, two of its three parts: for every parsed pattern, every value and all flags, unless
   the `*literal` suffix shortcut is taken, Pattern::matches (plain comparison without wildcard,
   literal-prefix test otherwise) is wildmatch on the full text *)
Theorem shortcut_sound_partial :
  forall may_alter line pt cf pn value,
    parse_pattern may_alter line = Some pt ->
    (has_flag (pmode pt) ENDS_WITH && (negb pn || negb (has_slash value)) = false \/ pfwp pt = None) ->
    pattern_matches pt cf pn value = wildmatch cf pn (ptext pt) value.
Proof.
  intros may_alter line pt cf pn value Hp Hc. pose proof (parse_fwp _ _ _ Hp) as Hf.
  destruct (pfwp pt) as [pos|] eqn:E.
  - destruct Hc as [Hc|Hc]; [|discriminate].
    apply (L_prefix_shortcut pt cf pn value pos); [rewrite E; exact Hf|exact E|exact Hc].
  - apply L_no_wildcard; [rewrite E; exact Hf|exact E].
Qed.

(* the third part: `*` followed by bytes without wildcard, against a value in which the star may match
   everything (no NO_MATCH_SLASH_LITERAL or no slash in the value): wildmatch is the suffix comparison *)
Theorem star_literal_is_suffix_test :
  forall cf pn c r v,
    literal (c :: r) -> (pn = false \/ has_slash v = false) ->
    wildmatch cf pn (cSTAR :: c :: r) v = any_suffix (lit_eq cf (c :: r)) v.
Proof. exact wildmatch_star_literal. Qed.

(* shortcut_sound: for every pattern the parser produces, every value and all flags, Pattern::matches
   (with its three fast paths) is wildmatch on the full pattern text *)
Theorem shortcut_sound :
  forall may_alter line pt cf pn value,
    parse_pattern may_alter line = Some pt ->
    pattern_matches pt cf pn value = wildmatch cf pn (ptext pt) value.
Proof.
  intros may_alter line pt cf pn value Hp.
  destruct (has_flag (pmode pt) ENDS_WITH && (negb pn || negb (has_slash value))) eqn:C.
  - pose proof C as C'. apply andb_true_iff in C'. destruct C' as [Hf _].
    destruct (parse_ends_with _ _ _ Hp Hf) as (lit & Ht & Hl & Hw).
    now apply (L_ends_with pt cf pn value lit).
  - apply (shortcut_sound_partial may_alter line); auto.
Qed.

(* ---- non-vacuity ---------------------------------------------------------------------------------- *)
Example unshadowed_stack_exists :
  let fs := [(bs "D", lf [bs "*.o"; bs "!a/"]); (bs "Da", lf [bs "!x.o"])] in
  shadowed (plist * mapping) is_negative
    (dir_matches plist (plist * mapping) (dir_list fs) (groups_match false (global_lists fs))
                 (leading_dirs [] (bs "a/x.o")) [dir_list fs []]) = false /\
  is_excluded false fs (bs "a/x.o") false = false /\ is_excluded false fs (bs "a/y.o") false = true.
Proof. vm_compute. repeat split; reflexivity. Qed.

Example shadowed_stack_exists :
  let fs := [(bs "D", lf [bs "a/"; bs "!a/b/"])] in
  shadowed (plist * mapping) is_negative
    (dir_matches plist (plist * mapping) (dir_list fs) (groups_match false (global_lists fs))
                 (leading_dirs [] (bs "a/b/c")) [dir_list fs []]) = true.
Proof. vm_compute. reflexivity. Qed.

Example star_literal_example :
  literal (bs ".o") /\ wildmatch false true (bs "*.o") (bs "x.o") = true /\ wildmatch true true (bs "*.O") (bs "x.o") = true /\
  wildmatch false true (bs "*.o") (bs "x.c") = false.
Proof. vm_compute. repeat split; reflexivity. Qed.

Example parsed_patterns_exist :
  (exists pt, parse_pattern true (bs "!/a*/") = Some pt /\ pfwp pt = Some 1%nat) /\
  (exists pt, parse_pattern true (bs "\#x") = Some pt /\ pfwp pt = None /\ ptext pt = bs "#x") /\
  (exists pt, parse_pattern false (bs "*.o") = Some pt /\ has_flag (pmode pt) ENDS_WITH = true).
Proof. repeat split; eexists; vm_compute; repeat split; reflexivity. Qed.

Example last_match_example :
  let l := {| lsrc := bs "D"; lbase := None; lpats := parse_ignore (lf [bs "*.o"; bs "!x.o"; bs "y"]) |} in
  option_map mline (list_match false l (bs "x.o") None false) = Some 2%N /\
  option_map mline (list_match false l (bs "a.o") None false) = Some 1%N.
Proof. vm_compute. split; reflexivity. Qed.

Example lines_example :
  map mline (parse_ignore (bs "a" ++ [cCR; cLF] ++ bs "#c" ++ [cLF; cLF] ++ bs "b" ++ [cCR])) = [1%N; 4%N] /\
  map gline (g_parse_file (bs "a" ++ [cCR; cLF] ++ bs "#c" ++ [cLF; cLF] ++ bs "b" ++ [cCR])) = [1%N; 4%N].
Proof. vm_compute. split; reflexivity. Qed.
