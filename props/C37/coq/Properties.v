From GixV.Base Require Import Bytes.
From GixV.C37 Require Import Wild Model.
Example placeholder : parse_ignore [] = []. Proof. reflexivity. Qed.
