(* C37 — executable model of gix-glob: wildmatch.rs (match_recursive / wildmatch), parse.rs (pattern, with
   and without `may_alter`), pattern.rs (Pattern::matches).  This file is a copy of props/C36/coq/Model.v
   (the model C36 ties to gix-glob and proves equal to git's wildmatch.c, see props/C36/NOTES.md), with
   one extension: [parse_pattern] takes the `may_alter` flag (leading `!`, `\!`, `\#`).
   No proofs in this file. *)
From GixV.Base Require Import Bytes.
Local Open Scope N_scope.

Inductive res := Match | NoMatch | AbortAll | AbortToStarStar | RecursionLimitReached | LoopFuel.

Definition res_eqb (a b : res) : bool :=
  match a, b with
  | Match, Match | NoMatch, NoMatch | AbortAll, AbortAll | AbortToStarStar, AbortToStarStar
  | RecursionLimitReached, RecursionLimitReached | LoopFuel, LoopFuel => true
  | _, _ => false
  end.

Definition cSTAR : byte := x2a.
Definition cBSL : byte := x5c.
Definition cSLASH : byte := x2f.
Definition cLBR : byte := x5b.
Definition cRBR : byte := x5d.
Definition cCOLON : byte := x3a.
Definition cBANG : byte := x21.
Definition cCARET : byte := x5e.
Definition cDASH : byte := x2d.
Definition cQM : byte := x3f.

Definition in_range (lo hi : N) (c : byte) : bool := N.leb lo (b2N c) && N.leb (b2N c) hi.
Definition ble (a b : byte) : bool := N.leb (b2N a) (b2N b).

(* u8::is_ascii_* / to_ascii_* of the Rust standard library *)
Definition is_upper (c : byte) : bool := in_range 65 90 c.
Definition is_lower (c : byte) : bool := in_range 97 122 c.
Definition is_digit_b (c : byte) : bool := in_range 48 57 c.
Definition is_alpha (c : byte) : bool := is_upper c || is_lower c.
Definition is_alnum (c : byte) : bool := is_alpha c || is_digit_b c.
Definition is_control (c : byte) : bool := in_range 0 31 c || N.eqb (b2N c) 127.
Definition is_graphic (c : byte) : bool := in_range 33 126 c.
Definition is_punct (c : byte) : bool :=
  in_range 33 47 c || in_range 58 64 c || in_range 91 96 c || in_range 123 126 c.
Definition is_hexdigit (c : byte) : bool := is_digit_b c || in_range 65 70 c || in_range 97 102 c.
Definition is_whitespace (c : byte) : bool :=      (* u8::is_ascii_whitespace: space \t \n \f \r *)
  let n := b2N c in N.eqb n 32 || N.eqb n 9 || N.eqb n 10 || N.eqb n 12 || N.eqb n 13.
Definition to_lower (c : byte) : byte := if is_upper c then N2b (b2N c + 32) else c.
Definition to_upper (c : byte) : byte := if is_lower c then N2b (b2N c - 32) else c.

(* the closure `possibly_lowercase` *)
Definition lc (cf : bool) (c : byte) : byte := if cf then to_lower c else c.

(* parse::GLOB_CHARACTERS = br"*?[\" *)
Definition glob_char (c : byte) : bool := beqb c cSTAR || beqb c cQM || beqb c cLBR || beqb c cBSL.

Definition has_slash (l : bytes) : bool := existsb (fun c => beqb c cSLASH) l.

(* text[t_idx..].find_byte(b'/') followed by consuming the text up to and including that slash:
   the text left in the iterator *)
Fixpoint after_slash (l : bytes) : option bytes :=
  match l with
  | [] => None
  | c :: r => if beqb c cSLASH then Some r else after_slash r
  end.

(* ---- bracket expressions ------------------------------------------------------------------ *)

(* the `match class { b"alnum" => …, _ => return AbortAll }` table; None = AbortAll *)
Definition m_class (cf : bool) (name : bytes) (t_ch : byte) : option bool :=
  if bytes_eqb name (bs "alnum") then Some (is_alnum t_ch)
  else if bytes_eqb name (bs "alpha") then Some (is_alpha t_ch)
  else if bytes_eqb name (bs "blank") then Some (beqb t_ch x20 || beqb t_ch x09)
  else if bytes_eqb name (bs "cntrl") then Some (is_control t_ch)
  else if bytes_eqb name (bs "digit") then Some (is_digit_b t_ch)
  else if bytes_eqb name (bs "graph") then Some (is_graphic t_ch)
  else if bytes_eqb name (bs "lower") then Some (is_lower t_ch)
  else if bytes_eqb name (bs "print") then Some (in_range 32 126 t_ch)
  else if bytes_eqb name (bs "punct") then Some (is_punct t_ch)
  else if bytes_eqb name (bs "space") then
    Some (beqb t_ch x20 || beqb t_ch x09 || beqb t_ch x0a || beqb t_ch x0d)
  else if bytes_eqb name (bs "upper") then Some (is_upper t_ch || (cf && is_lower t_ch))
  else if bytes_eqb name (bs "xdigit") then Some (is_hexdigit t_ch)
  else None.

(* the range test of `b'-' if prev_p_ch != 0 && …` *)
Definition m_range (cf : bool) (t_ch prev hi : byte) : bool :=
  (ble t_ch hi && ble prev t_ch)
  || (cf && is_lower t_ch &&
      let u := to_upper t_ch in
      ((ble u (to_upper hi) && ble (to_upper prev) u) || (ble u (to_upper prev) && ble (to_upper hi) u))).

(* bytes up to the first one that reads as `]`, and what follows it (None: there is none) *)
Fixpoint split_rbr (cf : bool) (l : bytes) : option (bytes * bytes) :=
  match l with
  | [] => None
  | c :: r =>
      if beqb (lc cf c) cRBR then Some ([], r)
      else match split_rbr cf r with
           | Some (seg, rest) => Some (c :: seg, rest)
           | None => None
           end
  end.

Definition last_byte (l : bytes) : byte := last l x00.

(* `next = p.next(); if let Some((_, BRACKET_CLOSE)) = next { break }`, then the next round [k] *)
Definition m_step (cf : bool) (k : byte -> bool -> bytes -> option (bool * bytes))
  (m : bool) (pv : byte) (q' : bytes) : option (bool * bytes) :=
  match q' with
  | [] => None
  | r :: q'' => if beqb (lc cf r) cRBR then Some (m, q'') else k pv m q'
  end.

(* The `loop` of the BRACKET_OPEN arm.  [q] starts at the byte held in `next`.  Result: None =
   AbortAll, Some (matched, pattern after the closing bracket).  One unit of fuel per iteration. *)
Fixpoint m_brk (fuel : nat) (cf : bool) (t_ch : byte) (prev : byte) (matched : bool) (q : bytes)
  : option (bool * bytes) :=
  match fuel with
  | O => None
  | S fuel' =>
      let step := m_step cf (m_brk fuel' cf t_ch) in
      match q with
      | [] => None
      | craw :: q1 =>
          let c := lc cf craw in
          if beqb c cBSL then
            match q1 with
            | [] => None
            | e :: q2 => let e' := lc cf e in step (matched || beqb e' t_ch) e' q2
            end
          else if beqb c cDASH && negb (beqb prev x00) &&
                  match q1 with [] => false | n :: _ => negb (beqb (lc cf n) cRBR) end then
            match q1 with
            | [] => None
            | e :: q2 =>
                let e1 := lc cf e in
                if beqb e1 cBSL then
                  match q2 with
                  | [] => None
                  | e2 :: q3 => step (matched || m_range cf t_ch prev (lc cf e2)) x00 q3
                  end
                else step (matched || m_range cf t_ch prev e1) x00 q2
            end
          else if beqb c cLBR && match q1 with n :: _ => beqb (lc cf n) cCOLON | [] => false end then
            match split_rbr cf (tl q1) with
            | None => None
            | Some (seg, q3) =>
                if match seg with [] => true | _ => negb (beqb (last_byte seg) cCOLON) end then
                  (* no ":]": the `[` is a member of the set, go on right after it *)
                  step (matched || beqb t_ch cLBR) cLBR q1
                else
                  match m_class cf (removelast seg) t_ch with
                  | None => None
                  | Some hit => step (matched || hit) x00 q3
                  end
            end
          else step (matched || beqb c t_ch) c q1
      end
  end.

(* the whole BRACKET_OPEN arm after the `[`: Some (matched <> negated, rest) or None = AbortAll *)
Definition m_bracket (cf : bool) (t_ch : byte) (p1 : bytes) : option (bool * bytes) :=
  match p1 with
  | [] => None
  | c0 :: p2 =>
      let c := lc cf c0 in
      let negated := beqb c cCARET || beqb c cBANG in
      match m_brk (S (length p1)) cf t_ch x00 false (if negated then p2 else p1) with
      | None => None
      | Some (m, rest) => Some (negb (Bool.eqb m negated), rest)
      end
  end.

(* ---- the star ------------------------------------------------------------------------------ *)

Section Star.
  Variable cf : bool.
  Variable ms : bool.                  (* match_slash *)
  Variable p_ch : byte.                (* the byte after the star(s), as read from the iterator *)
  Variable rec : bytes -> res.         (* match_recursive(pattern[p_idx..], text[t_idx..], depth + 1) *)

  Definition star_after (t_ch : byte) (r : res) (next : unit -> res) : res :=
    if negb (res_eqb r NoMatch) then
      (if negb ms || negb (res_eqb r AbortToStarStar) then r else next tt)
    else if negb ms && beqb t_ch cSLASH then AbortToStarStar
    else next tt.

  (* the `return loop { … }` with the current text byte [c] and the iterator holding [rest] *)
  Fixpoint m_star_ne (c : byte) (rest : bytes) : res :=
    let t_ch := lc cf c in
    let next := fun _ : unit => match rest with [] => AbortAll | c' :: rest' => m_star_ne c' rest' end in
    if negb (glob_char p_ch) then
      if (negb ms && beqb t_ch cSLASH) || beqb t_ch p_ch then
        if beqb t_ch p_ch then star_after t_ch (rec (c :: rest)) next else NoMatch
      else
        match rest with
        | [] => NoMatch
        | c' :: rest' => m_star_ne c' rest'
        end
    else star_after t_ch (rec (c :: rest)) next.

  (* the same loop entered with the text exhausted: (t_idx, t_ch) = (text.len(), 0) *)
  Definition m_star_end : res :=
    if negb (glob_char p_ch) && negb (beqb x00 p_ch) then NoMatch
    else star_after x00 (rec []) (fun _ => AbortAll).

  Definition m_star_loop (tcur : bytes) : res :=
    match tcur with
    | [] => m_star_end
    | c :: rest => m_star_ne c rest
    end.
End Star.

Inductive step := Done (r : res) | Cont (prev : option byte) (p t : bytes).

Fixpoint drop_stars (cf : bool) (l : bytes) : bytes :=
  match l with
  | c :: r => if beqb (lc cf c) cSTAR then drop_stars cf r else l
  | [] => []
  end.

(* after the star(s): [nx] is the pattern from the byte `next` on, [tcur] = text[t_idx..] *)
Definition m_go (rec : bytes -> bytes -> res) (cf : bool) (tcur : bytes) (ms : bool) (nx : bytes) : step :=
  match nx with
  | [] => Done (if negb ms && has_slash tcur then NoMatch else Match)
  | c :: r =>
      let p_ch := lc cf c in
      if negb ms && beqb p_ch cSLASH then
        match after_slash tcur with
        | Some t' => Cont (Some c) r t'
        | None => Done NoMatch
        end
      else Done (m_star_loop cf ms p_ch (rec (c :: r)) tcur)
  end.

(* the STAR arm; [p1] is the pattern after the star, [tcur] = text[t_idx..] *)
Definition m_star (rec : bytes -> bytes -> res) (cf pn : bool) (prev : option byte) (p1 tcur : bytes) : step :=
  match p1 with
  | [] => m_go rec cf tcur (negb pn) []
  | n1 :: p2 =>
      if beqb (lc cf n1) cSTAR then
        let nx := drop_stars cf p2 in
        if negb pn then m_go rec cf tcur true nx
        else if match prev with None => true | Some b => beqb b cSLASH end &&
                match nx with
                | [] => true
                | c :: r => beqb (lc cf c) cSLASH ||
                            (beqb (lc cf c) cBSL && match r with n :: _ => beqb (lc cf n) cSLASH | [] => false end)
                end then
          match nx with
          | [] => m_go rec cf tcur true nx
          | _ :: r => if res_eqb (rec r tcur) Match then Done Match else m_go rec cf tcur true nx
          end
        else m_go rec cf tcur false nx
      else m_go rec cf tcur (negb pn) p1
  end.

(* ---- the main loop `while let Some((p_idx, p_ch)) = p.next()` ------------------------------- *)

Fixpoint m_main (rec : bytes -> bytes -> res) (cf pn : bool) (fuel : nat) (prev : option byte) (p t : bytes) : res :=
  match fuel with
  | O => LoopFuel
  | S fuel' =>
      match p with
      | [] => match t with [] => Match | _ :: _ => NoMatch end
      | praw :: p1 =>
          let p_ch := lc cf praw in
          let star := fun _ : unit => match m_star rec cf pn prev p1 t with
                      | Done r => r
                      | Cont pv p' t' => m_main rec cf pn fuel' pv p' t'
                      end in
          match t with
          | [] => if beqb p_ch cSTAR then star tt else AbortAll
          | traw :: t1 =>
              let t_ch := lc cf traw in
              if beqb p_ch cBSL then
                match p1 with
                | [] => NoMatch
                | e :: p2 => if beqb (lc cf e) t_ch then m_main rec cf pn fuel' (Some e) p2 t1 else NoMatch
                end
              else if beqb p_ch cQM then
                if pn && beqb t_ch cSLASH then NoMatch else m_main rec cf pn fuel' (Some praw) p1 t1
              else if beqb p_ch cSTAR then star tt
              else if beqb p_ch cLBR then
                match m_bracket cf t_ch p1 with
                | None => AbortAll
                | Some (ok, p') =>
                    if negb ok || (pn && beqb t_ch cSLASH) then NoMatch
                    else m_main rec cf pn fuel' (Some cRBR) p' t1
                end
              else if beqb p_ch t_ch then m_main rec cf pn fuel' (Some praw) p1 t1
              else NoMatch
          end
      end
  end.

(* match_recursive with `RECURSION_LIMIT - depth` = [d]; [n] bounds the length of every pattern
   slice (one unit per iteration of the main loop) *)
Fixpoint match_recursive (cf pn : bool) (n d : nat) (p t : bytes) : res :=
  match d with
  | O => RecursionLimitReached
  | S d' => m_main (match_recursive cf pn n d') cf pn n None p t
  end.

Definition RECURSION_LIMIT : nat := 64.

(* gix_glob::wildmatch(pattern, value, mode): cf = IGNORE_CASE, pn = NO_MATCH_SLASH_LITERAL *)
Definition wildmatch (cf pn : bool) (p t : bytes) : bool :=
  res_eqb (match_recursive cf pn (S (length p)) RECURSION_LIMIT p t) Match.

(* ---- parse::pattern(pat, may_alter = false) and Pattern::matches ----------------------------- *)

Record pattern := { ptext : bytes; pmode : N; pfwp : option nat }.
Definition NO_SUB_DIR : N := 1.
Definition ENDS_WITH : N := 2.
Definition MUST_BE_DIR : N := 4.
Definition ABSOLUTE : N := 16.

Fixpoint find_byteset (f : byte -> bool) (l : bytes) : option nat :=
  match l with
  | [] => None
  | c :: r => if f c then Some O else option_map S (find_byteset f r)
  end.
Definition first_wildcard_pos (l : bytes) : option nat := find_byteset glob_char l.

Definition NEGATIVE : N := 8.

(* parse::pattern after the `may_alter` block: [m0] is the mode so far *)
Definition parse_tail (m0 : N) (pat0 : bytes) : option pattern :=
  if forallb is_whitespace pat0 then None
  else
    let '(m1, pat1) := match pat0 with
                       | c :: r => if beqb c cSLASH then (m0 + ABSOLUTE, r) else (m0, pat0)
                       | [] => (m0, pat0)
                       end in
    let '(m2, pat2) := match pat1 with
                       | [] => (m1, pat1)
                       | _ => if beqb (last_byte pat1) cSLASH then (m1 + MUST_BE_DIR, removelast pat1)
                              else (m1, pat1)
                       end in
    let m3 := if has_slash pat2 then m2 else m2 + NO_SUB_DIR in
    let m4 := match pat2 with
              | c :: r => if beqb c cSTAR && match first_wildcard_pos r with None => true | Some _ => false end
                          then m3 + ENDS_WITH else m3
              | [] => m3
              end in
    Some {| ptext := pat2; pmode := m4; pfwp := first_wildcard_pos pat2 |}.

(* parse::pattern(pat, may_alter) *)
Definition parse_pattern (may_alter : bool) (pat : bytes) : option pattern :=
  match pat with
  | [] => None
  | c :: r =>
      if may_alter then
        if beqb c cBANG then parse_tail NEGATIVE r
        else if beqb c cBSL then
          match r with
          | s :: _ => if beqb s cBANG || beqb s x23 then parse_tail 0 r else parse_tail 0 pat
          | [] => parse_tail 0 pat
          end
        else parse_tail 0 pat
      else parse_tail 0 pat
  end.

Definition has_flag (m f : N) : bool := negb (N.eqb (N.land m f) 0).

Fixpoint eq_ignore_case (a b : bytes) : bool :=
  match a, b with
  | [], [] => true
  | x :: a', y :: b' => beqb (to_lower x) (to_lower y) && eq_ignore_case a' b'
  | _, _ => false
  end.

Fixpoint starts_with (v pre : bytes) : bool :=
  match pre, v with
  | [], _ => true
  | x :: pre', y :: v' => beqb x y && starts_with v' pre'
  | _ :: _, [] => false
  end.

(* Pattern::matches(value, mode) *)
Definition pattern_matches (pt : pattern) (cf pn : bool) (value : bytes) : bool :=
  match pfwp pt with
  | Some pos =>
      if has_flag (pmode pt) ENDS_WITH && (negb pn || negb (has_slash value)) then
        let text := skipn (S pos) (ptext pt) in
        if Nat.ltb (length value) (length text) then false
        else
          let tail := skipn (length value - length text) value in
          if cf then eq_ignore_case text tail else bytes_eqb tail text
      else
        let pre := firstn pos (ptext pt) in
        if (if cf then
              if Nat.ltb (length value) pos then false else eq_ignore_case (firstn pos value) pre
            else starts_with value pre)
        then wildmatch cf pn (ptext pt) value
        else false
  | None => if cf then eq_ignore_case (ptext pt) value else bytes_eqb (ptext pt) value
  end.
