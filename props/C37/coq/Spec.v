(* C37 — specification: git 2.39.5 dir.c, transcribed:
     add_patterns / add_patterns_from_buffer (LF appended to the buffer, UTF-8 BOM, CR before LF, '#',
     C strings end at the first NUL), trim_trailing_spaces, parse_path_pattern (simple_length, no_wildcard),
     match_basename, match_pathname, last_matching_pattern_from_list(s), prep_exclude and
     last_matching_pattern (the walk over the leading directories that stops at the first excluded one).
   The wildmatch function is a parameter [wm cf pn pattern text] of everything that matches, so that
   the theorems can speak about the decision procedure "modulo wildmatch"; `run ("spec" …)` instantiates
   it with the transcription of wildmatch.c (GitWild.v), and that is what is compared with the real
   `git check-ignore -v -n -z --no-index --stdin`.
   Pattern lists are in priority order like in Model.v.  No proofs in this file. *)
From GixV.Base Require Import Bytes.
From GixV.C37 Require Import Wild Model.
Local Open Scope N_scope.

Definition G_NODIR : N := 1.
Definition G_ENDSWITH : N := 4.
Definition G_MUSTBEDIR : N := 8.
Definition G_NEGATIVE : N := 16.

(* struct path_pattern: [gtext] is pattern[0..patternlen) *)
Record gpat := { gtext : bytes; gnw : nat; gflags : N; gline : N }.

(* static void trim_trailing_spaces(char *buf); [pos] is p - buf *)
Fixpoint g_trim_scan (l : bytes) (pos : nat) (last_space : option nat) : option (option nat) :=
  match l with
  | [] => Some last_space
  | c :: r =>
      if beqb c cSP then
        g_trim_scan r (S pos) (match last_space with Some p => Some p | None => Some pos end)
      else if beqb c cBSL then
        match r with
        | [] => None                                   (* p++; if (!*p) return; *)
        | _ :: r' => g_trim_scan r' (S (S pos)) None     (* fallthrough: last_space = NULL *)
        end
      else g_trim_scan r (S pos) None
  end.

Definition g_trim_trailing_spaces (l : bytes) : bytes :=
  match g_trim_scan l 0 None with
  | Some (Some p) => firstn p l
  | _ => l
  end.

(* simple_length: bytes before the first glob special (is_glob_special = * ? [ \) *)
Fixpoint simple_length (l : bytes) : nat :=
  match l with
  | [] => O
  | c :: r => if glob_char c then O else S (simple_length r)
  end.

(* no_wildcard(s): s[simple_length(s)] == '\0' *)
Definition no_wildcard (l : bytes) : bool := Nat.eqb (simple_length l) (length l).

(* parse_path_pattern + the copy made by add_pattern *)
Definition g_parse_pattern (s : bytes) (line : N) : gpat :=
  let '(f0, p) := match s with
                  | c :: r => if beqb c cBANG then (G_NEGATIVE, r) else (0, s)
                  | [] => (0, s)
                  end in
  let '(f1, body) := match p with
                     | [] => (f0, p)
                     | _ => if beqb (last_byte p) cSLASH then (f0 + G_MUSTBEDIR, removelast p) else (f0, p)
                     end in
  let f2 := if has_slash body then f1 else f1 + G_NODIR in
  let nw := Nat.min (simple_length p) (length body) in
  let f3 := match p with
            | c :: r => if beqb c cSTAR && no_wildcard r then f2 + G_ENDSWITH else f2
            | [] => f2
            end in
  {| gtext := body; gnw := nw; gflags := f3; gline := line |}.

(* the segments of the buffer that end in LF *)
Fixpoint g_split (acc : bytes) (l : bytes) : list bytes :=
  match l with
  | [] => []
  | c :: r => if beqb c cLF then rev acc :: g_split [] r else g_split (c :: acc) r
  end.

Fixpoint take_cstr (l : bytes) : bytes :=
  match l with
  | [] => []
  | c :: r => if beqb c x00 then [] else c :: take_cstr r
  end.

Fixpoint g_entries (n : N) (segs : list bytes) : list gpat :=
  match segs with
  | [] => []
  | seg :: r =>
      match seg with
      | [] => g_entries (n + 1) r                                  (* entry == buf + i *)
      | first :: _ =>
          if beqb first cHASH then g_entries (n + 1) r
          else
            let e := if beqb (last_byte seg) cCR then removelast seg else seg in
            g_parse_pattern (g_trim_trailing_spaces (take_cstr e)) n :: g_entries (n + 1) r
      end
  end.

(* add_patterns + add_patterns_from_buffer *)
Definition g_parse_file (content : bytes) : list gpat :=
  match content with
  | [] => []                                                      (* if (size == 0) return 0; *)
  | _ => g_entries 1 (g_split [] (skip_bom (content ++ [cLF])))    (* buf[size++] = '\n'; skip_utf8_bom *)
  end.

Record glist := { gsrc : bytes; gbase : bytes (* "" or "dir/" *); gpats : list gpat }.

Section Match.
  Variable wm : bool -> bool -> bytes -> bytes -> bool.   (* wm cf pn pattern text; cf = ignore_case *)
  Variable cf : bool.

  (* fspathncmp(a, b, n) == 0 for strings of at least n bytes *)
  Definition fspath_eq (a b : bytes) : bool := if cf then eq_ignore_case a b else bytes_eqb a b.

  Definition g_match_basename (basename : bytes) (p : gpat) : bool :=
    let pattern := gtext p in
    if Nat.eqb (gnw p) (length pattern) then
      Nat.eqb (length pattern) (length basename) && fspath_eq pattern basename
    else if has_flag (gflags p) G_ENDSWITH then
      Nat.leb (length pattern - 1) (length basename) &&
      fspath_eq (tl pattern) (skipn (length basename - (length pattern - 1)) basename)
    else wm cf false pattern basename.

  (* [base] = "" or "dir/"; baselen of the C code = length base - 1 *)
  Definition g_match_pathname (pathname base : bytes) (p : gpat) : bool :=
    let '(pattern, prefix) :=
      match gtext p with
      | c :: r => if beqb c cSLASH then (r, (gnw p - 1)%nat) else (gtext p, gnw p)
      | [] => (gtext p, gnw p)
      end in
    let baselen := (length base - 1)%nat in
    if Nat.ltb (length pathname) (baselen + 1) then false
    else if negb (Nat.eqb baselen 0) && negb (beqb (nth baselen pathname x00) cSLASH) then false
    else if negb (fspath_eq (firstn baselen pathname) (firstn baselen base)) then false
    else
      let name := if Nat.eqb baselen 0 then pathname else skipn (baselen + 1) pathname in
      if Nat.eqb prefix 0 then wm cf true pattern name
      else if Nat.ltb (length name) prefix then false
      else if negb (fspath_eq (firstn prefix pattern) (firstn prefix name)) then false
      else
        let pattern' := skipn prefix pattern in
        let name' := skipn prefix name in
        match pattern', name' with
        | [], [] => true
        | _, _ => wm cf true pattern' name'
        end.

  (* last_matching_pattern_from_list; [basename] = pathname from the last slash on *)
  Definition g_pattern_matches (l : glist) (pathname basename : bytes) (is_dir : bool) (p : gpat) : bool :=
    if has_flag (gflags p) G_MUSTBEDIR && negb is_dir then false
    else if has_flag (gflags p) G_NODIR then g_match_basename basename p
    else g_match_pathname pathname (gbase l) p.

  Definition g_from_list (l : glist) (pathname basename : bytes) (is_dir : bool) : option gpat :=
    find (g_pattern_matches l pathname basename is_dir) (rev (gpats l)).

  Definition g_basename (pathname : bytes) : bytes :=
    skipn (match basename_pos pathname with Some p => p | None => O end) pathname.

  (* last_matching_pattern_from_lists over the per-directory group, then the file group *)
  Fixpoint g_from_lists (lists : list glist) (pathname : bytes) (is_dir : bool) : option (glist * gpat) :=
    match lists with
    | [] => None
    | l :: r =>
        match g_from_list l pathname (g_basename pathname) is_dir with
        | Some p => Some (l, p)
        | None => g_from_lists r pathname is_dir
        end
    end.

  Definition g_groups (globals stack : list glist) (pathname : bytes) (is_dir : bool) : option (glist * gpat) :=
    match g_from_lists stack pathname is_dir with
    | Some r => Some r
    | None => g_from_lists globals pathname is_dir
    end.
End Match.

Definition g_negative (r : glist * gpat) : bool := has_flag (gflags (snd r)) G_NEGATIVE.

(* ---- prep_exclude + last_matching_pattern, generic in the matcher like Model.Walk ------------ *)
Section GitWalk.
  Variable L R : Type.
  Variable load : bytes -> L.
  Variable M : list L -> bytes -> bool -> option R.
  Variable neg : R -> bool.

  (* the loop of prep_exclude over the leading directories not yet on the exclude stack: a directory
     that is excluded (matched by a non-negative pattern, with dtype DT_DIR) ends the walk, its
     pattern (dir->pattern) is the answer for everything below; otherwise its ignore file is read *)
  Fixpoint git_walk (dirs : list bytes) (stack : list L) (path : bytes) (is_dir : bool) : option R :=
    match dirs with
    | [] => M stack path is_dir
    | d :: r =>
        match M stack d true with
        | Some m => if neg m then git_walk r (load d :: stack) path is_dir else Some m
        | None => git_walk r (load d :: stack) path is_dir
        end
    end.

  (* the top level is never checked itself (`if (stk->baselen)`) *)
  Definition git_query (dirs : list bytes) (path : bytes) (is_dir : bool) : option R :=
    git_walk dirs [load []] path is_dir.
End GitWalk.

Definition g_dir_list (fs : files) (dir : bytes) : glist :=
  {| gsrc := cD :: dir;
     gbase := match dir with [] => [] | _ => dir ++ [cSLASH] end;
     gpats := match lookup fs (cD :: dir) with Some c => g_parse_file c | None => [] end |}.

(* setup_standard_excludes: core.excludesFile, then $GIT_DIR/info/exclude; the later one wins *)
Definition g_global_lists (fs : files) : list glist :=
  (match lookup fs (bs "I") with
   | Some c => [{| gsrc := bs "I"; gbase := []; gpats := g_parse_file c |}]
   | None => []
   end) ++
  (match lookup fs (bs "X") with
   | Some c => [{| gsrc := bs "X"; gbase := []; gpats := g_parse_file c |}]
   | None => []
   end).

Definition git_ignore_query (wm : bool -> bool -> bytes -> bytes -> bool) (cf : bool) (fs : files)
  (path : bytes) (is_dir : bool) : option (glist * gpat) :=
  git_query glist (glist * gpat) (g_dir_list fs) (g_groups wm cf (g_global_lists fs)) g_negative
            (leading_dirs [] path) path is_dir.
