(* C37 — the shortcuts of Pattern::matches are what wildmatch computes.  The no-wildcard and literal-prefix
   parts are copied from props/C36/coq/ProofsShortcut.v (parse_fwp adapted to may_alter); the `*literal`
   suffix shortcut (ENDS_WITH) is new here. *)
From Coq Require Import Lia.
From GixV.Base Require Import Bytes BytesFacts.
From GixV.C37 Require Import Wild GitWild ProofsBytes.

Lemma glob_char_false c : glob_char c = false ->
  beqb c cSTAR = false /\ beqb c cQM = false /\ beqb c cLBR = false /\ beqb c cBSL = false.
Proof.
  unfold glob_char. intros H. repeat (apply Bool.orb_false_iff in H; destruct H as [H ?]). tauto.
Qed.

Definition lit_eq (cf : bool) (p t : bytes) : bool := if cf then eq_ignore_case p t else bytes_eqb p t.

Lemma main_literal rec cf pn : forall p fuel prev t,
  forallb (fun c => negb (glob_char c)) p = true -> length p < fuel ->
  res_eqb (m_main rec cf pn fuel prev p t) Match = lit_eq cf p t.
Proof.
  induction p as [|c p1 IH]; intros fuel prev t Hg Hf.
  - destruct fuel as [|fuel]; [cbn [length] in Hf; lia|]. cbn [m_main].
    destruct t; destruct cf; reflexivity.
  - destruct fuel as [|fuel]; [lia|]. cbn [forallb] in Hg. apply Bool.andb_true_iff in Hg.
    destruct Hg as [Hc Hg]. apply Bool.negb_true_iff in Hc. apply glob_char_false in Hc.
    destruct Hc as (H1 & H2 & H3 & H4).
    cbn [m_main]. rewrite !(lc_special cf c) by reflexivity. rewrite H1, H2, H3, H4.
    destruct t as [|x t1]; [destruct cf; reflexivity|].
    cbn [length] in Hf.
    destruct cf; cbn [lc lit_eq eq_ignore_case bytes_eqb].
    + destruct (beqb (to_lower c) (to_lower x)); cbn [andb]; [|reflexivity].
      apply (IH fuel (Some c) t1 Hg). lia.
    + destruct (beqb c x); cbn [andb]; [|reflexivity].
      apply (IH fuel (Some c) t1 Hg). lia.
Qed.

Lemma find_byteset_none f l : find_byteset f l = None -> forallb (fun c => negb (f c)) l = true.
Proof.
  induction l as [|c r IH]; [reflexivity|]. cbn [find_byteset forallb].
  destruct (f c); [discriminate|]. destruct (find_byteset f r); [discriminate|]. intros _. now apply IH.
Qed.

(* a pattern without wildcard position: Pattern::matches compares, and so does wildmatch *)
Lemma L_no_wildcard pt cf pn value :
  pfwp pt = first_wildcard_pos (ptext pt) -> pfwp pt = None ->
  pattern_matches pt cf pn value = wildmatch cf pn (ptext pt) value.
Proof.
  intros Hp Hn. unfold pattern_matches. rewrite Hn. rewrite Hn in Hp. symmetry in Hp.
  apply find_byteset_none in Hp. unfold wildmatch. unfold RECURSION_LIMIT. cbn [match_recursive].
  rewrite (main_literal _ cf pn (ptext pt) (S (length (ptext pt))) None value Hp) by lia.
  reflexivity.
Qed.

Lemma parse_tail_fwp (m0 : N) pat0 pt :
  parse_tail m0 pat0 = Some pt -> pfwp pt = first_wildcard_pos (ptext pt).
Proof.
  unfold parse_tail.
  destruct (forallb is_whitespace pat0); [discriminate|].
  destruct pat0 as [|c0 r0].
  - intros H. inversion H; subst. reflexivity.
  - destruct (beqb c0 cSLASH).
    + destruct r0 as [|a b].
      * intros H. inversion H; subst. reflexivity.
      * destruct (beqb (last_byte (a :: b)) cSLASH); intros H; inversion H; subst; reflexivity.
    + destruct (beqb (last_byte (c0 :: r0)) cSLASH); intros H; inversion H; subst; reflexivity.
Qed.

Lemma parse_fwp may_alter pat pt :
  parse_pattern may_alter pat = Some pt -> pfwp pt = first_wildcard_pos (ptext pt).
Proof.
  unfold parse_pattern. destruct pat as [|c0 r0]; [discriminate|].
  destruct may_alter; [|apply parse_tail_fwp].
  destruct (beqb c0 cBANG); [apply parse_tail_fwp|].
  destruct (beqb c0 cBSL); [|apply parse_tail_fwp].
  destruct r0 as [|s r1]; [apply parse_tail_fwp|].
  destruct (beqb s cBANG || beqb s x23); apply parse_tail_fwp.
Qed.

(* ---- the literal-prefix test is implied by a match ---- *)
Definition prefix_test (cf : bool) (value pre : bytes) : bool :=
  if cf then
    if Nat.ltb (length value) (length pre) then false else eq_ignore_case (firstn (length pre) value) pre
  else starts_with value pre.

Lemma res_eqb_Match r : res_eqb r Match = true -> r = Match.
Proof. destruct r; cbn [res_eqb]; intros H; try discriminate H; reflexivity. Qed.

Lemma main_prefix rec cf pn rest : forall pre fuel prev t,
  forallb (fun c => negb (glob_char c)) pre = true ->
  m_main rec cf pn fuel prev (pre ++ rest) t = Match -> prefix_test cf t pre = true.
Proof.
  induction pre as [|c pre' IH]; intros fuel prev t Hg HM.
  - unfold prefix_test. destruct cf; [|destruct t; reflexivity]. cbn [length firstn]. reflexivity.
  - destruct fuel as [|fuel]; [discriminate HM|].
    cbn [forallb] in Hg. apply Bool.andb_true_iff in Hg. destruct Hg as [Hc Hg].
    apply Bool.negb_true_iff in Hc. apply glob_char_false in Hc. destruct Hc as (H1 & H2 & H3 & H4).
    cbn [app m_main] in HM. rewrite !(lc_special cf c) in HM by reflexivity. rewrite H1, H2, H3, H4 in HM.
    destruct t as [|x t1]; [discriminate HM|].
    destruct (beqb (lc cf c) (lc cf x)) eqn:E; [|discriminate HM].
    specialize (IH fuel (Some c) t1 Hg HM).
    unfold prefix_test in *. destruct cf; cbn [lc] in E.
    + cbn [length firstn eq_ignore_case]. change (Nat.ltb (S (length t1)) (S (length pre'))) with (Nat.ltb (length t1) (length pre')).
      destruct (Nat.ltb (length t1) (length pre')); [discriminate IH|].
      rewrite (beqb_sym (to_lower x) (to_lower c)), E. exact IH.
    + cbn [starts_with]. rewrite E. exact IH.
Qed.

Lemma find_byteset_some f : forall l pos, find_byteset f l = Some pos ->
  forallb (fun c => negb (f c)) (firstn pos l) = true /\ length (firstn pos l) = pos.
Proof.
  induction l as [|c r IH]; intros pos H; [discriminate|]. cbn [find_byteset] in H.
  destruct (f c) eqn:Ef.
  - inversion H; subst. split; reflexivity.
  - destruct (find_byteset f r) as [n|] eqn:En; [|discriminate]. inversion H; subst.
    destruct (IH n eq_refl) as [A Bn]. cbn [firstn forallb length]. rewrite Ef, A, Bn. split; reflexivity.
Qed.

(* a pattern with a wildcard that does not take the `*literal` shortcut: the literal-prefix test
   never rejects a value wildmatch accepts *)
Lemma L_prefix_shortcut pt cf pn value pos :
  pfwp pt = first_wildcard_pos (ptext pt) -> pfwp pt = Some pos ->
  has_flag (pmode pt) ENDS_WITH && (negb pn || negb (has_slash value)) = false ->
  pattern_matches pt cf pn value = wildmatch cf pn (ptext pt) value.
Proof.
  intros Hp Hs Hc. unfold pattern_matches. rewrite Hs, Hc. rewrite Hs in Hp. symmetry in Hp.
  apply find_byteset_some in Hp. destruct Hp as [Hg Hlen].
  destruct (wildmatch cf pn (ptext pt) value) eqn:W.
  2:{ destruct (if cf then _ else _); reflexivity. }
  unfold wildmatch in W. apply res_eqb_Match in W. unfold RECURSION_LIMIT in W. cbn [match_recursive] in W.
  rewrite <- (firstn_skipn pos (ptext pt)) in W at 2.
  apply main_prefix in W; [|exact Hg]. unfold prefix_test in W. rewrite Hlen in W. rewrite W. reflexivity.
Qed.
