(* C37 — the `*literal` shortcut of Pattern::matches (ENDS_WITH): wildmatch of `*` followed by literal
   bytes against a value in which `*` may match everything (no NO_MATCH_SLASH_LITERAL, or no slash in the
   value) is the suffix comparison. *)
From Coq Require Import List Bool Lia.
Import ListNotations.
From GixV.Base Require Import Bytes BytesFacts.
From GixV.C37 Require Import Wild GitWild ProofsBytes ProofsShortcut.

Definition literal (l : bytes) : Prop := forallb (fun c => negb (glob_char c)) l = true.

Lemma glob_char_lc cf c : glob_char (lc cf c) = glob_char c.
Proof.
  unfold glob_char. rewrite !(lc_special cf c) by reflexivity. reflexivity.
Qed.

(* a literal pattern: Match, NoMatch, or AbortAll when the text ran out first *)
Lemma main_literal_kinds rec cf pn : forall p fuel prev t,
  literal p -> length p < fuel ->
  m_main rec cf pn fuel prev p t = Match \/ m_main rec cf pn fuel prev p t = NoMatch \/
  (m_main rec cf pn fuel prev p t = AbortAll /\ length t < length p).
Proof.
  induction p as [|c p1 IH]; intros fuel prev t Hg Hf.
  - destruct fuel as [|fuel]; [cbn [length] in Hf; lia|]. cbn [m_main]. destruct t; auto.
  - destruct fuel as [|fuel]; [lia|]. unfold literal in Hg. cbn [forallb] in Hg.
    apply andb_true_iff in Hg. destruct Hg as [Hc Hg].
    apply negb_true_iff in Hc. apply glob_char_false in Hc. destruct Hc as (H1 & H2 & H3 & H4).
    cbn [m_main]. rewrite !(lc_special cf c) by reflexivity. rewrite H1, H2, H3, H4.
    destruct t as [|x t1].
    + right; right. split; [reflexivity|cbn [length]; lia].
    + destruct (beqb (lc cf c) (lc cf x)); [|auto].
      cbn [length] in Hf. destruct (IH fuel (Some c) t1 Hg ltac:(lia)) as [E|[E|[E Hl]]]; rewrite E; auto.
      right; right. split; [reflexivity|cbn [length]; lia].
Qed.

Fixpoint any_suffix (f : bytes -> bool) (t : bytes) : bool :=
  match t with
  | [] => false
  | c :: r => f t || any_suffix f r
  end.

Lemma lit_eq_length cf : forall a b, lit_eq cf a b = true -> length a = length b.
Proof.
  induction a as [|x a IH]; intros b H; destruct b as [|y b]; destruct cf; cbn in H; try discriminate; try reflexivity;
    apply andb_true_iff in H; destruct H as [_ H]; cbn [length]; f_equal; apply IH;
    unfold lit_eq; exact H.
Qed.

Lemma any_suffix_short cf lit : forall t, length t < length lit -> any_suffix (lit_eq cf lit) t = false.
Proof.
  induction t as [|c r IH]; intros Hl; [reflexivity|]. cbn [any_suffix].
  rewrite IH by (cbn [length] in Hl; lia).
  destruct (lit_eq cf lit (c :: r)) eqn:E; [|reflexivity].
  apply lit_eq_length in E. lia.
Qed.

Lemma has_slash_cons c r : has_slash (c :: r) = false -> beqb c cSLASH = false /\ has_slash r = false.
Proof. unfold has_slash. cbn [existsb]. intros H. apply orb_false_iff in H. exact H. Qed.

Section StarLit.
  Variables (cf ms : bool) (R : bytes -> res) (c : byte) (r : bytes).
  Let lit := c :: r.
  Hypothesis Hc : glob_char c = false.
  Hypothesis Rkinds : forall t', R t' = Match \/ R t' = NoMatch \/ (R t' = AbortAll /\ length t' < length lit).
  Hypothesis Req : forall t', res_eqb (R t') Match = lit_eq cf lit t'.

  Lemma first_differs c0 rest : beqb (lc cf c0) (lc cf c) = false -> lit_eq cf lit (c0 :: rest) = false.
  Proof.
    intros H. rewrite beqb_sym in H. unfold lit, lit_eq. destruct cf; cbn [lc] in H;
      cbn [eq_ignore_case bytes_eqb]; rewrite H; reflexivity.
  Qed.

  Lemma star_ne_lit : forall rest c0,
    (ms = true \/ has_slash (c0 :: rest) = false) ->
    res_eqb (m_star_ne cf ms (lc cf c) R c0 rest) Match = any_suffix (lit_eq cf lit) (c0 :: rest).
  Proof.
    induction rest as [|c' rest' IH]; intros c0 Hs.
    - cbn [m_star_ne any_suffix]. rewrite glob_char_lc, Hc. cbn [negb].
      assert (negb ms && beqb (lc cf c0) cSLASH = false) as A.
      { destruct Hs as [->|Hs]; [reflexivity|]. apply has_slash_cons in Hs. destruct Hs as [Hs _].
        rewrite (lc_special cf c0 cSLASH eq_refl), Hs. apply andb_false_r. }
      rewrite A. cbn [orb]. rewrite orb_false_r.
      destruct (beqb (lc cf c0) (lc cf c)) eqn:E.
      + unfold star_after. rewrite A.
        destruct (Rkinds [c0]) as [K|[K|[K Hl]]]; rewrite <- (Req [c0]); rewrite K; cbn [res_eqb negb];
          try rewrite orb_true_r; reflexivity.
      + rewrite (first_differs c0 [] E). reflexivity.
    - cbn [m_star_ne any_suffix]. rewrite glob_char_lc, Hc. cbn [negb].
      assert (negb ms && beqb (lc cf c0) cSLASH = false) as A.
      { destruct Hs as [->|Hs]; [reflexivity|]. apply has_slash_cons in Hs. destruct Hs as [Hs _].
        rewrite (lc_special cf c0 cSLASH eq_refl), Hs. apply andb_false_r. }
      assert (ms = true \/ has_slash (c' :: rest') = false) as Hs'.
      { destruct Hs as [Hs|Hs]; [left; exact Hs|right]. apply has_slash_cons in Hs. apply Hs. }
      specialize (IH c' Hs'). cbn [any_suffix] in IH.
      rewrite A. cbn [orb].
      destruct (beqb (lc cf c0) (lc cf c)) eqn:E.
      + unfold star_after. rewrite A.
        destruct (Rkinds (c0 :: c' :: rest')) as [K|[K|[K Hl]]]; rewrite <- (Req (c0 :: c' :: rest')); rewrite K;
          cbn [res_eqb negb orb].
        * rewrite orb_true_r. reflexivity.
        * exact IH.
        * rewrite orb_true_r. cbn [res_eqb].
          symmetry. change (lit_eq cf lit (c' :: rest') || any_suffix (lit_eq cf lit) rest')
            with (any_suffix (lit_eq cf lit) (c' :: rest')).
          apply any_suffix_short. cbn [length] in *. lia.
      + rewrite (first_differs c0 (c' :: rest') E). cbn [orb]. exact IH.
  Qed.
End StarLit.

Lemma any_suffix_noslash cf c r : beqb c cSLASH = true ->
  forall v, has_slash v = false -> any_suffix (lit_eq cf (c :: r)) v = false.
Proof.
  intros Hc. apply beqb_eq in Hc. subst c.
  induction v as [|x v IH]; intros Hs; [reflexivity|]. apply has_slash_cons in Hs. destruct Hs as [Hx Hv].
  cbn [any_suffix]. rewrite (IH Hv). rewrite orb_false_r.
  unfold lit_eq. destruct cf; cbn [eq_ignore_case bytes_eqb].
  - change (to_lower cSLASH) with cSLASH. rewrite beqb_sym.
    change (to_lower x) with (lc true x). rewrite (lc_special true x cSLASH eq_refl), Hx. reflexivity.
  - rewrite beqb_sym, Hx. reflexivity.
Qed.

Lemma after_slash_none : forall v, has_slash v = false -> after_slash v = None.
Proof.
  induction v as [|x v IH]; intros H; [reflexivity|]. apply has_slash_cons in H. destruct H as [Hx Hv].
  cbn [after_slash]. rewrite Hx. apply IH, Hv.
Qed.

Lemma lit_eq_nil cf c r : lit_eq cf (c :: r) [] = false.
Proof. destruct cf; reflexivity. Qed.

(* the star arm of the main loop for `*` + literal, for any `rec` that evaluates the literal *)
Lemma main_star_literal rec cf pn c r fuel v :
  glob_char c = false ->
  (forall t', rec (c :: r) t' = Match \/ rec (c :: r) t' = NoMatch \/
              (rec (c :: r) t' = AbortAll /\ length t' < length (c :: r))) ->
  (forall t', res_eqb (rec (c :: r) t') Match = lit_eq cf (c :: r) t') ->
  (pn = false \/ has_slash v = false) ->
  res_eqb (m_main rec cf pn (S fuel) None (cSTAR :: c :: r) v) Match = any_suffix (lit_eq cf (c :: r)) v.
Proof.
  intros Hc Rk Re Hs. pose proof (glob_char_false c Hc) as (H1 & H2 & H3 & H4).
  assert (res_eqb (match m_star rec cf pn None (c :: r) v with
                   | Done x => x
                   | Cont pv p' t' => m_main rec cf pn fuel pv p' t'
                   end) Match = any_suffix (lit_eq cf (c :: r)) v) as Star.
  { cbn [m_star]. rewrite (lc_special cf c cSTAR eq_refl), H1. cbn [m_go].
    rewrite (lc_special cf c cSLASH eq_refl), negb_involutive.
    destruct (pn && beqb c cSLASH) eqn:Esl.
    - apply andb_true_iff in Esl. destruct Esl as [Ep Ec]. subst pn.
      destruct Hs as [Hs|Hs]; [discriminate|]. rewrite (after_slash_none v Hs). cbn [res_eqb].
      symmetry. now apply any_suffix_noslash.
    - assert (negb pn = true \/ has_slash v = false) as Hs'.
      { destruct Hs as [->|Hs]; [left; reflexivity|right; exact Hs]. }
      destruct v as [|c0 rest]; cbn [m_star_loop].
      + unfold m_star_end. rewrite glob_char_lc, Hc. cbn [negb andb any_suffix].
        destruct (negb (beqb x00 (lc cf c))); [reflexivity|].
        unfold star_after. change (beqb x00 cSLASH) with false. rewrite andb_false_r.
        destruct (Rk []) as [K|[K|[K _]]].
        * pose proof (Re []) as E. rewrite K, lit_eq_nil in E. discriminate E.
        * rewrite K. reflexivity.
        * rewrite K. cbn [res_eqb negb]. rewrite orb_true_r. reflexivity.
      + apply (star_ne_lit cf (negb pn) (rec (c :: r)) c r Hc Rk Re rest c0 Hs'). }
  cbn [m_main]. rewrite !(lc_special cf cSTAR) by reflexivity.
  change (beqb cSTAR cSTAR) with true. change (beqb cSTAR cBSL) with false. change (beqb cSTAR cQM) with false.
  destruct v as [|traw t1]; exact Star.
Qed.

Lemma mr_step cf pn n d p t :
  match_recursive cf pn n (S d) p t = m_main (match_recursive cf pn n d) cf pn n None p t.
Proof. reflexivity. Qed.

Lemma wildmatch_star_literal cf pn c r v :
  literal (c :: r) -> (pn = false \/ has_slash v = false) ->
  wildmatch cf pn (cSTAR :: c :: r) v = any_suffix (lit_eq cf (c :: r)) v.
Proof.
  intros Hl Hs. pose proof Hl as Hl'. unfold literal in Hl'. cbn [forallb] in Hl'.
  apply andb_true_iff in Hl'. destruct Hl' as [Hc Hr]. apply negb_true_iff in Hc.
  unfold wildmatch, RECURSION_LIMIT.
  change 64%nat with (S 63). rewrite mr_step.
  apply main_star_literal; try assumption.
  - intros t'. change 63%nat with (S 62). rewrite mr_step.
    apply main_literal_kinds; [exact Hl|cbn [length]; lia].
  - intros t'. change 63%nat with (S 62). rewrite mr_step.
    apply main_literal; [exact Hl|cbn [length]; lia].
Qed.

Lemma wildmatch_star_alone cf pn v :
  (pn = false \/ has_slash v = false) -> wildmatch cf pn [cSTAR] v = true.
Proof.
  intros Hs. unfold wildmatch, RECURSION_LIMIT.
  change 64%nat with (S 63). rewrite mr_step.
  generalize (match_recursive cf pn (S (length [cSTAR])) 63). intros rec.
  cbn [length m_main].
  rewrite !(lc_special cf cSTAR) by reflexivity.
  change (beqb cSTAR cSTAR) with true. change (beqb cSTAR cBSL) with false. change (beqb cSTAR cQM) with false.
  assert (res_eqb (match m_star rec cf pn None [] v with
                   | Done x => x
                   | Cont pv p' t' => m_main rec cf pn 1 pv p' t'
                   end) Match = true) as Star.
  { cbn [m_star m_go]. rewrite negb_involutive.
    destruct Hs as [->|Hs]; [reflexivity|]. rewrite Hs, andb_false_r. reflexivity. }
  destruct v; exact Star.
Qed.

(* ---- the suffix comparison of Pattern::matches ------------------------------------------------ *)
Lemma bytes_eqb_sym a b : bytes_eqb a b = bytes_eqb b a.
Proof.
  destruct (bytes_eqb a b) eqn:E1; destruct (bytes_eqb b a) eqn:E2; try reflexivity.
  - apply bytes_eqb_eq in E1. subst. assert (bytes_eqb b b = true) by now apply bytes_eqb_eq. congruence.
  - apply bytes_eqb_eq in E2. subst. assert (bytes_eqb a a = true) by now apply bytes_eqb_eq. congruence.
Qed.

Definition suffix_cmp (cf : bool) (lit tail : bytes) : bool :=
  if cf then eq_ignore_case lit tail else bytes_eqb tail lit.

Lemma suffix_cmp_lit_eq cf lit t : suffix_cmp cf lit t = lit_eq cf lit t.
Proof. unfold suffix_cmp, lit_eq. destruct cf; [reflexivity|apply bytes_eqb_sym]. Qed.

Lemma suffix_test cf c r : forall v,
  (if Nat.ltb (length v) (length (c :: r)) then false
   else suffix_cmp cf (c :: r) (skipn (length v - length (c :: r)) v)) = any_suffix (lit_eq cf (c :: r)) v.
Proof.
  induction v as [|x v IH]; [reflexivity|].
  cbn [any_suffix].
  destruct (Nat.ltb (length (x :: v)) (length (c :: r))) eqn:E1.
  - apply PeanoNat.Nat.ltb_lt in E1. symmetry.
    change (lit_eq cf (c :: r) (x :: v) || any_suffix (lit_eq cf (c :: r)) v)
      with (any_suffix (lit_eq cf (c :: r)) (x :: v)).
    now apply any_suffix_short.
  - apply PeanoNat.Nat.ltb_ge in E1.
    destruct (PeanoNat.Nat.eq_dec (length (x :: v)) (length (c :: r))) as [El|Hn].
    + rewrite El, PeanoNat.Nat.sub_diag. cbn [skipn]. rewrite suffix_cmp_lit_eq.
      rewrite (any_suffix_short cf (c :: r) v) by (cbn [length] in *; lia). rewrite orb_false_r. reflexivity.
    + assert (lit_eq cf (c :: r) (x :: v) = false) as F.
      { destruct (lit_eq cf (c :: r) (x :: v)) eqn:F; [|reflexivity]. apply lit_eq_length in F. congruence. }
      rewrite F. cbn [orb]. rewrite <- IH.
      assert (Nat.ltb (length v) (length (c :: r)) = false) as E2.
      { apply PeanoNat.Nat.ltb_ge. cbn [length] in *. lia. }
      rewrite E2.
      replace (length (x :: v) - length (c :: r)) with (S (length v - length (c :: r))) by (cbn [length] in *; lia).
      reflexivity.
Qed.

(* shortcut_sound, third part: the `*literal` shortcut is wildmatch on the full text *)
Lemma L_ends_with pt cf pn value lit :
  ptext pt = cSTAR :: lit -> literal lit -> pfwp pt = Some O ->
  has_flag (pmode pt) ENDS_WITH && (negb pn || negb (has_slash value)) = true ->
  pattern_matches pt cf pn value = wildmatch cf pn (ptext pt) value.
Proof.
  intros Ht Hl Hf Hc. unfold pattern_matches. rewrite Hf, Hc, Ht. cbn [skipn].
  assert (pn = false \/ has_slash value = false) as Hs.
  { apply andb_true_iff in Hc. destruct Hc as [_ Hc]. apply orb_true_iff in Hc.
    destruct Hc as [Hc|Hc]; apply negb_true_iff in Hc; auto. }
  destruct lit as [|c r].
  - rewrite (wildmatch_star_alone cf pn value Hs). cbn [length]. rewrite PeanoNat.Nat.sub_0_r, skipn_all.
    destruct cf; reflexivity.
  - rewrite (wildmatch_star_literal cf pn c r value Hl Hs). apply (suffix_test cf c r value).
Qed.

(* a parsed pattern with the ENDS_WITH flag is `*` followed by bytes without wildcard *)
Lemma parse_tail_ends_with m0 pat0 pt :
  (m0 = 0%N \/ m0 = NEGATIVE) -> parse_tail m0 pat0 = Some pt -> has_flag (pmode pt) ENDS_WITH = true ->
  exists lit, ptext pt = cSTAR :: lit /\ literal lit /\ pfwp pt = Some O.
Proof.
  intros Hm. unfold parse_tail. destruct (forallb is_whitespace pat0); [discriminate|].
  set (P1 := match pat0 with
             | c :: r => if beqb c cSLASH then ((m0 + ABSOLUTE)%N, r) else (m0, pat0)
             | [] => (m0, pat0)
             end).
  assert (fst P1 = m0 \/ fst P1 = (m0 + ABSOLUTE)%N) as Hm1.
  { unfold P1. destruct pat0 as [|c r]; [left; reflexivity|]. destruct (beqb c cSLASH); [right|left]; reflexivity. }
  destruct P1 as [m1 pat1]. cbn [fst] in Hm1.
  set (P2 := match pat1 with
             | [] => (m1, pat1)
             | _ :: _ => if beqb (last_byte pat1) cSLASH then ((m1 + MUST_BE_DIR)%N, removelast pat1) else (m1, pat1)
             end).
  assert (fst P2 = m1 \/ fst P2 = (m1 + MUST_BE_DIR)%N) as Hm2.
  { unfold P2. destruct pat1 as [|c r]; [left; reflexivity|].
    destruct (beqb (last_byte (c :: r)) cSLASH); [right|left]; reflexivity. }
  destruct P2 as [m2 pat2]. cbn [fst] in Hm2.
  destruct pat2 as [|c r].
  - intros H; inversion H; subst; clear H. cbn [pmode]. intros F. exfalso.
    destruct Hm as [-> | ->]; destruct Hm1 as [-> | ->]; destruct Hm2 as [-> | ->];
      destruct (has_slash []); vm_compute in F; discriminate F.
  - destruct (beqb c cSTAR && match first_wildcard_pos r with Some _ => false | None => true end) eqn:Cnd.
    + intros H; inversion H; subst; clear H. intros _.
      apply andb_true_iff in Cnd. destruct Cnd as [Hc Hr]. apply beqb_eq in Hc. subst c.
      exists r. cbn [ptext pfwp]. split; [reflexivity|]. split.
      * destruct (first_wildcard_pos r) eqn:E; [discriminate|]. unfold literal. now apply find_byteset_none.
      * reflexivity.
    + intros H; inversion H; subst; clear H. cbn [pmode]. intros F. exfalso.
      cbv beta iota zeta in F. revert F.
      destruct Hm as [-> | ->]; destruct Hm1 as [-> | ->]; destruct Hm2 as [-> | ->];
        destruct (beqb c cSLASH || has_slash r); intros F; vm_compute in F; discriminate F.
Qed.

Lemma parse_ends_with may_alter pat pt :
  parse_pattern may_alter pat = Some pt -> has_flag (pmode pt) ENDS_WITH = true ->
  exists lit, ptext pt = cSTAR :: lit /\ literal lit /\ pfwp pt = Some O.
Proof.
  unfold parse_pattern. destruct pat as [|c0 r0]; [discriminate|].
  destruct may_alter; [|apply parse_tail_ends_with; auto].
  destruct (beqb c0 cBANG); [apply parse_tail_ends_with; auto|].
  destruct (beqb c0 cBSL); [|apply parse_tail_ends_with; auto].
  destruct r0 as [|s r1]; [apply parse_tail_ends_with; auto|].
  destruct (beqb s cBANG || beqb s x23); apply parse_tail_ends_with; auto.
Qed.
