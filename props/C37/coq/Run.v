(* C37 — transcript printer.
   case:  ig <icase 0|1> <k> (<where> <content>){k} <query>*     where = X | I | D<dir>, query = f<path> | d<path>
   model: one token per query: `-` or <src>:<line>:<sign>, src = X | I | D<hex dir>, sign = + | $ | !
   spec : the same for git's last_matching_pattern (dir.c transcription over the wildmatch.c transcription) *)
From GixV.Base Require Import Bytes Outcome.
From GixV.C37 Require Import Wild GitWild Model Spec.

Fixpoint take_files (k : nat) (fs : list bytes) : files * list bytes :=
  match k, fs with
  | S k', w :: c :: r => let '(a, rest) := take_files k' r in ((w, c) :: a, rest)
  | _, _ => ([], fs)
  end.

Definition show_src (src : bytes) : bytes :=
  match src with
  | [] => []
  | [c] => [c]
  | c :: d => c :: hex_encode d
  end.

Definition show_model (r : option (plist * mapping)) : bytes :=
  match r with
  | None => bs "-"
  | Some (l, m) =>
      show_src (lsrc l) ++ bs ":" ++ N_to_dec (mline m) ++ bs ":" ++
      (if is_negative (l, m) then bs "!" else if mprecious m then bs "$" else bs "+")
  end.

Definition show_spec (r : option (glist * gpat)) : bytes :=
  match r with
  | None => bs "-"
  | Some (l, p) =>
      show_src (gsrc l) ++ bs ":" ++ N_to_dec (gline p) ++ bs ":" ++
      (if g_negative (l, p) then bs "!" else bs "+")
  end.

Definition query_dir (q : bytes) : bool := match q with c :: _ => beqb c x64 | [] => false end.

Definition run_with (one : bool -> bytes -> bytes) (qs : list bytes) : bytes :=
  join_sp (map (fun q => one (query_dir q) (tl q)) qs).

Definition run (fs : list bytes) : bytes :=
  match fs with
  | mode :: rest =>
      if bytes_eqb (nth_field 0 rest) (bs "ig") then
        let cf := bytes_eqb (nth_field 1 rest) (bs "1") in
        let '(files, qs) := take_files (N.to_nat (field_N 2 rest)) (skipn 3 rest) in
        if bytes_eqb mode (bs "spec") then
          run_with (fun d p => show_spec (git_ignore_query git_wildmatch cf files p d)) qs
        else
          run_with (fun d p => show_model (ignore_query cf files p d)) qs
      else bs "?"
  | [] => bs "?"
  end.
