//! git 2.39.5 wildmatch.c `dowild`, transcribed statement by statement (copied from props/C36/harness, where it is
//! validated against git). Strings are NUL terminated in C: `at(s, i)` is 0 at and beyond the end.
const WM_NOMATCH: i32 = 1;
const WM_MATCH: i32 = 0;
const WM_ABORT_ALL: i32 = -1;
const WM_ABORT_TO_STARSTAR: i32 = -2;
const WM_CASEFOLD: u32 = 1;
const WM_PATHNAME: u32 = 2;

fn at(s: &[u8], i: usize) -> u8 {
    s.get(i).copied().unwrap_or(0)
}
// git-compat-util.h sane_ctype
fn g_isspace(c: u8) -> bool {
    matches!(c, b' ' | b'\t' | b'\n' | b'\r')
}
fn g_isdigit(c: u8) -> bool {
    c.is_ascii_digit()
}
fn g_isalpha(c: u8) -> bool {
    c.is_ascii_alphabetic()
}
fn g_isalnum(c: u8) -> bool {
    g_isalpha(c) || g_isdigit(c)
}
fn g_isprint(c: u8) -> bool {
    (0x20..=0x7e).contains(&c)
}
fn g_islower(c: u8) -> bool {
    c.is_ascii_lowercase()
}
fn g_isupper(c: u8) -> bool {
    c.is_ascii_uppercase()
}
fn g_iscntrl(c: u8) -> bool {
    c < 0x20 || c == 0x7f
}
fn g_ispunct(c: u8) -> bool {
    matches!(c, 33..=47 | 58..=64 | 91..=96 | 123..=126)
}
fn g_isxdigit(c: u8) -> bool {
    c.is_ascii_hexdigit()
}
fn g_isblank(c: u8) -> bool {
    c == b' ' || c == b'\t'
}
fn g_isgraph(c: u8) -> bool {
    (0x21..=0x7e).contains(&c)
}
pub fn is_glob_special(c: u8) -> bool {
    matches!(c, b'*' | b'?' | b'[' | b'\\')
}
fn strchr_slash(s: &[u8], from: usize) -> Option<usize> {
    (from..s.len()).find(|&i| s[i] == b'/')
}

/// `pat` is the C variable `pattern` (start of this call's pattern), `p`/`text` are indices.
fn dowild(pfull: &[u8], pstart: usize, tfull: &[u8], tstart: usize, flags: u32) -> i32 {
    let mut p = pstart;
    let mut text = tstart;
    let pattern = pstart;
    loop {
        let mut p_ch = at(pfull, p);
        if p_ch == 0 {
            break;
        }
        let mut t_ch = at(tfull, text);
        if t_ch == 0 && p_ch != b'*' {
            return WM_ABORT_ALL;
        }
        if flags & WM_CASEFOLD != 0 && g_isupper(t_ch) {
            t_ch = t_ch.to_ascii_lowercase();
        }
        if flags & WM_CASEFOLD != 0 && g_isupper(p_ch) {
            p_ch = p_ch.to_ascii_lowercase();
        }
        match p_ch {
            b'?' => {
                if flags & WM_PATHNAME != 0 && t_ch == b'/' {
                    return WM_NOMATCH;
                }
            }
            b'*' => {
                let match_slash;
                p += 1;
                if at(pfull, p) == b'*' {
                    let prev_p: isize = p as isize - 2;
                    loop {
                        p += 1;
                        if at(pfull, p) != b'*' {
                            break;
                        }
                    }
                    if flags & WM_PATHNAME == 0 {
                        match_slash = true;
                    } else if (prev_p < pattern as isize || at(pfull, prev_p as usize) == b'/')
                        && (at(pfull, p) == 0
                            || at(pfull, p) == b'/'
                            || (at(pfull, p) == b'\\' && at(pfull, p + 1) == b'/'))
                    {
                        if at(pfull, p) == b'/' && dowild(pfull, p + 1, tfull, text, flags) == WM_MATCH {
                            return WM_MATCH;
                        }
                        match_slash = true;
                    } else {
                        match_slash = false;
                    }
                } else {
                    match_slash = flags & WM_PATHNAME == 0;
                }
                if at(pfull, p) == 0 {
                    if !match_slash && strchr_slash(tfull, text).is_some() {
                        return WM_NOMATCH;
                    }
                    return WM_MATCH;
                } else if !match_slash && at(pfull, p) == b'/' {
                    match strchr_slash(tfull, text) {
                        None => return WM_NOMATCH,
                        Some(s) => text = s,
                    }
                    // break out of the switch: the for loop's increment consumes the slash
                    text += 1;
                    p += 1;
                    continue;
                }
                loop {
                    if t_ch == 0 {
                        break;
                    }
                    if !is_glob_special(at(pfull, p)) {
                        p_ch = at(pfull, p);
                        if flags & WM_CASEFOLD != 0 && g_isupper(p_ch) {
                            p_ch = p_ch.to_ascii_lowercase();
                        }
                        loop {
                            t_ch = at(tfull, text);
                            if !(t_ch != 0 && (match_slash || t_ch != b'/')) {
                                break;
                            }
                            if flags & WM_CASEFOLD != 0 && g_isupper(t_ch) {
                                t_ch = t_ch.to_ascii_lowercase();
                            }
                            if t_ch == p_ch {
                                break;
                            }
                            text += 1;
                        }
                        if t_ch != p_ch {
                            return WM_NOMATCH;
                        }
                    }
                    let matched = dowild(pfull, p, tfull, text, flags);
                    if matched != WM_NOMATCH {
                        if !match_slash || matched != WM_ABORT_TO_STARSTAR {
                            return matched;
                        }
                    } else if !match_slash && t_ch == b'/' {
                        return WM_ABORT_TO_STARSTAR;
                    }
                    text += 1;
                    t_ch = at(tfull, text);
                }
                return WM_ABORT_ALL;
            }
            b'[' => {
                p += 1;
                p_ch = at(pfull, p);
                if p_ch == b'^' {
                    p_ch = b'!';
                }
                let negated = p_ch == b'!';
                if negated {
                    p += 1;
                    p_ch = at(pfull, p);
                }
                let mut prev_ch: u8 = 0;
                let mut matched = false;
                loop {
                    // do { ... } while (prev_ch = p_ch, (p_ch = *++p) != ']');
                    'body: {
                        if p_ch == 0 {
                            return WM_ABORT_ALL;
                        }
                        if p_ch == b'\\' {
                            p += 1;
                            p_ch = at(pfull, p);
                            if p_ch == 0 {
                                return WM_ABORT_ALL;
                            }
                            if t_ch == p_ch {
                                matched = true;
                            }
                        } else if p_ch == b'-' && prev_ch != 0 && at(pfull, p + 1) != 0 && at(pfull, p + 1) != b']' {
                            p += 1;
                            p_ch = at(pfull, p);
                            if p_ch == b'\\' {
                                p += 1;
                                p_ch = at(pfull, p);
                                if p_ch == 0 {
                                    return WM_ABORT_ALL;
                                }
                            }
                            if t_ch <= p_ch && t_ch >= prev_ch {
                                matched = true;
                            } else if flags & WM_CASEFOLD != 0 && g_islower(t_ch) {
                                let t_ch_upper = t_ch.to_ascii_uppercase();
                                if t_ch_upper <= p_ch && t_ch_upper >= prev_ch {
                                    matched = true;
                                }
                            }
                            p_ch = 0;
                        } else if p_ch == b'[' && at(pfull, p + 1) == b':' {
                            p += 2;
                            let s = p;
                            loop {
                                p_ch = at(pfull, p);
                                if p_ch == 0 || p_ch == b']' {
                                    break;
                                }
                                p += 1;
                            }
                            if p_ch == 0 {
                                return WM_ABORT_ALL;
                            }
                            let i: isize = p as isize - s as isize - 1;
                            if i < 0 || at(pfull, p - 1) != b':' {
                                p = s - 2;
                                p_ch = b'[';
                                if t_ch == p_ch {
                                    matched = true;
                                }
                                break 'body; // `continue` of the do-while: goes to the condition
                            }
                            let class = &pfull[s..s + i as usize];
                            let hit = match class {
                                b"alnum" => g_isalnum(t_ch),
                                b"alpha" => g_isalpha(t_ch),
                                b"blank" => g_isblank(t_ch),
                                b"cntrl" => g_iscntrl(t_ch),
                                b"digit" => g_isdigit(t_ch),
                                b"graph" => g_isgraph(t_ch),
                                b"lower" => g_islower(t_ch),
                                b"print" => g_isprint(t_ch),
                                b"punct" => g_ispunct(t_ch),
                                b"space" => g_isspace(t_ch),
                                b"upper" => g_isupper(t_ch) || (flags & WM_CASEFOLD != 0 && g_islower(t_ch)),
                                b"xdigit" => g_isxdigit(t_ch),
                                _ => return WM_ABORT_ALL,
                            };
                            if hit {
                                matched = true;
                            }
                            p_ch = 0;
                        } else if t_ch == p_ch {
                            matched = true;
                        }
                    }
                    prev_ch = p_ch;
                    p += 1;
                    p_ch = at(pfull, p);
                    if p_ch == b']' {
                        break;
                    }
                }
                if matched == negated || (flags & WM_PATHNAME != 0 && t_ch == b'/') {
                    return WM_NOMATCH;
                }
            }
            _ => {
                if p_ch == b'\\' {
                    p += 1;
                    p_ch = at(pfull, p);
                }
                if t_ch != p_ch {
                    return WM_NOMATCH;
                }
            }
        }
        text += 1;
        p += 1;
    }
    if at(tfull, text) != 0 {
        WM_NOMATCH
    } else {
        WM_MATCH
    }
}

pub fn git_wildmatch(p: &[u8], t: &[u8], flags_case: u64) -> bool {
    let mut f = 0;
    if flags_case & 1 != 0 {
        f |= WM_PATHNAME;
    }
    if flags_case & 2 != 0 {
        f |= WM_CASEFOLD;
    }
    dowild(p, 0, t, 0, f) == WM_MATCH
}
