//! Independent oracle: git 2.39.5 dir.c transcribed in plain Rust (add_patterns_from_buffer,
//! trim_trailing_spaces, parse_path_pattern, match_basename, match_pathname,
//! last_matching_pattern_from_list(s), prep_exclude, last_matching_pattern) on top of the
//! transcription of wildmatch.c in wm.rs. It shares no code with gitoxide. The `git` subcommand
//! compares it with the real `git check-ignore` on every case it is asked about.
use crate::wm::{git_wildmatch, is_glob_special};
use crate::{Answer, Parsed};
use gixv_common::*;

const NEGATIVE: u32 = 16;
const NODIR: u32 = 1;
const ENDSWITH: u32 = 4;
const MUSTBEDIR: u32 = 8;

pub struct PathPattern {
    pub pattern: Vec<u8>,
    pub patternlen: usize,
    pub nowildcardlen: usize,
    pub flags: u32,
    pub srcpos: usize,
}
pub struct PatternList {
    pub src: Vec<u8>,
    pub base: Vec<u8>, // "" or "dir/"
    pub patterns: Vec<PathPattern>,
}

fn trim_trailing_spaces(buf: &mut Vec<u8>) {
    let mut last_space: Option<usize> = None;
    let mut p = 0;
    while p < buf.len() {
        match buf[p] {
            b' ' => {
                if last_space.is_none() {
                    last_space = Some(p);
                }
            }
            b'\\' => {
                p += 1;
                if p >= buf.len() {
                    return;
                }
                last_space = None;
            }
            _ => last_space = None,
        }
        p += 1;
    }
    if let Some(l) = last_space {
        buf.truncate(l);
    }
}

fn simple_length(p: &[u8]) -> usize {
    p.iter().position(|c| is_glob_special(*c)).unwrap_or(p.len())
}

fn parse_path_pattern(string: &[u8], srcpos: usize) -> PathPattern {
    let mut p = string;
    let mut flags = 0;
    if p.first() == Some(&b'!') {
        flags |= NEGATIVE;
        p = &p[1..];
    }
    let mut len = p.len();
    if len > 0 && p[len - 1] == b'/' {
        len -= 1;
        flags |= MUSTBEDIR;
    }
    if !p[..len].contains(&b'/') {
        flags |= NODIR;
    }
    let mut nowildcardlen = simple_length(p);
    if nowildcardlen > len {
        nowildcardlen = len;
    }
    if p.first() == Some(&b'*') && simple_length(&p[1..]) == p.len() - 1 {
        flags |= ENDSWITH;
    }
    // MUSTBEDIR patterns are copied with patternlen bytes; the others keep pointing into the buffer,
    // where the string ends at patternlen as well
    PathPattern { pattern: p[..len].to_vec(), patternlen: len, nowildcardlen, flags, srcpos }
}

pub fn add_patterns_from_buffer(content: &[u8], src: &[u8], base: &[u8]) -> PatternList {
    let mut pl = PatternList { src: src.to_vec(), base: base.to_vec(), patterns: vec![] };
    if content.is_empty() {
        return pl;
    }
    let mut buf = content.to_vec();
    buf.push(b'\n');
    let mut start = 0;
    if buf.starts_with(&[0xef, 0xbb, 0xbf]) {
        start = 3;
    }
    let buf = &buf[start..];
    let mut lineno = 1;
    let mut entry = 0;
    for i in 0..buf.len() {
        if buf[i] == b'\n' {
            if entry != i && buf[entry] != b'#' {
                let end = i - (i > 0 && buf[i - 1] == b'\r') as usize;
                // C string: ends at the first NUL
                let mut e: Vec<u8> = buf[entry..end.max(entry)].iter().copied().take_while(|b| *b != 0).collect();
                trim_trailing_spaces(&mut e);
                pl.patterns.push(parse_path_pattern(&e, lineno));
            }
            lineno += 1;
            entry = i + 1;
        }
    }
    pl
}

fn fspathncmp_eq(a: &[u8], b: &[u8], n: usize, icase: bool) -> bool {
    // strncmp / strncasecmp (C locale) == 0 on two strings that both have at least n bytes, or end earlier at the same place
    let a = &a[..n.min(a.len())];
    let b = &b[..n.min(b.len())];
    if icase {
        a.eq_ignore_ascii_case(b)
    } else {
        a == b
    }
}

fn fnmatch_icase_mem(pattern: &[u8], string: &[u8], pathname: bool, icase: bool) -> bool {
    git_wildmatch(pattern, string, (pathname as u64) | ((icase as u64) << 1))
}

fn match_basename(basename: &[u8], pattern: &[u8], prefix: usize, flags: u32, icase: bool) -> bool {
    let patternlen = pattern.len();
    let basenamelen = basename.len();
    if prefix == patternlen {
        patternlen == basenamelen && fspathncmp_eq(pattern, basename, basenamelen, icase)
    } else if flags & ENDSWITH != 0 {
        patternlen - 1 <= basenamelen
            && fspathncmp_eq(&pattern[1..], &basename[basenamelen - (patternlen - 1)..], patternlen - 1, icase)
    } else {
        fnmatch_icase_mem(pattern, basename, false, icase)
    }
}

fn match_pathname(pathname: &[u8], base: &[u8], baselen: usize, pattern: &[u8], prefix: usize, icase: bool) -> bool {
    let mut pattern = pattern;
    let mut prefix = prefix as isize;
    if pattern.first() == Some(&b'/') {
        pattern = &pattern[1..];
        prefix -= 1;
    }
    let pathlen = pathname.len();
    if pathlen < baselen + 1 || (baselen > 0 && pathname[baselen] != b'/') || !fspathncmp_eq(pathname, base, baselen, icase) {
        return false;
    }
    let namelen = if baselen > 0 { pathlen - baselen - 1 } else { pathlen };
    let mut name = &pathname[pathlen - namelen..];
    if prefix > 0 {
        let prefix = prefix as usize;
        if prefix > name.len() {
            return false;
        }
        if !fspathncmp_eq(pattern, name, prefix, icase) {
            return false;
        }
        pattern = &pattern[prefix..];
        name = &name[prefix..];
        if pattern.is_empty() && name.is_empty() {
            return true;
        }
    }
    fnmatch_icase_mem(pattern, name, true, icase)
}

fn last_matching_pattern_from_list<'a>(
    pathname: &[u8],
    basename_off: usize,
    is_dir: bool,
    pl: &'a PatternList,
    icase: bool,
) -> Option<&'a PathPattern> {
    for pattern in pl.patterns.iter().rev() {
        if pattern.flags & MUSTBEDIR != 0 && !is_dir {
            continue;
        }
        if pattern.flags & NODIR != 0 {
            if match_basename(&pathname[basename_off..], &pattern.pattern, pattern.nowildcardlen, pattern.flags, icase) {
                return Some(pattern);
            }
            continue;
        }
        let baselen = if pl.base.is_empty() { 0 } else { pl.base.len() - 1 };
        if match_pathname(pathname, &pl.base, baselen, &pattern.pattern, pattern.nowildcardlen, icase) {
            return Some(pattern);
        }
    }
    None
}

pub struct Dir<'a> {
    p: &'a Parsed,
    file_group: Vec<PatternList>, // EXC_FILE: excludes file, then info/exclude
}

fn lookup<'a>(p: &'a Parsed, w: &[u8]) -> Option<&'a [u8]> {
    p.files.iter().find(|(w2, _)| w2 == w).map(|(_, c)| c.as_slice())
}

fn from_lists<'a>(
    groups: [&'a [PatternList]; 2],
    pathname: &[u8],
    basename_off: usize,
    is_dir: bool,
    icase: bool,
) -> Option<(&'a PatternList, &'a PathPattern)> {
    for g in groups {
        for pl in g.iter().rev() {
            if let Some(pat) = last_matching_pattern_from_list(pathname, basename_off, is_dir, pl, icase) {
                return Some((pl, pat));
            }
        }
    }
    None
}

fn to_answer(m: Option<(&PatternList, &PathPattern)>) -> Answer {
    m.map(|(pl, pat)| (pl.src.clone(), pat.srcpos, if pat.flags & NEGATIVE != 0 { '!' } else { '+' }))
}

impl<'a> Dir<'a> {
    pub fn new(p: &'a Parsed) -> Self {
        let mut file_group = Vec::new();
        if let Some(c) = lookup(p, b"X") {
            file_group.push(add_patterns_from_buffer(c, b"X", b""));
        }
        if let Some(c) = lookup(p, b"I") {
            file_group.push(add_patterns_from_buffer(c, b"I", b""));
        }
        Dir { p, file_group }
    }

    /// last_matching_pattern(): (git's answer, the answer of gitoxide's documented stack rule evaluated
    /// with git's pattern matching: every leading directory is matched and its ignore file read, the
    /// deepest directory with a match decides if that match is positive, and is the fallback if it is
    /// negative and nothing matches the path itself)
    pub fn last_matching_pattern(&self, pathname: &[u8], is_dir: bool) -> (Answer, Answer) {
        let icase = self.p.icase;
        let basename_off = pathname.iter().rposition(|b| *b == b'/').map_or(0, |i| i + 1);
        // prep_exclude(pathname, basename_off)
        let mut dirs_group: Vec<PatternList> = Vec::new();
        let mut git: Option<Answer> = None; // dir->pattern once a directory is excluded
        let mut deepest: Answer = None;
        let mut current: isize = -1;
        let baselen = basename_off as isize;
        while current < baselen {
            let stk_baselen: usize;
            if current < 0 {
                stk_baselen = 0;
                current = 0;
            } else {
                let cp = pathname[current as usize + 1..].iter().position(|b| *b == b'/').expect("oops in prep_exclude")
                    + current as usize
                    + 1;
                stk_baselen = cp + 1;
            }
            if stk_baselen > 0 {
                let m = from_lists(
                    [&dirs_group, &self.file_group],
                    &pathname[..stk_baselen - 1],
                    current as usize,
                    true,
                    icase,
                );
                if let Some((_, pat)) = m {
                    if pat.flags & NEGATIVE == 0 && git.is_none() {
                        git = Some(to_answer(m)); // git returns here; the walk goes on for the second answer only
                    }
                    deepest = to_answer(m);
                }
            }
            let mut w = b"D".to_vec();
            if stk_baselen > 0 {
                w.extend_from_slice(&pathname[..stk_baselen - 1]);
            }
            let content = lookup(self.p, &w).unwrap_or(b"");
            dirs_group.push(add_patterns_from_buffer(content, &w, &pathname[..stk_baselen]));
            current = stk_baselen as isize;
        }
        let own = to_answer(from_lists([&dirs_group, &self.file_group], pathname, basename_off, is_dir, icase));
        let stack_rule = match &deepest {
            Some((_, _, '!')) => own.clone().or(deepest.clone()),
            Some(_) => deepest.clone(),
            None => own.clone(),
        };
        // (the lists read below an excluded directory can only matter for the second answer: git's `own`
        // is used only if no directory was excluded, and then both walks read the same files)
        (git.unwrap_or(own), stack_rule)
    }
}

pub fn answers(p: &Parsed) -> Vec<Answer> {
    let d = Dir::new(p);
    p.queries.iter().map(|(is_dir, q)| d.last_matching_pattern(q, *is_dir).0).collect()
}

pub fn git_applicable(_p: &Parsed) -> bool {
    true
}

// ---------------------------------------------------------------------------------------------
// known deviations (findings.txt), each decided per query from the lines that can be involved
// ---------------------------------------------------------------------------------------------
/// the text of the line an answer points to (without LF, after the UTF-8 BOM)
fn line_of<'a>(p: &'a Parsed, a: &Answer) -> Option<&'a [u8]> {
    let (src, line, _) = a.as_ref()?;
    let content = lookup(p, src)?;
    let content = content.strip_prefix(&[0xef, 0xbb, 0xbf]).unwrap_or(content);
    content.split(|b| *b == b'\n').nth(line - 1)
}

/// dir.c match_pathname compares the literal prefix of a pattern (up to the first glob special) and calls
/// wildmatch on the rest only: a `**` right after a literal byte that is not `/` is then at the start of
/// the pattern wildmatch sees and may match across directories
pub fn prefix_double_star(l: &[u8]) -> bool {
    let l = l.strip_prefix(b"!").unwrap_or(l);
    let l = l.strip_prefix(b"/").unwrap_or(l);
    match l.iter().position(|c| is_glob_special(*c)) {
        Some(k) if k > 0 => l[k..].starts_with(b"**") && l[k - 1] != b'/',
        _ => false,
    }
}

fn line_class(icase: bool, l: &[u8]) -> Option<&'static str> {
    if l.starts_with(b"$") || l.starts_with(b"!$") {
        return Some("precious-dollar-prefix");
    }
    let t = l.strip_suffix(b"\r").unwrap_or(l);
    let t = t.strip_prefix(b"!").unwrap_or(t);
    if !t.is_empty() && t.iter().all(u8::is_ascii_whitespace) && t.iter().any(|b| *b != b' ') {
        return Some("whitespace-only-pattern");
    }
    if l.contains(&0) {
        return Some("nul-in-pattern");
    }
    if prefix_double_star(l) {
        return Some("literal-prefix-before-double-star");
    }
    if icase {
        if l.contains(&b'[') && (l.iter().any(u8::is_ascii_uppercase) || l.contains(&b'-')) {
            return Some("icase-bracket-upper-or-range");
        }
        if l.windows(2).any(|w| w[0] == b'\\' && w[1].is_ascii_uppercase()) {
            return Some("icase-escaped-upper");
        }
    }
    None
}

/// A difference between two answers is attributed to a known pattern-level class only if one of the two
/// lines the answers point to (the line git matched and gitoxide did not, or the other way round) has the
/// feature of that class.
pub fn known_class(p: &Parsed, path: &[u8], got: &Answer, want: &Answer) -> Option<&'static str> {
    let direct = [want, got].into_iter().filter_map(|a| line_of(p, a)).find_map(|l| line_class(p.icase, l));
    if direct.is_some() || !path.contains(&b'/') {
        return direct;
    }
    // below a directory a deviating line may have changed what a leading directory is matched by, which
    // changes the answer without being one of the two lines reported: any line of the case counts then
    p.files.iter().flat_map(|(_, c)| c.split(|b| *b == b'\n')).find_map(|l| line_class(p.icase, l))
}

pub fn prop(c: &Case) -> Verdict {
    let Some(p) = crate::parse(c) else { return Verdict::ok(false, "invalid-case") };
    if !crate::tree_consistent(&p) {
        return Verdict::ok(false, "inconsistent-tree");
    }
    let got = match crate::gix_answers(&p) {
        Ok(v) => v,
        Err(e) => return Verdict::fail("gix-error", e),
    };
    let d = Dir::new(&p);
    let mut unknown: Option<String> = None;
    let mut known: Option<(&'static str, String)> = None;
    let (mut n_pos, mut n_neg) = (0, 0);
    for (i, (is_dir, q)) in p.queries.iter().enumerate() {
        let (want, stack_rule) = d.last_matching_pattern(q, *is_dir);
        match &want {
            Some((_, _, '+')) => n_pos += 1,
            Some(_) => n_neg += 1,
            None => {}
        }
        if got[i] == want {
            continue;
        }
        let detail = format!("path={} gix={} git={}", hexs(q), crate::show(&got[i]), crate::show(&want));
        if got[i] == stack_rule && want.is_none() {
            known.get_or_insert(("negative-parent-dir-match-reported", detail));
        } else if got[i] == stack_rule {
            known.get_or_insert(("deepest-directory-match-wins", detail));
        } else if let Some(k) = known_class(&p, q, &got[i], &want) {
            known.get_or_insert((k, detail));
        } else {
            unknown.get_or_insert(detail);
        }
    }
    if let Some(d) = unknown {
        return Verdict::fail("ignore-differs-from-git", d);
    }
    if let Some((k, d)) = known {
        return Verdict::fail(k, d);
    }
    let class = format!(
        "{}{}{}",
        if n_pos > 0 { "excl" } else { "" },
        if n_neg > 0 { "-neg" } else { "" },
        if n_pos + n_neg == 0 { "none" } else { "" }
    );
    Verdict::ok(n_pos + n_neg > 0, class)
}
