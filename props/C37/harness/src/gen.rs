//! Case generator: a small random tree, ignore files at random levels (core.excludesFile, info/exclude,
//! per-directory) whose lines are derived from paths of the tree (so that most of them match something),
//! and queries for every node of the tree. All randomness comes from the given Rng.
use gixv_common::*;

const COMPS: &[&str] = &["a", "b", "c", "A", "B", "ab", "a.c", "b.c", "x.o", "a b", "-", "d", "Ab", "abc"];

fn mk(icase: bool, files: &[(&[u8], &[u8])], queries: &[(bool, &[u8])]) -> Case {
    let mut c = vec![tag("ig"), num(icase as u8), num(files.len())];
    for (w, content) in files {
        c.push(w.to_vec());
        c.push(content.to_vec());
    }
    for (d, q) in queries {
        let mut v = vec![if *d { b'd' } else { b'f' }];
        v.extend_from_slice(q);
        c.push(v);
    }
    c
}

/// hand-written boundary cases: every rule the model and the proofs distinguish
fn boundary() -> Vec<Case> {
    let q = |b: &'static [u8]| -> (bool, &'static [u8]) { (b[0] == b'd', &b[1..]) };
    let mut v = Vec::new();
    let sets: Vec<(Vec<(&[u8], &[u8])>, Vec<&'static [u8]>)> = vec![
        // last match wins inside a file; negation; directory-only; anchored
        (vec![(b"D", b"*.o\n!x.o\n")], vec![&b"fx.o"[..], &b"fa.o"[..], &b"fa/x.o"[..], &b"da"[..], &b"fa/b.o"[..]]),
        (vec![(b"D", b"!x.o\n*.o\n")], vec![&b"fx.o"[..], &b"fa/x.o"[..], &b"da"[..]]),
        (vec![(b"D", b"a/\n")], vec![&b"fa"[..], &b"da"[..], &b"db"[..], &b"fb/a"[..], &b"db/a"[..], &b"fb/a/c"[..], &b"fa/c"[..]]),
        (vec![(b"D", b"/a\nb/c\n")], vec![&b"fa"[..], &b"fb/a"[..], &b"db"[..], &b"fb/c"[..], &b"fd/b/c"[..], &b"dd"[..], &b"dd/b"[..]]),
        (vec![(b"D", b"/a/\n/*.c\n")], vec![&b"fa"[..], &b"da"[..], &b"fa.c"[..], &b"fb/a.c"[..], &b"db"[..]]),
        // precedence: per-directory files (deepest first) > info/exclude > core.excludesFile
        (vec![(b"X", b"a\n"), (b"I", b"!a\n")], vec![&b"fa"[..], &b"fb/a"[..], &b"db"[..]]),
        (vec![(b"X", b"!a\n"), (b"I", b"a\n")], vec![&b"fa"[..]]),
        (vec![(b"I", b"a\n"), (b"D", b"!a\n")], vec![&b"fa"[..], &b"fb/a"[..], &b"db"[..]]),
        (vec![(b"D", b"a\n"), (b"Db", b"!a\n")], vec![&b"fa"[..], &b"fb/a"[..], &b"db"[..], &b"fb/c/a"[..], &b"db/c"[..]]),
        (vec![(b"D", b"!a\n"), (b"Db", b"a\n"), (b"Db/c", b"!a\n")], vec![&b"fa"[..], &b"fb/a"[..], &b"db"[..], &b"fb/c/a"[..], &b"db/c"[..]]),
        // patterns of a per-directory file are relative to its directory
        (vec![(b"Db", b"/a\nc/a\n*/d\n")], vec![&b"fa"[..], &b"fb/a"[..], &b"db"[..], &b"fb/c/a"[..], &b"db/c"[..], &b"fb/c/d"[..], &b"fc/a"[..], &b"dc"[..]]),
        // parent directory excluded: cannot re-include; deeper ignore files
        (vec![(b"D", b"a/\n!a/b\n")], vec![&b"da"[..], &b"fa/b"[..], &b"fa/c"[..]]),
        (vec![(b"D", b"a/\n"), (b"Da", b"!b/\n")], vec![&b"da"[..], &b"da/b"[..], &b"fa/b/c"[..], &b"fa/x"[..]]),
        (vec![(b"D", b"a/\n!a/b/\n")], vec![&b"da"[..], &b"da/b"[..], &b"fa/b/c"[..]]),
        (vec![(b"D", b"*\n!a/\n!a/b\n")], vec![&b"da"[..], &b"fa/b"[..], &b"fa/c"[..], &b"fc"[..]]),
        (vec![(b"D", b"!a/\n")], vec![&b"da"[..], &b"fa/x"[..]]),
        (vec![(b"D", b"a/b/\n"), (b"Da", b"!b/\n"), (b"Da/b", b"!c\n")], vec![&b"da"[..], &b"da/b"[..], &b"fa/b/c"[..], &b"fa/b/d"[..]]),
        // the top level is never matched itself
        (vec![(b"I", b"*\n"), (b"D", b"!foo\n")], vec![&b"ffoo"[..], &b"fbar"[..]]),
        (vec![(b"X", b"/*\n"), (b"D", b"!/foo\n")], vec![&b"ffoo"[..], &b"fbar"[..], &b"dfoo"[..], &b"ffoo/x"[..]]),
        // line syntax: comments, blank, escapes, trailing spaces, CRLF, missing final LF, BOM
        (vec![(b"D", b"# c\n\n\\#a\n\\!b\n!c\n\\ \nd  \ne\\ \nf \\ \n")], vec![&b"f#a"[..], &b"f!b"[..], &b"fc"[..], &b"f "[..], &b"fd"[..], &b"fd  "[..], &b"fe "[..], &b"fe\\ "[..], &b"ff  "[..], &b"ff \\ "[..]]),
        (vec![(b"D", b"a\r\nb\r\r\nc\r")], vec![&b"fa"[..], &b"fa\r"[..], &b"fb"[..], &b"fb\r"[..], &b"fc"[..], &b"fc\r"[..]]),
        (vec![(b"D", b"\xef\xbb\xbfa\n+/v8b\n")], vec![&b"fa"[..], &b"fb"[..], &b"f+/v8b"[..]]),
        (vec![(b"D", b"+/v8b\n"), (b"I", b"\xff\xfec\n"), (b"X", b"\xfe\xffd\n")], vec![&b"fb"[..], &b"f+/v8b"[..], &b"fc"[..], &b"fd"[..], &b"f\xff\xfec"[..], &b"f\xfe\xffd"[..]]),
        (vec![(b"D", b"a\\\nb\\\\\nc\\d\n")], vec![&b"fa"[..], &b"fa\\"[..], &b"fb"[..], &b"fb\\"[..], &b"fcd"[..], &b"fc\\d"[..]]),
        // glob shapes through the shortcuts
        (vec![(b"D", b"*a\n")], vec![&b"fa"[..], &b"fba"[..], &b"fab"[..], &b"fb/ca"[..], &b"db"[..], &b"fA"[..]]),
        (vec![(b"D", b"/*a\nb/*a\n")], vec![&b"fa"[..], &b"fba"[..], &b"fb/ca"[..], &b"db"[..], &b"fb/c/a"[..], &b"db/c"[..]]),
        (vec![(b"D", b"a*\nb?\n[ab]c\n")], vec![&b"fa"[..], &b"fab"[..], &b"fb"[..], &b"fbb"[..], &b"fac"[..], &b"fbc"[..], &b"fcc"[..], &b"fd/ab"[..], &b"dd"[..]]),
        (vec![(b"D", b"a/**/c\n**/d\ne/**\n")], vec![&b"fa/c"[..], &b"da"[..], &b"fa/b/c"[..], &b"da/b"[..], &b"fd"[..], &b"fb/d"[..], &b"db"[..], &b"fe/x"[..], &b"de"[..], &b"fe"[..]]),
        (vec![(b"D", b"a**/b\nab**\n")], vec![&b"fax/y/b"[..], &b"dax"[..], &b"dax/y"[..], &b"fax/b"[..], &b"fa/b"[..], &b"da"[..], &b"fabx"[..], &b"fab/x"[..], &b"dab"[..]]),
        // known classes
        (vec![(b"D", b"$a\n!$b\n\\$c\n")], vec![&b"fa"[..], &b"f$a"[..], &b"fb"[..], &b"f$b"[..], &b"f$c"[..]]),
        (vec![(b"D", b"\t\n!\t\n")], vec![&b"f\t"[..]]),
        (vec![(b"D", b"a\0b\n")], vec![&b"fa"[..]]),
    ];
    for (files, qs) in &sets {
        let queries: Vec<(bool, &[u8])> = qs.iter().map(|s| q(s)).collect();
        for icase in [false, true] {
            v.push(mk(icase, files, &queries));
        }
    }
    // case folding
    let files: Vec<(&[u8], &[u8])> = vec![(b"D", b"Ab\n/B/c\n*.O\nd/[e]\n"), (b"DB", b"/A\nx/Y\n")];
    let qs: Vec<(bool, &[u8])> = [&b"fab"[..], &b"fAB"[..], &b"dB"[..], &b"fB/c"[..], &b"fB/C"[..], &b"db"[..], &b"fb/c"[..], &b"fa.o"[..], &b"fa.O"[..], &b"fB/a"[..], &b"fB/A"[..], &b"dB/x"[..], &b"fB/x/y"[..], &b"fB/X/Y"[..], &b"dd"[..], &b"fd/e"[..], &b"fd/E"[..]]
        .iter()
        .map(|s| q(s))
        .collect();
    for icase in [false, true] {
        v.push(mk(icase, &files, &qs));
    }
    v
}

fn flip(rng: &mut Rng, s: &[u8]) -> Vec<u8> {
    s.iter()
        .map(|b| {
            if b.is_ascii_alphabetic() && rng.chance(1, 3) {
                *b ^ 0x20
            } else {
                *b
            }
        })
        .collect()
}

/// turn one path component into a glob that (probably) still matches it
fn globify(rng: &mut Rng, comp: &[u8]) -> Vec<u8> {
    let mut out = comp.to_vec();
    match rng.below(12) {
        0 => out = b"*".to_vec(),
        1 => {
            // *suffix
            let k = rng.below(out.len() as u64 + 1) as usize;
            out = [b"*".as_slice(), &comp[k..]].concat();
        }
        2 => {
            let k = rng.below(out.len() as u64 + 1) as usize;
            out = [&comp[..k], b"*".as_slice()].concat();
        }
        3 => {
            let k = rng.below(out.len() as u64) as usize;
            out[k] = b'?';
        }
        4 => {
            let k = rng.below(out.len() as u64) as usize;
            let c = comp[k];
            let set: Vec<u8> = match rng.below(4) {
                0 => vec![b'[', c, b']'],
                1 => vec![b'[', b'!', c, b']'],
                2 => vec![b'[', c.saturating_sub(1).max(b'!'), b'-', c.saturating_add(1).min(b'~'), b']'],
                _ => b"[[:alnum:]]".to_vec(),
            };
            out = [&comp[..k], &set[..], &comp[k + 1..]].concat();
        }
        5 => {
            let k = rng.below(out.len() as u64) as usize;
            out.insert(k, b'\\');
        }
        6 => {
            let k = rng.below(out.len() as u64 + 1) as usize;
            out = [&comp[..k], b"**".as_slice(), &comp[k..]].concat();
        }
        _ => {}
    }
    out
}

/// a pattern line derived from `target` (a path below `base`, "" = top level)
fn line_for(rng: &mut Rng, base: &[u8], target: &[u8], target_is_dir: bool, icase: bool) -> Vec<u8> {
    let rel: &[u8] = if base.is_empty() {
        target
    } else if target.len() > base.len() + 1 && target.starts_with(base) && target[base.len()] == b'/' {
        &target[base.len() + 1..]
    } else {
        target
    };
    let comps: Vec<&[u8]> = rel.split(|b| *b == b'/').collect();
    let mut pat: Vec<u8> = Vec::new();
    match rng.below(10) {
        0..=3 => {
            // basename form, possibly of a leading directory
            let k = rng.below(comps.len() as u64) as usize;
            pat = globify(rng, comps[k]);
            if (k + 1 < comps.len() || target_is_dir) && rng.chance(1, 2) {
                pat.push(b'/');
            }
        }
        4..=6 => {
            // path form, possibly anchored, possibly cut after some components
            let k = rng.range(1, comps.len() as i64) as usize;
            let parts: Vec<Vec<u8>> = comps[..k].iter().map(|c| if rng.chance(1, 3) { globify(rng, c) } else { c.to_vec() }).collect();
            if rng.chance(1, 2) || k == 1 {
                pat.push(b'/');
            }
            pat.extend_from_slice(&parts.join(&b"/"[..]));
            if (k < comps.len() || target_is_dir) && rng.chance(1, 3) {
                pat.push(b'/');
            }
        }
        7 => {
            // double star forms
            let k = rng.below(comps.len() as u64) as usize;
            match rng.below(4) {
                0 => {
                    pat.extend_from_slice(b"**/");
                    pat.extend_from_slice(&comps[k..].join(&b"/"[..]));
                }
                1 => {
                    pat.extend_from_slice(&comps[..=k].join(&b"/"[..]));
                    pat.extend_from_slice(b"/**");
                }
                2 => {
                    pat.extend_from_slice(comps[0]);
                    pat.extend_from_slice(b"/**/");
                    pat.extend_from_slice(comps[comps.len() - 1]);
                }
                _ => {
                    pat.extend_from_slice(&comps[..=k].join(&b"/"[..]));
                    pat.extend_from_slice(b"/*");
                }
            }
        }
        8 => {
            pat = rng.pick(&[&b"*"[..], b"/*", b"*/", b"**", b"*.c", b"*.o", b"!*/", b"?", b"*/*", b"/*/*", b"[a-c]*", b"*b*"]).to_vec();
        }
        _ => {
            // soup
            let toks: &[&[u8]] = &[b"a", b"b", b"c", b"/", b"*", b"**", b"?", b"[ab]", b"\\", b".", b" ", b"!", b"#", b"A", b"x.o", b"-"];
            for _ in 0..rng.range(1, 5) {
                let t: &[u8] = *rng.pick(toks);
                pat.extend_from_slice(t);
            }
        }
    }
    if icase && rng.chance(1, 2) {
        pat = flip(rng, &pat);
    }
    if rng.chance(1, 4) {
        pat.insert(0, b'!');
    }
    // line-level decoration
    match rng.below(300) {
        0..=7 => pat.extend_from_slice(b"  "),
        8..=15 => pat.extend_from_slice(b"\\ "),
        16..=23 => pat.insert(0, b'\\'),
        24..=31 => pat.insert(0, b'#'),
        32 => pat.insert(0, b'$'),
        33 => pat.push(b'\t'),
        34..=41 => pat.insert(0, b' '),
        _ => {}
    }
    pat
}

fn random_tree(rng: &mut Rng) -> Vec<(bool, Vec<u8>)> {
    // nodes: (is_dir, path); all proper prefixes are directories
    let mut nodes: Vec<(bool, Vec<u8>)> = Vec::new();
    let n = rng.range(2, 6);
    for _ in 0..n {
        let depth = *rng.pick(&[1, 1, 1, 2, 2, 2, 2, 3, 3, 4]);
        let mut p: Vec<u8> = Vec::new();
        for d in 0..depth {
            if d > 0 {
                p.push(b'/');
            }
            p.extend_from_slice(rng.pick(COMPS).as_bytes());
            let last = d + 1 == depth;
            let is_dir = !last || rng.chance(1, 3);
            match nodes.iter_mut().find(|(_, q)| *q == p) {
                Some(e) => e.0 = e.0 || is_dir,
                None => nodes.push((is_dir, p.clone())),
            }
        }
    }
    // a path that is a directory because of a deeper node stays a directory
    let snapshot = nodes.clone();
    for e in nodes.iter_mut() {
        if snapshot.iter().any(|(_, q)| q.len() > e.1.len() && q.starts_with(&e.1) && q[e.1.len()] == b'/') {
            e.0 = true;
        }
    }
    nodes
}

fn random_case(rng: &mut Rng) -> Case {
    let icase = rng.chance(1, 3);
    let nodes = random_tree(rng);
    let dirs: Vec<Vec<u8>> = nodes.iter().filter(|(d, _)| *d).map(|(_, p)| p.clone()).collect();
    // where the ignore files live
    let mut wheres: Vec<Vec<u8>> = Vec::new();
    if rng.chance(3, 4) {
        wheres.push(b"D".to_vec());
    }
    if rng.chance(1, 3) {
        wheres.push(b"I".to_vec());
    }
    if rng.chance(1, 4) {
        wheres.push(b"X".to_vec());
    }
    for d in &dirs {
        if rng.chance(1, 3) {
            wheres.push([b"D".as_slice(), d].concat());
        }
    }
    if wheres.is_empty() {
        wheres.push(b"D".to_vec());
    }
    let mut c = vec![tag("ig"), num(icase as u8), num(wheres.len())];
    for w in &wheres {
        let base: &[u8] = if w[0] == b'D' { &w[1..] } else { b"" };
        // prefer targets below the base
        let below: Vec<&(bool, Vec<u8>)> =
            nodes.iter().filter(|(_, p)| base.is_empty() || (p.len() > base.len() && p.starts_with(base) && p[base.len()] == b'/')).collect();
        let mut content: Vec<u8> = Vec::new();
        if rng.chance(1, 40) {
            content.extend_from_slice(&[0xef, 0xbb, 0xbf]);
        }
        let nlines = rng.range(1, 5);
        for i in 0..nlines {
            let (tdir, target) = if !below.is_empty() && rng.chance(5, 6) { (*rng.pick(&below)).clone() } else { rng.pick(&nodes).clone() };
            let mut line = match rng.below(30) {
                0 => b"# comment".to_vec(),
                1 => Vec::new(),
                2 => {
                    let k = rng.range(1, 6) as usize;
                    rng.bytes(k)
                }
                _ => line_for(rng, base, &target, tdir, icase),
            };
            line.retain(|b| *b != b'\n');
            content.extend_from_slice(&line);
            let last = i + 1 == nlines;
            match rng.below(12) {
                0 => content.extend_from_slice(b"\r\n"),
                1 if last => {}
                2 if last => content.push(b'\r'),
                _ => content.push(b'\n'),
            }
        }
        c.push(w.clone());
        c.push(content);
    }
    // queries: every node; sometimes with the case of the path flipped (the tree on disk only has
    // directories for `d` queries, so flipping is done consistently per component of the whole path)
    for (is_dir, p) in &nodes {
        let mut v = vec![if *is_dir { b'd' } else { b'f' }];
        v.extend_from_slice(p);
        c.push(v);
    }
    if icase || rng.chance(1, 6) {
        // extra queries below an upper/lower-cased copy of a top-level component: consistent, because the
        // flipped spelling is used for a whole subtree that does not exist in the other spelling
        let (is_dir, p) = rng.pick(&nodes).clone();
        let flipped: Vec<u8> = p.iter().map(|b| if b.is_ascii_alphabetic() { *b ^ 0x20 } else { *b }).collect();
        let clash = nodes.iter().any(|(_, q)| {
            let qc = q.split(|b| *b == b'/').next().unwrap();
            let fc = flipped.split(|b| *b == b'/').next().unwrap();
            qc == fc
        });
        if !clash && flipped != p {
            let comps: Vec<&[u8]> = flipped.split(|b| *b == b'/').collect();
            for k in 1..=comps.len() {
                let mut v = vec![if k < comps.len() || is_dir { b'd' } else { b'f' }];
                v.extend_from_slice(&comps[..k].join(&b"/"[..]));
                c.push(v);
            }
        }
    }
    c
}

pub fn gen(rng: &mut Rng, n: usize) -> Vec<Case> {
    let mut out = boundary();
    out.truncate(n);
    while out.len() < n {
        out.push(random_case(rng));
    }
    out
}
