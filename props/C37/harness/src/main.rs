//! C37 — ignore decisions agree with `git check-ignore`.
//!
//! case:  ig <icase 0|1> <k> (<where> <content>){k} <query>*
//!   where   = "X" (core.excludesFile) | "I" ($GIT_DIR/info/exclude) | "D"<dir> (<dir>/.gitignore, "D" = top level)
//!   query   = "f"<path> | "d"<path>     (d: the path is a directory)
//! transcript: one token per query: `-` (no pattern matches) or `<src>:<line>:<sign>` with
//!   src = X | I | D<hex of dir>, sign = `+` (excluded), `$` (excluded, precious), `!` (negative pattern)
use bstr::ByteSlice;
use gixv_common::*;
use std::os::unix::ffi::OsStrExt;
use std::path::{Path, PathBuf};

mod oracle;
mod wm;
mod gen;

pub struct Parsed {
    pub icase: bool,
    pub files: Vec<(Vec<u8>, Vec<u8>)>, // (where, content), first entry of a `where` wins
    pub queries: Vec<(bool, Vec<u8>)>,  // (is_dir, path)
}

pub fn parse(c: &Case) -> Option<Parsed> {
    if f_str(c, 0) != b"ig" {
        return None;
    }
    let icase = f_str(c, 1) == b"1";
    let k = f_u64(c, 2) as usize;
    if c.len() < 3 + 2 * k {
        return None;
    }
    let mut files: Vec<(Vec<u8>, Vec<u8>)> = Vec::new();
    for i in 0..k {
        let w = c[3 + 2 * i].clone();
        let content = c[4 + 2 * i].clone();
        match w.first() {
            Some(b'X') | Some(b'I') if w.len() == 1 => {}
            Some(b'D') => {
                if w.len() > 1 && !valid_path(&w[1..]) {
                    return None;
                }
            }
            _ => return None,
        }
        if !files.iter().any(|(w2, _)| *w2 == w) {
            files.push((w, content));
        }
    }
    let mut queries = Vec::new();
    for q in &c[3 + 2 * k..] {
        match q.first() {
            Some(b'f') | Some(b'd') if valid_path(&q[1..]) => queries.push((q[0] == b'd', q[1..].to_vec())),
            _ => return None,
        }
    }
    Some(Parsed { icase, files, queries })
}

/// relative, normalised, nothing git or the path stack would treat specially
pub fn valid_path(p: &[u8]) -> bool {
    !p.is_empty()
        && p[0] != b':'
        && !p.contains(&0)
        && p.split(|b| *b == b'/').all(|comp| {
            !comp.is_empty() && comp != b"." && comp != b".." && !comp.eq_ignore_ascii_case(b".git") && comp != b".gitignore"
        })
}

/// the directories that exist in the sandbox, and whether the is-directory flags of the queries are
/// consistent with them (a path queried as file must not be a directory on disk and vice versa)
pub fn tree_consistent(p: &Parsed) -> bool {
    let mut dirs: Vec<Vec<u8>> = Vec::new();
    let mut add = |d: &[u8]| {
        let mut cur = Vec::new();
        for comp in d.split(|b| *b == b'/') {
            if !cur.is_empty() {
                cur.push(b'/');
            }
            cur.extend_from_slice(comp);
            if !dirs.contains(&cur) {
                dirs.push(cur.clone());
            }
        }
    };
    for (w, _) in &p.files {
        if w[0] == b'D' && w.len() > 1 {
            add(&w[1..]);
        }
    }
    for (is_dir, q) in &p.queries {
        if *is_dir {
            add(q);
        }
    }
    p.queries.iter().all(|(is_dir, q)| *is_dir || !dirs.contains(q))
}

pub struct Sandbox {
    pub root: PathBuf,
    pub git_dir: PathBuf,
    pub xfile: Option<PathBuf>,
}
impl Drop for Sandbox {
    fn drop(&mut self) {
        let _ = std::fs::remove_dir_all(self.root.parent().unwrap());
    }
}

fn os(p: &[u8]) -> &Path {
    Path::new(std::ffi::OsStr::from_bytes(p))
}

pub fn sandbox(p: &Parsed, with_dirs: bool) -> Sandbox {
    static CTR: std::sync::atomic::AtomicU64 = std::sync::atomic::AtomicU64::new(0);
    let k = CTR.fetch_add(1, std::sync::atomic::Ordering::SeqCst);
    let base = if Path::new("/dev/shm").is_dir() { PathBuf::from("/dev/shm") } else { std::env::temp_dir() };
    let top = base.join(format!("gixv-c37-{}-{}", std::process::id(), k));
    let _ = std::fs::remove_dir_all(&top);
    let root = top.join("w");
    let git_dir = root.join(".git");
    std::fs::create_dir_all(git_dir.join("objects")).unwrap();
    std::fs::create_dir_all(git_dir.join("refs")).unwrap();
    std::fs::create_dir_all(git_dir.join("info")).unwrap();
    std::fs::create_dir_all(top.join("home")).unwrap();
    std::fs::write(git_dir.join("HEAD"), "ref: refs/heads/main\n").unwrap();
    let mut xfile = None;
    for (w, content) in &p.files {
        match w[0] {
            b'X' => {
                let f = top.join("excludes");
                std::fs::write(&f, content).unwrap();
                xfile = Some(f);
            }
            b'I' => std::fs::write(git_dir.join("info/exclude"), content).unwrap(),
            _ => {
                let d = if w.len() > 1 { root.join(os(&w[1..])) } else { root.clone() };
                std::fs::create_dir_all(&d).unwrap();
                std::fs::write(d.join(".gitignore"), content).unwrap();
            }
        }
    }
    if with_dirs {
        for (is_dir, q) in &p.queries {
            if *is_dir {
                std::fs::create_dir_all(root.join(os(q))).unwrap();
            }
        }
    }
    Sandbox { root, git_dir, xfile }
}

pub type Answer = Option<(Vec<u8>, usize, char)>; // (src, line, sign)

pub fn show(a: &Answer) -> String {
    match a {
        None => "-".into(),
        Some((src, line, sign)) => {
            let s = if src.len() > 1 { format!("D{}", hexs(&src[1..])) } else { String::from_utf8_lossy(src).into_owned() };
            format!("{s}:{line}:{sign}")
        }
    }
}

/// the implementation: `gix_worktree::Stack` with an ignore stack reading from the worktree
pub fn gix_answers(p: &Parsed) -> Result<Vec<Answer>, String> {
    use gix_worktree::stack::state::{ignore::Source, Ignore};
    let sb = sandbox(p, false);
    let mut buf = Vec::new();
    let globals = gix_ignore::Search::from_git_dir(&sb.git_dir, sb.xfile.clone(), &mut buf).map_err(|_| "io".to_string())?;
    let state = gix_worktree::stack::State::IgnoreStack(Ignore::new(
        Default::default(),
        globals,
        None,
        Source::WorktreeThenIdMappingIfNotSkipped,
    ));
    let case = if p.icase { gix_glob::pattern::Case::Fold } else { gix_glob::pattern::Case::Sensitive };
    let mut stack = gix_worktree::Stack::new(&sb.root, state, case, buf, Vec::new());
    let info = sb.git_dir.join("info").join("exclude");
    let mut out = Vec::new();
    for (is_dir, q) in &p.queries {
        let mode = if *is_dir { gix_index::entry::Mode::DIR } else { gix_index::entry::Mode::FILE };
        let platform = stack.at_entry(q.as_bstr(), Some(mode), &gix_object::find::Never).map_err(|_| "io".to_string())?;
        let m = platform.matching_exclude_pattern();
        let excluded = platform.is_excluded();
        let kind = platform.excluded_kind();
        let a = m.map(|m| {
            let src_path = m.source.expect("all patterns come from files");
            let src: Vec<u8> = if Some(src_path) == sb.xfile.as_deref() {
                b"X".to_vec()
            } else if src_path == info {
                b"I".to_vec()
            } else {
                let rel = src_path.strip_prefix(&sb.root).expect("below root").parent().expect("file");
                let mut v = b"D".to_vec();
                v.extend_from_slice(rel.as_os_str().as_bytes());
                v
            };
            let sign = if m.pattern.is_negative() {
                '!'
            } else if m.kind == gix_ignore::Kind::Precious {
                '$'
            } else {
                '+'
            };
            (src, m.sequence_number, sign)
        });
        // the three accessors of the platform must tell the same story
        let pos = matches!(a, Some((_, _, '+' | '$')));
        if excluded != pos || kind.is_some() != pos {
            return Err("accessors-disagree".into());
        }
        out.push(a);
    }
    Ok(out)
}

fn imp(c: &Case) -> String {
    let Some(p) = parse(c) else { return "invalid".into() };
    match gix_answers(&p) {
        Ok(v) => v.iter().map(show).collect::<Vec<_>>().join(" "),
        Err(e) => format!("err {e}"),
    }
}

/// real git: `git check-ignore -v -n -z --no-index --stdin` in the sandbox
pub fn git_answers(p: &Parsed) -> Option<Vec<Answer>> {
    use std::io::Write as _;
    if p.queries.is_empty() {
        return Some(vec![]);
    }
    let sb = sandbox(p, true);
    let top = sb.root.parent().unwrap();
    let mut cmd = std::process::Command::new("git");
    cmd.current_dir(&sb.root)
        .env("GIT_CONFIG_NOSYSTEM", "1")
        .env("GIT_CONFIG_GLOBAL", "/dev/null")
        .env("HOME", top.join("home"))
        .env("XDG_CONFIG_HOME", top.join("home"))
        .env("LC_ALL", "C")
        .env_remove("GIT_DIR")
        .arg("-c")
        .arg(if p.icase { "core.ignorecase=true" } else { "core.ignorecase=false" })
        .arg("-c")
        .arg(match &sb.xfile {
            Some(f) => format!("core.excludesFile={}", f.display()),
            None => "core.excludesFile=".to_string(),
        })
        .args(["check-ignore", "-v", "-n", "-z", "--no-index", "--stdin"])
        .stdin(std::process::Stdio::piped())
        .stdout(std::process::Stdio::piped())
        .stderr(std::process::Stdio::piped());
    let mut child = cmd.spawn().expect("git");
    let mut input = Vec::new();
    for (_, q) in &p.queries {
        input.extend_from_slice(q);
        input.push(0);
    }
    let mut si = child.stdin.take().unwrap();
    let writer = std::thread::spawn(move || {
        let _ = si.write_all(&input);
    });
    let o = child.wait_with_output().expect("git out");
    let _ = writer.join();
    if !matches!(o.status.code(), Some(0) | Some(1)) {
        return None;
    }
    let toks: Vec<&[u8]> = o.stdout.split(|b| *b == 0).collect();
    // <source> NUL <linenum> NUL <pattern> NUL <pathname> NUL
    if toks.len() != 4 * p.queries.len() + 1 {
        return None;
    }
    let xname = sb.xfile.as_ref().map(|f| f.as_os_str().as_bytes().to_vec());
    let mut out = Vec::new();
    for (i, (_, q)) in p.queries.iter().enumerate() {
        let (src, line, pat, path) = (toks[4 * i], toks[4 * i + 1], toks[4 * i + 2], toks[4 * i + 3]);
        if path != q.as_slice() {
            return None;
        }
        if src.is_empty() {
            out.push(None);
            continue;
        }
        let s: Vec<u8> = if Some(src) == xname.as_deref() {
            b"X".to_vec()
        } else if src == b".git/info/exclude" {
            b"I".to_vec()
        } else if src == b".gitignore" {
            b"D".to_vec()
        } else if let Some(d) = src.strip_suffix(b"/.gitignore") {
            let mut v = b"D".to_vec();
            v.extend_from_slice(d);
            v
        } else {
            return None;
        };
        let line: usize = std::str::from_utf8(line).ok()?.parse().ok()?;
        out.push(Some((s, line, if pat.first() == Some(&b'!') { '!' } else { '+' })));
    }
    Some(out)
}

fn git(c: &Case) -> String {
    let Some(p) = parse(c) else { return "-".into() };
    if !tree_consistent(&p) || !oracle::git_applicable(&p) {
        return "-".into();
    }
    match git_answers(&p) {
        Some(v) => {
            // the plain-Rust oracle used by prop() is validated here as well
            let o = oracle::answers(&p);
            if o != v {
                return format!("ORACLE-DIFFERS git={} oracle={}", join(&v), join(&o));
            }
            join(&v)
        }
        None => "-".into(),
    }
}

pub fn join(v: &[Answer]) -> String {
    v.iter().map(show).collect::<Vec<_>>().join(" ")
}

fn prop(c: &Case) -> Verdict {
    oracle::prop(c)
}

fn main() {
    if std::env::args().nth(1).as_deref() == Some("probe") {
        // probe <case line>: print gix, oracle and git answers side by side
        let line = std::env::args().nth(2).unwrap();
        let c = parse_case(&line);
        let p = parse(&c).expect("valid");
        println!("gix   : {}", gix_answers(&p).map(|v| join(&v)).unwrap_or_else(|e| e));
        println!("oracle: {}", join(&oracle::answers(&p)));
        println!("git   : {}", git_answers(&p).map(|v| join(&v)).unwrap_or_else(|| "-".into()));
        return;
    }
    main_with(Harness { gen: gen::gen, imp, prop, git: Some(git), deadline: std::time::Duration::from_secs(180) });
}
