//! C24 harness: gix-index decoding (`State::from_bytes`, `File::at`) for any thread limit, against
//! (a) the extracted Coq model on byte-level cases (`dec`), (b) an independent reader of git's
//! index format and (c) real git (`gitx` scenarios in prop(), `gw` cases for the Spec writer).
mod gitfmt;
use gitfmt::*;
use gixv_common::*;
use std::io::Write as _;
use std::process::{Command, Stdio};

const MODES: [u32; 4] = [0o100644, 0o100755, 0o120000, 0o160000];
const EMPTY_BLOB: &str = "e69de29bb2d1d6434b8b29ae775ad8c2e48c5391";

// ------------------------------------------------------------------------------------------
// generators
fn gen_path(rng: &mut Rng) -> Vec<u8> {
    let comps = rng.range(1, 3);
    let mut p = Vec::new();
    for i in 0..comps {
        if i > 0 {
            p.push(b'/');
        }
        p.extend(rng.word(b"ab-.0", 1, 3));
    }
    p
}

fn long_path(rng: &mut Rng) -> Vec<u8> {
    // rarely: lengths around 2^16 and 2^17, where a 16-bit length computation wraps before it saturates
    let len = if rng.chance(1, 15) {
        *rng.pick(&[65535usize, 65536, 65537, 65546, 69630, 69631, 131077])
    } else {
        *rng.pick(&[4093usize, 4094, 4095, 4096, 4097, 4098, 4099, 4100, 4101, 4102, 4103, 4140, 5000])
    };
    let mut p = rng.word(b"ab", 2, 2);
    p.push(b'/');
    while p.len() < len {
        p.push(*rng.pick(b"abc"));
    }
    p
}

fn gen_entries(rng: &mut Rng, version: u32, max: usize, zero_stat: bool) -> Vec<Ent> {
    let n = if rng.chance(1, 20) { 0 } else { rng.range(1, max as i64) as usize };
    let mut paths: Vec<Vec<u8>> = (0..n).map(|_| gen_path(rng)).collect();
    if rng.chance(1, 8) {
        let k = rng.range(1, 2);
        for _ in 0..k {
            paths.push(long_path(rng));
        }
    }
    paths.sort();
    paths.dedup();
    let mut out = Vec::new();
    for p in paths {
        let conflicted = rng.chance(1, 6);
        let stages: Vec<u32> = if conflicted {
            let mut s: Vec<u32> = (1..=3).filter(|_| rng.chance(2, 3)).collect();
            if s.is_empty() {
                s.push(2);
            }
            s
        } else {
            vec![0]
        };
        for st in stages {
            let mut words = [0u32; 10];
            if !zero_stat {
                for w in words.iter_mut() {
                    *w = match rng.below(4) {
                        0 => 0,
                        1 => rng.below(256) as u32,
                        2 => rng.next() as u32,
                        _ => *rng.pick(&[0xffff_ffffu32, 0x8000_0000, 0x0100_0000, 0x00ff_ffff, 1]),
                    };
                }
            }
            words[6] = *rng.pick(&MODES);
            let mut id = [0u8; 20];
            id.copy_from_slice(&rng.bytes(20));
            if rng.chance(1, 30) {
                id = [0u8; 20];
            }
            let mut flags = st << 12;
            if st == 0 && rng.chance(1, 8) {
                flags |= F_ASSUME_VALID;
            }
            if version >= 3 && st == 0 && rng.chance(1, 5) {
                flags |= F_EXTENDED;
                flags |= *rng.pick(&[F_INTENT_TO_ADD, F_SKIP_WORKTREE, F_SKIP_WORKTREE, F_INTENT_TO_ADD | F_SKIP_WORKTREE]);
            }
            out.push(Ent { words, id, flags, path: p.clone() });
        }
    }
    out
}

fn gen_tree(rng: &mut Rng, depth: usize, name: Vec<u8>) -> TreeNode {
    let nk = if depth >= 3 { 0 } else { rng.below(4) as usize };
    let mut names: Vec<Vec<u8>> = (0..nk).map(|_| rng.word(b"ab-", 1, 3)).collect();
    names.sort();
    names.dedup();
    // git's order: by length, then bytes
    names.sort_by(|a, b| a.len().cmp(&b.len()).then(a.cmp(b)));
    let kids = names.into_iter().map(|n| gen_tree(rng, depth + 1, n)).collect();
    let mut id = [0u8; 20];
    id.copy_from_slice(&rng.bytes(20));
    let num = if rng.chance(1, 4) { None } else { Some(rng.below(50) as u32) };
    if num.is_none() {
        id = [0u8; 20];
    }
    TreeNode { name, id, num, kids }
}

fn gen_reuc(rng: &mut Rng) -> Vec<Reuc> {
    let n = rng.range(1, 3);
    (0..n)
        .map(|_| {
            let mut stages = [None, None, None];
            for s in stages.iter_mut() {
                if rng.chance(2, 3) {
                    let mut id = [0u8; 20];
                    id.copy_from_slice(&rng.bytes(20));
                    *s = Some((*rng.pick(&MODES), id));
                }
            }
            Reuc { name: gen_path(rng), stages }
        })
        .collect()
}

fn ewah(rng: &mut Rng) -> Vec<u8> {
    let words = rng.below(3) as u32;
    let mut out = (rng.below(100) as u32).to_be_bytes().to_vec();
    out.extend_from_slice(&words.to_be_bytes());
    out.extend(rng.bytes(words as usize * 8));
    out.extend_from_slice(&0u32.to_be_bytes());
    out
}

fn gen_blocks(rng: &mut Rng, n: usize) -> Vec<usize> {
    if n == 0 {
        return vec![];
    }
    if rng.chance(1, 2) {
        // git style: ceil(n / nblocks)
        let t = rng.range(2, 6) as usize;
        let nb = t.min(n);
        let per = (n + nb - 1) / nb;
        let mut out = Vec::new();
        let mut left = n;
        while left > 0 {
            out.push(per.min(left));
            left -= per.min(left);
        }
        out
    } else {
        let mut out = Vec::new();
        let mut left = n;
        while left > 0 {
            let k = rng.range(1, left.min(4) as i64) as usize;
            out.push(k);
            left -= k;
        }
        out
    }
}

/// a structurally valid index file in git's layout
fn gen_index(rng: &mut Rng) -> Layout {
    let version = *rng.pick(&[2u32, 3, 3, 4, 4]);
    let max = if rng.chance(1, 10) { 30 } else { 8 };
    let mut entries = gen_entries(rng, version, max, false);
    let mut exts: Vec<([u8; 4], Vec<u8>)> = Vec::new();
    if rng.chance(1, 12) && version >= 3 && !entries.is_empty() {
        // sparse directory entry
        let i = rng.below(entries.len() as u64) as usize;
        if entries[i].stage() == 0 && entries[i].path.len() < 100 {
            entries[i].words[6] = 0o040000;
            entries[i].path.push(b'/');
            entries[i].flags |= F_EXTENDED | F_SKIP_WORKTREE;
            entries.sort_by(|a, b| a.path.cmp(&b.path).then(a.stage().cmp(&b.stage())));
        }
    }
    if rng.chance(1, 2) {
        let mut p = Vec::new();
        tree_payload(&gen_tree(rng, 0, vec![]), &mut p);
        exts.push((*b"TREE", p));
    }
    if rng.chance(1, 4) {
        exts.push((*b"REUC", reuc_payload(&gen_reuc(rng))));
    }
    if rng.chance(1, 10) {
        let k = rng.below(12) as usize;
        let sig = *rng.pick(&[*b"ABCD", *b"XTRA", *b"Zzzz"]);
        exts.push((sig, rng.bytes(k)));
    }
    if rng.chance(1, 12) {
        let mut p = rng.bytes(20);
        if rng.chance(1, 2) {
            p.extend(ewah(rng));
            p.extend(ewah(rng));
        }
        exts.push((*b"link", p));
    }
    if entries.iter().any(|e| e.words[6] == 0o040000) || rng.chance(1, 25) {
        exts.push((*b"sdir", vec![]));
    }
    let threaded = rng.chance(3, 5);
    let blocks = if threaded { gen_blocks(rng, entries.len()) } else { vec![entries.len()] };
    let ieot = threaded && !blocks.is_empty() && (blocks.len() > 1 || rng.chance(1, 4));
    let eoie = (threaded && !rng.chance(1, 10)) || rng.chance(1, 10);
    write_index(version, &entries, &blocks, ieot, &exts, eoie)
}

fn find_sig(d: &[u8], sig: &[u8], from: usize) -> Option<usize> {
    (from..d.len().saturating_sub(3)).find(|i| &d[*i..*i + 4] == sig)
}

/// UNTR and FSMN contents are not modelled: refuse mutants that happen to contain these signatures.
/// (Counts read from the file are only allocation hints since /repo 6dd65f2e4, so extreme count
/// fields are fair game.)
fn dangerous(d: &[u8]) -> bool {
    for s in [&b"UNTR"[..], b"FSMN"] {
        if find_sig(d, s, 0).is_some() {
            return true;
        }
    }
    false
}

fn mutate(rng: &mut Rng, l: &Layout) -> Vec<u8> {
    let orig = &l.bytes;
    for _ in 0..20 {
        let mut d = orig.clone();
        match rng.below(10) {
            0 | 1 => {
                // flip one byte somewhere
                let i = rng.below(d.len() as u64) as usize;
                d[i] ^= 1 << rng.below(8);
            }
            2 => {
                // flip in the extension area
                if l.ext_start < d.len() {
                    let i = rng.range(l.ext_start as i64, d.len() as i64 - 1) as usize;
                    d[i] ^= 1 << rng.below(8);
                }
            }
            3 => {
                // truncate the tail
                let cut = rng.range(0, d.len() as i64) as usize;
                d.truncate(cut);
            }
            4 => {
                // remove bytes in the middle
                let i = rng.below(d.len() as u64) as usize;
                let k = rng.range(1, 9) as usize;
                let j = (i + k).min(d.len());
                d.drain(i..j);
            }
            5 => {
                // tweak the flags/path length field of an entry
                if let Some(s) = (!l.entry_starts.is_empty()).then(|| *rng.pick(&l.entry_starts)) {
                    match rng.below(4) {
                        0 => {
                            d[s + 60] |= 0x0f;
                            d[s + 61] = 0xff;
                        }
                        1 => d[s + 61] = d[s + 61].wrapping_add(1),
                        2 => d[s + 61] = d[s + 61].wrapping_sub(1),
                        _ => d[s + 60] ^= *rng.pick(&[0x40u8, 0x80, 0x10, 0x20]),
                    }
                }
            }
            6 => {
                // bytes right after the flags (v4 varint / extended flags / first path byte)
                if let Some(s) = (!l.entry_starts.is_empty()).then(|| *rng.pick(&l.entry_starts)) {
                    let i = s + 62 + rng.below(3) as usize;
                    if i < d.len() {
                        d[i] = *rng.pick(&[0u8, 1, 2, 0x7f, 0x80, 0x81, 0xff, b'a']);
                    }
                }
            }
            7 => {
                // entry count +-
                let n = u32::from_be_bytes(d[8..12].try_into().unwrap());
                let n2 = match rng.below(4) { 0 => n.wrapping_add(1), 1 => n.saturating_sub(1), 2 => 0xffff_ffff, _ => n | 0x0100_0000 };
                d[8..12].copy_from_slice(&n2.to_be_bytes());
            }
            8 => {
                // extension size field
                if l.ext_start + 8 <= d.len() {
                    let sz = u32::from_be_bytes(d[l.ext_start + 4..l.ext_start + 8].try_into().unwrap());
                    let sz2 = match rng.below(4) {
                        0 => sz.wrapping_add(1),
                        1 => sz.saturating_sub(1),
                        2 => 0xffff_fff0,
                        _ => sz.wrapping_add(8),
                    };
                    d[l.ext_start + 4..l.ext_start + 8].copy_from_slice(&sz2.to_be_bytes());
                }
            }
            _ => {
                // append / insert garbage
                let i = rng.range(12.min(d.len() as i64), d.len() as i64) as usize;
                let k = rng.range(1, 8) as usize;
                let g = rng.bytes(k);
                for (k, b) in g.into_iter().enumerate() {
                    d.insert(i + k, b);
                }
            }
        }
        if !dangerous(&d) {
            return d;
        }
    }
    orig.clone()
}

fn pick_threads(rng: &mut Rng) -> u64 {
    *rng.pick(&[1u64, 2, 2, 3, 3, 4, 5, 6, 8, 16])
}

fn desc_of(entries: &[Ent]) -> Vec<u8> {
    let mut out = Vec::new();
    for e in entries {
        out.extend_from_slice(&e.words[6].to_be_bytes());
        out.extend_from_slice(&e.id);
        out.extend_from_slice(&e.flags.to_be_bytes());
        out.extend_from_slice(&(e.path.len() as u16).to_be_bytes());
        out.extend_from_slice(&e.path);
    }
    out
}

fn gen_gw(rng: &mut Rng) -> Case {
    let version = *rng.pick(&[2u32, 3, 4, 4]);
    let mut entries = gen_entries(rng, 2, 10, true);
    if entries.is_empty() {
        entries = gen_entries(rng, 2, 10, true);
    }
    let blob: [u8; 20] = unhex(EMPTY_BLOB).try_into().unwrap();
    for e in entries.iter_mut() {
        e.id = blob;
        e.flags &= 0x3000;
        if e.stage() == 0 {
            if rng.chance(1, 6) {
                e.flags |= F_ASSUME_VALID;
            }
            if rng.chance(1, 6) {
                e.flags |= F_EXTENDED | F_SKIP_WORKTREE;
            }
        }
        // paths git refuses (verify_path): components "." ".." ".git", trailing slash ...: keep to safe ones
        e.path = e.path.iter().map(|b| if *b == b'.' { b'x' } else { *b }).collect();
        e.path.truncate(65535); // the description carries a 16-bit path length
    }
    entries.sort_by(|a, b| a.path.cmp(&b.path).then(a.stage().cmp(&b.stage())));
    entries.dedup_by(|a, b| a.path == b.path && a.stage() == b.stage());
    // a path that is both a file and a directory prefix is refused by git (D/F conflict at stage 0)
    let paths: Vec<Vec<u8>> = entries.iter().map(|e| e.path.clone()).collect();
    entries.retain(|e| {
        !paths.iter().any(|p| p.len() > e.path.len() && p.starts_with(&e.path) && p[e.path.len()] == b'/')
    });
    let threads = *rng.pick(&[1u64, 2, 3, 4, 7]);
    vec![tag("gw"), num(version), desc_of(&entries), num(threads)]
}

fn gen(rng: &mut Rng, n: usize) -> Vec<Case> {
    let mut out: Vec<Case> = Vec::new();
    // the first cases are the ones the git oracle (Spec writer) is compared on
    let n_gw = (n / 12).max(20).min(n);
    for _ in 0..n_gw {
        out.push(gen_gw(rng));
    }
    // boundary block: one entry with every path length around the saturation point, each followed
    // by a short entry, v2/v3/v4, serial and threaded
    for len in [4093usize, 4094, 4095, 4096, 4097, 4098, 4099, 4100, 4101, 4102, 4103, 4104, 4140, 65535, 65536, 65546, 131077] {
        for version in [2u32, 3, 4] {
            if len > 5000 && version == 3 {
                continue;
            }
            let mut a = gen_entries(rng, version, 1, false);
            a.truncate(1);
            if a.is_empty() {
                continue;
            }
            a[0].path = vec![b'a'; len];
            let mut b = a[0].clone();
            b.path = b"b".to_vec();
            let l = write_index(version, &[a[0].clone(), b], &[1, 1], true, &[], true);
            out.push(vec![tag("dec"), num(1 + len % 3), l.bytes]);
        }
    }
    // formerly panicking inputs (fixed in /repo by the C06 commits): trailing bytes after the TREE root,
    // offset-table rows outside the entries, an 11-byte varint, count fields of 2^32-1
    {
        let es = {
            let mut v = gen_entries(rng, 4, 6, false);
            while v.len() < 3 {
                v = gen_entries(rng, 4, 6, false);
            }
            v
        };
        let blocks = vec![1, es.len() - 1];
        let mut tp = Vec::new();
        tree_payload(&gen_tree(rng, 0, vec![]), &mut tp);
        let mut tp_extra = tp.clone();
        tp_extra.push(b'x');
        for version in [2u32, 4] {
            let l = write_index(version, &es, &blocks, true, &[(*b"TREE", tp_extra.clone())], true);
            out.push(vec![tag("dec"), num(1), l.bytes.clone()]);
            out.push(vec![tag("dec"), num(3), l.bytes.clone()]);
            // IEOT rows: the extension is the first one, rows start 12 bytes into it
            let ie = l.ext_start + 12;
            for (row, off) in [(0usize, 0u32), (0, 11), (1, 0xffff_fff0), (1, l.ext_start as u32 + 1), (1, l.ext_start as u32)] {
                let mut d = l.bytes.clone();
                d[ie + 8 * row..ie + 8 * row + 4].copy_from_slice(&off.to_be_bytes());
                // keep the EOIE hash valid: it covers signatures and sizes only
                out.push(vec![tag("dec"), num(3), d.clone()]);
                out.push(vec![tag("dec"), num(1), d]);
            }
            let mut d = l.bytes.clone();
            d[ie + 4..ie + 8].copy_from_slice(&0xffff_ffffu32.to_be_bytes());
            d[ie + 12..ie + 16].copy_from_slice(&0xffff_ffffu32.to_be_bytes());
            out.push(vec![tag("dec"), num(2), d.clone()]);
            out.push(vec![tag("dec"), num(4), d]);
            let mut d = l.bytes.clone();
            d[8..12].copy_from_slice(&0xffff_ffffu32.to_be_bytes());
            out.push(vec![tag("dec"), num(1), d.clone()]);
            out.push(vec![tag("dec"), num(3), d]);
            if version == 4 {
                for extra in [8usize, 9, 10, 11] {
                    let mut d = l.bytes.clone();
                    let at = l.entry_starts[1] + 62;
                    for _ in 0..extra {
                        d.insert(at, 0x80);
                    }
                    out.push(vec![tag("dec"), num(1), d]);
                }
            }
        }
    }
    // real git scenarios (prop only), spread over the stream so that parallel shards share them
    let n_gitx = (n / 60).max(8).min(160);
    let every = (n.saturating_sub(out.len()) / n_gitx).max(1);
    let mut k = 0usize;
    while out.len() < n {
        if k % every == 0 && k / every < n_gitx {
            let seed = rng.next() % 1_000_000_007;
            let version = *rng.pick(&[2, 3, 4, 4]);
            let threads = *rng.pick(&[1, 2, 3, 4, 8]);
            out.push(vec![tag("gitx"), num(seed), num(version), num(threads)]);
        } else {
            let l = gen_index(rng);
            let t = pick_threads(rng);
            if rng.chance(7, 10) {
                out.push(vec![tag("dec"), num(t), l.bytes]);
            } else {
                let m = mutate(rng, &l);
                out.push(vec![tag("dec"), num(t), m]);
            }
        }
        k += 1;
    }
    out.truncate(n.max(1));
    out
}

// ------------------------------------------------------------------------------------------
// implementation transcript
fn show_tree(t: &gix_index::extension::Tree, out: &mut String) {
    out.push('(');
    out.push_str(&hexs(&t.name));
    out.push(':');
    out.push_str(&hexs(t.id.as_bytes()));
    out.push(':');
    match t.num_entries {
        Some(n) => out.push_str(&n.to_string()),
        None => out.push('-'),
    }
    out.push(':');
    for c in &t.children {
        show_tree(c, out);
    }
    out.push(')');
}

fn show_state(s: &gix_index::State, checksum: Option<gix_hash::ObjectId>) -> String {
    let mut o = String::new();
    o.push_str(&format!(
        "ok v{} sparse={} eoie={} ieot={} sum={} n={} E[",
        match s.version() {
            gix_index::Version::V2 => 2,
            gix_index::Version::V3 => 3,
            gix_index::Version::V4 => 4,
        },
        s.is_sparse() as u8,
        s.had_end_of_index_marker() as u8,
        s.had_offset_table() as u8,
        checksum.map_or("none".to_string(), |c| hexs(c.as_bytes())),
        s.entries().len()
    ));
    for (i, e) in s.entries().iter().enumerate() {
        if i > 0 {
            o.push(';');
        }
        let st = &e.stat;
        o.push_str(&format!(
            "{},{},{},{},{},{},{},{},{},{},{},{},{}",
            st.ctime.secs,
            st.ctime.nsecs,
            st.mtime.secs,
            st.mtime.nsecs,
            st.dev,
            st.ino,
            e.mode.bits(),
            st.uid,
            st.gid,
            st.size,
            e.flags.bits(),
            hexs(e.id.as_bytes()),
            hexs(e.path(s))
        ));
    }
    o.push_str("] tree=");
    match s.tree() {
        Some(t) => show_tree(t, &mut o),
        None => o.push_str("none"),
    }
    o.push_str(" link=");
    match s.link() {
        Some(l) => {
            o.push_str(&hexs(l.shared_index_checksum.as_bytes()));
            o.push(':');
            match &l.bitmaps {
                Some(b) => o.push_str(&format!("{},{}", b.delete.num_bits(), b.replace.num_bits())),
                None => o.push_str("none"),
            }
        }
        None => o.push_str("none"),
    }
    o.push_str(" reuc=");
    match s.resolve_undo() {
        Some(r) => o.push_str(&r.len().to_string()),
        None => o.push_str("none"),
    }
    o
}

fn decode(data: &[u8], threads: usize) -> Result<(gix_index::State, Option<gix_hash::ObjectId>), gix_index::decode::Error> {
    gix_index::State::from_bytes(
        data,
        filetime::FileTime::zero(),
        gix_hash::Kind::Sha1,
        gix_index::decode::Options { thread_limit: Some(threads), ..Default::default() },
    )
}

fn show_decode(r: Result<(gix_index::State, Option<gix_hash::ObjectId>), gix_index::decode::Error>) -> String {
    use gix_index::decode::Error;
    match r {
        Ok((s, c)) => show_state(&s, c),
        Err(Error::Header(_)) => "err Header".into(),
        Err(Error::Entry { .. }) => "err Entry".into(),
        Err(Error::Extension(_)) => "err Extension".into(),
        Err(Error::UnexpectedTrailerLength { .. }) => "err Trailer".into(),
        Err(Error::ChecksumMismatch { .. }) => "err Checksum".into(),
    }
}

fn imp(c: &Case) -> String {
    match f_str(c, 0) {
        b"dec" => show_decode(decode(f_str(c, 2), (f_u64(c, 1) as usize).max(1))),
        _ => "-".into(),
    }
}

// ------------------------------------------------------------------------------------------
// the property itself
fn ent_of(s: &gix_index::State, e: &gix_index::Entry) -> Ent {
    let st = &e.stat;
    Ent {
        words: [st.ctime.secs, st.ctime.nsecs, st.mtime.secs, st.mtime.nsecs, st.dev, st.ino, e.mode.bits(), st.uid, st.gid, st.size],
        id: e.id.as_bytes().try_into().unwrap(),
        flags: e.flags.bits(),
        path: e.path(s).to_vec(),
    }
}

fn tree_of(t: &gix_index::extension::Tree) -> TreeNode {
    TreeNode {
        name: t.name.to_vec(),
        id: t.id.as_bytes().try_into().unwrap(),
        num: t.num_entries,
        kids: t.children.iter().map(tree_of).collect(),
    }
}

fn sort_tree(t: &TreeNode) -> TreeNode {
    let mut kids: Vec<TreeNode> = t.kids.iter().map(sort_tree).collect();
    kids.sort_by(|a, b| a.name.cmp(&b.name));
    TreeNode { kids, ..t.clone() }
}

/// compare what gix decoded with what the file contains according to the reference reader
fn compare(s: &gix_index::State, want: &Parsed) -> Result<(), (String, String)> {
    let v = match s.version() {
        gix_index::Version::V2 => 2,
        gix_index::Version::V3 => 3,
        gix_index::Version::V4 => 4,
    };
    if v != want.version {
        return Err(("version".into(), format!("{v} vs {}", want.version)));
    }
    if s.entries().len() != want.entries.len() {
        return Err(("entry-count".into(), format!("{} vs {}", s.entries().len(), want.entries.len())));
    }
    for (i, (e, w)) in s.entries().iter().zip(&want.entries).enumerate() {
        let g = ent_of(s, e);
        if g.path != w.path {
            return Err(("entry-path".into(), format!("entry {i}")));
        }
        if g.stage() != w.stage() || e.stage_raw() != w.stage() {
            return Err(("entry-stage".into(), format!("entry {i}")));
        }
        if g.words[6] != w.words[6] {
            return Err(("entry-mode".into(), format!("entry {i}: {:o} vs {:o}", g.words[6], w.words[6])));
        }
        if g.id != w.id {
            return Err(("entry-id".into(), format!("entry {i}")));
        }
        if g.flags != w.flags {
            return Err(("entry-flags".into(), format!("entry {i}: {:x} vs {:x}", g.flags, w.flags)));
        }
        if g.words != w.words {
            return Err(("entry-stat".into(), format!("entry {i}: {:?} vs {:?}", g.words, w.words)));
        }
    }
    match (s.tree(), &want.tree) {
        (None, None) => {}
        (Some(t), Some(w)) => {
            // children are a set keyed by name: gix keeps them sorted by name, git by (len, name)
            if sort_tree(&tree_of(t)) != sort_tree(w) {
                return Err(("tree".into(), "tree cache content differs".into()));
            }
        }
        _ => return Err(("tree".into(), "tree cache presence differs".into())),
    }
    match (s.resolve_undo(), &want.reuc) {
        (None, None) => {}
        (Some(r), Some(w)) if r.len() == w.len() => {}
        _ => return Err(("reuc".into(), "resolve-undo differs".into())),
    }
    match (s.link(), &want.link) {
        (None, None) => {}
        (Some(l), Some((id, bm))) if l.shared_index_checksum.as_bytes() == id && l.bitmaps.is_some() == *bm => {}
        _ => return Err(("link".into(), "link differs".into())),
    }
    let want_sparse = want.sdir || want.entries.iter().any(|e| e.words[6] == 0o040000);
    if s.is_sparse() != want_sparse {
        return Err(("sparse".into(), format!("{} vs {}", s.is_sparse(), want_sparse)));
    }
    if want.has_untr && s.untracked().is_none() {
        return Err(("untracked".into(), "untracked cache not decoded".into()));
    }
    Ok(())
}

fn prop_dec(c: &Case) -> Verdict {
    let data = f_str(c, 2);
    let k = (f_u64(c, 1) as usize).max(1);
    let want = match parse_index(data) {
        Some(p) => p,
        None => return Verdict::ok(false, "not-git-valid"),
    };
    let mut limits = vec![1usize, k];
    if want.ieot_ok || want.eoie_ok {
        limits.extend([2, 3, 4, 5, 9, 16]);
    }
    for t in limits {
        match decode(data, t) {
            Ok((s, sum)) => {
                if let Err((class, detail)) = compare(&s, &want) {
                    return Verdict::fail(class, format!("thread_limit={t}: {detail}"));
                }
                let null = want.trailer == [0u8; 20];
                if sum.map(|h| h.as_bytes().to_vec()) != (!null).then(|| want.trailer.to_vec()) {
                    return Verdict::fail("checksum", format!("thread_limit={t}"));
                }
            }
            Err(e) => return Verdict::fail("decode-error", format!("thread_limit={t}: {e}")),
        }
    }
    let long = want.entries.iter().any(|e| e.path.len() >= 0xfff);
    let class = format!(
        "v{}{}{}{}",
        want.version,
        if want.ieot_ok { "-ieot" } else if want.eoie_ok { "-eoie" } else { "" },
        if long { "-longpath" } else { "" },
        if want.tree.is_some() { "-tree" } else { "" }
    );
    Verdict::ok(!want.entries.is_empty(), class)
}

// ---- real git ----------------------------------------------------------------------------
fn git_cmd(dir: &std::path::Path, cfg: &[String]) -> Command {
    let mut c = Command::new("/usr/bin/git");
    c.current_dir(dir)
        .env_clear()
        .env("PATH", "/usr/bin:/bin")
        .env("HOME", dir)
        .env("GIT_CONFIG_NOSYSTEM", "1")
        .env("GIT_AUTHOR_NAME", "a")
        .env("GIT_AUTHOR_EMAIL", "a@b")
        .env("GIT_COMMITTER_NAME", "a")
        .env("GIT_COMMITTER_EMAIL", "a@b")
        .env("GIT_AUTHOR_DATE", "1700000000 +0000")
        .env("GIT_COMMITTER_DATE", "1700000000 +0000");
    for kv in cfg {
        c.arg("-c").arg(kv);
    }
    c
}

fn run_git(dir: &std::path::Path, cfg: &[String], args: &[&str], stdin: Option<&[u8]>) -> Result<Vec<u8>, String> {
    let mut c = git_cmd(dir, cfg);
    c.args(args).stdin(Stdio::piped()).stdout(Stdio::piped()).stderr(Stdio::piped());
    let mut ch = c.spawn().map_err(|e| e.to_string())?;
    {
        let mut si = ch.stdin.take().unwrap();
        if let Some(d) = stdin {
            let _ = si.write_all(d);
        }
    }
    let o = ch.wait_with_output().map_err(|e| e.to_string())?;
    if !o.status.success() {
        return Err(format!("git {:?}: {}", args, String::from_utf8_lossy(&o.stderr)));
    }
    Ok(o.stdout)
}

fn make_repo(tag: &str) -> std::path::PathBuf {
    static CNT: std::sync::atomic::AtomicU64 = std::sync::atomic::AtomicU64::new(0);
    let dir = std::env::temp_dir().join(format!(
        "gixv-c24-{}-{}-{}",
        std::process::id(),
        tag,
        CNT.fetch_add(1, std::sync::atomic::Ordering::SeqCst)
    ));
    let _ = std::fs::remove_dir_all(&dir);
    std::fs::create_dir_all(dir.join(".git/objects")).unwrap();
    std::fs::create_dir_all(dir.join(".git/refs/heads")).unwrap();
    std::fs::write(dir.join(".git/HEAD"), "ref: refs/heads/main\n").unwrap();
    std::fs::write(dir.join(".git/config"), "[core]\n\trepositoryformatversion = 0\n\tbare = false\n").unwrap();
    dir
}

fn index_info(entries: &[Ent]) -> Vec<u8> {
    let mut s = Vec::new();
    for e in entries {
        s.extend_from_slice(format!("{:o} {} {}\t", e.words[6], hexs(&e.id), e.stage()).as_bytes());
        s.extend_from_slice(&e.path);
        s.push(b'\n');
    }
    s
}

/// what `git ls-files --stage --debug` says
fn ls_files_debug(dir: &std::path::Path, cfg: &[String]) -> Result<Vec<Ent>, String> {
    let out = run_git(dir, cfg, &["ls-files", "--stage", "--debug"], None)?;
    let text = String::from_utf8_lossy(&out).to_string();
    let lines: Vec<&str> = text.lines().collect();
    let mut res = Vec::new();
    let mut i = 0;
    let two = |l: &str, a: &str, b: &str| -> Option<(u32, u32)> {
        let l = l.trim_start().strip_prefix(a)?;
        let (x, y) = l.split_once(b)?;
        Some((x.trim().parse().ok()?, y.trim().parse().ok()?))
    };
    while i + 5 < lines.len() + 0 {
        let (meta, path) = lines[i].split_once('\t').ok_or("ls-files line")?;
        let mut it = meta.split(' ');
        let mode = u32::from_str_radix(it.next().ok_or("mode")?, 8).map_err(|e| e.to_string())?;
        let id = unhex(it.next().ok_or("id")?);
        let stage: u32 = it.next().ok_or("stage")?.parse().map_err(|_| "stage")?;
        let (cs, cn) = two(lines[i + 1], "ctime:", ":").ok_or("ctime")?;
        let (ms, mn) = two(lines[i + 2], "mtime:", ":").ok_or("mtime")?;
        let (dev, ino) = two(lines[i + 3], "dev:", "\tino:").ok_or("dev")?;
        let (uid, gid) = two(lines[i + 4], "uid:", "\tgid:").ok_or("uid")?;
        let l5 = lines[i + 5].trim_start().strip_prefix("size:").ok_or("size")?;
        let (size, flags) = l5.split_once("\tflags:").ok_or("flags")?;
        let size: u32 = size.trim().parse().map_err(|_| "size")?;
        let flags = u32::from_str_radix(flags.trim(), 16).map_err(|_| "flags")?;
        let _ = stage;
        res.push(Ent {
            words: [cs, cn, ms, mn, dev, ino, mode, uid, gid, size],
            id: id.try_into().map_err(|_| "id len")?,
            flags,
            path: path.as_bytes().to_vec(),
        });
        i += 6;
    }
    Ok(res)
}

fn gitx_build(dir: &std::path::Path, seed: u64, version: u64, threads: u64) -> Result<Vec<String>, String> {
    let mut rng = Rng::new(seed ^ 0xC24);
    let cfg: Vec<String> = vec![
        format!("index.version={version}"),
        format!("index.threads={threads}"),
        "core.splitIndex=false".into(),
        "core.untrackedCache=true".into(),
        "core.fsmonitor=false".into(),
        "core.quotePath=false".into(),
        "gc.auto=0".into(),
    ];
    // worktree files
    let nfiles = rng.range(1, 6);
    let mut files = Vec::new();
    for i in 0..nfiles {
        let p = format!("{}{}", ["d/", "d/e/", "", "f-g/"][rng.below(4) as usize], ["x", "y", "zz", "w.c"][i as usize % 4]);
        let full = dir.join(&p);
        std::fs::create_dir_all(full.parent().unwrap()).map_err(|e| e.to_string())?;
        std::fs::write(&full, format!("content {i} {}\n", rng.below(5))).map_err(|e| e.to_string())?;
        files.push(p);
    }
    files.sort();
    files.dedup();
    std::fs::write(dir.join("untracked.txt"), "u").map_err(|e| e.to_string())?;
    std::fs::create_dir_all(dir.join("udir")).map_err(|e| e.to_string())?;
    std::fs::write(dir.join("udir/u2"), "u").map_err(|e| e.to_string())?;
    let mut args = vec!["add", "--"];
    let keep_back = if files.len() > 1 && rng.chance(1, 2) { files.pop() } else { None };
    args.extend(files.iter().map(String::as_str));
    run_git(dir, &cfg, &args, None)?;
    if rng.chance(2, 3) {
        run_git(dir, &cfg, &["write-tree"], None)?; // fills the tree cache
    }
    if let Some(f) = &keep_back {
        if rng.chance(2, 3) {
            run_git(dir, &cfg, &["add", "-N", "--", f], None)?; // intent-to-add
        }
    }
    // entries without worktree files: long paths, conflicts
    let blob: [u8; 20] = unhex(EMPTY_BLOB).try_into().unwrap();
    run_git(dir, &cfg, &["hash-object", "-w", "--stdin"], Some(b""))?;
    let mut extra: Vec<Ent> = Vec::new();
    let mk = |path: Vec<u8>, stage: u32, mode: u32| Ent { words: [0, 0, 0, 0, 0, 0, mode, 0, 0, 0], id: blob, flags: stage << 12, path };
    if rng.chance(1, 2) {
        let mut p = b"long/".to_vec();
        let len = *rng.pick(&[4094usize, 4095, 4096, 4099, 4140]);
        while p.len() < len {
            p.push(*rng.pick(b"abc"));
        }
        extra.push(mk(p, 0, 0o100644));
        extra.push(mk(b"long0".to_vec(), 0, 0o100755));
    }
    let nconf = rng.below(3);
    for i in 0..nconf {
        let p = format!("c{}/conf{i}", rng.below(2)).into_bytes();
        for st in 1..=3u32 {
            if rng.chance(3, 4) || st == 2 {
                extra.push(mk(p.clone(), st, *rng.pick(&[0o100644, 0o100755, 0o120000])));
            }
        }
    }
    for i in 0..rng.below(4) {
        extra.push(mk(format!("m/{}k{i}", ["", "a/", "a/b/"][rng.below(3) as usize]).into_bytes(), 0, *rng.pick(&MODES)));
    }
    if !extra.is_empty() {
        run_git(dir, &cfg, &["update-index", "--index-info"], Some(&index_info(&extra)))?;
    }
    // resolve one conflict: records resolve-undo
    if nconf > 0 && rng.chance(2, 3) {
        let p = extra.iter().find(|e| e.stage() > 0).map(|e| String::from_utf8_lossy(&e.path).to_string()).unwrap();
        run_git(dir, &cfg, &["update-index", "--add", "--cacheinfo", &format!("100644,{EMPTY_BLOB},{p}")], None)?;
    }
    let stage0: Vec<String> = extra.iter().filter(|e| e.stage() == 0 && e.path.len() < 100).map(|e| String::from_utf8_lossy(&e.path).to_string()).collect();
    if !stage0.is_empty() && rng.chance(1, 2) {
        run_git(dir, &cfg, &["update-index", "--skip-worktree", "--", &stage0[0]], None)?;
    }
    if stage0.len() > 1 && rng.chance(1, 2) {
        run_git(dir, &cfg, &["update-index", "--assume-unchanged", "--", &stage0[1]], None)?;
    }
    if rng.chance(2, 3) {
        // populates the untracked cache
        let _ = run_git(dir, &cfg, &["status", "--porcelain"], None);
    }
    Ok(cfg)
}

fn prop_gitx(c: &Case) -> Verdict {
    let dir = make_repo("x");
    let r = (|| -> Result<Verdict, String> {
        let cfg = gitx_build(&dir, f_u64(c, 1), f_u64(c, 2), f_u64(c, 3))?;
        let listed = ls_files_debug(&dir, &cfg)?;
        let index_path = dir.join(".git/index");
        let data = std::fs::read(&index_path).map_err(|e| e.to_string())?;
        let want = parse_index(&data).ok_or("the reference reader cannot parse what git wrote")?;
        // the reference reader agrees with git ls-files
        if listed.len() != want.entries.len() {
            return Err(format!("oracle disagreement: ls-files lists {} entries, reader {}", listed.len(), want.entries.len()));
        }
        for (a, b) in listed.iter().zip(&want.entries) {
            // git prints in-memory flags: on-disk flags without name length
            if a.path != b.path || a.words != b.words || a.id != b.id || (a.flags & 0xffff_f000) != b.flags {
                return Err(format!("oracle disagreement at {:?}: {:?} vs {:?}", String::from_utf8_lossy(&a.path), a, b));
            }
        }
        for t in [1usize, 2, 3, 4, 5, 6, 7, 8, 12, 16] {
            let f = gix_index::File::at(
                &index_path,
                gix_hash::Kind::Sha1,
                false,
                gix_index::decode::Options { thread_limit: Some(t), ..Default::default() },
            );
            match f {
                Ok(f) => {
                    if let Err((class, detail)) = compare(&f, &want) {
                        return Ok(Verdict::fail(format!("git-{class}"), format!("thread_limit={t}: {detail}")));
                    }
                }
                Err(e) => return Ok(Verdict::fail("git-decode-error", format!("thread_limit={t}: {e}"))),
            }
        }
        let class = format!(
            "git-v{}{}{}{}{}{}",
            want.version,
            if want.ieot_ok { "-ieot" } else { "" },
            if want.tree.is_some() { "-tree" } else { "" },
            if want.reuc.is_some() { "-reuc" } else { "" },
            if want.has_untr { "-untr" } else { "" },
            if want.entries.iter().any(|e| e.path.len() >= 0xfff) { "-longpath" } else { "" }
        );
        Ok(Verdict::ok(true, class))
    })();
    let _ = std::fs::remove_dir_all(&dir);
    match r {
        Ok(v) => v,
        Err(e) => Verdict::fail("harness-git", e),
    }
}

fn prop(c: &Case) -> Verdict {
    match f_str(c, 0) {
        b"dec" => prop_dec(c),
        b"gitx" => prop_gitx(c),
        b"gw" => Verdict::ok(false, "gw"),
        _ => Verdict::ok(false, "?"),
    }
}

// ---- git oracle for the Spec writer: the bytes git writes for an entry list ------------------
fn parse_desc(d: &[u8]) -> Vec<Ent> {
    let mut out = Vec::new();
    let mut p = 0;
    while p < d.len() {
        let mode = u32::from_be_bytes(d[p..p + 4].try_into().unwrap());
        let id: [u8; 20] = d[p + 4..p + 24].try_into().unwrap();
        let flags = u32::from_be_bytes(d[p + 24..p + 28].try_into().unwrap());
        let pl = u16::from_be_bytes(d[p + 28..p + 30].try_into().unwrap()) as usize;
        let path = d[p + 30..p + 30 + pl].to_vec();
        p += 30 + pl;
        out.push(Ent { words: [0, 0, 0, 0, 0, 0, mode, 0, 0, 0], id, flags, path });
    }
    out
}

fn git(c: &Case) -> String {
    if f_str(c, 0) != b"gw" {
        return "-".into();
    }
    let entries = parse_desc(f_str(c, 2));
    if entries.is_empty() {
        return "-".into();
    }
    let dir = make_repo("w");
    let cfg: Vec<String> = vec![
        format!("index.version={}", f_u64(c, 1)),
        format!("index.threads={}", f_u64(c, 3)),
        "core.splitIndex=false".into(),
        "core.untrackedCache=false".into(),
        "core.fsmonitor=false".into(),
    ];
    let r = (|| -> Result<String, String> {
        run_git(&dir, &cfg, &["update-index", "--index-info"], Some(&index_info(&entries)))?;
        let sw: Vec<u8> = entries.iter().filter(|e| e.flags & F_SKIP_WORKTREE != 0).flat_map(|e| [e.path.clone(), vec![b'\n']].concat()).collect();
        if !sw.is_empty() {
            run_git(&dir, &cfg, &["update-index", "--skip-worktree", "--stdin"], Some(&sw))?;
        }
        let av: Vec<u8> = entries.iter().filter(|e| e.flags & F_ASSUME_VALID != 0).flat_map(|e| [e.path.clone(), vec![b'\n']].concat()).collect();
        if !av.is_empty() {
            run_git(&dir, &cfg, &["update-index", "--assume-unchanged", "--stdin"], Some(&av))?;
        }
        let data = std::fs::read(dir.join(".git/index")).map_err(|e| e.to_string())?;
        Ok(hexs(&data))
    })();
    let _ = std::fs::remove_dir_all(&dir);
    match r {
        Ok(s) => s,
        Err(e) => format!("git-failed {}", e.replace('\n', " ")),
    }
}

fn main() {
    main_with(Harness { gen, imp, prop, git: Some(git), deadline: std::time::Duration::from_secs(180) });
}
