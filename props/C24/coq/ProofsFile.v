(* C24 — whole-file statement for git-written files without extensions (header + entries + trailer),
   versions 2, 3 and 4, every thread limit. *)
From Coq Require Import ZArith Lia ZifyBool ZifyNat ZifyN.
From GixV.Base Require Import Bytes BytesFacts Outcome.
From GixV.C24 Require Import Model Spec ProofsEntry ProofsV4.
Ltac Zify.zify_post_hook ::= Z.div_mod_to_equations.
Local Open Scope N_scope.
Local Open Scope outcome_scope.

Lemma header_decode_ok v n rest : (v = 2 \/ v = 3 \/ v = 4) -> n < 4294967296 -> (20 <= length rest)%nat ->
  header_decode (bs "DIRC" ++ be32 v ++ be32 n ++ rest) = Ok (v, n, rest).
Proof.
  intros Hv Hn Hl. unfold header_decode.
  replace (length (bs "DIRC" ++ be32 v ++ be32 n ++ rest) <? 32)%nat with false
    by (rewrite !app_length, !be32_length; cbn [length bs]; lia).
  change (bs "DIRC" ++ be32 v ++ be32 n ++ rest) with (x44 :: x49 :: x52 :: x43 :: (be32 v ++ be32 n ++ rest)).
  cbv beta iota.
  replace (bytes_eqb [x44; x49; x52; x43] (bs "DIRC")) with true by reflexivity.
  rewrite u32_of_be32 by lia.
  replace ((v =? 2) || (v =? 3) || (v =? 4)) with true by lia.
  cbv beta iota. rewrite u32_of_be32 by exact Hn. reflexivity.
Qed.

Lemma ext_all_trailer_only t : length t = 20%nat -> ext_all t = Ok (exts_default, t).
Proof.
  intros Hl. unfold ext_all, ext_items_without_checksum. rewrite Hl. cbn [Nat.ltb Nat.leb].
  replace (20 - 20)%nat with 0%nat by lia. cbn [firstn]. unfold ext_items. cbn [length ext_iter rev].
  cbn [ext_apply]. cbn [N.to_nat skipn]. reflexivity.
Qed.

Lemma git_entries_len v4 es : forall prev fresh, (length es <= length (git_entries v4 prev fresh es))%nat.
Proof.
  induction es as [|e es IH]; intros prev fresh; [cbn; lia|].
  cbn [git_entries length]. rewrite app_length. specialize (IH (e_path e) false).
  assert (1 <= length (if v4 then git_entry_v4 prev fresh e else git_entry_v23 e))%nat.
  { destruct v4; [|apply git_entry_v23_length].
    unfold git_entry_v4. rewrite !app_length. cbn [length]. lia. }
  lia.
Qed.

Section WithHash.
Variable sha : bytes -> bytes.
Hypothesis sha_len : forall x, length (sha x) = 20%nat.

(* a file as git writes it without any extension: one block, no offset table, no EOIE *)
Definition git_plain_file (v : N) (es : list entry) : bytes := git_write sha v [es] false [] false.

Lemma L_git_index_decodes_no_extensions v es threads :
  (v = 2 \/ v = 3 \/ v = 4) -> Forall wf_entry es -> N.of_nat (length es) < 4294967296 ->
  Forall (fun e => N.of_nat (length (e_path e)) < 9223372036854775808) es ->
  let file := git_plain_file v es in
  eoie_decode sha file = None ->
  from_bytes sha threads file =
    Ok (mkState v es (any_sparse es) exts_default
                (let t := sha (firstn (length file - 20) file) in if is_null t then None else Some t)).
Proof.
  intros Hv HF Hn Hlens. cbv zeta. unfold git_plain_file, git_write, git_body.
  cbn [git_blocks concat app flat_map negb map]. rewrite !app_nil_r.
  set (v4 := v =? 4).
  set (body := (bs "DIRC" ++ be32 v ++ be32 (N.of_nat (length es))) ++ git_entries v4 [] false es).
  intros Heoie.
  assert (Hfile : body ++ sha body =
                  bs "DIRC" ++ be32 v ++ be32 (N.of_nat (length es)) ++ (git_entries v4 [] false es ++ sha body)).
  { unfold body. rewrite <- !app_assoc. reflexivity. }
  assert (Hfirst : firstn (length (body ++ sha body) - 20) (body ++ sha body) = body).
  { rewrite app_length, sha_len. replace (length body + 20 - 20)%nat with (length body) by lia.
    rewrite firstn_app, Nat.sub_diag, firstn_all. cbn [firstn]. apply app_nil_r. }
  rewrite Hfirst. unfold from_bytes. rewrite Heoie. rewrite Hfile.
  rewrite header_decode_ok; [|exact Hv|exact Hn|rewrite app_length, sha_len; lia].
  cbn [obind]. fold v4.
  assert (Hrt : chunk_of v4 (N.of_nat (length es)) (git_entries v4 [] false es ++ sha body) = Ok (es, sha body)).
  { unfold chunk_of.
    assert (Hfuel : (length es <= S (length (git_entries v4 [] false es ++ sha body)))%nat).
    { rewrite app_length. pose proof (git_entries_len v4 es [] false). lia. }
    destruct v4.
    - apply (L_chunk_v4 es _ [] false None (sha body) []); try assumption.
      + intros Hnil. pose proof (sha_len body) as Hl. rewrite Hnil in Hl. discriminate.
      + cbn [length]. lia.
      + right. split; [reflexivity|right; reflexivity].
    - apply (L_chunk_v23 es _ None (sha body) []); assumption. }
  rewrite Hrt. cbn [obind].
  rewrite ext_all_trailer_only by apply sha_len. cbn [obind].
  unfold finish. rewrite sha_len. cbn [Nat.eqb negb].
  cbn [x_sparse exts_default]. rewrite Bool.orb_false_r. reflexivity.
Qed.
End WithHash.
