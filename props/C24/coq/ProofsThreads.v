(* C24 — the offset-table (threaded) decoding path yields what serial decoding yields, for every
   thread count, on an entry area laid out as git writes it. *)
From Coq Require Import ZArith Lia ZifyBool ZifyNat ZifyN.
From GixV.Base Require Import Bytes BytesFacts Outcome.
From GixV.C24 Require Import Model Spec ProofsEntry.
Ltac Zify.zify_post_hook ::= Z.div_mod_to_equations.
Local Open Scope N_scope.

(* ---- generic part: blocks that each decode to their entries ------------------------------------ *)
Section Generic.
Variable v4 : bool.
Variable data : bytes.

(* table row (offset, count) decodes to the entry list [b] *)
Definition row_ok (row : N * N) (b : list entry) : Prop :=
  N.of_nat (length data) <? fst row = false /\
  exists rest, chunk_of v4 (snd row) (skipn (N.to_nat (fst row)) data) = Ok (b, rest).

Lemma decode_blocks_ok l : forall bl acc, Forall2 row_ok l bl ->
  decode_blocks v4 data l acc = Ok (acc ++ concat bl).
Proof.
  induction l as [|[off n] l IH]; intros bl acc H; inversion H as [|? b ? bl' Hr Hrest]; subst.
  - cbn. rewrite app_nil_r. reflexivity.
  - destruct Hr as [Hlen [rest Hc]]. cbn [fst snd] in *. cbn [decode_blocks]. rewrite Hlen, Hc.
    rewrite (IH bl' _ Hrest). cbn [concat]. rewrite app_assoc. reflexivity.
Qed.

Lemma decode_group_ok l bl : Forall2 row_ok l bl ->
  decode_group v4 data l = Ok (concat bl).
Proof.
  intros H. unfold decode_group. rewrite decode_blocks_ok with (bl := bl) by exact H. reflexivity.
Qed.

Lemma Forall2_firstn {A B} (R : A -> B -> Prop) k : forall l m, Forall2 R l m -> Forall2 R (firstn k l) (firstn k m).
Proof. induction k as [|k IH]; intros l m H; [constructor|]. inversion H; subst; cbn [firstn]; constructor; auto. Qed.
Lemma Forall2_skipn {A B} (R : A -> B -> Prop) k : forall l m, Forall2 R l m -> Forall2 R (skipn k l) (skipn k m).
Proof. induction k as [|k IH]; intros l m H; [exact H|]. inversion H; subst; cbn [skipn]; auto. Qed.

Lemma stitch_chunks size : (1 <= size)%nat -> forall fuel l bl acc,
  (length l <= fuel)%nat -> Forall2 row_ok l bl ->
  let rs := map (decode_group v4 data) (chunks_of fuel size l) in
  existsb is_panic rs = false /\ stitch rs acc = Ok (acc ++ concat bl).
Proof.
  intros Hsize. induction fuel as [|fuel IH]; intros l bl acc Hlen H.
  - destruct l; [|cbn [length] in Hlen; lia]. inversion H; subst. cbn. rewrite app_nil_r. split; reflexivity.
  - destruct l as [|x l].
    + inversion H; subst. cbn. rewrite app_nil_r. split; reflexivity.
    + cbn [chunks_of]. set (l0 := x :: l) in *. cbn [map].
      assert (Hg : decode_group v4 data (firstn size l0) = Ok (concat (firstn size bl))).
      { apply decode_group_ok. apply Forall2_firstn. exact H. }
      rewrite Hg.
      assert (Hlen' : (length (skipn size l0) <= fuel)%nat).
      { rewrite skipn_length. unfold l0 in *. cbn [length] in *. lia. }
      destruct (IH (skipn size l0) (skipn size bl) (acc ++ concat (firstn size bl)) Hlen'
                   (Forall2_skipn _ size _ _ H)) as [Hp Hst].
      cbv zeta in Hp, Hst. split.
      * cbn [existsb is_panic]. exact Hp.
      * cbn [stitch]. rewrite Hst. rewrite <- app_assoc, <- concat_app, firstn_skipn. reflexivity.
Qed.

(* every thread count gives the concatenation of the blocks *)
Lemma L_decode_chunked_ok table bl threads : 1 <= threads ->
  Forall2 row_ok table bl ->
  decode_chunked v4 data table threads = Ok (concat bl).
Proof.
  intros Ht H. unfold decode_chunked.
  destruct table as [|x table].
  - inversion H; subst. reflexivity.
  - set (t := x :: table) in *.
    assert (Hsize : (1 <= N.to_nat ((N.of_nat (length t) + threads - 1) / threads))%nat).
    { assert (1 <= (N.of_nat (length t) + threads - 1) / threads).
      { apply N.div_le_lower_bound; [lia|]. unfold t. cbn [length]. lia. }
      lia. }
    destruct (stitch_chunks _ Hsize (length t) t bl [] (le_n _) H) as [Hp Hst].
    cbv zeta in Hp, Hst. rewrite Hp. exact Hst.
Qed.
End Generic.

(* ---- git's layout of version 2/3 entry blocks ----------------------------------------------------- *)
Lemma git_blocks_v23 blocks : forall prev first,
  git_blocks false prev first blocks = map (git_entries false [] false) blocks.
Proof.
  induction blocks as [|b r IH]; intros prev first; [reflexivity|].
  cbn [git_blocks map]. rewrite IH. f_equal. apply git_entries_v23_prev.
Qed.

Lemma git_entries_v23_app a : forall b,
  git_entries false [] false (a ++ b) = git_entries false [] false a ++ git_entries false [] false b.
Proof.
  induction a as [|e a IH]; intros b; [reflexivity|].
  cbn [app git_entries]. rewrite <- app_assoc. f_equal.
  rewrite (git_entries_v23_prev (a ++ b) (e_path e) false [] false), IH.
  rewrite (git_entries_v23_prev a (e_path e) false [] false). reflexivity.
Qed.

Lemma git_entries_v23_concat blocks :
  git_entries false [] false (concat blocks) = concat (map (git_entries false [] false) blocks).
Proof.
  induction blocks as [|b r IH]; [reflexivity|]. cbn [concat map]. rewrite git_entries_v23_app, IH. reflexivity.
Qed.

Lemma git_entries_v23_len l : (length l <= length (git_entries false [] false l))%nat.
Proof.
  induction l as [|a l IH]; [cbn; lia|]. cbn [git_entries length]. rewrite app_length.
  pose proof (git_entry_v23_length a). rewrite (git_entries_v23_prev l (e_path a) false [] false). lia.
Qed.

Lemma skipn_app_exact {A} (a b : list A) : skipn (length a) (a ++ b) = b.
Proof. induction a; [reflexivity|]. cbn [length app skipn]. assumption. Qed.

Lemma layout_rows blocks : forall pre rest, Forall (Forall wf_entry) blocks ->
  let bbs := map (git_entries false [] false) blocks in
  Forall2 (row_ok false (pre ++ concat bbs ++ rest))
          (combine (block_offsets (N.of_nat (length pre)) bbs) (map (fun b => N.of_nat (length b)) blocks))
          blocks.
Proof.
  induction blocks as [|b blocks IH]; intros pre rest HF; cbv zeta; [constructor|].
  inversion HF as [|? ? Hb HF']; subst. cbn [map block_offsets combine concat].
  constructor.
  - unfold row_ok. cbn [fst snd]. split.
    + rewrite !app_length. lia.
    + rewrite Nat2N.id, skipn_app_exact. rewrite <- app_assoc.
      eexists. unfold chunk_of. apply (L_chunk_v23 b _ None _ []); [exact Hb|].
      rewrite app_length. pose proof (git_entries_v23_len b). lia.
  - specialize (IH (pre ++ git_entries false [] false b) rest HF'). cbv zeta in IH.
    rewrite app_length, Nat2N.inj_add in IH. rewrite <- !app_assoc in IH.
    rewrite <- app_assoc. exact IH.
Qed.

Lemma block_offsets_length bbs : forall s, length (block_offsets s bbs) = length bbs.
Proof. induction bbs as [|b r IH]; intros s; [reflexivity|]. cbn [block_offsets length]. rewrite IH. reflexivity. Qed.

(* Version 2/3: decoding the blocks named by git's offset table on any number of threads gives the
   entries git stored, and so does serial decoding of the same bytes. *)
Lemma L_thread_limit_irrelevant_v23 blocks pre rest threads :
  Forall (Forall wf_entry) blocks -> 1 <= threads ->
  let bbs := map (git_entries false [] false) blocks in
  let data := pre ++ concat bbs ++ rest in
  let table := combine (block_offsets (N.of_nat (length pre)) bbs) (map (fun b => N.of_nat (length b)) blocks) in
  decode_chunked false data table threads = Ok (concat blocks) /\
  chunk_of false (N.of_nat (length (concat blocks))) (concat bbs ++ rest) = Ok (concat blocks, rest).
Proof.
  intros HF Ht. cbv zeta. split.
  - apply L_decode_chunked_ok; [exact Ht|apply layout_rows; exact HF].
  - rewrite <- git_entries_v23_concat. unfold chunk_of.
    apply (L_chunk_v23 (concat blocks) _ None rest []).
    + apply Forall_forall. intros e He. apply in_concat in He. destruct He as [b [Hb He]].
      rewrite Forall_forall in HF. specialize (HF b Hb). rewrite Forall_forall in HF. apply HF, He.
    + rewrite app_length. pose proof (git_entries_v23_len (concat blocks)). lia.
Qed.
