(* C24 — executable model of gix-index decoding (gix-index/src/decode/{mod,header,entries}.rs,
   src/extension/{iter,decode,tree/decode,resolve_undo,link,index_entry_offset_table,
   end_of_index_entry/decode}.rs, gix-bitmap ewah::decode, gix-features decode::leb64_from_read)
   and of the writer (src/write.rs, src/entry/write.rs, src/extension/tree/write.rs,
   src/extension/end_of_index_entry/write.rs; used by C25).  NO proofs here.

   Conventions: object ids are 20 bytes (Kind::Sha1); usize is 64 bit; the build is a debug build
   (debug assertions on).  [Err tt] of a [res] is the Rust function returning [None].  The hash is a
   parameter [sha : bytes -> bytes] of every function that needs it (Run.v passes Sha1.sha1).
   Entry paths are kept as values (the Rust code keeps ranges into one path buffer; the offsets
   are an implementation detail and are observable only through [Entry::path]).
   Not modelled: the content of the UNTR and FSMN extensions (they decode to private data); the
   model skips them like unknown optional extensions and the generators never emit them in
   byte-level cases (the git-driven cases of the harness cover UNTR).  Allocation failure of
   [Vec::with_capacity] for absurd counts is not modelled. *)
From GixV.Base Require Import Bytes Outcome.
Local Open Scope N_scope.
Local Open Scope outcome_scope.

Definition res (A : Type) := outcome A unit.
Definition none {A} : res A := Err tt.
Definition lift {A} (o : option A) : res A := match o with Some a => Ok a | None => Err tt end.

(* ---- integers ------------------------------------------------------------------------- *)
Definition be32 (n : N) : bytes := [N2b (n / 16777216); N2b (n / 65536); N2b (n / 256); N2b n].
Definition be16 (n : N) : bytes := [N2b (n / 256); N2b n].
Definition u32_of (a b c d : byte) : N := b2N a * 16777216 + b2N b * 65536 + b2N c * 256 + b2N d.

Definition read_u32 (d : bytes) : option (N * bytes) :=
  match d with a :: b :: c :: e :: r => Some (u32_of a b c e, r) | _ => None end.
Definition read_u16 (d : bytes) : option (N * bytes) :=
  match d with a :: b :: r => Some (b2N a * 256 + b2N b, r) | _ => None end.
Fixpoint read_words (n : nat) (d : bytes) : option (list N * bytes) :=
  match n with
  | O => Some ([], d)
  | S n' => match read_u32 d with
            | Some (w, r) => match read_words n' r with
                             | Some (ws, r') => Some (w :: ws, r')
                             | None => None
                             end
            | None => None
            end
  end.
Fixpoint be_N (d : bytes) (acc : N) : N :=
  match d with [] => acc | b :: r => be_N r (acc * 256 + b2N b) end.

(* ---- slices --------------------------------------------------------------------------- *)
(* [take n d]: [split_at_pos] for a length known to be small *)
Fixpoint take (n : nat) (d : bytes) : option (bytes * bytes) :=
  match n with
  | O => Some ([], d)
  | S n' => match d with
            | [] => None
            | b :: r => match take n' r with
                        | Some (a, rest) => Some (b :: a, rest)
                        | None => None
                        end
            end
  end.
(* util::split_at_pos for a length that comes from the input (never convert a huge N to nat) *)
Definition split_at_pos (d : bytes) (n : N) : option (bytes * bytes) :=
  if N.of_nat (length d) <? n then None else take (N.to_nat n) d.

Fixpoint span_byte (b : byte) (d : bytes) : option (bytes * bytes) :=
  match d with
  | [] => None
  | x :: r => if beqb x b then Some ([], r)
              else match span_byte b r with
                   | Some (a, rest) => Some (x :: a, rest)
                   | None => None
                   end
  end.
(* util::split_at_byte_exclusive: refuses inputs shorter than two bytes *)
Definition split_at_byte_exclusive (d : bytes) (b : byte) : option (bytes * bytes) :=
  match d with
  | [] | [_] => None
  | _ => span_byte b d
  end.

(* gix_features::decode::leb64_from_read as used by util::var_int: an 11th byte is an error
   (`var_int` returns None); `value += 1` would panic on overflow in a debug build, which cannot
   happen within 10 bytes *)
Fixpoint leb_loop (d : bytes) (value i : N) (last : byte) : res (N * bytes) :=
  if b2N last <? 128 then Ok (value, d)
  else match d with
       | [] => none
       | c :: r =>
           if 10 <? i + 1 then none
           else if 18446744073709551616 <=? value + 1 then Panic
           else leb_loop r (N.modulo ((value + 1) * 128) 18446744073709551616 + b2N c mod 128) (i + 1) c
       end.
Definition var_int (d : bytes) : res (N * bytes) :=
  match d with
  | [] => none
  | b :: r => leb_loop r (b2N b mod 128) 1 b
  end.

(* ---- entries -------------------------------------------------------------------------- *)
(* e_words: ctime.secs ctime.nsecs mtime.secs mtime.nsecs dev ino mode uid gid size (disk order),
   the mode already truncated to the bits of entry::Mode; e_flags: in-memory entry::Flags bits *)
Record entry := mkEntry { e_words : list N; e_id : bytes; e_flags : N; e_path : bytes }.

Definition PATH_LEN : N := 4095.
Definition F_EXTENDED : N := 16384.
Definition F_REMOVE : N := 131072.
Definition F_INTENT_TO_ADD : N := 536870912.
Definition F_SKIP_WORKTREE : N := 1073741824.
Definition MODE_MASK : N := 57837.     (* 0o160755: union of all entry::Mode constants *)
Definition MODE_DIR : N := 16384.      (* 0o040000 *)

Definition mask_mode (ws : list N) : list N :=
  match ws with
  | a :: b :: c :: d :: e :: f :: m :: r => a :: b :: c :: d :: e :: f :: N.land m MODE_MASK :: r
  | _ => ws
  end.
Definition entry_mode (e : entry) : N := nth 6 (e_words e) 0.

(* (flags in memory, bytes consumed by the flag fields, rest).  Bit operations on the 16-bit fields
   are written arithmetically: bit 14 (EXTENDED) of [fl] is [(fl / 16384) mod 2]; the extended
   flags may only have bits 13 (INTENT_TO_ADD >> 16) and 14 (SKIP_WORKTREE >> 16) set
   (FlagsExtended::from_bits); [fl | x << 16] is a sum because [fl < 65536]. *)
Definition read_flags (d : bytes) : option (N * N * bytes) :=
  match read_u16 d with
  | None => None
  | Some (fl, r) =>
      if (fl / 16384) mod 2 =? 0 then Some (fl, 2, r)
      else match read_u16 r with
           | None => None
           | Some (x, r') =>
               if (x mod 8192 =? 0) && (x <? 32768) then Some (fl + x * 65536, 4, r') else None
           end
      end.

(* skip_padding: [off] = bytes of this entry consumed so far (pointer difference in the code) *)
Definition skip_padding (d : bytes) (off : N) : option bytes :=
  let c_padding := ((off + 8) / 8) * 8 in
  match take (N.to_nat (c_padding - off)) d with
  | Some (_, r) => Some r
  | None => None
  end.

Definition load_one (v4 : bool) (prev : option bytes) (d0 : bytes) : res (entry * bytes) :=
  '(ws, d) <- lift (read_words 10 d0) ;;
  '(id, d) <- lift (take 20 d) ;;
  '(fl, fsz, d) <- lift (read_flags d) ;;
  if v4 then
    '(strip, d) <- var_int d ;;
    pre <- match prev with
           | None => Ok []
           | Some p => if N.of_nat (length p) <? strip then none
                       else Ok (firstn (length p - N.to_nat strip) p)
           end ;;
    '(suffix, d) <- lift (split_at_byte_exclusive d x00) ;;
    Ok (mkEntry (mask_mode ws) id (fl / 4096 * 4096) (pre ++ suffix), d)
  else
    plen <- (if fl mod 4096 =? PATH_LEN
             then '(p, _) <- lift (split_at_byte_exclusive d x00) ;; Ok (N.of_nat (length p))
             else Ok (fl mod 4096)) ;;
    '(path, d) <- lift (take (N.to_nat plen) d) ;;
    d <- lift (skip_padding d (60 + fsz + plen)) ;;
    Ok (mkEntry (mask_mode ws) id (fl / 4096 * 4096) path, d).

Inductive derr := EHeader | EEntry | EExt | ETrailer.

(* entries::chunk: [fuel] bounds the number of iterations (each consumes at least one byte) *)
Fixpoint chunk (fuel : nat) (v4 : bool) (n : N) (prev : option bytes) (d : bytes) (acc : list entry)
  : outcome (list entry * bytes) derr :=
  if n =? 0 then Ok (rev acc, d)
  else match fuel with
       | O => OutOfFuel
       | S f =>
           match load_one v4 prev d with
           | Ok (e, r) => chunk f v4 (n - 1) (Some (e_path e)) r (e :: acc)
           | Err _ => Err EEntry
           | Panic => Panic
           | OutOfFuel => OutOfFuel
           end
       end.
Definition chunk_of (v4 : bool) (n : N) (d : bytes) := chunk (S (length d)) v4 n None d [].
Definition any_sparse (es : list entry) : bool := existsb (fun e => entry_mode e =? MODE_DIR) es.

(* ---- header --------------------------------------------------------------------------- *)
Definition header_decode (d : bytes) : outcome (N * N * bytes) derr :=
  if (length d <? 32)%nat then Err EHeader
  else match d with
       | s0 :: s1 :: s2 :: s3 :: r =>
           if bytes_eqb [s0; s1; s2; s3] (bs "DIRC") then
             match read_u32 r with
             | Some (v, r1) =>
                 if (v =? 2) || (v =? 3) || (v =? 4) then
                   match read_u32 r1 with
                   | Some (n, r2) => Ok (v, n, r2)
                   | None => Panic
                   end
                 else Err EHeader
             | None => Panic
             end
           else Err EHeader
       | _ => Panic
       end.

(* ---- extension framing ---------------------------------------------------------------- *)
(* extension::Iter: items (signature, data, bytes consumed up to and including this item), and the
   final [consumed] *)
Fixpoint ext_iter (fuel : nat) (d : bytes) (consumed : N) (acc : list (bytes * bytes * N))
  : list (bytes * bytes * N) * N :=
  match fuel with
  | O => (rev acc, consumed)
  | S f =>
      match d with
      | s0 :: s1 :: s2 :: s3 :: z0 :: z1 :: z2 :: z3 :: r =>
          let size := u32_of z0 z1 z2 z3 in
          match split_at_pos r size with
          | Some (x, r') => ext_iter f r' (consumed + 8 + size) (([s0; s1; s2; s3], x, consumed + 8 + size) :: acc)
          | None => (rev acc, consumed + 8)
          end
      | _ => (rev acc, consumed)
      end
  end.
Definition ext_items (d : bytes) := ext_iter (S (length d)) d 0 [].
(* Iter::new_without_checksum *)
Definition ext_items_without_checksum (d : bytes) : option (list (bytes * bytes * N) * N) :=
  if (length d <? 20)%nat then None else Some (ext_items (firstn (length d - 20) d)).

(* ---- TREE ------------------------------------------------------------------------------ *)
Inductive tree := Tree (name : bytes) (id : bytes) (num : option N) (children : list tree).
Definition tree_name (t : tree) : bytes := match t with Tree n _ _ _ => n end.

Definition all_digits (s : bytes) : bool := forallb is_digit s.
Definition dec_val (s : bytes) : N := match dec_to_N_acc s 0 with Some v => v | None => 0 end.
(* btoi::to_unsigned::<usize> *)
Definition to_unsigned_usize (s : bytes) : option N :=
  match s with
  | [] => None
  | _ => if all_digits s && (dec_val s <? 18446744073709551616) then Some (dec_val s) else None
  end.
(* btoi::to_signed::<i32> *)
Definition to_signed_i32 (s : bytes) : option Z :=
  match s with
  | [] => None
  | c :: r =>
      if beqb c x2b then
        match r with [] => None | _ =>
          if all_digits r && (dec_val r <? 2147483648) then Some (Z.of_N (dec_val r)) else None end
      else if beqb c x2d then
        match r with [] => None | _ =>
          if all_digits r && (dec_val r <=? 2147483648) then Some (Z.opp (Z.of_N (dec_val r))) else None end
      else if all_digits s && (dec_val s <? 2147483648) then Some (Z.of_N (dec_val s)) else None
  end.

Definition null_id : bytes := repeat x00 20.

(* stable insertion sort by name (slice::sort_by is stable) *)
Fixpoint tree_insert (t : tree) (l : list tree) : list tree :=
  match l with
  | [] => [t]
  | u :: r => match bytes_cmp (tree_name t) (tree_name u) with
              | Lt => t :: l
              | _ => u :: tree_insert t r
              end
  end.
Definition tree_sort (l : list tree) : list tree := fold_left (fun acc t => tree_insert t acc) l [].
Fixpoint has_adjacent_dup (l : list tree) : bool :=
  match l with
  | a :: (b :: _) as r => bytes_eqb (tree_name a) (tree_name b) || has_adjacent_dup r
  | _ => false
  end.

Fixpoint tree_one (fuel : nat) (d : bytes) : res (tree * bytes) :=
  match fuel with
  | O => OutOfFuel
  | S f =>
      '(path, d) <- lift (split_at_byte_exclusive d x00) ;;
      '(cnt, d) <- lift (split_at_byte_exclusive d x20) ;;
      num <- lift (to_signed_i32 cnt) ;;
      '(sub, d) <- lift (split_at_byte_exclusive d x0a) ;;
      nsub <- lift (to_unsigned_usize sub) ;;
      '(id, d) <- (if (0 <=? num)%Z then lift (take 20 d) else Ok (null_id, d)) ;;
      '(kids, d) <- (fix kids (k : nat) (c : N) (d : bytes) (acc : list tree) : res (list tree * bytes) :=
                       if c =? 0 then Ok (rev acc, d)
                       else match k with
                            | O => OutOfFuel
                            | S k' => '(t, r) <- tree_one f d ;; kids k' (c - 1) r (t :: acc)
                            end) f nsub d [] ;;
      let sorted := tree_sort kids in
      if has_adjacent_dup sorted then none
      else Ok (Tree path id (if (0 <=? num)%Z then Some (Z.to_N num) else None) sorted, d)
  end.
(* tree::decode: left-over data means the extension is corrupt and is ignored *)
Definition tree_decode (d : bytes) : res tree :=
  match tree_one (S (length d)) d with
  | Ok (t, []) => Ok t
  | Ok (_, _ :: _) => none
  | Err e => Err e
  | Panic => Panic
  | OutOfFuel => OutOfFuel
  end.

(* ---- REUC ------------------------------------------------------------------------------ *)
Definition is_octal (b : byte) : bool := (48 <=? b2N b) && (b2N b <=? 55).
Fixpoint oct_val (s : bytes) (acc : N) : N :=
  match s with [] => acc | b :: r => oct_val r (acc * 8 + (b2N b - 48)) end.
(* u32::from_str_radix(_, 8): optional '+', at least one digit *)
Definition parse_octal_u32 (s : bytes) : option N :=
  let ds := match s with c :: r => if beqb c x2b then r else s | [] => s end in
  match ds with
  | [] => None
  | _ => if forallb is_octal ds && (oct_val ds 0 <? 4294967296) then Some (oct_val ds 0) else None
  end.

Record reuc := mkReuc { r_name : bytes; r_stages : list (option (N * bytes)) }.

Fixpoint reuc_modes (n : nat) (d : bytes) : option (list N * bytes) :=
  match n with
  | O => Some ([], d)
  | S n' => match split_at_byte_exclusive d x00 with
            | Some (m, r) => match parse_octal_u32 m with
                             | Some v => match reuc_modes n' r with
                                         | Some (vs, r') => Some (v :: vs, r')
                                         | None => None
                                         end
                             | None => None
                             end
            | None => None
            end
  end.
Fixpoint reuc_stages (ms : list N) (d : bytes) : option (list (option (N * bytes)) * bytes) :=
  match ms with
  | [] => Some ([], d)
  | m :: ms' =>
      if m =? 0 then
        match reuc_stages ms' d with Some (l, r) => Some (None :: l, r) | None => None end
      else match take 20 d with
           | Some (h, r) => match reuc_stages ms' r with
                            | Some (l, r') => Some (Some (m, h) :: l, r')
                            | None => None
                            end
           | None => None
           end
  end.
Fixpoint reuc_decode (fuel : nat) (d : bytes) (acc : list reuc) : res (list reuc) :=
  match d with
  | [] => Ok (rev acc)
  | _ => match fuel with
         | O => OutOfFuel
         | S f =>
             '(path, d) <- lift (split_at_byte_exclusive d x00) ;;
             '(ms, d) <- lift (reuc_modes 3 d) ;;
             '(st, d) <- lift (reuc_stages ms d) ;;
             reuc_decode f d (mkReuc path st :: acc)
         end
  end.

(* ---- link / EWAH ----------------------------------------------------------------------- *)
(* gix_bitmap::ewah::decode: (num_bits, words, rlw) *)
Definition ewah_decode (d : bytes) : option (N * list N * N * bytes) :=
  match read_u32 d with
  | None => None
  | Some (nbits, d) =>
      match read_u32 d with
      | None => None
      | Some (len, d) =>
          match split_at_pos d (len * 8) with
          | None => None
          | Some (bits, d) =>
              match read_u32 d with
              | None => None
              | Some (rlw, d) =>
                  let words := (fix go (k : nat) (b : bytes) : list N :=
                                  match k with
                                  | O => []
                                  | S k' => be_N (firstn 8 b) 0 :: go k' (skipn 8 b)
                                  end) (N.to_nat len) bits in
                  Some (nbits, words, rlw, d)
              end
          end
      end
  end.
Record link := mkLink { l_id : bytes; l_bitmaps : option (N * N) (* num_bits of delete, replace *) }.
Definition link_decode (d : bytes) : option link :=
  match take 20 d with
  | None => None
  | Some (id, r) =>
      match r with
      | [] => Some (mkLink id None)
      | _ => match ewah_decode r with
             | None => None
             | Some (nb1, _, _, r1) =>
                 match ewah_decode r1 with
                 | None => None
                 | Some (nb2, _, _, r2) =>
                     match r2 with [] => Some (mkLink id (Some (nb1, nb2))) | _ => None end
                 end
             end
      end
  end.

(* ---- extension::decode::all ------------------------------------------------------------- *)
Record exts := mkExts { x_tree : option tree; x_link : option link; x_reuc : option (list reuc);
                        x_sparse : bool; x_ieot : bool; x_eoie : bool }.
Definition exts_default := mkExts None None None false false false.

Definition is_ascii_lower (b : byte) : bool := (97 <=? b2N b) && (b2N b <=? 122).
Definition opt_of {A} (r : res A) : res (option A) :=
  match r with Ok a => Ok (Some a) | Err _ => Ok None | Panic => Panic | OutOfFuel => OutOfFuel end.

Fixpoint ext_apply (items : list (bytes * bytes * N)) (x : exts) : outcome exts derr :=
  match items with
  | [] => Ok x
  | (sig, d, _) :: rest =>
      if bytes_eqb sig (bs "TREE") then
        match opt_of (tree_decode d) with
        | Ok t => ext_apply rest (mkExts t (x_link x) (x_reuc x) (x_sparse x) (x_ieot x) (x_eoie x))
        | Err _ => Err EExt | Panic => Panic | OutOfFuel => OutOfFuel
        end
      else if bytes_eqb sig (bs "REUC") then
        match opt_of (reuc_decode (S (length d)) d []) with
        | Ok r => ext_apply rest (mkExts (x_tree x) (x_link x) r (x_sparse x) (x_ieot x) (x_eoie x))
        | Err _ => Err EExt | Panic => Panic | OutOfFuel => OutOfFuel
        end
      else if bytes_eqb sig (bs "UNTR") || bytes_eqb sig (bs "FSMN") then ext_apply rest x  (* not modelled *)
      else if bytes_eqb sig (bs "EOIE") then
        ext_apply rest (mkExts (x_tree x) (x_link x) (x_reuc x) (x_sparse x) (x_ieot x) true)
      else if bytes_eqb sig (bs "IEOT") then
        ext_apply rest (mkExts (x_tree x) (x_link x) (x_reuc x) (x_sparse x) true (x_eoie x))
      else if is_ascii_lower (hd x00 sig) then
        if bytes_eqb sig (bs "link") then
          match link_decode d with
          | Some l => ext_apply rest (mkExts (x_tree x) (Some l) (x_reuc x) (x_sparse x) (x_ieot x) (x_eoie x))
          | None => Err EExt
          end
        else if bytes_eqb sig (bs "sdir") then
          match d with
          | [] => ext_apply rest (mkExts (x_tree x) (x_link x) (x_reuc x) true (x_ieot x) (x_eoie x))
          | _ => Err EExt
          end
        else Err EExt
      else ext_apply rest x
  end.

(* returns the decoded extensions and the data after them (the trailer, if the file is well formed) *)
Definition ext_all (d : bytes) : outcome (exts * bytes) derr :=
  match ext_items_without_checksum d with
  | None => Ok (exts_default, d)
  | Some (items, consumed) =>
      match ext_apply items exts_default with
      | Ok x => Ok (x, skipn (N.to_nat consumed) d)
      | Err e => Err e | Panic => Panic | OutOfFuel => OutOfFuel
      end
  end.

(* ---- EOIE / IEOT ------------------------------------------------------------------------ *)
Section WithHash.
Variable sha : bytes -> bytes.

(* end_of_index_entry::decode: offset of the first extension, if the EOIE extension is intact *)
Definition eoie_decode (d : bytes) : option N :=
  let len := N.of_nat (length d) in
  if len <? 52 then None
  else
    let start := len - 52 in
    let x := skipn (N.to_nat start) d in
    match x with
    | s0 :: s1 :: s2 :: s3 :: z0 :: z1 :: z2 :: z3 :: o0 :: o1 :: o2 :: o3 :: r =>
        if negb (bytes_eqb [s0; s1; s2; s3] (bs "EOIE")) || negb (u32_of z0 z1 z2 z3 =? 24) then None
        else
          let off := u32_of o0 o1 o2 o3 in
          let checksum := firstn 20 r in
          if (off <? 12) || (start <? off) then None
          else
            let region := firstn (N.to_nat (start - off)) (skipn (N.to_nat off) d) in
            let '(items, _) := ext_items region in
            let toc := flat_map (fun it => match it with (sig, x, _) => sig ++ be32 (N.of_nat (length x)) end) items in
            if negb (bytes_eqb (sha toc) checksum) then None
            else match rev items with
                 | (_, _, last_end) :: _ => if last_end =? start - off then Some off else None
                 | [] => None
                 end
    | _ => None
    end.

Fixpoint ieot_entries (n : nat) (d : bytes) : option (list (N * N)) :=
  match n with
  | O => Some []
  | S n' => match read_u32 d with
            | Some (o, r) => match read_u32 r with
                             | Some (c, r') => match ieot_entries n' r' with
                                               | Some l => Some ((o, c) :: l)
                                               | None => None
                                               end
                             | None => None
                             end
            | None => None
            end
  end.
Definition ieot_decode (d : bytes) : option (list (N * N)) :=
  match read_u32 d with
  | Some (v, r) =>
      if v =? 1 then
        let n := (length r / 8)%nat in
        if (n =? 0)%nat || negb (length r mod 8 =? 0)%nat then None else ieot_entries n r
      else None
  | None => None
  end.
Definition ieot_find (extd : bytes) : option (list (N * N)) :=
  match ext_items_without_checksum extd with
  | None => None
  | Some (items, _) =>
      match find (fun it => match it with (sig, _, _) => bytes_eqb sig (bs "IEOT") end) items with
      | Some (_, x, _) => ieot_decode x
      | None => None
      end
  end.

(* ---- State::from_bytes ------------------------------------------------------------------ *)
Record state := mkState { s_version : N; s_entries : list entry; s_sparse : bool; s_exts : exts;
                          s_checksum : option bytes }.

(* slice::chunks *)
Fixpoint chunks_of {A} (fuel : nat) (size : nat) (l : list A) : list (list A) :=
  match fuel with
  | O => []
  | S f => match l with [] => [] | _ => firstn size l :: chunks_of f size (skipn size l) end
  end.

(* one thread of the offset-table path: decode its blocks one after the other *)
Fixpoint decode_blocks (v4 : bool) (data : bytes) (blocks : list (N * N)) (acc : list entry)
  : outcome (list entry) derr :=
  match blocks with
  | [] => Ok acc
  | (off, n) :: rest =>
      if N.of_nat (length data) <? off then Panic
      else match chunk_of v4 n (skipn (N.to_nat off) data) with
           | Ok (es, _) => decode_blocks v4 data rest (acc ++ es)
           | Err e => Err e | Panic => Panic | OutOfFuel => OutOfFuel
           end
  end.
Definition decode_group (v4 : bool) (data : bytes) (blocks : list (N * N)) : outcome (list entry) derr :=
  decode_blocks v4 data blocks [].

(* all threads run to completion; a panic in any of them panics the scope; otherwise the first
   error in thread order wins; otherwise results are appended in thread order *)
Fixpoint stitch (rs : list (outcome (list entry) derr)) (acc : list entry) : outcome (list entry) derr :=
  match rs with
  | [] => Ok acc
  | Ok es :: rest => stitch rest (acc ++ es)
  | Err e :: _ => Err e
  | Panic :: _ => Panic
  | OutOfFuel :: _ => OutOfFuel
  end.
Definition decode_chunked (v4 : bool) (data : bytes) (offs : list (N * N)) (threads : N)
  : outcome (list entry) derr :=
  let size := N.to_nat ((N.of_nat (length offs) + threads - 1) / threads) in
  let groups := chunks_of (length offs) size offs in
  let rs := map (decode_group v4 data) groups in
  if existsb is_panic rs then Panic else stitch rs [].

Definition is_null (h : bytes) : bool := forallb (fun b => beqb b x00) h.

Definition finish (v : N) (es : list entry) (x : exts) (trailer : bytes) : outcome state derr :=
  if negb (length trailer =? 20)%nat then Err ETrailer
  else Ok (mkState v es (any_sparse es || x_sparse x) x (if is_null trailer then None else Some trailer)).

(* [threads] = gix_features::parallel::num_threads(thread_limit), at least 1 *)
Definition from_bytes (threads : N) (data : bytes) : outcome state derr :=
  '(v, n, post) <- header_decode data ;;
  let v4 := v =? 4 in
  let soe := eoie_decode data in
  match soe with
  | Some off =>
      if 1 <? threads then
        let extd := skipn (N.to_nat off) data in
        let table := match ieot_find extd with
                     | Some offs =>
                         if forallb (fun oc => (12 <=? fst oc) && (fst oc <=? off)) offs then Some offs else None
                     | None => None
                     end in
        let threads' := threads - 1 in     (* evaluated eagerly as the argument of bool::then *)
        let entries_res :=
          match table with
          | Some offs => decode_chunked v4 data offs threads'
          | None => match chunk_of v4 n post with
                    | Ok (es, _) => Ok es
                    | Err e => Err e | Panic => Panic | OutOfFuel => OutOfFuel
                    end
          end in
        let ext_res := ext_all extd in
        (* a panic of either worker surfaces when it is joined; errors: extensions first *)
        match entries_res, ext_res with
        | Panic, _ | _, Panic => Panic
        | OutOfFuel, _ | _, OutOfFuel => OutOfFuel
        | _, Err e => Err e
        | Err e, _ => Err e
        | Ok es, Ok (x, trailer) => finish v es x trailer
        end
      else
        '(es, d) <- chunk_of v4 n post ;;
        '(x, trailer) <- ext_all d ;;
        finish v es x trailer
  | None =>
      '(es, d) <- chunk_of v4 n post ;;
      '(x, trailer) <- ext_all d ;;
      finish v es x trailer
  end.

End WithHash.
