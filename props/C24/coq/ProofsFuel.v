(* C24 — the fuel given to the entry loop always suffices: [chunk_of] never runs out of fuel. *)
From Coq Require Import ZArith Lia ZifyBool ZifyNat ZifyN.
From GixV.Base Require Import Bytes BytesFacts Outcome.
From GixV.C24 Require Import Model Spec ProofsEntry.
Local Open Scope N_scope.
Local Open Scope outcome_scope.

Lemma read_words_len n : forall d ws r, read_words n d = Some (ws, r) -> (length r + 4 * n = length d)%nat.
Proof.
  induction n as [|n IH]; intros d ws r H.
  - cbn in H. injection H as <- <-. lia.
  - cbn [read_words] in H. destruct d as [|a [|b [|c [|e d']]]]; cbn [read_u32] in H; try discriminate.
    destruct (read_words n d') as [[ws' r']|] eqn:E; [|discriminate]. injection H as <- <-.
    specialize (IH _ _ _ E). cbn [length]. lia.
Qed.

(* a successfully decoded entry consumed at least 40 bytes *)
Lemma load_one_consumes v4 prev d e r : load_one v4 prev d = Ok (e, r) -> (length r < length d)%nat.
Proof.
  unfold load_one. destruct (read_words 10 d) as [[ws d1]|] eqn:E1; cbn [lift obind]; [|discriminate].
  apply read_words_len in E1.
  destruct (take 20 d1) as [[id d2]|] eqn:E2; cbn [lift obind]; [|discriminate].
  apply take_some in E2. destruct E2 as [-> E2].
  destruct (read_flags d2) as [[[fl fsz] d3]|] eqn:E3; cbn [lift obind]; [|discriminate].
  assert (H3 : (length d3 <= length d2)%nat).
  { unfold read_flags in E3. destruct d2 as [|a [|b d2']]; cbn [read_u16] in E3; try discriminate.
    destruct (_ =? 0).
    - injection E3 as _ _ <-. cbn [length]. lia.
    - destruct d2' as [|c [|f d2'']]; cbn [read_u16] in E3; try discriminate.
      destruct (_ && _); [|discriminate]. injection E3 as _ _ <-. cbn [length]. lia. }
  rewrite app_length in E1.
  destruct v4.
  - (* the result only matters through its length: bound every continuation by d3 *)
    intros H.
    assert (Hle : (length r <= length d3)%nat).
    { destruct (var_int d3) as [[strip d4]| | |] eqn:E4; cbn [obind] in H; try discriminate H.
      assert (H4 : (length d4 <= length d3)%nat).
      { unfold var_int in E4. destruct d3 as [|b0 d3']; [discriminate|].
        assert (G : forall l value i last x y, leb_loop l value i last = Ok (x, y) -> (length y <= length l)%nat).
        { induction l as [|c l IHl]; intros value i last x y HG; cbn [leb_loop] in HG.
          - destruct (b2N last <? 128); [apply Ok_inj in HG; injection HG as _ <-; lia|discriminate].
          - destruct (b2N last <? 128); [apply Ok_inj in HG; injection HG as _ <-; lia|].
            destruct (10 <? i + 1); [discriminate|]. destruct (_ <=? value + 1); [discriminate|].
            apply IHl in HG. cbn [length]. lia. }
        apply G in E4. cbn [length]. lia. }
      assert (Hk : exists pre : bytes,
                ('(suffix, d) <- lift (split_at_byte_exclusive d4 x00) ;;
                 Ok (mkEntry (mask_mode ws) id (fl / 4096 * 4096) (pre ++ suffix), d)) = Ok (e, r)).
      { destruct prev as [p|]; [destruct (N.of_nat (length p) <? strip)|]; unfold none in H; cbn [obind] in H;
          try discriminate H; eexists; exact H. }
      clear H. destruct Hk as [pre H].
      destruct (split_at_byte_exclusive d4 x00) as [[suffix d5]|] eqn:E5; cbn [lift obind] in H; [|discriminate H].
      apply Ok_inj in H. injection H as _ <-.
      unfold split_at_byte_exclusive in E5. destruct d4 as [|q [|q2 d4']]; try discriminate.
      apply span_byte_some in E5. destruct E5 as [E5 _]. rewrite E5 in H4. rewrite app_length in H4. cbn [length] in H4. lia. }
    lia.
  - intros H.
    assert (Hle : (length r <= length d3)%nat).
    { destruct (if fl mod 4096 =? PATH_LEN
                then '(p, _) <- lift (split_at_byte_exclusive d3 x00) ;; Ok (N.of_nat (length p))
                else Ok (fl mod 4096)) as [plen| | |]; cbn [obind] in H; try discriminate H.
      destruct (take (N.to_nat plen) d3) as [[path d4]|] eqn:E4; cbn [lift obind] in H; [|discriminate H].
      apply take_some in E4. destruct E4 as [-> _].
      destruct (skip_padding d4 (60 + fsz + plen)) as [d5|] eqn:E5; cbn [lift obind] in H; [|discriminate H].
      apply Ok_inj in H. injection H as _ <-. unfold skip_padding in E5.
      destruct (take _ d4) as [[z d6]|] eqn:E6; [|discriminate]. injection E5 as <-.
      apply take_some in E6. destruct E6 as [-> _]. rewrite !app_length. lia. }
    lia.
Qed.

Lemma chunk_fuel : forall fuel v4 n prev d acc, (length d < fuel)%nat ->
  chunk fuel v4 n prev d acc <> OutOfFuel.
Proof.
  induction fuel as [|fuel IH]; intros v4 n prev d acc Hlt; [lia|].
  cbn [chunk]. destruct (n =? 0); [discriminate|].
  destruct (load_one v4 prev d) as [[e r]| | |] eqn:E; try discriminate.
  - apply IH. apply load_one_consumes in E. lia.
  - (* load_one itself never reports OutOfFuel *)
    exfalso. revert E. unfold load_one.
    destruct (read_words 10 d) as [[ws d1]|]; cbn [lift obind]; [|discriminate].
    destruct (take 20 d1) as [[id d2]|]; cbn [lift obind]; [|discriminate].
    destruct (read_flags d2) as [[[fl fsz] d3]|]; cbn [lift obind]; [|discriminate].
    destruct v4.
    + assert (G : forall l value i last, leb_loop l value i last <> OutOfFuel).
      { induction l as [|c l IHl]; intros value i last; cbn [leb_loop].
        - destruct (b2N last <? 128); discriminate.
        - destruct (b2N last <? 128); [discriminate|].
          destruct (10 <? i + 1); [discriminate|]. destruct (_ <=? value + 1); [discriminate|]. apply IHl. }
      destruct (var_int d3) as [[strip d4]| | |] eqn:E4; cbn [obind]; try discriminate.
      * destruct prev as [p|]; [destruct (N.of_nat (length p) <? strip)|]; unfold none; cbn [obind]; try discriminate;
          destruct (split_at_byte_exclusive d4 x00) as [[s d5]|]; cbn [lift obind]; discriminate.
      * unfold var_int in E4. destruct d3; [discriminate|]. exfalso. exact (G _ _ _ _ E4).
    + destruct (fl mod 4096 =? PATH_LEN).
      * destruct (split_at_byte_exclusive d3 x00) as [[p q]|]; cbn [lift obind]; [|discriminate].
        destruct (take _ d3) as [[pa d4]|]; cbn [lift obind]; [|discriminate].
        destruct (skip_padding d4 _); cbn [lift obind]; discriminate.
      * cbn [obind]. destruct (take _ d3) as [[pa d4]|]; cbn [lift obind]; [|discriminate].
        destruct (skip_padding d4 _); cbn [lift obind]; discriminate.
Qed.

Lemma L_chunk_of_never_out_of_fuel v4 n d : chunk_of v4 n d <> OutOfFuel.
Proof. unfold chunk_of. apply chunk_fuel. lia. Qed.
