(* C24 — version 4: git's variable-length integer and prefix-compressed names decode to what was
   encoded. *)
From Coq Require Import ZArith Lia ZifyBool ZifyNat ZifyN.
From GixV.Base Require Import Bytes BytesFacts Outcome.
From GixV.C24 Require Import Model Spec ProofsEntry.
Ltac Zify.zify_post_hook ::= Z.div_mod_to_equations.
Local Open Scope N_scope.
Local Open Scope outcome_scope.

Section Varint.
Variable r : bytes.
Variable v0 : N.

(* having just consumed [hd] with accumulated value [v], at any byte count up to [m], the decoder
   ends with [v0] and leaves [r] *)
Definition resumes (hd : byte) (tl : bytes) (v : N) (m : N) : Prop :=
  forall i, 1 <= i <= m -> leb_loop (tl ++ r) v i hd = Ok (v0, r).

Lemma enc_ok : forall fuel (m : nat) v hd tl,
  (1 <= m)%nat -> (m <= S fuel)%nat -> N.of_nat m <= 10 -> v < 128 ^ N.of_nat m -> v < 9223372036854775808 ->
  b2N hd mod 128 = v mod 128 -> resumes hd tl v (N.of_nat m) ->
  var_int (varint_hi fuel v (hd :: tl) ++ r) = Ok (v0, r).
Proof.
  induction fuel as [|fuel IH]; intros m v hd tl Hm1 Hmf Hm10 Hv Hv63 Hhd Hres.
  - assert (m = 1%nat) by lia. subst m. change (128 ^ N.of_nat 1) with 128 in Hv.
    cbn [varint_hi app var_int]. rewrite Hhd, N.mod_small by exact Hv. apply Hres. lia.
  - cbn [varint_hi]. destruct (v <? 128) eqn:E.
    + cbn [app var_int]. rewrite Hhd, N.mod_small by lia. apply Hres. lia.
    + destruct m as [|[|m']]; try lia.
      set (v' := v / 128 - 1).
      assert (Hpow : 128 ^ N.of_nat (S (S m')) = 128 * 128 ^ N.of_nat (S m')).
      { rewrite (Nat2N.inj_succ (S m')). rewrite N.pow_succ_r'. reflexivity. }
      rewrite Hpow in Hv. set (P := 128 ^ N.of_nat (S m')) in *.
      assert (HB : b2N (N2b (128 + v' mod 128)) = 128 + v' mod 128).
      { rewrite b2N_N2b. lia. }
      apply (IH (S m')); [lia | lia | lia | fold P; unfold v'; lia | unfold v'; lia | rewrite HB; lia | ].
      intros i Hi. cbn [app leb_loop]. rewrite HB.
      replace (128 + v' mod 128 <? 128) with false by lia.
      replace (10 <? i + 1) with false by lia.
      replace (18446744073709551616 <=? v' + 1) with false by (unfold v'; lia).
      replace (((v' + 1) * 128) mod 18446744073709551616 + b2N hd mod 128) with v by (unfold v'; lia).
      apply Hres. lia.
Qed.
End Varint.

(* git's varint of any value below 2^63 decodes to that value, leaving the rest untouched *)
Lemma L_varint_roundtrip v r : v < 9223372036854775808 -> var_int (encode_varint v ++ r) = Ok (v, r).
Proof.
  intros Hv. unfold encode_varint.
  apply (enc_ok r v 10 10%nat); [lia | lia | cbn; lia | | exact Hv | rewrite b2N_N2b; lia | ].
  - change (N.of_nat 10) with 10. change (128 ^ 10) with 1180591620717411303424. lia.
  - intros i _. cbn [app]. destruct r; cbn [leb_loop]; rewrite b2N_N2b;
      replace ((v mod 128) mod 256 <? 128) with true by lia; reflexivity.
Qed.

Lemma common_prefix_firstn a : forall b, firstn (common_prefix a b) a = firstn (common_prefix a b) b.
Proof.
  induction a as [|x a IH]; intros [|y b]; cbn [common_prefix]; try reflexivity.
  destruct (beqb x y) eqn:E; [|reflexivity]. apply beqb_eq in E. subst. cbn [firstn]. rewrite IH. reflexivity.
Qed.
Lemma common_prefix_le a : forall b, (common_prefix a b <= length a)%nat.
Proof.
  induction a as [|x a IH]; intros [|y b]; cbn [common_prefix length]; try lia.
  destruct (beqb x y); [specialize (IH b)|]; lia.
Qed.

(* one version-4 entry: the name is rebuilt from the previous name and the stored suffix.
   [prev] is what the decoder remembers: the previous name, or nothing at the start of a block (then
   the strip count is ignored, as in git). *)
Lemma L_load_one_v4 e prevname fresh prev r : wf_entry e -> r <> [] ->
  N.of_nat (length prevname) < 9223372036854775808 ->
  (prev = Some prevname \/ (prev = None /\ (fresh = true \/ prevname = []))) ->
  load_one true prev (git_entry_v4 prevname fresh e ++ r) = Ok (e, r).
Proof.
  intros Hwf Hr Hlen Hprev. pose proof Hwf as (Hl & HF & Hmask & Hid & Hnul & Hlow & Hx1 & Hx2 & Hne).
  unfold load_one, git_entry_v4. rewrite <- !app_assoc.
  rewrite entry_head_parse by exact Hwf. cbn [lift obind].
  rewrite <- Hid at 1. rewrite take_app. cbn [lift obind].
  rewrite read_flags_spec by exact Hwf. cbn [lift obind].
  set (common := if fresh then 0%nat else common_prefix prevname (e_path e)).
  assert (Hcl : (common <= length prevname)%nat).
  { unfold common. destruct fresh; [lia|apply common_prefix_le]. }
  rewrite L_varint_roundtrip by lia. cbn [obind].
  assert (Hfc : firstn common prevname = firstn common (e_path e) \/ common = 0%nat).
  { unfold common. destruct fresh; [right; reflexivity|left; apply common_prefix_firstn]. }
  assert (Hpre : forall (k : bytes -> res (entry * bytes)),
     (pre <- match prev with
             | None => Ok []
             | Some p => if N.of_nat (length p) <? N.of_nat (length prevname - common) then none
                         else Ok (firstn (length p - N.to_nat (N.of_nat (length prevname - common))) p)
             end ;; k pre) = k (firstn common (e_path e))).
  { intros k. destruct Hprev as [-> | [-> Hc]].
    - replace (N.of_nat (length prevname) <? N.of_nat (length prevname - common)) with false by lia.
      cbn [obind]. f_equal. rewrite Nat2N.id.
      replace (length prevname - (length prevname - common))%nat with common by lia.
      destruct Hfc as [Hfc | ->]; [exact Hfc|reflexivity].
    - cbn [obind]. f_equal. unfold common. destruct Hc as [-> | ->]; [reflexivity|].
      destruct fresh; reflexivity. }
  rewrite Hpre.
  assert (Hsuf : ~ In x00 (skipn common (e_path e))).
  { intros Hin. apply Hnul. rewrite <- (firstn_skipn common (e_path e)). apply in_or_app. right. exact Hin. }
  change (skipn common (e_path e) ++ [x00] ++ r) with (skipn common (e_path e) ++ x00 :: r).
  rewrite split_excl_app; [|exact Hsuf|].
  - cbn [lift obind]. rewrite firstn_skipn.
    replace ((e_flags e + N.min (N.of_nat (length (e_path e))) 4095) / 4096 * 4096) with (e_flags e) by lia.
    rewrite Hmask. destruct e; reflexivity.
  - rewrite app_length. cbn [length]. destruct r; [congruence|]. cbn [length]. lia.
Qed.

(* a run of version-4 entries, serial decoding (the decoder remembers the previous name) *)
Lemma L_chunk_v4 es : forall fuel prevname fresh prev r acc, Forall wf_entry es -> (length es <= fuel)%nat ->
  r <> [] -> N.of_nat (length prevname) < 9223372036854775808 ->
  Forall (fun e => N.of_nat (length (e_path e)) < 9223372036854775808) es ->
  (prev = Some prevname \/ (prev = None /\ (fresh = true \/ prevname = []))) ->
  chunk fuel true (N.of_nat (length es)) prev (git_entries true prevname fresh es ++ r) acc = Ok (rev acc ++ es, r).
Proof.
  induction es as [|e es IH]; intros fuel prevname fresh prev r acc HF Hfuel Hr Hpl Hlens Hprev.
  - destruct fuel; cbn; rewrite app_nil_r; reflexivity.
  - destruct fuel as [|fuel]; [cbn [length] in Hfuel; lia|].
    inversion HF as [|? ? He HF']; subst. inversion Hlens as [|? ? Hel Hlens']; subst.
    cbn [git_entries]. rewrite <- app_assoc.
    cbn [chunk]. replace (N.of_nat (length (e :: es)) =? 0) with false by (cbn [length]; lia).
    rewrite L_load_one_v4; try assumption.
    + replace (N.of_nat (length (e :: es)) - 1) with (N.of_nat (length es)) by (cbn [length]; lia).
      rewrite IH; try assumption; [|cbn [length] in Hfuel; lia|left; reflexivity].
      cbn [rev]. rewrite <- app_assoc. reflexivity.
    + destruct es as [|e2 es]; [cbn [git_entries app]; exact Hr|].
      cbn [git_entries]. unfold git_entry_v4, entry_head, flag_bytes.
      intros Hnil. apply (f_equal (@length byte)) in Hnil. rewrite !app_length in Hnil.
      rewrite be16_length in Hnil. cbn [length] in Hnil. lia.
Qed.
