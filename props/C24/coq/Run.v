(* C24 — transcript printer: the same observable line the Rust harness prints for a case. *)
From GixV.Base Require Import Bytes Outcome.
From GixV.C24 Require Import Sha1 Model Spec.
Local Open Scope N_scope.

Definition comma : bytes := bs ",".
Fixpoint join_with (sep : bytes) (ls : list bytes) : bytes :=
  match ls with
  | [] => []
  | [x] => x
  | x :: r => x ++ sep ++ join_with sep r
  end.

Definition show_entry (e : entry) : bytes :=
  join_with comma (map N_to_dec (e_words e) ++ [N_to_dec (e_flags e); hex_encode (e_id e); hex_encode (e_path e)]).

Fixpoint show_tree (t : tree) : bytes :=
  match t with
  | Tree name id num kids =>
      bs "(" ++ hex_encode name ++ bs ":" ++ hex_encode id ++ bs ":" ++
      (match num with Some n => N_to_dec n | None => bs "-" end) ++ bs ":" ++
      flat_map show_tree kids ++ bs ")"
  end.

Definition show_link (l : link) : bytes :=
  hex_encode (l_id l) ++ bs ":" ++
  match l_bitmaps l with
  | None => bs "none"
  | Some (a, b) => N_to_dec a ++ comma ++ N_to_dec b
  end.

Definition show_opt {A} (f : A -> bytes) (o : option A) : bytes :=
  match o with Some a => f a | None => bs "none" end.

Definition show_state (s : state) : bytes :=
  let x := s_exts s in
  bs "ok v" ++ N_to_dec (s_version s) ++
  bs " sparse=" ++ bool_to_bytes (s_sparse s) ++
  bs " eoie=" ++ bool_to_bytes (x_eoie x) ++
  bs " ieot=" ++ bool_to_bytes (x_ieot x) ++
  bs " sum=" ++ show_opt hex_encode (s_checksum s) ++
  bs " n=" ++ N_to_dec (N.of_nat (length (s_entries s))) ++
  bs " E[" ++ join_with (bs ";") (map show_entry (s_entries s)) ++ bs "]" ++
  bs " tree=" ++ show_opt show_tree (x_tree x) ++
  bs " link=" ++ show_opt show_link (x_link x) ++
  bs " reuc=" ++ show_opt (fun l => N_to_dec (N.of_nat (length l))) (x_reuc x).

Definition err_name (e : derr) : bytes :=
  match e with
  | EHeader => bs "Header" | EEntry => bs "Entry" | EExt => bs "Extension" | ETrailer => bs "Trailer"
  end.

Definition show {A} (f : A -> bytes) (o : outcome A derr) : bytes :=
  match o with
  | Ok a => f a
  | Err e => bs "err " ++ err_name e
  | Panic => bs "PANIC"
  | OutOfFuel => bs "HANG"
  end.

(* cases:  dec <threads> <index bytes>
           gw <version> <entries: see Spec.parse_desc> <blocks>   (spec mode only: git's writer) *)
Definition run_model (fs : list bytes) : bytes :=
  let op := nth_field 0 fs in
  if bytes_eqb op (bs "dec") then
    show show_state (from_bytes sha1 (N.max 1 (field_N 1 fs)) (nth_field 2 fs))
  else bs "-".

Definition run_spec (fs : list bytes) : bytes :=
  let op := nth_field 0 fs in
  if bytes_eqb op (bs "gw") then
    match parse_desc (nth_field 2 fs) with
    | Some es => hex_encode (git_write_file sha1 (field_N 1 fs) es (field_N 3 fs))
    | None => bs "?"
    end
  else bs "-".

Definition run (fs : list bytes) : bytes :=
  match fs with
  | mode :: rest => if bytes_eqb mode (bs "spec") then run_spec rest else run_model rest
  | [] => bs "?"
  end.
