(* C24 — a sufficient condition for "no accidental EOIE extension": in a version-2/3 file without
   extensions whose last entry has a name of at least 28 bytes, the byte where an EOIE size field would
   start lies inside that name, is not NUL, and the probe for the extension fails. *)
From Coq Require Import ZArith Lia ZifyBool ZifyNat ZifyN.
From GixV.Base Require Import Bytes BytesFacts Outcome.
From GixV.C24 Require Import Model Spec ProofsEntry ProofsThreads.
Ltac Zify.zify_post_hook ::= Z.div_mod_to_equations.
Local Open Scope N_scope.

Lemma nth_skipn_add {A} (d : A) k : forall l n, nth n (skipn k l) d = nth (k + n) l d.
Proof. induction k as [|k IH]; intros l n; [reflexivity|]. destruct l; [destruct n; reflexivity|]. cbn [skipn plus nth]. apply IH. Qed.

Lemma b2N_pos b : b <> x00 -> 1 <= b2N b.
Proof.
  intros H. destruct (N.eq_dec (b2N b) 0) as [E|E]; [|lia].
  exfalso. apply H. apply b2N_inj. rewrite E. reflexivity.
Qed.

Lemma eoie_none_of_nonzero sha d : (52 <= length d)%nat -> nth (length d - 48) d x00 <> x00 ->
  eoie_decode sha d = None.
Proof.
  intros Hlen Hnz. unfold eoie_decode.
  replace (N.of_nat (length d) <? 52) with false by lia.
  replace (N.to_nat (N.of_nat (length d) - 52)) with (length d - 52)%nat by lia.
  pose proof (nth_skipn_add x00 (length d - 52) d 4) as Hn.
  replace (length d - 52 + 4)%nat with (length d - 48)%nat in Hn by lia.
  assert (Hl : length (skipn (length d - 52) d) = 52%nat) by (rewrite skipn_length; lia).
  destruct (skipn (length d - 52) d) as [|s0 [|s1 [|s2 [|s3 [|z0 [|z1 [|z2 [|z3 [|o0 [|o1 [|o2 [|o3 r]]]]]]]]]]]];
    try (cbn [length] in Hl; lia).
  cbn [nth] in Hn. rewrite <- Hn in Hnz. apply b2N_pos in Hnz.
  replace (u32_of z0 z1 z2 z3 =? 24) with false.
  - cbn [negb]. rewrite Bool.orb_true_r. reflexivity.
  - unfold u32_of. pose proof (b2N_lt z1). pose proof (b2N_lt z2). pose proof (b2N_lt z3). lia.
Qed.

Lemma L_eoie_none_long_last_name sha pre es e t : wf_entry e -> (28 <= length (e_path e))%nat -> length t = 20%nat ->
  eoie_decode sha (pre ++ git_entries false [] false (es ++ [e]) ++ t) = None.
Proof.
  intros Hwf Hp Ht. pose proof Hwf as (_ & _ & _ & Hid & Hnul & _).
  rewrite git_entries_v23_app. cbn [git_entries]. rewrite app_nil_r.
  unfold git_entry_v23.
  set (pad := repeat x00 (N.to_nat (pad_len (entry_size_unpadded e)))).
  assert (Hpad : (1 <= length pad <= 8)%nat).
  { unfold pad. rewrite repeat_length. pose proof (pad_len_bounds (entry_size_unpadded e)). lia. }
  set (A := pre ++ git_entries false [] false es ++ entry_head e).
  assert (Hd : pre ++ (git_entries false [] false es ++ entry_head e ++ e_path e ++ pad) ++ t =
               A ++ e_path e ++ (pad ++ t)).
  { unfold A. rewrite <- !app_assoc. reflexivity. }
  assert (HA : (20 <= length A)%nat).
  { unfold A, entry_head. rewrite !app_length, Hid. lia. }
  rewrite Hd. apply eoie_none_of_nonzero.
  - rewrite !app_length. lia.
  - rewrite !app_length, Ht.
    rewrite app_nth2 by lia.
    rewrite app_nth1 by lia.
    intros Hz. apply Hnul. rewrite <- Hz. apply nth_In. lia.
Qed.

From GixV.C24 Require Import ProofsV4 ProofsFile.

(* unconditional corollary: version 2/3, last name of at least 28 bytes *)
Lemma L_git_index_decodes_no_extensions_long_last_name sha (sha_len : forall x, length (sha x) = 20%nat)
  v es e threads :
  (v = 2 \/ v = 3) -> Forall wf_entry (es ++ [e]) -> N.of_nat (length (es ++ [e])) < 4294967296 ->
  Forall (fun e => N.of_nat (length (e_path e)) < 9223372036854775808) (es ++ [e]) ->
  (28 <= length (e_path e))%nat ->
  let file := git_plain_file sha v (es ++ [e]) in
  from_bytes sha threads file =
    Ok (mkState v (es ++ [e]) (any_sparse (es ++ [e])) exts_default
                (let t := sha (firstn (length file - 20) file) in if is_null t then None else Some t)).
Proof.
  intros Hv HF Hn Hlens Hp. cbv zeta.
  apply (L_git_index_decodes_no_extensions sha sha_len); try assumption; [lia|].
  unfold git_plain_file, git_write, git_body.
  cbn [git_blocks concat app flat_map negb map]. rewrite !app_nil_r.
  replace (v =? 4) with false by lia.
  set (body := (bs "DIRC" ++ be32 v ++ be32 (N.of_nat (length (es ++ [e])))) ++ git_entries false [] false (es ++ [e])).
  replace (body ++ sha body) with
    ((bs "DIRC" ++ be32 v ++ be32 (N.of_nat (length (es ++ [e])))) ++ git_entries false [] false (es ++ [e]) ++ sha body)
    by (unfold body; rewrite <- !app_assoc; reflexivity).
  apply L_eoie_none_long_last_name; [|exact Hp|apply sha_len].
  rewrite Forall_forall in HF. apply HF. apply in_or_app. right. left. reflexivity.
Qed.
