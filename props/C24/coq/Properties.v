(* C24 — Index files decode to exactly what git wrote, for any thread limit.
   Only statements here; every proof is [exact <lemma>].
   Model.v: gix-index State::from_bytes and everything below it; Spec.v: git's index writer
   (validated byte for byte against git 2.39.5 by the harness).  [wf_entry] = what git stores in an
   entry (ProofsEntry.v). *)
From GixV.Base Require Import Bytes BytesFacts Outcome.
From GixV.C24 Require Import Model Spec ProofsEntry.
Local Open Scope N_scope.

(* one version-2/3 entry as git writes it (any path length, also >= 0xfff where the length field
   saturates, 1..8 bytes of padding) decodes to itself and leaves exactly the bytes after it *)
Theorem entry_v23_roundtrip : forall e prev r, wf_entry e ->
  load_one false prev (git_entry_v23 e ++ r) = Ok (e, r).
Proof. exact L_load_one_v23. Qed.

(* a run of version-2/3 entries decodes to the same entries in order *)
Theorem entries_v23_roundtrip : forall es fuel prev r acc, Forall wf_entry es -> (length es <= fuel)%nat ->
  chunk fuel false (N.of_nat (length es)) prev (git_entries false [] false es ++ r) acc = Ok (rev acc ++ es, r).
Proof. exact L_chunk_v23. Qed.

(* no byte string makes the version-2/3 entry decoder panic (it did slice out of bounds before) *)
Theorem entry_v23_never_panics : forall prev d, load_one false prev d <> Panic.
Proof. exact L_load_one_v23_no_panic. Qed.

(* non-vacuity *)
Definition ex_entry (p : bytes) : entry :=
  mkEntry [1;2;3;4;5;6;33188;7;8;4294967295] (repeat xab 20) (4096 + 16384 + 1073741824) p.
Example ex_entry_wf : wf_entry (ex_entry (bs "a/b")).
Proof.
  unfold wf_entry, ex_entry; cbn [e_words e_id e_flags e_path].
  repeat split; try reflexivity.
  - repeat constructor.
  - cbn. intuition discriminate.
  - cbn. discriminate.
Qed.
Example ex_long_path :
  let e := ex_entry (repeat x61 4140) in
  load_one false None (git_entry_v23 e ++ bs "rest") = Ok (e, bs "rest").
Proof. vm_compute. reflexivity. Qed.
