(* C24 — Index files decode to exactly what git wrote, for any thread limit.
   Only statements here; every proof is [exact <lemma>].
   Model.v: gix-index State::from_bytes and everything below it; Spec.v: git's index writer
   (validated byte for byte against git 2.39.5 by the harness).  [wf_entry] = what git stores in an
   entry (ProofsEntry.v). *)
From GixV.Base Require Import Bytes BytesFacts Outcome.
From GixV.C24 Require Import Sha1 Model Spec ProofsEntry ProofsThreads ProofsV4 ProofsFuel ProofsFile ProofsEoie.
Local Open Scope N_scope.

(* one version-2/3 entry as git writes it (any path length, also >= 0xfff where the length field
   saturates, 1..8 bytes of padding) decodes to itself and leaves exactly the bytes after it *)
Theorem entry_v23_roundtrip : forall e prev r, wf_entry e ->
  load_one false prev (git_entry_v23 e ++ r) = Ok (e, r).
Proof. exact L_load_one_v23. Qed.

(* a run of version-2/3 entries decodes to the same entries in order *)
Theorem entries_v23_roundtrip : forall es fuel prev r acc, Forall wf_entry es -> (length es <= fuel)%nat ->
  chunk fuel false (N.of_nat (length es)) prev (git_entries false [] false es ++ r) acc = Ok (rev acc ++ es, r).
Proof. exact L_chunk_v23. Qed.

(* no byte string makes the version-2/3 entry decoder panic (it did slice out of bounds before) *)
Theorem entry_v23_never_panics : forall prev d, load_one false prev d <> Panic.
Proof. exact L_load_one_v23_no_panic. Qed.

(* git's variable-length integer (varint.c, used for the strip count of version-4 names) *)
Theorem varint_roundtrip : forall v r, v < 9223372036854775808 -> var_int (encode_varint v ++ r) = Ok (v, r).
Proof. exact L_varint_roundtrip. Qed.

(* one version-4 entry: the name is the kept prefix of the previous name plus the stored suffix.
   [prev] = what the decoder remembers (nothing at the start of an offset-table block: the strip
   count git stores there, the whole previous name, is ignored). *)
Theorem entry_v4_roundtrip : forall e prevname fresh prev r, wf_entry e -> r <> [] ->
  N.of_nat (length prevname) < 9223372036854775808 ->
  (prev = Some prevname \/ (prev = None /\ (fresh = true \/ prevname = []))) ->
  load_one true prev (git_entry_v4 prevname fresh e ++ r) = Ok (e, r).
Proof. exact L_load_one_v4. Qed.

(* a run of version-4 entries (prefix compression against the previous entry) decodes to the same
   entries, whether the run starts a file, continues one, or starts an offset-table block *)
Theorem entries_v4_roundtrip : forall es fuel prevname fresh prev r acc, Forall wf_entry es -> (length es <= fuel)%nat ->
  r <> [] -> N.of_nat (length prevname) < 9223372036854775808 ->
  Forall (fun e => N.of_nat (length (e_path e)) < 9223372036854775808) es ->
  (prev = Some prevname \/ (prev = None /\ (fresh = true \/ prevname = []))) ->
  chunk fuel true (N.of_nat (length es)) prev (git_entries true prevname fresh es ++ r) acc = Ok (rev acc ++ es, r).
Proof. exact L_chunk_v4. Qed.

(* The threaded path (State::from_bytes with an offset table): if every table row names a block that
   decodes to its entries, then for EVERY thread count the stitched result is the concatenation of the
   blocks in table order (any version). *)
Theorem chunked_decode_is_concatenation : forall v4 data table bl threads, 1 <= threads ->
  Forall2 (row_ok v4 data) table bl ->
  decode_chunked v4 data table threads = Ok (concat bl).
Proof. exact L_decode_chunked_ok. Qed.

(* Version 2/3, git's layout: decoding through git's offset table with any number of threads and
   decoding serially both give exactly the entries git stored ([pre] = the 12 header bytes in a real
   file, [rest] = extensions and trailer). *)
Theorem thread_limit_irrelevant_v23 : forall blocks pre rest threads,
  Forall (Forall wf_entry) blocks -> 1 <= threads ->
  let bbs := map (git_entries false [] false) blocks in
  let data := pre ++ concat bbs ++ rest in
  let table := combine (block_offsets (N.of_nat (length pre)) bbs) (map (fun b => N.of_nat (length b)) blocks) in
  decode_chunked false data table threads = Ok (concat blocks) /\
  chunk_of false (N.of_nat (length (concat blocks))) (concat bbs ++ rest) = Ok (concat blocks, rest).
Proof. exact L_thread_limit_irrelevant_v23. Qed.

(* the entry loop never hangs: the fuel of the model always suffices (every decoded entry consumes
   input), for every version and every byte string *)
Theorem entry_loop_terminates : forall v4 n d, chunk_of v4 n d <> OutOfFuel.
Proof. exact L_chunk_of_never_out_of_fuel. Qed.

(* Whole file as git writes it WITHOUT extensions (header + entries + SHA-1 trailer; versions 2, 3 and 4
   with prefix compression): State::from_bytes returns git's version, exactly git's entries, no
   extensions, and the trailer as checksum, for EVERY thread limit.  [sha] is any 20-byte-valued function.
   Premise [eoie_decode … = None]: the last 32 bytes of the entry area do not happen to form a valid
   end-of-index-entries extension (the reader, like git's, probes for it at a fixed distance from the end
   of every file; with the hash a parameter this cannot be excluded) — see [ex_git_plain_file]. *)
Theorem git_index_decodes_no_extensions : forall sha, (forall x, length (sha x) = 20%nat) ->
  forall v es threads,
  (v = 2 \/ v = 3 \/ v = 4) -> Forall wf_entry es -> N.of_nat (length es) < 4294967296 ->
  Forall (fun e => N.of_nat (length (e_path e)) < 9223372036854775808) es ->
  let file := git_plain_file sha v es in
  eoie_decode sha file = None ->
  from_bytes sha threads file =
    Ok (mkState v es (any_sparse es) exts_default
                (let t := sha (firstn (length file - 20) file) in if is_null t then None else Some t)).
Proof. exact L_git_index_decodes_no_extensions. Qed.

(* ... and without that premise for version 2/3 files whose last entry has a name of at least 28 bytes:
   the byte where the size field of an EOIE extension would start then lies inside the name, is not NUL,
   and the probe fails whatever the hash function is. *)
Theorem git_index_decodes_no_extensions_long_last_name : forall sha, (forall x, length (sha x) = 20%nat) ->
  forall v es e threads,
  (v = 2 \/ v = 3) -> Forall wf_entry (es ++ [e]) -> N.of_nat (length (es ++ [e])) < 4294967296 ->
  Forall (fun e => N.of_nat (length (e_path e)) < 9223372036854775808) (es ++ [e]) ->
  (28 <= length (e_path e))%nat ->
  let file := git_plain_file sha v (es ++ [e]) in
  from_bytes sha threads file =
    Ok (mkState v (es ++ [e]) (any_sparse (es ++ [e])) exts_default
                (let t := sha (firstn (length file - 20) file) in if is_null t then None else Some t)).
Proof. exact L_git_index_decodes_no_extensions_long_last_name. Qed.

(* The full statement of the property at file level; NOT proved in general (only [git_index_decodes_no_extensions] above; see NOTES.md): it is
   tested on every generated case by the correspondence run and by prop(). *)
Definition git_index_decodes_full_statement : Prop :=
  forall sha v blocks ieot exts eoie threads, 1 <= threads -> (v = 2 \/ v = 3 \/ v = 4) ->
  Forall (Forall wf_entry) blocks ->
  exists x, from_bytes sha threads (git_write sha v blocks ieot exts eoie) =
            Ok (mkState v (concat blocks) (any_sparse (concat blocks) || x_sparse x) x
                        (Some (sha (git_body sha v blocks ieot exts eoie)))).

(* non-vacuity *)
Definition ex_entry (p : bytes) : entry :=
  mkEntry [1;2;3;4;5;6;33188;7;8;4294967295] (repeat xab 20) (4096 + 16384 + 1073741824) p.
Example ex_entry_wf : wf_entry (ex_entry (bs "a/b")).
Proof.
  unfold wf_entry, ex_entry; cbn [e_words e_id e_flags e_path].
  repeat split; try reflexivity.
  - repeat constructor.
  - cbn. intuition discriminate.
  - cbn. discriminate.
Qed.
Example ex_long_path :
  let e := ex_entry (repeat x61 4140) in
  load_one false None (git_entry_v23 e ++ bs "rest") = Ok (e, bs "rest").
Proof. vm_compute. reflexivity. Qed.

Example ex_v4_block :
  let a := ex_entry (bs "dir/file-a") in
  let b := ex_entry (bs "dir/file-b") in
  chunk_of true 2 (git_entries true [] false [a; b] ++ bs "rest") = Ok ([a; b], bs "rest") /\
  length (git_entries true [] false [a; b]) = (2 * 64 + 1 + 11 + 1 + 2)%nat.
Proof. split; vm_compute; reflexivity. Qed.
Example ex_threads :
  let a := ex_entry (bs "a") in let b := ex_entry (bs "b") in let c := ex_entry (bs "c") in
  let blocks := [[a]; [b]; [c]] in
  let bbs := map (git_entries false [] false) blocks in
  let data := repeat x00 12 ++ concat bbs ++ bs "rest" in
  let table := combine (block_offsets 12 bbs) [1; 1; 1] in
  Forall2 (row_ok false data) table blocks /\
  decode_chunked false data table 1 = Ok [a; b; c] /\ decode_chunked false data table 2 = Ok [a; b; c] /\
  decode_chunked false data table 7 = Ok [a; b; c].
Proof.
  cbv zeta. split; [|repeat split; vm_compute; reflexivity].
  repeat constructor; cbn [fst snd]; try (vm_compute; reflexivity); eexists; vm_compute; reflexivity.
Qed.

Example ex_git_plain_file :
  let es := [ex_entry (bs "dir/file-a"); ex_entry (bs "dir/file-b")] in
  let f4 := git_plain_file sha1 4 es in let f2 := git_plain_file sha1 2 es in
  eoie_decode sha1 f4 = None /\ eoie_decode sha1 f2 = None /\
  (exists st, from_bytes sha1 1 f4 = Ok st /\ s_entries st = es /\ from_bytes sha1 5 f4 = Ok st) /\
  (exists st, from_bytes sha1 1 f2 = Ok st /\ s_entries st = es /\ s_version st = 2).
Proof. vm_compute. repeat split; eexists; repeat split; reflexivity. Qed.
Example ex_entry_wf_long :
  let e := ex_entry (bs "a-name-of-at-least-28-bytes.txt") in wf_entry e /\ (28 <= length (e_path e))%nat.
Proof.
  split; [|cbn; repeat constructor].
  unfold wf_entry, ex_entry; cbn [e_words e_id e_flags e_path].
  repeat split; try reflexivity.
  - repeat constructor.
  - cbn. intuition discriminate.
  - cbn. discriminate.
Qed.
