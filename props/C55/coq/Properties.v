(* C55 — placeholder; theorems follow *)
From GixV.Base Require Import Bytes BytesFacts Outcome.
From GixV.C55 Require Import Model.
