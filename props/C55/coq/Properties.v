(* C55 — Worktree streams and archives contain exactly the tree.
   Only statements here; every proof is [exact <lemma>].
   Model.v: the stream protocol of gix-worktree-stream (writer: enc_entries; reader: decode = Stream::next_entry +
   <Entry as Read>::read driven by a consumer with a cyclic schedule of buffer sizes), the tree walk of from_tree
   (walk/visit_entries with the delegate's path stack), additional entries, and gix-archive's tar header fields.
   Spec.v: tree_files = the plain depth-first listing of the blobs, executables and symlinks of a tree with their
   slash-joined paths, minus export-ignored paths. *)
From Coq Require Import ZArith List Permutation.
From GixV.Base Require Import Bytes BytesFacts Outcome.
From GixV.C55 Require Import Model Spec ProofsWalk ProofsRT ProofsTop ProofsTotal.
Import ListNotations.
Local Open Scope N_scope.

(* Protocol round trip.  For every list of entries (any path, id, kind; content either of known length or framed in
   arbitrary pieces of 1..65535 bytes as write_stream produces them) and every schedule of read-buffer sizes >= 1,
   reading the written stream yields exactly those entries: same path, id, kind, announced length and content,
   in order, and then the regular end of the stream.  [wf_entry]: ids have 20 bytes, lengths are below isize::MAX. *)
Theorem stream_roundtrip : forall ws sizes, Forall wf_entry ws -> sizes_pos sizes ->
  exists es, decode sizes (enc_entries ws) = (es, EndOk) /\ map observed es = map expected ws.
Proof. exact L_stream_RT. Qed.

(* The tree walk.  For every tree whose names contain no slash and every export-ignore predicate, the walk
   terminates without panic within its fuel and writes exactly the files of the tree (Spec.tree_files), each once
   (a permutation: the walk is breadth-first, the listing depth-first). *)
Theorem tree_walk_each_file_once : forall ign root, names_ok root = true ->
  exists ws, tree_entries ign root = Ok ws /\ Permutation ws (tree_files ign root).
Proof. exact L_tree_entries_once. Qed.

(* The delegate's path stack is balanced: popping after pushing a slash-free name restores any path. *)
Theorem path_push_pop : forall p name, no_slash name = true -> pop_element (push_element p name) = p.
Proof. exact pop_push. Qed.

(* A file used as the source of an additional entry is framed in pieces of 1..65535 bytes that add up to it. *)
Theorem file_source_chunks : forall c,
  Forall chunk_ok (file_chunks (S (length c)) c) /\ concat (file_chunks (S (length c)) c) = c.
Proof. intros c. apply file_chunks_spec. apply Nat.lt_succ_diag_r. Qed.

(* End to end.  Streaming a tree with additional entries and consuming it with any read sizes >= 1 yields: first
   every blob, executable and symlink of the tree exactly once (some order) with its path, id, kind and content,
   then the additional entries in the order given, with their content (file-backed ones with unknown length). *)
Theorem from_tree_stream_delivers_tree_and_extras : forall ign root extras sizes,
  names_ok root = true -> Forall wf_entry (tree_files ign root) -> Forall wf_extra extras -> sizes_pos sizes ->
  exists s ws es,
    stream_of ign root extras = Ok s /\ Permutation ws (tree_files ign root) /\
    decode sizes s = (es, EndOk) /\
    map observed es = map expected ws ++ map expected_extra extras.
Proof. exact L_from_tree_stream. Qed.

(* gix-archive (tar): a stream entry becomes a header with the prefixed path; blobs are regular files with mode
   0644, executables 0755, both with the content as data; symlinks carry the content as link name and size 0. *)
Theorem tar_header_fields : forall prefix e,
  t_path (tar_item_of prefix e) = prefix ++ i_path (r_info e) /\
  match i_kind (r_info e) with
  | KBlob => t_type (tar_item_of prefix e) = TRegular /\ t_mode (tar_item_of prefix e) = 420 /\
             t_data (tar_item_of prefix e) = r_content e /\ t_size (tar_item_of prefix e) = blen (r_content e)
  | KExe => t_type (tar_item_of prefix e) = TRegular /\ t_mode (tar_item_of prefix e) = 493 /\
            t_data (tar_item_of prefix e) = r_content e /\ t_size (tar_item_of prefix e) = blen (r_content e)
  | KLink => t_type (tar_item_of prefix e) = TSymlink /\ t_link (tar_item_of prefix e) = r_content e /\
             t_size (tar_item_of prefix e) = 0
  | KTree | KCommit => t_type (tar_item_of prefix e) = TDirectory
  end.
Proof. exact L_tar_item. Qed.

(* Reading ANY byte sequence with any read sizes (zero included) terminates: the consumer loop never runs out of
   the fuel the model gives it (every read that delivers bytes consumes them; every entry consumes its header). *)
Theorem decode_terminates : forall sizes s, snd (decode sizes s) <> EndHang.
Proof. exact L_decode_no_hang. Qed.

(* ---- non-vacuity ------------------------------------------------------------------------------------------- *)

Definition ex_oid : bytes := repeat x07 20.
Definition ex_ws : list wentry :=
  [ {| w_path := bs "d/a"; w_oid := ex_oid; w_kind := KExe; w_src := Known (bs "hello") |};
    {| w_path := bs "x"; w_oid := ex_oid; w_kind := KBlob; w_src := Chunked [bs "ab"; bs "c"] |};
    {| w_path := bs "l"; w_oid := ex_oid; w_kind := KLink; w_src := Known [] |} ].

Example roundtrip_example :
  Forall wf_entry ex_ws /\ sizes_pos [2%nat; 1%nat] /\
  map observed (fst (decode [2%nat; 1%nat] (enc_entries ex_ws))) = map expected ex_ws /\
  map (fun e => r_content e) (fst (decode [2%nat; 1%nat] (enc_entries ex_ws))) = [bs "hello"; bs "abc"; []].
Proof.
  split; [|split; [|split]].
  - repeat constructor; vm_compute; congruence.
  - repeat constructor.
  - vm_compute. reflexivity.
  - vm_compute. reflexivity.
Qed.

Definition ex_root : list (bytes * node) :=
  [ (bs "a", Leaf KBlob ex_oid (bs "1"));
    (bs "d", Dir [ (bs "x", Leaf KExe ex_oid (bs "2")); (bs "e", Dir [ (bs "y", Leaf KLink ex_oid (bs "a")) ]) ]);
    (bs "ign", Dir [ (bs "z", Leaf KBlob ex_oid (bs "3")) ]);
    (bs "sub", Leaf KCommit ex_oid []);
    (bs "z", Leaf KBlob ex_oid (bs "4")) ].
Definition ex_ign (p : bytes) : bool := bytes_eqb p (bs "ign").

Example walk_example :
  names_ok ex_root = true /\
  map w_path (tree_files ex_ign ex_root) = [bs "a"; bs "d/x"; bs "d/e/y"; bs "z"] /\
  (exists ws, tree_entries ex_ign ex_root = Ok ws /\ map w_path ws = [bs "a"; bs "z"; bs "d/x"; bs "d/e/y"]).
Proof.
  split; [|split].
  - vm_compute. reflexivity.
  - vm_compute. reflexivity.
  - eexists. split; vm_compute; reflexivity.
Qed.

(* the model is faithful to the code also where the precondition fails: a name with a slash unbalances the stack *)
Example slash_in_name_breaks_paths :
  pop_element (push_element (bs "d") (bs "x/y")) = bs "d/x".
Proof. vm_compute. reflexivity. Qed.
