(* C55 — composition: what a consumer of from_tree's stream sees. *)
From Coq Require Import ZArith Lia List Permutation.
From GixV.Base Require Import Bytes BytesFacts Outcome.
From GixV.C55 Require Import Model Spec ProofsWalk ProofsRT.
Import ListNotations.
Local Open Scope N_scope.

Definition wf_extra (x : extra) : Prop :=
  length (x_oid x) = 20%nat /\ blen (x_path x) <= ISIZE_MAX /\
  match x_src x with XMemory c => blen c < USIZE_MAX | _ => True end.

Definition extra_content (x : extra) : bytes :=
  match x_src x with XNull => [] | XMemory c => c | XPath c => c end.

(* what the consumer must see for an additional entry *)
Definition expected_extra (x : extra) : info * bytes :=
  ({| i_len := match x_src x with XNull => Some 0 | XMemory c => Some (blen c) | XPath _ => None end;
      i_kind := x_kind x; i_oid := x_oid x; i_path := x_path x |}, extra_content x).

Lemma expected_extra_ok x : expected (extra_entry x) = expected_extra x.
Proof.
  unfold expected, expected_extra, extra_content. rewrite extra_entry_content.
  unfold info_of, extra_entry. cbn [w_src w_kind w_oid w_path].
  destruct (x_src x); reflexivity.
Qed.

Lemma L_from_tree_stream ign root extras sizes :
  names_ok root = true -> Forall wf_entry (tree_files ign root) -> Forall wf_extra extras -> sizes_pos sizes ->
  exists s ws es,
    stream_of ign root extras = Ok s /\ Permutation ws (tree_files ign root) /\
    decode sizes s = (es, EndOk) /\
    map observed es = map expected ws ++ map expected_extra extras.
Proof.
  intros Hn Hwf Hx Hs.
  destruct (L_tree_entries_once ign root Hn) as [ws [Hw Hp]].
  assert (Hwf' : Forall wf_entry (ws ++ map extra_entry extras)).
  { apply Forall_app. split.
    - eapply Permutation_Forall; [apply Permutation_sym; exact Hp | exact Hwf].
    - apply Forall_forall. intros w Hin. apply in_map_iff in Hin. destruct Hin as [x [<- Hin]].
      rewrite Forall_forall in Hx. destruct (Hx x Hin) as [H1 [H2 H3]]. now apply extra_entry_wf. }
  destruct (L_stream_RT _ sizes Hwf' Hs) as [es [Hd Hm]].
  exists (enc_entries (ws ++ map extra_entry extras)), ws, es.
  split; [unfold stream_of; now rewrite Hw|]. split; [exact Hp|]. split; [exact Hd|].
  rewrite Hm, map_app, map_map. f_equal. apply map_ext. intros x. apply expected_extra_ok.
Qed.

(* gix-archive: what goes into the tar header for a stream entry *)
Lemma L_tar_item prefix e :
  t_path (tar_item_of prefix e) = prefix ++ i_path (r_info e) /\
  match i_kind (r_info e) with
  | KBlob => t_type (tar_item_of prefix e) = TRegular /\ t_mode (tar_item_of prefix e) = 420 /\
             t_data (tar_item_of prefix e) = r_content e /\ t_size (tar_item_of prefix e) = blen (r_content e)
  | KExe => t_type (tar_item_of prefix e) = TRegular /\ t_mode (tar_item_of prefix e) = 493 /\
            t_data (tar_item_of prefix e) = r_content e /\ t_size (tar_item_of prefix e) = blen (r_content e)
  | KLink => t_type (tar_item_of prefix e) = TSymlink /\ t_link (tar_item_of prefix e) = r_content e /\
             t_size (tar_item_of prefix e) = 0
  | KTree | KCommit => t_type (tar_item_of prefix e) = TDirectory
  end.
Proof. unfold tar_item_of. destruct (i_kind (r_info e)); cbn; repeat split; reflexivity. Qed.
