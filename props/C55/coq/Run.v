(* C55 — transcript printer: the same observable line the Rust harness prints for a case.
   cases (all numbers decimal):
     tree <via> <ndirs> <nextras> <nign> <nsched>  dirs.. extras.. igns.. sched..
        dir    := <count> entry*count          entry := <name> <T|B|X|L|C> <dir index | oid20> <raw> <len>
        extra  := <path> <T|B|X|L|C> <oid20> <N|M|P> <raw> <len>
        content of an entry = raw if len = 0, else raw repeated cyclically up to len bytes
        via: 0 read the Stream directly; 1 into_read -> bytes -> from_read (also prints the raw stream digest);
             2/3 as 0 with gix_archive tar output listed (3: with a tree prefix "p/")
     dec <nseg> <nsched> (raw len)*nseg sched..      from_read over arbitrary bytes *)
From GixV.Base Require Import Bytes Outcome.
From GixV.C55 Require Import Model Spec.
Local Open Scope N_scope.

Fixpoint cycle_fuel (n : nat) (raw cur : bytes) : bytes :=
  match n with
  | O => []
  | S n' =>
      match cur with
      | b :: r => b :: cycle_fuel n' raw r
      | [] => match raw with [] => [] | b :: r => b :: cycle_fuel n' raw r end
      end
  end.
Definition expand (raw : bytes) (len : N) : bytes :=
  if N.eqb len 0 then raw else cycle_fuel (N.to_nat len) raw [].

Definition kind_of_char (c : bytes) : kind :=
  match c with
  | "T"%byte :: _ => KTree | "X"%byte :: _ => KExe | "L"%byte :: _ => KLink | "C"%byte :: _ => KCommit
  | _ => KBlob
  end.

Definition fN (n : nat) (fs : list bytes) : nat := N.to_nat (field_N n fs).

(* raw table of directories *)
Definition tentry := (bytes * bytes * bytes * bytes * N)%type.   (* name kind ref raw len *)

Fixpoint take_entries (c : nat) (fs : list bytes) : list tentry :=
  match c with
  | O => []
  | S c' => (nth_field 0 fs, nth_field 1 fs, nth_field 2 fs, nth_field 3 fs, field_N 4 fs)
            :: take_entries c' (skipn 5 fs)
  end.

Fixpoint parse_dirs (nd : nat) (fs : list bytes) : list (list tentry) * list bytes :=
  match nd with
  | O => ([], fs)
  | S nd' =>
      let c := fN 0 fs in
      let es := take_entries c (skipn 1 fs) in
      let '(ds, rest) := parse_dirs nd' (skipn (S (5 * c)) fs) in
      (es :: ds, rest)
  end.

Fixpoint build (fuel : nat) (tbl : list (list tentry)) (i : nat) : list (bytes * node) :=
  match fuel with
  | O => []
  | S f =>
      map (fun e : tentry =>
             let '(name, kc, ref, raw, len) := e in
             match kind_of_char kc with
             | KTree => (name, Dir (build f tbl (match dec_to_N ref with Some v => N.to_nat v | None => 0%nat end)))
             | k => (name, Leaf k ref (expand raw len))
             end) (nth i tbl [])
  end.

Fixpoint parse_extras (n : nat) (fs : list bytes) : list extra :=
  match n with
  | O => []
  | S n' =>
      let content := expand (nth_field 4 fs) (field_N 5 fs) in
      {| x_path := nth_field 0 fs; x_kind := kind_of_char (nth_field 1 fs); x_oid := nth_field 2 fs;
         x_src := match nth_field 3 fs with
                  | "N"%byte :: _ => XNull
                  | "P"%byte :: _ => XPath content
                  | _ => XMemory content
                  end |} :: parse_extras n' (skipn 6 fs)
  end.

Definition parse_sched (fs : list bytes) : list nat :=
  map (fun f => match dec_to_N f with Some v => N.to_nat v | None => 1%nat end) fs.

Fixpoint parse_segs (n : nat) (fs : list bytes) : bytes :=
  match n with
  | O => []
  | S n' => expand (nth_field 0 fs) (field_N 1 fs) ++ parse_segs n' (skipn 2 fs)
  end.

(* ---- printing *)

Definition hash32 (l : bytes) : N := fold_left (fun h b => N.land (h * 31 + b2N b) 4294967295) l 0.

Definition digest (l : bytes) : bytes :=
  N_to_dec (blen l) ++ bs "/" ++ N_to_dec (hash32 l) ++
  (if Nat.leb (length l) 32 then bs "/" ++ hex_encode l else []).

Definition kind_char (k : kind) : bytes := N_to_dec (b2N (mode_to_byte k)).

Definition show_entry (e : rentry) : bytes :=
  let i := r_info e in
  hex_encode (i_path i) ++ bs ":" ++ kind_char (i_kind i) ++ bs ":" ++ hex_encode (i_oid i) ++ bs ":" ++
  (match i_len i with Some n => N_to_dec n | None => bs "?" end) ++ bs ":" ++
  digest (r_content e) ++ bs ":" ++ N_to_dec (N.of_nat (r_reads e)).

Definition show_ending (e : ending) : bytes :=
  match e with
  | EndOk => bs "end" | EndErr => bs "err" | EndReadErr => bs "readerr"
  | EndPanic => bs "PANIC" | EndHang => bs "HANG"
  end.

Definition show_decoded (pre : list bytes) (r : list rentry * ending) : bytes :=
  match snd r with
  | EndPanic => bs "PANIC"
  | EndHang => bs "HANG"
  | e => join_sp (pre ++ map show_entry (fst r) ++ [show_ending e])
  end.

Definition tar_type_char (t : tar_type) : bytes :=
  match t with TRegular => bs "0" | TDirectory => bs "5" | TSymlink => bs "2" end.

Definition show_tar (t : tar_item) : bytes :=
  hex_encode (t_path t) ++ bs ":" ++ tar_type_char (t_type t) ++ bs ":" ++ N_to_dec (t_mode t) ++ bs ":" ++
  N_to_dec (t_size t) ++ bs ":" ++ digest (t_data t) ++ bs ":" ++ hex_encode (t_link t).

Definition run_tree (fs : list bytes) : bytes :=
  let via := field_N 0 fs in
  let nd := fN 1 fs in
  let nx := fN 2 fs in
  let ni := fN 3 fs in
  let ns := fN 4 fs in
  let '(tbl, r1) := parse_dirs nd (skipn 5 fs) in
  let extras := parse_extras nx r1 in
  let r2 := skipn (6 * nx) r1 in
  let igns := firstn ni r2 in
  let sched := parse_sched (firstn ns (skipn ni r2)) in
  let ign := fun p => existsb (bytes_eqb p) igns in
  match stream_of ign (build 64 tbl 0) extras with
  | Ok s =>
      if N.ltb via 2 then
        show_decoded (if N.eqb via 1 then [bs "stream=" ++ digest s] else []) (decode sched s)
      else
        let r := decode [N.to_nat 8192] s in      (* io::copy into a Vec: 8 KiB stack buffer *)
        match snd r with
        | EndOk => join_sp (map (fun e => show_tar (tar_item_of (if N.eqb via 3 then bs "p/" else []) e)) (fst r)
                            ++ [bs "end"])
        | EndPanic => bs "PANIC"
        | EndHang => bs "HANG"
        | _ => bs "err"
        end
  | Panic => bs "PANIC"
  | OutOfFuel => bs "HANG"
  | Err _ => bs "err"
  end.

Definition run_dec (fs : list bytes) : bytes :=
  let nseg := fN 0 fs in
  let ns := fN 1 fs in
  let s := parse_segs nseg (skipn 2 fs) in
  let sched := parse_sched (firstn ns (skipn (2 + 2 * nseg) fs)) in
  show_decoded [] (decode sched s).

(* arrow B: the Spec's listing of the tree, to be compared with what `git archive` produces *)
Definition show_file (w : wentry) : bytes :=
  hex_encode (w_path w) ++ bs ":" ++ kind_char (w_kind w) ++ bs ":" ++ digest (enc_body (w_src w)).

Definition run_spec (fs : list bytes) : bytes :=
  if bytes_eqb (nth_field 0 fs) (bs "tree") then
    let fs := skipn 1 fs in
    let nd := fN 1 fs in
    let nx := fN 2 fs in
    let ni := fN 3 fs in
    let '(tbl, r1) := parse_dirs nd (skipn 5 fs) in
    let igns := firstn ni (skipn (6 * nx) r1) in
    let ign := fun p => existsb (bytes_eqb p) igns in
    join_sp (map show_file (tree_files ign (build 64 tbl 0)) ++ [bs "end"])
  else bs "?".

Definition run_model (fs : list bytes) : bytes :=
  let op := nth_field 0 fs in
  if bytes_eqb op (bs "tree") then run_tree (skipn 1 fs)
  else if bytes_eqb op (bs "dec") then run_dec (skipn 1 fs)
  else bs "?".

Definition run (fs : list bytes) : bytes :=
  match fs with
  | mode :: rest => if bytes_eqb mode (bs "spec") then run_spec rest else run_model rest
  | [] => bs "?"
  end.
