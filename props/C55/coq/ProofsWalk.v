(* C55 — the tree walk of from_tree writes every file of the tree exactly once. *)
From Coq Require Import ZArith Lia ZifyBool ZifyNat ZifyN List Permutation.
Ltac Zify.zify_post_hook ::= Z.div_mod_to_equations.
From GixV.Base Require Import Bytes BytesFacts Outcome.
From GixV.C55 Require Import Model Spec.
Import ListNotations.

(* ---- rfind_byte, push/pop ------------------------------------------------------------- *)

Definition no_slash (name : bytes) : bool := negb (existsb (beqb slash) name).

Lemma rfind_from_none c : forall l i last, existsb (beqb c) l = false -> rfind_from c l i last = last.
Proof.
  induction l as [|b l IH]; intros i last H; [reflexivity|].
  cbn [existsb] in H. apply Bool.orb_false_iff in H. destruct H as [Hb Hl].
  cbn [rfind_from]. replace (beqb b c) with false.
  - now apply IH.
  - symmetry. destruct (beqb b c) eqn:E; [|reflexivity].
    apply beqb_eq in E. subst b. rewrite <- Hb. symmetry. now apply beqb_eq.
Qed.

Lemma rfind_from_app c : forall p i last n, existsb (beqb c) n = false ->
  rfind_from c (p ++ c :: n) i last = Some (i + length p)%nat.
Proof.
  induction p as [|b p IH]; intros i last n H.
  - cbn [app rfind_from length]. replace (beqb c c) with true by (symmetry; now apply beqb_eq).
    rewrite rfind_from_none by assumption. f_equal. lia.
  - cbn [app rfind_from length]. rewrite IH by assumption. f_equal. lia.
Qed.

Lemma firstn_length_app {A} (p q : list A) : firstn (length p) (p ++ q) = p.
Proof. induction p as [|x p IH]; [reflexivity|]. cbn [length app firstn]. now rewrite IH. Qed.

Lemma pop_push p name : no_slash name = true -> pop_element (push_element p name) = p.
Proof.
  intros H. unfold no_slash in H. apply Bool.negb_true_iff in H.
  unfold pop_element, push_element, rfind_byte. destruct p as [|x p].
  - now rewrite rfind_from_none.
  - rewrite rfind_from_app by assumption. cbn [Nat.add]. apply firstn_length_app.
Qed.

Lemma push_is_join p name : push_element p name = join_path p name.
Proof. reflexivity. Qed.

(* ---- the inner fixpoints are the list versions ---------------------------------------- *)

Lemma files_node_dir ign p ch : files_node ign p (Dir ch) = files_entries ign p ch.
Proof.
  induction ch as [|[name c] r IH]; [reflexivity|].
  cbn [files_node files_entries] in *. now rewrite IH.
Qed.

Lemma dirs_node_dir ch : dirs_node (Dir ch) = S (dirs_entries ch).
Proof.
  reflexivity.
Qed.

Lemma names_ok_dir ch : names_ok_node (Dir ch) = names_ok ch.
Proof.
  induction ch as [|[name c] r IH]; [reflexivity|].
  cbn [names_ok_node names_ok] in *. now rewrite IH.
Qed.

(* ---- one directory -------------------------------------------------------------------- *)

Section WalkFacts.
  Variable ign : bytes -> bool.

  (* the files directly in a directory, and its sub-directories that are not ignored, with their paths *)
  Fixpoint direct (p : bytes) (es : list (bytes * node)) : list wentry :=
    match es with
    | [] => []
    | (name, Leaf k oid c) :: r =>
        (if is_blob_or_symlink k then
           if ign (join_path p name) then []
           else [{| w_path := join_path p name; w_oid := oid; w_kind := k; w_src := Known c |}]
         else []) ++ direct p r
    | (_, Dir _) :: r => direct p r
    end.

  Fixpoint subs (p : bytes) (es : list (bytes * node)) : list (bytes * list (bytes * node)) :=
    match es with
    | [] => []
    | (name, Dir ch) :: r => (if ign (join_path p name) then [] else [(join_path p name, ch)]) ++ subs p r
    | (_, Leaf _ _ _) :: r => subs p r
    end.

  Definition queue_files (q : list (bytes * list (bytes * node))) : list wentry :=
    flat_map (fun x => files_entries ign (fst x) (snd x)) q.

  Lemma visit_entries_spec : forall es p deque next out, names_ok es = true ->
    visit_entries ign es p deque next out =
      (p, deque ++ map fst (subs p es), next ++ map snd (subs p es), rev (direct p es) ++ out).
  Proof.
    induction es as [|[name n] r IH]; intros p deque next out Hok.
    - cbn [visit_entries subs direct map rev app]. now rewrite !app_nil_r.
    - cbn [names_ok] in Hok. apply Bool.andb_true_iff in Hok. destruct Hok as [Hok Hr].
      apply Bool.andb_true_iff in Hok. destruct Hok as [Hname Hn].
      assert (Hpp : pop_element (push_element p name) = p) by (now apply pop_push).
      destruct n as [k oid c|ch].
      + cbn [visit_entries subs direct]. rewrite Hpp. rewrite IH by assumption.
        change (push_element p name) with (join_path p name).
        destruct (is_blob_or_symlink k); [destruct (ign (join_path p name))|];
          cbn [app rev]; rewrite ?app_nil_r; try reflexivity.
        f_equal. rewrite <- app_assoc. reflexivity.
      + cbn [visit_entries subs direct]. rewrite !Hpp.
        change (push_element p name) with (join_path p name).
        destruct (ign (join_path p name)).
        * rewrite IH by assumption. reflexivity.
        * rewrite IH by assumption.
          cbn [app map fst snd]. rewrite <- !app_assoc. reflexivity.
  Qed.

  Lemma direct_subs_perm : forall es p,
    Permutation (direct p es ++ queue_files (subs p es)) (files_entries ign p es).
  Proof.
    induction es as [|[name n] r IH]; intros p; [constructor|].
    destruct n as [k oid c|ch].
    - cbn [direct subs files_entries files_node].
      destruct (is_blob_or_symlink k); [destruct (ign (join_path p name))|]; cbn [app].
      + apply IH.
      + constructor. apply IH.
      + destruct (ign (join_path p name)); apply IH.
    - cbn [direct subs files_entries]. rewrite files_node_dir.
      destruct (ign (join_path p name)); cbn [app].
      + apply IH.
      + unfold queue_files. cbn [flat_map fst snd]. fold (queue_files (subs p r)).
        eapply Permutation_trans; [apply Permutation_app_swap_app|].
        apply Permutation_app_head. apply IH.
  Qed.

  (* fuel: directories still to be visited *)
  Definition queue_cost (q : list (bytes * list (bytes * node))) : nat :=
    fold_right (fun x acc => S (dirs_entries (snd x)) + acc)%nat 0%nat q.

  Lemma queue_cost_app a b : queue_cost (a ++ b) = (queue_cost a + queue_cost b)%nat.
  Proof. induction a as [|x a IH]; [reflexivity|]. cbn [app queue_cost fold_right] in *. fold (queue_cost (a ++ b)). fold (queue_cost a). lia. Qed.

  Lemma subs_cost : forall es p, (queue_cost (subs p es) <= dirs_entries es)%nat.
  Proof.
    induction es as [|[name n] r IH]; intros p; [cbn; lia|].
    destruct n as [k oid c|ch].
    - cbn [subs dirs_entries dirs_node]. specialize (IH p). lia.
    - cbn [subs dirs_entries]. rewrite dirs_node_dir, queue_cost_app. specialize (IH p).
      destruct (ign (join_path p name)); cbn [queue_cost fold_right snd]; lia.
  Qed.

  Definition queue_ok (q : list (bytes * list (bytes * node))) : bool := forallb (fun x => names_ok (snd x)) q.

  Lemma subs_ok : forall es p, names_ok es = true -> queue_ok (subs p es) = true.
  Proof.
    induction es as [|[name n] r IH]; intros p Hok; [reflexivity|].
    cbn [names_ok] in Hok. apply Bool.andb_true_iff in Hok. destruct Hok as [Hok Hr].
    apply Bool.andb_true_iff in Hok. destruct Hok as [_ Hn].
    destruct n as [k oid c|ch]; cbn [subs].
    - now apply IH.
    - unfold queue_ok. rewrite forallb_app. fold (queue_ok (subs p r)). rewrite IH by assumption.
      rewrite names_ok_dir in Hn.
      destruct (ign (join_path p name)); cbn [forallb snd]; now rewrite ?Hn.
  Qed.

  Lemma final_perm es p out : subs p es = [] ->
    Permutation (rev (rev (direct p es) ++ out)) (rev out ++ files_entries ign p es ++ queue_files []).
  Proof.
    intros Hs. rewrite rev_app_distr, rev_involutive. cbn [queue_files flat_map]. rewrite app_nil_r.
    apply Permutation_app_head.
    pose proof (direct_subs_perm es p) as H. rewrite Hs in H. cbn [queue_files flat_map] in H.
    now rewrite app_nil_r in H.
  Qed.

  Lemma walk_spec : forall fuel es p q out,
    names_ok es = true -> queue_ok q = true ->
    (dirs_entries es + queue_cost q <= fuel)%nat ->
    exists out', walk ign fuel es p (map fst q) (map snd q) out = Ok out' /\
                 Permutation (rev out') (rev out ++ files_entries ign p es ++ queue_files q).
  Proof.
    induction fuel as [|fuel IH]; intros es p q out Hes Hq Hfuel.
    - (* no directories anywhere *)
      assert (Hs : subs p es = []).
      { pose proof (subs_cost es p) as H. destruct (subs p es) as [|x s]; [reflexivity|].
        cbn [queue_cost fold_right] in H. lia. }
      assert (q = []) by (destruct q as [|x q]; [reflexivity|]; cbn [queue_cost fold_right] in Hfuel; lia).
      subst q. cbn [walk map]. rewrite visit_entries_spec by assumption. rewrite Hs. cbn [map app].
      eexists. split; [reflexivity|].
      now apply final_perm.
    - cbn [walk]. rewrite visit_entries_spec by assumption.
      rewrite <- !map_app.
      destruct (q ++ subs p es) as [|[p1 ch1] q1] eqn:Eq.
      + cbn [map]. eexists. split; [reflexivity|].
        apply app_eq_nil in Eq. destruct Eq as [-> Hs].
        now apply final_perm.
      + cbn [map fst snd].
        assert (Hq1 : queue_ok ((p1, ch1) :: q1) = true).
        { rewrite <- Eq. unfold queue_ok. rewrite forallb_app. fold (queue_ok q). rewrite Hq.
          apply subs_ok. assumption. }
        cbn [queue_ok forallb snd] in Hq1. apply Bool.andb_true_iff in Hq1. destruct Hq1 as [Hch1 Hq1].
        assert (Hcost : (queue_cost ((p1, ch1) :: q1) <= dirs_entries es + queue_cost q)%nat).
        { rewrite <- Eq, queue_cost_app. pose proof (subs_cost es p). lia. }
        cbn [queue_cost fold_right snd] in Hcost. fold (queue_cost q1) in Hcost.
        destruct (IH ch1 p1 q1 (rev (direct p es) ++ out) Hch1 Hq1 ltac:(lia)) as [out' [Hw Hperm]].
        exists out'. split; [exact Hw|].
        eapply Permutation_trans; [exact Hperm|].
        rewrite rev_app_distr, rev_involutive.
        (* rev out ++ direct ++ files ch1 ++ files q1  ~  rev out ++ files es ++ files q *)
        rewrite <- app_assoc. apply Permutation_app_head.
        change (files_entries ign p1 ch1 ++ queue_files q1) with (queue_files ((p1, ch1) :: q1)).
        rewrite <- Eq. unfold queue_files. rewrite flat_map_app. fold (queue_files q). fold (queue_files (subs p es)).
        eapply Permutation_trans; [apply Permutation_app_head, Permutation_app_comm|].
        rewrite app_assoc. apply Permutation_app_tail. apply direct_subs_perm.
  Qed.

  Lemma L_tree_entries_once : forall root, names_ok root = true ->
    exists ws, tree_entries ign root = Ok ws /\ Permutation ws (tree_files ign root).
  Proof.
    intros root Hok.
    destruct (walk_spec (dirs_entries root) root [] [] [] Hok eq_refl) as [out' [Hw Hperm]].
    { cbn [queue_cost fold_right]. lia. }
    cbn [map] in Hw. unfold tree_entries. rewrite Hw.
    exists (rev out'). split; [reflexivity|].
    cbn [rev app queue_files flat_map] in Hperm. rewrite app_nil_r in Hperm. exact Hperm.
  Qed.
End WalkFacts.

