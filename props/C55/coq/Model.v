(* C55 — model of gix-worktree-stream (and the entry mapping of gix-archive).
   Sources:
     gix-worktree-stream/src/protocol.rs   write_entry_header_and_path, write_stream, read_entry_info,
                                           mode_to_byte/byte_to_mode, hash_to_byte/byte_to_hash, clear_and_set_len
     gix-worktree-stream/src/entry.rs      Stream::next_entry, Entry::{fill_buf, read, drop}, Source::len
     gix-worktree-stream/src/from_tree/{mod.rs,traverse.rs}   run (tree walk, then additional entries),
                                           Delegate::{push_element, pop_element, handle_entry, visit_tree, ...}
     gix-traverse/src/tree/breadthfirst.rs traverse (the loop that drives the delegate)
     gix-features/src/io.rs                pipe::{Writer::write, Reader::read}: a FIFO of byte chunks; read fills the
                                           whole buffer unless the writer is gone => the pipe is the concatenation
     gix-archive/src/write.rs              append_tar_entry / tar_entry_type (header fields only)
   The byte stream between writer thread and reader is [bytes] (concatenation of all writes).
   Not modelled: errors raised in the writer thread (missing objects, attribute/filter failures) and their racy
   delivery through the shared error slot; filter pipelines other than the identity; the tar/zip/gzip libraries. *)
From GixV.Base Require Import Bytes Outcome.
Local Open Scope N_scope.

(* ------------------------------------------------------------------ integers on the wire *)

Fixpoint le_bytes (n : nat) (v : N) : bytes :=
  match n with O => [] | S n' => N2b (v mod 256) :: le_bytes n' (v / 256) end.
Fixpoint le_val (l : bytes) : N :=
  match l with [] => 0 | b :: r => b2N b + 256 * le_val r end.

Definition USIZE_MAX : N := 18446744073709551615.
Definition ISIZE_MAX : N := 9223372036854775807.
Definition usize_le (v : N) : bytes := le_bytes 8 (v mod 18446744073709551616).
Definition u16_le (v : N) : bytes := le_bytes 2 (v mod 65536).           (* `n as u16` *)
Definition BUF_LEN : nat := N.to_nat 65535.

Definition blen (l : bytes) : N := N.of_nat (length l).

(* ------------------------------------------------------------------ entry kinds *)

Inductive kind := KTree | KBlob | KExe | KLink | KCommit.

Definition mode_to_byte (k : kind) : byte :=
  match k with KTree => x00 | KBlob => x01 | KExe => x02 | KLink => x03 | KCommit => x04 end.

(* byte_to_mode: `unreachable!` for anything else *)
Definition byte_to_mode (b : byte) : option kind :=
  match b with
  | x00 => Some KTree | x01 => Some KBlob | x02 => Some KExe | x03 => Some KLink | x04 => Some KCommit
  | _ => None
  end.

Definition kind_eqb (a b : kind) : bool := beqb (mode_to_byte a) (mode_to_byte b).

(* EntryMode::is_blob_or_symlink *)
Definition is_blob_or_symlink (k : kind) : bool :=
  match k with KBlob | KExe | KLink => true | _ => false end.

(* ------------------------------------------------------------------ writer side (protocol.rs) *)

(* what follows the header: a buffer of known length written verbatim, or the pieces `input.read(buf)` returned
   (each 1..=65535 bytes, since buf has BUF_LEN bytes), framed by write_stream *)
Inductive source := Known (content : bytes) | Chunked (chunks : list bytes).

Record wentry := { w_path : bytes; w_oid : bytes; w_kind : kind; w_src : source }.

Definition src_len (s : source) : option N :=
  match s with Known c => Some (blen c) | Chunked _ => None end.

(* write_entry_header_and_path; the object id is a 20-byte SHA-1 (the only hash kind) *)
Definition enc_header (path oid : bytes) (k : kind) (len : option N) : bytes :=
  usize_le (blen path) ++
  usize_le (match len with Some n => n | None => USIZE_MAX end) ++
  [mode_to_byte k; x00] ++ oid ++ path.

(* write_stream: every piece as u16-LE length + data, then a zero length *)
Fixpoint enc_chunks (chunks : list bytes) : bytes :=
  match chunks with
  | [] => [x00; x00]
  | c :: r => u16_le (blen c) ++ c ++ enc_chunks r
  end.

Definition enc_body (s : source) : bytes :=
  match s with Known c => c | Chunked cs => enc_chunks cs end.

Definition enc_entry (w : wentry) : bytes :=
  enc_header (w_path w) (w_oid w) (w_kind w) (src_len (w_src w)) ++ enc_body (w_src w).

Fixpoint enc_entries (ws : list wentry) : bytes :=
  match ws with [] => [] | w :: r => enc_entry w ++ enc_entries r end.

(* std::fs::File as `input` of write_stream: a regular file fills the 65535-byte buffer until the end *)
Fixpoint file_chunks (fuel : nat) (content : bytes) : list bytes :=
  match fuel with
  | O => []
  | S f =>
      match content with
      | [] => []
      | _ => firstn BUF_LEN content :: file_chunks f (skipn BUF_LEN content)
      end
  end.
Definition file_source (content : bytes) : source := Chunked (file_chunks (S (length content)) content).

(* ------------------------------------------------------------------ the tree walk (from_tree) *)

Definition slash : byte := "/"%byte.

(* bstr rfind_byte: index of the last occurrence *)
Fixpoint rfind_from (c : byte) (l : bytes) (i : nat) (last : option nat) : option nat :=
  match l with
  | [] => last
  | b :: r => rfind_from c r (S i) (if beqb b c then Some i else last)
  end.
Definition rfind_byte (c : byte) (l : bytes) : option nat := rfind_from c l 0 None.

(* Delegate::pop_element / push_element *)
Definition pop_element (path : bytes) : bytes :=
  match rfind_byte slash path with Some pos => firstn pos path | None => [] end.
Definition push_element (path name : bytes) : bytes :=
  match path with [] => name | _ => path ++ slash :: name end.

(* a git tree with the objects it refers to already looked up *)
Inductive node :=
| Leaf (k : kind) (oid content : bytes)          (* any non-tree entry; content is the blob (unused for commits) *)
| Dir (children : list (bytes * node)).

Section Walk.
  (* the `attributes` callback, reduced to the one attribute that matters here: is export-ignore set at this path *)
  Variable ign : bytes -> bool.

  (* one pass of `for entry in tree` in breadthfirst::traverse, with the delegate's calls inlined.
     path: Delegate::path; deque: Delegate::path_deque; next: State::next (trees still to visit, here already resolved);
     out: what was written to the pipe so far, newest first *)
  Fixpoint visit_entries (es : list (bytes * node)) (path : bytes) (deque : list bytes)
           (next : list (list (bytes * node))) (out : list wentry)
    : bytes * list bytes * list (list (bytes * node)) * list wentry :=
    match es with
    | [] => (path, deque, next, out)
    | (name, Dir ch) :: r =>
        let p1 := push_element path name in                 (* push_path_component *)
        if ign p1 then                                        (* visit_tree => Skip *)
          visit_entries r (pop_element p1) deque next out
        else                                                  (* Continue *)
          let p3 := push_element (pop_element p1) name in    (* pop_path_component; push_back_tracked_path_component *)
          visit_entries r (pop_element p3) (deque ++ [p3]) (next ++ [ch]) out
    | (name, Leaf k oid c) :: r =>
        let p1 := push_element path name in
        let out' :=
          if is_blob_or_symlink k then
            if ign p1 then out
            else {| w_path := p1; w_oid := oid; w_kind := k; w_src := Known c |} :: out
          else out in
        visit_entries r (pop_element p1) deque next out'
    end.

  (* the outer `loop` of traverse; fuel = number of directories still to come *)
  Fixpoint walk (fuel : nat) (es : list (bytes * node)) (path : bytes) (deque : list bytes)
           (next : list (list (bytes * node))) (out : list wentry) : outcome (list wentry) unit :=
    let '(path', deque', next', out') := visit_entries es path deque next out in
    match next' with
    | [] => Ok out'
    | ch :: next'' =>
        match deque' with
        | [] => Panic                                         (* pop_front().expect(..) *)
        | p :: deque'' =>
            match fuel with
            | O => OutOfFuel
            | S f => walk f ch p deque'' next'' out'
            end
        end
    end.
End Walk.

(* number of directories below (and not counting) a list of entries: the fuel [walk] needs *)
Fixpoint dirs_node (n : node) : nat :=
  match n with
  | Leaf _ _ _ => 0%nat
  | Dir ch => S ((fix go (l : list (bytes * node)) : nat :=
                    match l with [] => 0%nat | (_, c) :: r => (dirs_node c + go r)%nat end) ch)
  end.
Fixpoint dirs_entries (l : list (bytes * node)) : nat :=
  match l with [] => 0%nat | (_, c) :: r => (dirs_node c + dirs_entries r)%nat end.

(* entries of the tree in the order they are written *)
Definition tree_entries (ign : bytes -> bool) (root : list (bytes * node)) : outcome (list wentry) unit :=
  match walk ign (dirs_entries root) root [] [] [] [] with
  | Ok out => Ok (rev out)
  | Err e => Err e | Panic => Panic | OutOfFuel => OutOfFuel
  end.

(* AdditionalEntry, entry::Source *)
Inductive xsource := XNull | XMemory (content : bytes) | XPath (file_content : bytes).
Record extra := { x_path : bytes; x_oid : bytes; x_kind : kind; x_src : xsource }.

Definition extra_entry (x : extra) : wentry :=
  {| w_path := x_path x; w_oid := x_oid x; w_kind := x_kind x;
     w_src := match x_src x with
              | XNull => Known []
              | XMemory c => Known c
              | XPath c => file_source c
              end |}.

(* everything the writer thread puts into the pipe *)
Definition stream_of (ign : bytes -> bool) (root : list (bytes * node)) (extras : list extra) : outcome bytes unit :=
  match tree_entries ign root with
  | Ok ws => Ok (enc_entries (ws ++ map extra_entry extras))
  | Err e => Err e | Panic => Panic | OutOfFuel => OutOfFuel
  end.

(* ------------------------------------------------------------------ reader side (protocol.rs, entry.rs) *)

Inductive rerr := EIo.

(* Stream: what is still in the pipe, and buf[pos..filled] *)
Record rstate := { rest : bytes; cbuf : bytes }.

Record info := { i_len : option N; i_kind : kind; i_oid : bytes; i_path : bytes }.

(* Stream::next_entry = read_entry_info + error mapping: Ok None is "no more entries"
   (read_exact hit the end of the pipe), Err is any other io::Error, Panic is `unreachable!` *)
Definition next_entry (st : rstate) : outcome (option (info * rstate)) rerr :=
  let s := rest st in
  if Nat.ltb (length s) 18 then Ok None
  else
    let path_len := le_val (firstn 8 s) in
    let stream_len := le_val (firstn 8 (skipn 8 s)) in
    match byte_to_mode (nth 16 s x00) with
    | None => Panic
    | Some k =>
        match nth 17 s x00 with
        | x00 =>
            let s1 := skipn 18 s in
            if Nat.ltb (length s1) 20 then Ok None
            else
              let oid := firstn 20 s1 in
              let s2 := skipn 20 s1 in
              if N.ltb ISIZE_MAX path_len then Err EIo               (* try_reserve: capacity overflow *)
              else if N.ltb (blen s2) path_len then Ok None
              else
                let n := N.to_nat path_len in
                Ok (Some ({| i_len := if N.eqb stream_len USIZE_MAX then None else Some stream_len;
                             i_kind := k; i_oid := oid; i_path := firstn n s2 |},
                          {| rest := skipn n s2; cbuf := cbuf st |}))
        | _ => Panic
        end
    end.

(* one call of <Entry as Read>::read with a buffer of k bytes.
   rem: Entry::remaining.  Result: the bytes delivered, the new `remaining`, the new stream state *)
Definition entry_read (k : nat) (rem : option N) (st : rstate) : outcome (bytes * option N * rstate) rerr :=
  let finish (out : bytes) (rem' : option N) (st' : rstate) :=
    Ok (out, (match out with [] => Some 0 | _ => rem' end), st') in
  match rem with
  | None =>
      (* fill_buf *)
      let filled : outcome rstate rerr :=
        match cbuf st with
        | _ :: _ => Ok st
        | [] =>
            let s := rest st in
            if Nat.ltb (length s) 2 then Err EIo
            else
              let nb := N.to_nat (le_val (firstn 2 s)) in
              let s1 := skipn 2 s in
              if Nat.ltb (length s1) nb then Err EIo
              else Ok {| rest := skipn nb s1; cbuf := firstn nb s1 |}
        end in
      match filled with
      | Ok st1 =>
          let out := firstn k (cbuf st1) in
          finish out None {| rest := rest st1; cbuf := skipn k (cbuf st1) |}
      | Err e => Err e | Panic => Panic | OutOfFuel => OutOfFuel
      end
  | Some r =>
      let n := if N.ltb r (N.of_nat k) then N.to_nat r else k in       (* buf_len.min(remaining) *)
      let out := firstn n (rest st) in                                  (* a short read only at the end of the pipe *)
      finish out (Some (r - blen out)) {| rest := skipn n (rest st); cbuf := cbuf st |}
  end.

(* the consumer: read an entry until a read returns 0, with buffer sizes taken from a cyclic schedule
   (read_to_end / io::copy are the instances with one fixed size).  cur: what is left of the current cycle. *)
Definition next_size (sizes cur : list nat) : nat * list nat :=
  match cur with
  | k :: c => (k, c)
  | [] => match sizes with k :: c => (k, c) | [] => (N.to_nat 8192, []) end
  end.

Fixpoint read_all (fuel : nat) (sizes cur : list nat) (rem : option N) (st : rstate) (acc : list bytes) (reads : nat)
  : outcome (bytes * nat * list nat * rstate) rerr :=
  match fuel with
  | O => OutOfFuel
  | S f =>
      let '(k, cur') := next_size sizes cur in
      match entry_read k rem st with
      | Ok (out, rem', st') =>
          match out with
          | [] => Ok (concat (rev_append acc []), S reads, cur', st')
          | _ => read_all f sizes cur' rem' st' (out :: acc) (S reads)
          end
      | Err e => Err e | Panic => Panic | OutOfFuel => OutOfFuel
      end
  end.

Definition read_fuel (st : rstate) : nat := S (S (length (rest st) + length (cbuf st))).

(* how the consumption of a stream ended *)
Inductive ending := EndOk | EndErr | EndReadErr | EndPanic | EndHang.

Record rentry := { r_info : info; r_content : bytes; r_reads : nat }.

Fixpoint read_entries (fuel : nat) (sizes cur : list nat) (st : rstate) (acc : list rentry)
  : list rentry * ending :=
  match fuel with
  | O => (rev acc, EndHang)
  | S f =>
      match next_entry st with
      | Ok None => (rev acc, EndOk)
      | Ok (Some (inf, st1)) =>
          match read_all (read_fuel st1) sizes cur (i_len inf) st1 [] 0 with
          | Ok (content, reads, cur', st2) =>
              read_entries f sizes cur' st2 ({| r_info := inf; r_content := content; r_reads := reads |} :: acc)
          | Err _ => (rev ({| r_info := inf; r_content := []; r_reads := 0 |} :: acc), EndReadErr)
          | Panic => (rev acc, EndPanic)
          | OutOfFuel => (rev acc, EndHang)
          end
      | Err _ => (rev acc, EndErr)
      | Panic => (rev acc, EndPanic)
      | OutOfFuel => (rev acc, EndHang)
      end
  end.

Definition decode (sizes : list nat) (s : bytes) : list rentry * ending :=
  read_entries (S (length s)) sizes [] {| rest := s; cbuf := [] |} [].

(* ------------------------------------------------------------------ gix-archive: tar header fields *)

Inductive tar_type := TRegular | TDirectory | TSymlink.

Record tar_item := { t_path : bytes; t_type : tar_type; t_mode : N; t_size : N; t_data : bytes; t_link : bytes }.

(* append_tar_entry: the fields handed to tar::Builder *)
Definition tar_item_of (prefix : bytes) (e : rentry) : tar_item :=
  let k := i_kind (r_info e) in
  let mode := match k with KExe => 493 | _ => 420 end in               (* 0o755 / 0o644 *)
  let path := prefix ++ i_path (r_info e) in
  match k with
  | KLink => {| t_path := path; t_type := TSymlink; t_mode := mode; t_size := 0; t_data := []; t_link := r_content e |}
  | KTree | KCommit =>
      {| t_path := path; t_type := TDirectory; t_mode := mode; t_size := blen (r_content e);
         t_data := r_content e; t_link := [] |}
  | _ => {| t_path := path; t_type := TRegular; t_mode := mode; t_size := blen (r_content e);
            t_data := r_content e; t_link := [] |}
  end.
