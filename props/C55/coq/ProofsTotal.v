(* C55 — reading an arbitrary byte stream always terminates (the model's fuel is sufficient). *)
From Coq Require Import ZArith Lia ZifyBool ZifyNat ZifyN List.
Ltac Zify.zify_post_hook ::= Z.div_mod_to_equations.
From GixV.Base Require Import Bytes BytesFacts Outcome.
From GixV.C55 Require Import Model.
Import ListNotations.
Local Open Scope N_scope.

Definition msize (st : rstate) : nat := (length (rest st) + length (cbuf st))%nat.

Lemma ok3_inj {A B C E : Type} (a a' : A) (b b' : B) (c c' : C) :
  @Ok _ E (a, b, c) = Ok (a', b', c') -> a = a' /\ c = c'.
Proof.
  intros H. apply Ok_inj in H. split.
  - exact (f_equal (fun x => fst (fst x)) H).
  - exact (f_equal snd H).
Qed.

Lemma entry_read_progress k rem st out rem' st' :
  entry_read k rem st = Ok (out, rem', st') -> (msize st' + length out <= msize st)%nat.
Proof.
  unfold entry_read, msize. destruct rem as [r|]; cbv zeta.
  - intros H. apply ok3_inj in H. destruct H as [<- <-]. cbn [rest cbuf].
    rewrite firstn_length, skipn_length. lia.
  - destruct (cbuf st) as [|b l] eqn:Ec.
    + destruct (Nat.ltb (length (rest st)) 2) eqn:E2; [discriminate|].
      destruct (Nat.ltb (length (skipn 2 (rest st))) (N.to_nat (le_val (firstn 2 (rest st))))) eqn:E3; [discriminate|].
      intros H. apply ok3_inj in H. destruct H as [<- <-]. cbn [rest cbuf].
      apply Nat.ltb_ge in E2, E3. rewrite skipn_length in E3.
      rewrite !firstn_length, !skipn_length, firstn_length, skipn_length. lia.
    + intros H. apply ok3_inj in H. destruct H as [<- <-]. cbn [rest cbuf].
      rewrite Ec, firstn_length, skipn_length. lia.
Qed.

Lemma entry_read_no_hang k rem st : entry_read k rem st <> OutOfFuel.
Proof.
  unfold entry_read. destruct rem as [r|]; cbv zeta; [discriminate|].
  destruct (cbuf st) as [|b l].
  - destruct (Nat.ltb (length (rest st)) 2); [discriminate|].
    destruct (Nat.ltb (length (skipn 2 (rest st))) (N.to_nat (le_val (firstn 2 (rest st))))); discriminate.
  - discriminate.
Qed.

Lemma read_all_progress : forall fuel sizes cur rem st acc reads, (msize st < fuel)%nat ->
  match read_all fuel sizes cur rem st acc reads with
  | OutOfFuel => False
  | Ok (_, _, _, st2) => (msize st2 <= msize st)%nat
  | _ => True
  end.
Proof.
  induction fuel as [|fuel IH]; intros sizes cur rem st acc reads Hf; [lia|].
  cbn [read_all]. destruct (next_size sizes cur) as [k cur'].
  destruct (entry_read k rem st) as [[[out rem'] st']|e| |] eqn:E; try exact I.
  - pose proof (entry_read_progress _ _ _ _ _ _ E) as Hp.
    destruct out as [|x out].
    + cbv beta iota. cbn [length] in Hp. lia.
    + cbv beta iota. cbn [length] in Hp.
      match goal with
      | |- match ?R with _ => _ end =>
          assert (IH' : match R with
                        | OutOfFuel => False
                        | Ok (_, _, _, st2) => (msize st2 <= msize st')%nat
                        | _ => True
                        end) by (apply IH; lia);
          destruct R as [[[[c r] cu] st2]|e| |]
      end; [lia | exact I | exact I | exact IH'].
  - now apply entry_read_no_hang in E.
Qed.

Lemma next_entry_progress st inf st1 : next_entry st = Ok (Some (inf, st1)) -> (msize st1 < msize st)%nat.
Proof.
  unfold next_entry, msize. set (s := rest st).
  destruct (Nat.ltb (length s) 18) eqn:E18; [discriminate|].
  destruct (byte_to_mode (nth 16 s x00)); [|discriminate].
  destruct (nth 17 s x00); try discriminate.
  destruct (Nat.ltb (length (skipn 18 s)) 20) eqn:E20; [discriminate|].
  destruct (N.ltb ISIZE_MAX (le_val (firstn 8 s))); [discriminate|].
  destruct (N.ltb (blen (skipn 20 (skipn 18 s))) (le_val (firstn 8 s))); [discriminate|].
  intros H. apply Ok_inj in H.
  assert (H1 : st1 = {| rest := skipn (N.to_nat (le_val (firstn 8 s))) (skipn 20 (skipn 18 s)); cbuf := cbuf st |}).
  { symmetry. exact (f_equal (fun o => match o with Some (_, x) => x | None => st1 end) H). }
  rewrite H1. cbn [rest cbuf].
  apply Nat.ltb_ge in E18, E20. rewrite skipn_length in E20.
  rewrite !skipn_length. lia.
Qed.

Lemma next_entry_no_hang st : next_entry st <> OutOfFuel.
Proof.
  unfold next_entry. set (s := rest st).
  destruct (Nat.ltb (length s) 18); [discriminate|].
  destruct (byte_to_mode (nth 16 s x00)); [|discriminate].
  destruct (nth 17 s x00); try discriminate.
  destruct (Nat.ltb (length (skipn 18 s)) 20); [discriminate|].
  destruct (N.ltb ISIZE_MAX (le_val (firstn 8 s))); [discriminate|].
  destruct (N.ltb (blen (skipn 20 (skipn 18 s))) (le_val (firstn 8 s))); discriminate.
Qed.

Lemma read_entries_no_hang : forall fuel sizes cur st acc, (msize st < fuel)%nat ->
  snd (read_entries fuel sizes cur st acc) <> EndHang.
Proof.
  induction fuel as [|fuel IH]; intros sizes cur st acc Hf; [lia|].
  cbn [read_entries].
  destruct (next_entry st) as [[[inf st1]|]|e| |] eqn:E; cbn [snd]; try discriminate.
  - pose proof (next_entry_progress _ _ _ E) as Hp.
    pose proof (read_all_progress (read_fuel st1) sizes cur (i_len inf) st1 [] 0%nat) as Hr.
    unfold read_fuel in Hr at 1. unfold msize in Hr at 1. specialize (Hr ltac:(lia)).
    destruct (read_all (read_fuel st1) sizes cur (i_len inf) st1 [] 0) as [[[[c r] cu] st2]|e| |];
      cbn [snd]; try discriminate; try contradiction.
    apply IH. lia.
  - now apply next_entry_no_hang in E.
Qed.

Lemma L_decode_no_hang sizes s : snd (decode sizes s) <> EndHang.
Proof. unfold decode. apply read_entries_no_hang. unfold msize. cbn [rest cbuf length]. lia. Qed.
