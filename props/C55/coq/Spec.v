(* C55 — independent specification: what "the tree" contains.
   A plain depth-first listing of a tree: every blob, executable and symlink with its slash-joined path, in tree
   order, leaving out whatever is export-ignored (an ignored directory hides everything below it); submodule
   entries (commits) are not files.  This is also the order and content of `git archive` (checked by arrow B). *)
From GixV.Base Require Import Bytes Outcome.
From GixV.C55 Require Import Model.

Definition join_path (dir name : bytes) : bytes :=
  match dir with [] => name | _ => dir ++ slash :: name end.

Section Spec.
  Variable ign : bytes -> bool.

  Fixpoint files_node (path : bytes) (n : node) : list wentry :=
    match n with
    | Leaf k oid c =>
        if is_blob_or_symlink k then [{| w_path := path; w_oid := oid; w_kind := k; w_src := Known c |}] else []
    | Dir ch =>
        (fix go (l : list (bytes * node)) : list wentry :=
           match l with
           | [] => []
           | (name, c) :: r =>
               (let p := join_path path name in if ign p then [] else files_node p c) ++ go r
           end) ch
    end.

  Fixpoint files_entries (path : bytes) (l : list (bytes * node)) : list wentry :=
    match l with
    | [] => []
    | (name, c) :: r => (let p := join_path path name in if ign p then [] else files_node p c) ++ files_entries path r
    end.
End Spec.

(* the files of a whole tree *)
Definition tree_files (ign : bytes -> bool) (root : list (bytes * node)) : list wentry := files_entries ign [] root.

(* names git allows in a tree as far as paths are concerned: no slash inside *)
Fixpoint names_ok_node (n : node) : bool :=
  match n with
  | Leaf _ _ _ => true
  | Dir ch => (fix go (l : list (bytes * node)) : bool :=
                 match l with [] => true | (name, c) :: r => negb (existsb (beqb slash) name) && names_ok_node c && go r end) ch
  end.
Fixpoint names_ok (l : list (bytes * node)) : bool :=
  match l with [] => true | (name, c) :: r => negb (existsb (beqb slash) name) && names_ok_node c && names_ok r end.
