(* C55 — the stream protocol round-trips: reading what was written gives back the entries. *)
From Coq Require Import ZArith Lia ZifyBool ZifyNat ZifyN List.
Ltac Zify.zify_post_hook ::= Z.div_mod_to_equations.
From GixV.Base Require Import Bytes BytesFacts Outcome.
From GixV.C55 Require Import Model.
Import ListNotations.
Local Open Scope N_scope.

(* ---- lists ------------------------------------------------------------------------------ *)

Lemma firstn_app_len {A} (a b : list A) n : length a = n -> firstn n (a ++ b) = a.
Proof. intros <-. induction a as [|x a IH]; [reflexivity|]. cbn [length app firstn]. now rewrite IH. Qed.

Lemma skipn_app_len {A} (a b : list A) n k : length a = n -> skipn (n + k) (a ++ b) = skipn k b.
Proof. intros <-. induction a as [|x a IH]; [reflexivity|]. cbn [length app Nat.add skipn]. exact IH. Qed.

Lemma skipn_app_len0 {A} (a b : list A) n : length a = n -> skipn n (a ++ b) = b.
Proof. intros H. replace n with (n + 0)%nat by lia. now rewrite skipn_app_len. Qed.

Lemma nth_app_len {A} (a b : list A) n k d : length a = n -> nth (n + k) (a ++ b) d = nth k b d.
Proof. intros <-. induction a as [|x a IH]; [reflexivity|]. cbn [length app Nat.add nth]. exact IH. Qed.

Lemma ltb_len_false {A} (l : list A) n : (n <= length l)%nat -> Nat.ltb (length l) n = false.
Proof. intros H. apply Nat.ltb_ge. exact H. Qed.

Lemma nth16 {A} (a b x : list A) d : length a = 8%nat -> length b = 8%nat -> nth 16 (a ++ b ++ x) d = nth 0 x d.
Proof. intros Ha Hb. change 16%nat with (8 + (8 + 0))%nat. now rewrite (nth_app_len a _ 8%nat _ d Ha), (nth_app_len b _ 8%nat _ d Hb). Qed.
Lemma nth17 {A} (a b x : list A) d : length a = 8%nat -> length b = 8%nat -> nth 17 (a ++ b ++ x) d = nth 1 x d.
Proof. intros Ha Hb. change 17%nat with (8 + (8 + 1))%nat. now rewrite (nth_app_len a _ 8%nat _ d Ha), (nth_app_len b _ 8%nat _ d Hb). Qed.
Lemma skipn18 {A} (a b x : list A) : length a = 8%nat -> length b = 8%nat -> skipn 18 (a ++ b ++ x) = skipn 2 x.
Proof. intros Ha Hb. change 18%nat with (8 + (8 + 2))%nat. now rewrite (skipn_app_len a _ 8%nat _ Ha), (skipn_app_len b _ 8%nat _ Hb). Qed.

(* ---- little endian ---------------------------------------------------------------------- *)

Lemma le_bytes_length n : forall v, length (le_bytes n v) = n.
Proof. induction n as [|n IH]; intros v; [reflexivity|]. cbn [le_bytes length]. now rewrite IH. Qed.

Lemma le_val_le_bytes n : forall v, le_val (le_bytes n v) = v mod 256 ^ N.of_nat n.
Proof.
  induction n as [|n IH]; intros v.
  - cbn [le_bytes le_val N.of_nat]. rewrite N.pow_0_r. now rewrite N.mod_1_r.
  - cbn [le_bytes le_val]. rewrite IH. rewrite b2N_N2b_small by (apply N.mod_lt; lia).
    rewrite Nat2N.inj_succ, N.pow_succ_r'.
    rewrite N.mod_mul_r; [reflexivity| lia | apply N.pow_nonzero; lia].
Qed.

Lemma usize_le_length v : length (usize_le v) = 8%nat.
Proof. apply le_bytes_length. Qed.

Lemma usize_le_val v : v <= USIZE_MAX -> le_val (usize_le v) = v.
Proof.
  intros H. unfold usize_le. rewrite le_val_le_bytes.
  change (256 ^ N.of_nat 8) with 18446744073709551616.
  unfold USIZE_MAX in H. rewrite N.mod_mod by lia. apply N.mod_small. lia.
Qed.

Lemma u16_le_length v : length (u16_le v) = 2%nat.
Proof. apply le_bytes_length. Qed.

Lemma u16_le_val v : v <= 65535 -> le_val (u16_le v) = v.
Proof.
  intros H. unfold u16_le. rewrite le_val_le_bytes.
  change (256 ^ N.of_nat 2) with 65536.
  rewrite N.mod_mod by lia. apply N.mod_small. lia.
Qed.

Lemma byte_mode_rt k : byte_to_mode (mode_to_byte k) = Some k.
Proof. destruct k; reflexivity. Qed.

(* ---- well-formed entries ---------------------------------------------------------------- *)

Definition chunk_ok (c : bytes) : Prop := 1 <= blen c <= 65535.

(* the limits are those of the machine: a path or a buffer is shorter than isize::MAX bytes *)
Definition wf_entry (w : wentry) : Prop :=
  length (w_oid w) = 20%nat /\ blen (w_path w) <= ISIZE_MAX /\
  match w_src w with
  | Known c => blen c < USIZE_MAX
  | Chunked cs => Forall chunk_ok cs
  end.

Definition content_of (s : source) : bytes :=
  match s with Known c => c | Chunked cs => concat cs end.

Definition info_of (w : wentry) : info :=
  {| i_len := src_len (w_src w); i_kind := w_kind w; i_oid := w_oid w; i_path := w_path w |}.

(* ---- next_entry on an encoded entry ----------------------------------------------------- *)

Lemma next_entry_enc w tail cb : wf_entry w ->
  next_entry {| rest := enc_entry w ++ tail; cbuf := cb |} =
    Ok (Some (info_of w, {| rest := enc_body (w_src w) ++ tail; cbuf := cb |})).
Proof.
  intros [Hoid [Hpath Hsrc]].
  set (L := match src_len (w_src w) with Some n => n | None => USIZE_MAX end).
  assert (HL : L <= USIZE_MAX).
  { subst L. destruct (w_src w) as [c|cs]; cbn [src_len]; unfold USIZE_MAX in *; lia. }
  set (bt := enc_body (w_src w) ++ tail).
  assert (Es : enc_entry w ++ tail =
               usize_le (blen (w_path w)) ++ usize_le L ++ mode_to_byte (w_kind w) :: x00 :: w_oid w ++ w_path w ++ bt).
  { unfold enc_entry, enc_header. fold L. subst bt. rewrite <- !app_assoc. reflexivity. }
  unfold next_entry. cbn [rest cbuf]. rewrite Es. clear Es.
  set (A := usize_le (blen (w_path w))). set (B := usize_le L).
  assert (HA : length A = 8%nat) by apply usize_le_length.
  assert (HB : length B = 8%nat) by apply usize_le_length.
  set (R := w_oid w ++ w_path w ++ bt).
  rewrite ltb_len_false by (rewrite !app_length, HA, HB; cbn [length]; lia).
  set (X1 := mode_to_byte (w_kind w) :: x00 :: R). set (X2 := B ++ X1).
  rewrite !(firstn_app_len A X2 8%nat HA).
  rewrite !(skipn_app_len0 A X2 8%nat HA). subst X2.
  rewrite !(firstn_app_len B X1 8%nat HB).
  rewrite (nth16 A B X1 x00 HA HB), (nth17 A B X1 x00 HA HB), !(skipn18 A B X1 HA HB).
  subst X1. cbn [nth]. change (skipn 2 (mode_to_byte (w_kind w) :: x00 :: R)) with R. rewrite byte_mode_rt. subst R.
  rewrite ltb_len_false by (rewrite app_length, Hoid; lia).
  rewrite !(firstn_app_len (w_oid w) (w_path w ++ bt) 20%nat Hoid), !(skipn_app_len0 (w_oid w) (w_path w ++ bt) 20%nat Hoid).
  subst A B. rewrite !usize_le_val by (unfold ISIZE_MAX, USIZE_MAX in *; lia).
  replace (N.ltb ISIZE_MAX (blen (w_path w))) with false by (symmetry; apply N.ltb_ge; exact Hpath).
  replace (N.ltb (blen (w_path w ++ bt)) (blen (w_path w))) with false
    by (symmetry; apply N.ltb_ge; unfold blen; rewrite app_length; lia).
  unfold blen. rewrite Nat2N.id.
  rewrite !(firstn_app_len (w_path w) bt _ eq_refl), !(skipn_app_len0 (w_path w) bt _ eq_refl).
  unfold info_of. do 4 f_equal.
  subst L. destruct (w_src w) as [c|cs]; cbn [src_len] in *.
  - replace (N.eqb (blen c) USIZE_MAX) with false by (symmetry; apply N.eqb_neq; lia). reflexivity.
  - reflexivity.
Qed.

(* ---- reading content of known length ---------------------------------------------------- *)

Definition sizes_pos (l : list nat) : Prop := Forall (fun k => (1 <= k)%nat) l.

Lemma next_size_pos sizes cur : sizes_pos sizes -> sizes_pos cur ->
  (1 <= fst (next_size sizes cur))%nat /\ sizes_pos (snd (next_size sizes cur)).
Proof.
  intros Hs Hc. unfold next_size. destruct cur as [|k c].
  - destruct sizes as [|k c]; cbn [fst snd].
    + split; [lia | constructor].
    + inversion Hs; subst. split; assumption.
  - inversion Hc; subst. cbn [fst snd]. split; assumption.
Qed.

Lemma entry_read_known k c tail cb : (1 <= k)%nat ->
  entry_read k (Some (blen c)) {| rest := c ++ tail; cbuf := cb |} =
    let n := Nat.min k (length c) in
    Ok (firstn n c, Some (blen (skipn n c)), {| rest := skipn n c ++ tail; cbuf := cb |}).
Proof.
  intros Hk. unfold entry_read. cbn [rest cbuf]. cbv zeta.
  assert (En : (if N.ltb (blen c) (N.of_nat k) then N.to_nat (blen c) else k) = Nat.min k (length c)).
  { unfold blen. destruct (N.ltb_spec (N.of_nat (length c)) (N.of_nat k)); [rewrite Nat2N.id|]; lia. }
  rewrite En. set (n := Nat.min k (length c)).
  assert (Hn : (n <= length c)%nat) by (subst n; lia).
  assert (E1 : firstn n (c ++ tail) = firstn n c).
  { rewrite firstn_app. replace (n - length c)%nat with 0%nat by lia. cbn [firstn]. apply app_nil_r. }
  assert (E2 : skipn n (c ++ tail) = skipn n c ++ tail).
  { rewrite skipn_app. replace (n - length c)%nat with 0%nat by lia. reflexivity. }
  rewrite E1, E2.
  assert (E3 : blen c - blen (firstn n c) = blen (skipn n c)).
  { unfold blen. rewrite firstn_length, skipn_length. lia. }
  rewrite E3.
  destruct (firstn n c) as [|x o] eqn:Ef; [|reflexivity].
  (* nothing delivered: c is empty *)
  assert (length (firstn n c) = 0%nat) by now rewrite Ef.
  rewrite firstn_length in H.
  assert (length c = 0%nat) by (subst n; lia).
  destruct c; [|cbn [length] in *; lia]. subst n. cbn [length Nat.min]. rewrite Nat.min_0_r.
  reflexivity.
Qed.

Lemma read_known : forall fuel c tail cb sizes cur acc reads,
  sizes_pos sizes -> sizes_pos cur -> (length c < fuel)%nat ->
  exists reads' cur',
    read_all fuel sizes cur (Some (blen c)) {| rest := c ++ tail; cbuf := cb |} acc reads =
      Ok (concat (rev acc) ++ c, reads', cur', {| rest := tail; cbuf := cb |}) /\ sizes_pos cur'.
Proof.
  induction fuel as [|fuel IH]; intros c tail cb sizes cur acc reads Hs Hc Hf; [lia|].
  cbn [read_all]. rewrite <- rev_alt.
  destruct (next_size_pos sizes cur Hs Hc) as [Hk Hcur'].
  destruct (next_size sizes cur) as [k cur'] eqn:En. cbn [fst snd] in *.
  rewrite entry_read_known by assumption. cbv zeta.
  set (n := Nat.min k (length c)).
  destruct (firstn n c) as [|x o] eqn:Ef.
  - assert (H : length (firstn n c) = 0%nat) by now rewrite Ef.
    rewrite firstn_length in H.
    assert (Hc0 : length c = 0%nat) by (subst n; lia).
    destruct c; [|cbn [length] in *; lia].
    exists (S reads), cur'. split; [|assumption].
    rewrite skipn_nil. cbn [app]. now rewrite app_nil_r.
  - cbv beta iota. rewrite <- Ef.
    assert (Hlen : (length (skipn n c) < fuel)%nat).
    { rewrite skipn_length.
      assert (length (firstn n c) <> 0%nat) by (rewrite Ef; cbn [length]; lia).
      rewrite firstn_length in H. lia. }
    destruct (IH (skipn n c) tail cb sizes cur' (firstn n c :: acc) (S reads) Hs Hcur' Hlen)
      as [reads' [cur'' [Hr Hp]]].
    exists reads', cur''. split; [|assumption].
    etransitivity; [exact Hr|]. do 4 f_equal.
    cbn [rev]. rewrite concat_app. cbn [concat]. rewrite app_nil_r, <- app_assoc.
    now rewrite firstn_skipn.
Qed.

(* ---- reading chunked content ------------------------------------------------------------ *)

Lemma entry_read_buffered k b bs' s : (1 <= k)%nat ->
  entry_read k None {| rest := s; cbuf := b :: bs' |} =
    Ok (firstn k (b :: bs'), None, {| rest := s; cbuf := skipn k (b :: bs') |}).
Proof.
  intros Hk. unfold entry_read. cbn [rest cbuf]. cbv zeta.
  destruct k as [|k]; [lia|]. reflexivity.
Qed.

Lemma entry_read_chunk k c r : (1 <= k)%nat -> chunk_ok c ->
  entry_read k None {| rest := u16_le (blen c) ++ c ++ r; cbuf := [] |} =
    Ok (firstn k c, None, {| rest := r; cbuf := skipn k c |}).
Proof.
  intros Hk [Hc1 Hc2]. unfold blen in Hc1, Hc2. unfold entry_read. cbn [rest cbuf]. cbv zeta.
  rewrite (ltb_len_false (u16_le (blen c) ++ c ++ r) 2) by (rewrite app_length, u16_le_length; lia).
  rewrite !(firstn_app_len (u16_le (blen c)) (c ++ r) 2%nat (u16_le_length _)),
          !(skipn_app_len0 (u16_le (blen c)) (c ++ r) 2%nat (u16_le_length _)).
  rewrite u16_le_val by (unfold blen; lia).
  unfold blen. rewrite Nat2N.id.
  rewrite (ltb_len_false (c ++ r) (length c)) by (rewrite app_length; lia).
  rewrite !(firstn_app_len c r _ eq_refl), !(skipn_app_len0 c r _ eq_refl).
  cbn [rest cbuf].
  destruct c as [|x c]; [cbn [length] in Hc1; lia|].
  destruct k as [|k]; [lia|]. reflexivity.
Qed.

Lemma entry_read_end k tail :
  entry_read k None {| rest := x00 :: x00 :: tail; cbuf := [] |} =
    Ok ([], Some 0, {| rest := tail; cbuf := [] |}).
Proof.
  unfold entry_read. cbn [rest cbuf length]. cbv zeta.
  change (Nat.ltb (S (S (length tail))) 2) with false. cbv iota.
  cbn [firstn le_val]. change (b2N x00) with 0.
  change (N.to_nat (0 + 256 * (0 + 256 * 0))) with 0%nat.
  cbn [skipn length Nat.ltb Nat.leb firstn rest cbuf].
  destruct k; reflexivity.
Qed.

Lemma read_chunked : forall fuel b cs tail sizes cur acc reads,
  sizes_pos sizes -> sizes_pos cur -> Forall chunk_ok cs ->
  (length b + length (concat cs) < fuel)%nat ->
  exists reads' cur',
    read_all fuel sizes cur None {| rest := enc_chunks cs ++ tail; cbuf := b |} acc reads =
      Ok (concat (rev acc) ++ b ++ concat cs, reads', cur', {| rest := tail; cbuf := [] |}) /\ sizes_pos cur'.
Proof.
  induction fuel as [|fuel IH]; intros b cs tail sizes cur acc reads Hs Hc Hcs Hf; [lia|].
  cbn [read_all]. rewrite <- rev_alt.
  destruct (next_size_pos sizes cur Hs Hc) as [Hk Hcur'].
  destruct (next_size sizes cur) as [k cur'] eqn:En. cbn [fst snd] in *.
  destruct b as [|x b].
  - destruct cs as [|c cs].
    + cbn [enc_chunks app]. rewrite entry_read_end.
      exists (S reads), cur'. split; [|assumption]. cbn [concat app]. now rewrite app_nil_r.
    + inversion Hcs as [|c' cs' Hc0 Hcs0]; subst.
      cbn [enc_chunks]. rewrite <- !app_assoc. rewrite entry_read_chunk by assumption.
      destruct (firstn k c) as [|y o] eqn:Ef.
      { exfalso. assert (H : length (firstn k c) = 0%nat) by now rewrite Ef.
        rewrite firstn_length in H. destruct Hc0 as [Hc1 Hc2]. unfold blen in Hc1, Hc2. lia. }
      cbv beta iota. rewrite <- Ef.
      assert (Hne : length (firstn k c) <> 0%nat) by (rewrite Ef; cbn [length]; lia).
      rewrite firstn_length in Hne.
      destruct (IH (skipn k c) cs tail sizes cur' (firstn k c :: acc) (S reads) Hs Hcur' Hcs0)
        as [reads' [cur'' [Hr Hp]]].
      { rewrite skipn_length. cbn [concat length] in Hf. rewrite app_length in Hf. lia. }
      exists reads', cur''. split; [|assumption].
      etransitivity; [exact Hr|]. do 4 f_equal.
      cbn [rev concat app]. rewrite concat_app. cbn [concat]. rewrite app_nil_r, <- !app_assoc.
      rewrite (app_assoc (firstn k c)). now rewrite firstn_skipn.
  - rewrite entry_read_buffered by assumption.
    destruct k as [|k]; [lia|]. cbn [firstn].
    change (x :: firstn k b) with (firstn (S k) (x :: b)).
    destruct (IH (skipn (S k) (x :: b)) cs tail sizes cur' (firstn (S k) (x :: b) :: acc) (S reads) Hs Hcur' Hcs)
      as [reads' [cur'' [Hr Hp]]].
    { rewrite skipn_length. cbn [length] in *. lia. }
    exists reads', cur''. split; [|assumption].
    etransitivity; [exact Hr|]. do 4 f_equal.
    cbn [rev]. rewrite concat_app. cbn [concat].
    rewrite app_nil_r, <- !app_assoc. f_equal.
    change (x :: firstn k b) with (firstn (S k) (x :: b)).
    rewrite (app_assoc (firstn (S k) (x :: b))). now rewrite firstn_skipn.
Qed.

Lemma enc_chunks_length cs : (length (concat cs) + 2 <= length (enc_chunks cs))%nat.
Proof.
  induction cs as [|c cs IH]; [cbn; lia|].
  cbn [enc_chunks concat]. rewrite !app_length, u16_le_length. lia.
Qed.

(* ---- a whole entry, a whole stream ------------------------------------------------------ *)

Lemma read_body w tail sizes cur : wf_entry w -> sizes_pos sizes -> sizes_pos cur ->
  exists reads' cur',
    read_all (read_fuel {| rest := enc_body (w_src w) ++ tail; cbuf := [] |}) sizes cur (src_len (w_src w))
             {| rest := enc_body (w_src w) ++ tail; cbuf := [] |} [] 0 =
      Ok (content_of (w_src w), reads', cur', {| rest := tail; cbuf := [] |}) /\ sizes_pos cur'.
Proof.
  intros [_ [_ Hsrc]] Hs Hc. unfold read_fuel. cbn [rest cbuf length].
  destruct (w_src w) as [c|cs]; cbn [enc_body src_len content_of].
  - destruct (read_known (S (S (length (c ++ tail) + 0))) c tail [] sizes cur [] 0%nat Hs Hc) as [r [cu [H Hp]]].
    { rewrite app_length. lia. }
    exists r, cu. split; [|assumption]. rewrite H. reflexivity.
  - destruct (read_chunked (S (S (length (enc_chunks cs ++ tail) + 0))) [] cs tail sizes cur [] 0%nat Hs Hc Hsrc)
      as [r [cu [H Hp]]].
    { rewrite app_length. pose proof (enc_chunks_length cs). cbn [length]. lia. }
    exists r, cu. split; [|assumption]. rewrite H. reflexivity.
Qed.

Lemma enc_entry_length w : (38 <= length (enc_entry w))%nat -> True.
Proof. trivial. Qed.

Definition observed (r : rentry) : info * bytes := (r_info r, r_content r).
Definition expected (w : wentry) : info * bytes := (info_of w, content_of (w_src w)).

Lemma read_entries_enc : forall ws fuel sizes cur acc,
  Forall wf_entry ws -> sizes_pos sizes -> sizes_pos cur -> (length ws < fuel)%nat ->
  exists es, read_entries fuel sizes cur {| rest := enc_entries ws; cbuf := [] |} acc = (rev acc ++ es, EndOk) /\
             map observed es = map expected ws.
Proof.
  induction ws as [|w ws IH]; intros fuel sizes cur acc Hwf Hs Hc Hf.
  - destruct fuel as [|fuel]; [cbn [length] in Hf; lia|].
    cbn [read_entries enc_entries]. unfold next_entry. cbn [rest length Nat.ltb Nat.leb].
    exists []. now rewrite app_nil_r.
  - destruct fuel as [|fuel]; [lia|].
    inversion Hwf as [|w' ws' Hw Hws]; subst.
    cbn [read_entries enc_entries]. rewrite next_entry_enc by assumption.
    destruct (read_body w (enc_entries ws) sizes cur Hw Hs Hc) as [reads' [cur' [Hr Hp]]].
    unfold info_of at 1. cbn [i_len]. rewrite Hr.
    destruct (IH fuel sizes cur' ({| r_info := info_of w; r_content := content_of (w_src w); r_reads := reads' |} :: acc)
                 Hws Hs Hp) as [es [He Hm]].
    { cbn [length] in Hf. lia. }
    exists ({| r_info := info_of w; r_content := content_of (w_src w); r_reads := reads' |} :: es).
    split.
    + rewrite He. cbn [rev]. now rewrite <- app_assoc.
    + cbn [map]. now rewrite Hm.
Qed.

Lemma enc_entries_length ws : (length ws <= length (enc_entries ws))%nat.
Proof.
  induction ws as [|w ws IH]; [cbn; lia|].
  cbn [enc_entries length]. rewrite app_length.
  assert (1 <= length (enc_entry w))%nat.
  { unfold enc_entry, enc_header. rewrite !app_length, usize_le_length. lia. }
  lia.
Qed.

Lemma L_stream_RT : forall ws sizes, Forall wf_entry ws -> sizes_pos sizes ->
  exists es, decode sizes (enc_entries ws) = (es, EndOk) /\ map observed es = map expected ws.
Proof.
  intros ws sizes Hwf Hs. unfold decode.
  destruct (read_entries_enc ws (S (length (enc_entries ws))) sizes [] [] Hwf Hs) as [es [He Hm]].
  - constructor.
  - pose proof (enc_entries_length ws). lia.
  - exists es. split; [exact He | exact Hm].
Qed.

(* ---- files as sources: 65535-byte pieces ------------------------------------------------ *)

Lemma file_chunks_spec : forall fuel c, (length c < fuel)%nat ->
  Forall chunk_ok (file_chunks fuel c) /\ concat (file_chunks fuel c) = c.
Proof.
  induction fuel as [|fuel IH]; intros c Hf; [lia|].
  cbn [file_chunks]. destruct c as [|x c]; [split; [constructor | reflexivity]|].
  set (l := x :: c) in *.
  assert (Hb : N.of_nat BUF_LEN = 65535) by (unfold BUF_LEN; apply N2Nat.id).
  assert (Hl : (1 <= length l)%nat) by (subst l; cbn [length]; lia).
  destruct (IH (skipn BUF_LEN l)) as [H1 H2].
  { rewrite skipn_length. lia. }
  split.
  - constructor; [|exact H1]. unfold chunk_ok, blen. rewrite firstn_length. lia.
  - cbn [concat]. rewrite H2. apply firstn_skipn.
Qed.

Lemma extra_entry_wf x : length (x_oid x) = 20%nat -> blen (x_path x) <= ISIZE_MAX ->
  (match x_src x with XMemory c => blen c < USIZE_MAX | _ => True end) ->
  wf_entry (extra_entry x).
Proof.
  intros Ho Hp Hs. unfold wf_entry, extra_entry. cbn [w_oid w_path w_src]. repeat split; try assumption.
  destruct (x_src x) as [|c|c].
  - unfold USIZE_MAX, blen. cbn [length]. lia.
  - exact Hs.
  - unfold file_source. apply file_chunks_spec. lia.
Qed.

Lemma extra_entry_content x :
  content_of (w_src (extra_entry x)) = match x_src x with XNull => [] | XMemory c => c | XPath c => c end.
Proof.
  unfold extra_entry. cbn [w_src]. destruct (x_src x) as [|c|c]; cbn [content_of]; try reflexivity.
  apply file_chunks_spec. lia.
Qed.
