//! C55 harness: gix_worktree_stream::{from_tree, Stream::{next_entry, add_entry, into_read, from_read}} and
//! gix_archive::write_stream (tar) / write_stream_seek (zip).
//! Cases (numbers decimal, see coq/Run.v):
//!   tree <via> <ndirs> <nextras> <nign> <nsched>  dirs.. extras.. igns.. sched..
//!   dec <nseg> <nsched> (raw len)*nseg sched..
use gix_hash::ObjectId;
use gixv_common::*;
use std::collections::HashMap;
use std::io::Read;
use std::sync::Arc;

// ------------------------------------------------------------------------------------------- case data

#[derive(Clone, Debug)]
struct TEntry {
    name: Vec<u8>,
    kind: u8, // T B X L C
    refr: Vec<u8>,
    raw: Vec<u8>,
    len: usize,
}
#[derive(Clone, Debug)]
struct Extra {
    path: Vec<u8>,
    kind: u8,
    oid: Vec<u8>,
    src: u8, // N M P
    raw: Vec<u8>,
    len: usize,
}
#[derive(Clone, Debug, Default)]
struct TreeCase {
    via: u64,
    dirs: Vec<Vec<TEntry>>,
    extras: Vec<Extra>,
    igns: Vec<Vec<u8>>,
    sched: Vec<usize>,
}

fn expand(raw: &[u8], len: usize) -> Vec<u8> {
    if len == 0 {
        return raw.to_vec();
    }
    if raw.is_empty() {
        return vec![];
    }
    (0..len).map(|i| raw[i % raw.len()]).collect()
}

fn kind_norm(k: &[u8]) -> u8 {
    match k.first() {
        Some(b'T') => b'T',
        Some(b'X') => b'X',
        Some(b'L') => b'L',
        Some(b'C') => b'C',
        _ => b'B',
    }
}

fn parse_tree_case(c: &Case) -> TreeCase {
    let mut t = TreeCase { via: f_u64(c, 1), ..Default::default() };
    let (nd, nx, ni, ns) = (f_u64(c, 2) as usize, f_u64(c, 3) as usize, f_u64(c, 4) as usize, f_u64(c, 5) as usize);
    let mut p = 6;
    for _ in 0..nd {
        let cnt = f_u64(c, p) as usize;
        p += 1;
        let mut es = Vec::new();
        for _ in 0..cnt {
            es.push(TEntry {
                name: f_str(c, p).to_vec(),
                kind: kind_norm(f_str(c, p + 1)),
                refr: f_str(c, p + 2).to_vec(),
                raw: f_str(c, p + 3).to_vec(),
                len: f_u64(c, p + 4) as usize,
            });
            p += 5;
        }
        t.dirs.push(es);
    }
    for _ in 0..nx {
        t.extras.push(Extra {
            path: f_str(c, p).to_vec(),
            kind: kind_norm(f_str(c, p + 1)),
            oid: f_str(c, p + 2).to_vec(),
            src: match f_str(c, p + 3).first() {
                Some(b'N') => b'N',
                Some(b'P') => b'P',
                _ => b'M',
            },
            raw: f_str(c, p + 4).to_vec(),
            len: f_u64(c, p + 5) as usize,
        });
        p += 6;
    }
    for _ in 0..ni {
        t.igns.push(f_str(c, p).to_vec());
        p += 1;
    }
    for _ in 0..ns {
        t.sched.push(std::str::from_utf8(f_str(c, p)).ok().and_then(|s| s.parse().ok()).unwrap_or(1));
        p += 1;
    }
    t
}

fn tree_case_line(t: &TreeCase) -> Case {
    let mut c: Case = vec![tag("tree"), num(t.via), num(t.dirs.len()), num(t.extras.len()), num(t.igns.len()), num(t.sched.len())];
    for d in &t.dirs {
        c.push(num(d.len()));
        for e in d {
            c.push(e.name.clone());
            c.push(vec![e.kind]);
            c.push(e.refr.clone());
            c.push(e.raw.clone());
            c.push(num(e.len));
        }
    }
    for x in &t.extras {
        c.push(x.path.clone());
        c.push(vec![x.kind]);
        c.push(x.oid.clone());
        c.push(vec![x.src]);
        c.push(x.raw.clone());
        c.push(num(x.len));
    }
    for i in &t.igns {
        c.push(i.clone());
    }
    for s in &t.sched {
        c.push(num(*s));
    }
    c
}

// ------------------------------------------------------------------------------------------- odb

#[derive(Clone)]
struct Odb(Arc<HashMap<ObjectId, (gix_object::Kind, Vec<u8>)>>);
impl gix_object::Find for Odb {
    fn try_find<'a>(
        &self,
        id: &gix_hash::oid,
        buffer: &'a mut Vec<u8>,
    ) -> Result<Option<gix_object::Data<'a>>, gix_object::find::Error> {
        match self.0.get(id) {
            None => Ok(None),
            Some((kind, data)) => {
                buffer.clear();
                buffer.extend_from_slice(data);
                Ok(Some(gix_object::Data { kind: *kind, data: buffer }))
            }
        }
    }
}

fn dir_id(i: usize) -> ObjectId {
    let mut id = [0u8; 20];
    id[0] = 0xee;
    id[1] = 0x7e;
    id[2..10].copy_from_slice(&(i as u64).to_le_bytes());
    ObjectId::from_bytes_or_panic(&id)
}
fn oid20(b: &[u8]) -> ObjectId {
    let mut id = [0u8; 20];
    for (i, x) in b.iter().take(20).enumerate() {
        id[i] = *x;
    }
    ObjectId::from_bytes_or_panic(&id)
}
fn mode_octal(kind: u8) -> &'static [u8] {
    match kind {
        b'T' => b"40000",
        b'X' => b"100755",
        b'L' => b"120000",
        b'C' => b"160000",
        _ => b"100644",
    }
}
fn dir_index(refr: &[u8]) -> usize {
    std::str::from_utf8(refr).ok().and_then(|s| s.parse().ok()).unwrap_or(0)
}

fn odb_of(t: &TreeCase) -> Odb {
    let mut m = HashMap::new();
    for (i, d) in t.dirs.iter().enumerate() {
        let mut data = Vec::new();
        for e in d {
            data.extend_from_slice(mode_octal(e.kind));
            data.push(b' ');
            data.extend_from_slice(&e.name);
            data.push(0);
            if e.kind == b'T' {
                let j = dir_index(&e.refr);
                data.extend_from_slice(dir_id(j).as_bytes());
                if j >= t.dirs.len() {
                    m.entry(dir_id(j)).or_insert((gix_object::Kind::Tree, vec![]));
                }
            } else {
                data.extend_from_slice(oid20(&e.refr).as_bytes());
                if e.kind != b'C' {
                    m.entry(oid20(&e.refr)).or_insert((gix_object::Kind::Blob, expand(&e.raw, e.len)));
                }
            }
        }
        m.insert(dir_id(i), (gix_object::Kind::Tree, data));
    }
    if t.dirs.is_empty() {
        m.insert(dir_id(0), (gix_object::Kind::Tree, vec![]));
    }
    Odb(Arc::new(m))
}

// ------------------------------------------------------------------------------------------- running the stream

fn entry_kind(kind: u8) -> gix_object::tree::EntryKind {
    use gix_object::tree::EntryKind::*;
    match kind {
        b'T' => Tree,
        b'X' => BlobExecutable,
        b'L' => Link,
        b'C' => Commit,
        _ => Blob,
    }
}
fn kind_digit(m: gix_object::tree::EntryMode) -> u8 {
    use gix_object::tree::EntryKind::*;
    match m.kind() {
        Tree => 0,
        Blob => 1,
        BlobExecutable => 2,
        Link => 3,
        Commit => 4,
    }
}

fn tmp_root() -> std::path::PathBuf {
    use std::sync::atomic::{AtomicU64, Ordering};
    static N: AtomicU64 = AtomicU64::new(0);
    let d = std::env::temp_dir().join(format!("gixv-c55-{}-{}", std::process::id(), N.fetch_add(1, Ordering::SeqCst)));
    let _ = std::fs::remove_dir_all(&d);
    std::fs::create_dir_all(&d).unwrap();
    d
}

/// the `attributes` callback: export-ignore for exactly the listed paths, through gix-attributes' own matcher
fn attr_search(igns: &[Vec<u8>]) -> (gix_attributes::Search, gix_attributes::search::MetadataCollection) {
    let mut collection = gix_attributes::search::MetadataCollection::default();
    let mut search = gix_attributes::Search::default();
    let mut buf = Vec::new();
    for p in igns {
        buf.push(b'/');
        buf.extend_from_slice(p);
        buf.extend_from_slice(b" export-ignore\n");
    }
    search.add_patterns_buffer(&buf, "<memory>".into(), None, &mut collection, true);
    (search, collection)
}

fn make_stream(t: &TreeCase, tmp: &mut Option<std::path::PathBuf>) -> gix_worktree_stream::Stream {
    let odb = odb_of(t);
    let (search, collection) = attr_search(&t.igns);
    let mut stream = gix_worktree_stream::from_tree(
        dir_id(0),
        odb,
        gix_filter::Pipeline::default(),
        move |path, mode, out| -> Result<(), std::convert::Infallible> {
            out.initialize(&collection);
            search.pattern_matching_relative_path(path, gix_attributes::glob::pattern::Case::Sensitive, Some(mode.is_tree()), out);
            Ok(())
        },
    );
    for (i, x) in t.extras.iter().enumerate() {
        let content = expand(&x.raw, x.len);
        let source = match x.src {
            b'N' => gix_worktree_stream::entry::Source::Null,
            b'P' => {
                let dir = tmp.get_or_insert_with(tmp_root);
                let f = dir.join(format!("x{i}"));
                std::fs::write(&f, &content).unwrap();
                gix_worktree_stream::entry::Source::Path(f)
            }
            _ => gix_worktree_stream::entry::Source::Memory(content),
        };
        stream.add_entry(gix_worktree_stream::AdditionalEntry {
            id: oid20(&x.oid),
            mode: entry_kind(x.kind).into(),
            relative_path: x.path.clone().into(),
            source,
        });
    }
    stream
}

#[derive(Debug, Clone, PartialEq)]
struct REntry {
    path: Vec<u8>,
    kind: u8,
    oid: Vec<u8>,
    len: Option<usize>,
    content: Vec<u8>,
    reads: usize,
}

/// the consumer of coq/Model.v: read every entry until a read returns 0, buffer sizes from the cyclic schedule
fn consume(stream: &mut gix_worktree_stream::Stream, sched: &[usize]) -> (Vec<REntry>, &'static str) {
    let mut out = Vec::new();
    let mut cur = 0usize; // index into the current cycle
    let mut buf = vec![0u8; sched.iter().copied().max().unwrap_or(8192).max(1)];
    loop {
        let mut entry = match stream.next_entry() {
            Ok(Some(e)) => e,
            Ok(None) => return (out, "end"),
            Err(_) => return (out, "err"),
        };
        let mut r = REntry {
            path: entry.relative_path().to_vec(),
            kind: kind_digit(entry.mode),
            oid: entry.id.as_bytes().to_vec(),
            len: entry.bytes_remaining(),
            content: Vec::new(),
            reads: 0,
        };
        loop {
            let k = if sched.is_empty() {
                8192
            } else {
                let k = sched[cur % sched.len()];
                cur = (cur + 1) % sched.len();
                k
            };
            match entry.read(&mut buf[..k]) {
                Ok(0) => {
                    r.reads += 1;
                    break;
                }
                Ok(n) => {
                    r.reads += 1;
                    r.content.extend_from_slice(&buf[..n]);
                }
                Err(_) => {
                    r.content.clear();
                    r.reads = 0;
                    out.push(r);
                    return (out, "readerr");
                }
            }
        }
        drop(entry);
        out.push(r);
    }
}

fn hash32(b: &[u8]) -> u32 {
    b.iter().fold(0u32, |h, x| h.wrapping_mul(31).wrapping_add(*x as u32))
}
fn digest(b: &[u8]) -> String {
    if b.len() <= 32 {
        format!("{}/{}/{}", b.len(), hash32(b), hexs(b))
    } else {
        format!("{}/{}", b.len(), hash32(b))
    }
}
fn show_entry(e: &REntry) -> String {
    format!(
        "{}:{}:{}:{}:{}:{}",
        hexs(&e.path),
        e.kind,
        hexs(&e.oid),
        e.len.map(|n| n.to_string()).unwrap_or_else(|| "?".into()),
        digest(&e.content),
        e.reads
    )
}
fn show_decoded(pre: Vec<String>, r: &(Vec<REntry>, &'static str)) -> String {
    let mut v = pre;
    v.extend(r.0.iter().map(show_entry));
    v.push(r.1.to_string());
    v.join(" ")
}

// ------------------------------------------------------------------------------------------- tar reading (independent)

#[derive(Debug, Clone, PartialEq)]
struct TarItem {
    path: Vec<u8>,
    typ: u8,
    mode: u64,
    size: u64,
    data: Vec<u8>,
    link: Vec<u8>,
}

fn cstr(b: &[u8]) -> &[u8] {
    &b[..b.iter().position(|x| *x == 0).unwrap_or(b.len())]
}
fn octal(b: &[u8]) -> u64 {
    let mut v = 0u64;
    for x in b {
        match x {
            b'0'..=b'7' => v = v * 8 + (*x - b'0') as u64,
            b' ' | 0 => {
                if v != 0 {
                    break;
                }
            }
            _ => break,
        }
    }
    v
}
fn pax_records(data: &[u8]) -> Vec<(Vec<u8>, Vec<u8>)> {
    let mut out = Vec::new();
    let mut p = 0;
    while p < data.len() {
        let sp = match data[p..].iter().position(|x| *x == b' ') {
            Some(s) => s,
            None => break,
        };
        let n: usize = match std::str::from_utf8(&data[p..p + sp]).ok().and_then(|s| s.parse().ok()) {
            Some(n) => n,
            None => break,
        };
        if n == 0 || p + n > data.len() {
            break;
        }
        let rec = &data[p + sp + 1..p + n - 1];
        if let Some(eq) = rec.iter().position(|x| *x == b'=') {
            out.push((rec[..eq].to_vec(), rec[eq + 1..].to_vec()));
        }
        p += n;
    }
    out
}

/// ustar / GNU / pax reader written for this harness (no tar crate): files, directories, symlinks
fn read_tar(t: &[u8]) -> Option<Vec<TarItem>> {
    let mut out = Vec::new();
    let mut p = 0;
    let (mut long_name, mut long_link): (Option<Vec<u8>>, Option<Vec<u8>>) = (None, None);
    while p + 512 <= t.len() {
        let h = &t[p..p + 512];
        p += 512;
        if h.iter().all(|x| *x == 0) {
            break;
        }
        let size = octal(&h[124..136]);
        let blocks = ((size + 511) / 512) as usize;
        if p + blocks * 512 > t.len() {
            return None;
        }
        let data = t[p..p + size as usize].to_vec();
        p += blocks * 512;
        let typ = h[156];
        match typ {
            b'L' => {
                long_name = Some(cstr(&data).to_vec());
                continue;
            }
            b'K' => {
                long_link = Some(cstr(&data).to_vec());
                continue;
            }
            b'x' => {
                for (k, v) in pax_records(&data) {
                    if k == b"path" {
                        long_name = Some(v);
                    } else if k == b"linkpath" {
                        long_link = Some(v);
                    }
                }
                continue;
            }
            b'g' => continue,
            _ => {}
        }
        let mut name = cstr(&h[0..100]).to_vec();
        if &h[257..263] == b"ustar\0" {
            let prefix = cstr(&h[345..500]);
            if !prefix.is_empty() {
                let mut n = prefix.to_vec();
                n.push(b'/');
                n.extend_from_slice(&name);
                name = n;
            }
        }
        let path = long_name.take().unwrap_or(name);
        let link = long_link.take().unwrap_or_else(|| cstr(&h[157..257]).to_vec());
        out.push(TarItem {
            path,
            typ: if typ == 0 { b'0' } else { typ },
            mode: octal(&h[100..108]) & 0o777,
            size,
            data,
            link,
        });
    }
    Some(out)
}

fn show_tar(i: &TarItem) -> String {
    format!("{}:{}:{}:{}:{}:{}", hexs(&i.path), i.typ as char, i.mode, i.size, digest(&i.data), hexs(&i.link))
}

fn tar_of(t: &TreeCase, tmp: &mut Option<std::path::PathBuf>) -> Result<Vec<u8>, ()> {
    let mut stream = make_stream(t, tmp);
    let mut out = Vec::new();
    gix_archive::write_stream(
        &mut stream,
        gix_worktree_stream::Stream::next_entry,
        &mut out,
        gix_archive::Options {
            format: gix_archive::Format::Tar,
            tree_prefix: if t.via == 3 { Some("p/".into()) } else { None },
            modification_time: 1_700_000_000,
        },
    )
    .map_err(|e| {
        if std::env::var_os("GIXV_DEBUG").is_some() {
            eprintln!("tar error: {e:?}");
        }
    })?;
    Ok(out)
}

// ------------------------------------------------------------------------------------------- impl

fn cleanup(tmp: Option<std::path::PathBuf>) {
    if let Some(d) = tmp {
        let _ = std::fs::remove_dir_all(d);
    }
}

fn dec_stream(c: &Case) -> (Vec<u8>, Vec<usize>) {
    let nseg = f_u64(c, 1) as usize;
    let ns = f_u64(c, 2) as usize;
    let mut s = Vec::new();
    for i in 0..nseg {
        s.extend_from_slice(&expand(f_str(c, 3 + 2 * i), f_u64(c, 4 + 2 * i) as usize));
    }
    let sched = (0..ns)
        .map(|i| std::str::from_utf8(f_str(c, 3 + 2 * nseg + i)).ok().and_then(|s| s.parse().ok()).unwrap_or(1))
        .collect();
    (s, sched)
}

/// `read_entry_info` allocates `path_len` bytes before it reads them: a header with a path length between
/// 1 MiB and isize::MAX would make the implementation allocate (and zero) that much memory, with an outcome that
/// depends on the allocator.  Such streams are never generated and never run (walks the headers like the model does).
fn stream_safe(s: &[u8], sched: &[usize]) -> bool {
    if sched.contains(&0) {
        // a zero-sized read ends an entry early and the rest of its content is parsed as a header:
        // only allowed when there is no room for a second header
        return s.len() < 56;
    }
    let mut p = 0usize;
    loop {
        if s.len() - p < 18 {
            return true;
        }
        let path_len = u64::from_le_bytes(s[p..p + 8].try_into().unwrap());
        let stream_len = u64::from_le_bytes(s[p + 8..p + 16].try_into().unwrap());
        if s[p + 16] > 4 || s[p + 17] != 0 {
            return true;
        }
        p += 18;
        if s.len() - p < 20 {
            return true;
        }
        p += 20;
        if path_len >= 1 << 63 {
            return true;
        }
        if path_len > 1 << 20 {
            return false;
        }
        if path_len > (s.len() - p) as u64 {
            return true;
        }
        p += path_len as usize;
        if stream_len == u64::MAX {
            loop {
                if s.len() - p < 2 {
                    return true;
                }
                let n = u16::from_le_bytes([s[p], s[p + 1]]) as usize;
                p += 2;
                if n == 0 {
                    break;
                }
                if s.len() - p < n {
                    return true;
                }
                p += n;
            }
        } else {
            p += stream_len.min((s.len() - p) as u64) as usize;
        }
    }
}

fn imp(c: &Case) -> String {
    match f_str(c, 0) {
        b"tree" => {
            let t = parse_tree_case(c);
            if t.sched.contains(&0) {
                return "unsafe-case".into();
            }
            let mut tmp = None;
            let r = match t.via {
                0 => {
                    let mut stream = make_stream(&t, &mut tmp);
                    show_decoded(vec![], &consume(&mut stream, &t.sched))
                }
                1 => {
                    let stream = make_stream(&t, &mut tmp);
                    let mut bytes = Vec::new();
                    match stream.into_read().read_to_end(&mut bytes) {
                        Ok(_) => {
                            let pre = vec![format!("stream={}", digest(&bytes))];
                            let mut s2 = gix_worktree_stream::Stream::from_read(std::io::Cursor::new(bytes));
                            show_decoded(pre, &consume(&mut s2, &t.sched))
                        }
                        Err(_) => "err".into(),
                    }
                }
                _ => match tar_of(&t, &mut tmp) {
                    Ok(bytes) => match read_tar(&bytes) {
                        Some(items) => {
                            let mut v: Vec<String> = items.iter().map(show_tar).collect();
                            v.push("end".into());
                            v.join(" ")
                        }
                        None => "badtar".into(),
                    },
                    Err(()) => "err".into(),
                },
            };
            cleanup(tmp);
            r
        }
        b"dec" => {
            let (s, sched) = dec_stream(c);
            if !stream_safe(&s, &sched) {
                return "unsafe-case".into();
            }
            let mut stream = gix_worktree_stream::Stream::from_read(std::io::Cursor::new(s));
            show_decoded(vec![], &consume(&mut stream, &sched))
        }
        _ => "?".into(),
    }
}

// ------------------------------------------------------------------------------------------- the property's own oracle

/// One file of the tree as the property speaks of it.
#[derive(Debug, Clone, PartialEq, Eq, PartialOrd, Ord)]
struct Want {
    path: Vec<u8>,
    kind: u8, // 1 blob 2 exe 3 link
    oid: Vec<u8>,
    content: Vec<u8>,
}

fn name_ok(n: &[u8]) -> bool {
    !n.is_empty() && !n.contains(&b'/') && !n.contains(&0) && n != b"." && n != b".." && n != b".git"
}

/// plain recursive listing of the tree: every blob, executable and symlink with its full path, unless it or one
/// of its parent directories is export-ignored.  None if the tree is not one git would produce.
fn flatten(t: &TreeCase, dir: usize, prefix: &[u8], depth: usize, out: &mut Vec<Want>) -> Option<()> {
    if depth > 40 {
        return None;
    }
    let empty = Vec::new();
    let es = t.dirs.get(dir).unwrap_or(&empty);
    for (i, e) in es.iter().enumerate() {
        if !name_ok(&e.name) || es[..i].iter().any(|o| o.name == e.name) {
            return None;
        }
        let mut path = prefix.to_vec();
        path.extend_from_slice(&e.name);
        if t.igns.iter().any(|g| *g == path) {
            continue;
        }
        match e.kind {
            b'T' => {
                path.push(b'/');
                flatten(t, dir_index(&e.refr), &path, depth + 1, out)?;
            }
            b'C' => {}
            k => out.push(Want {
                path,
                kind: match k {
                    b'X' => 2,
                    b'L' => 3,
                    _ => 1,
                },
                oid: oid20(&e.refr).as_bytes().to_vec(),
                content: expand(&e.raw, e.len),
            }),
        }
    }
    Some(())
}

fn want_extras(t: &TreeCase) -> Vec<(Vec<u8>, u8, Vec<u8>, Vec<u8>)> {
    t.extras
        .iter()
        .map(|x| {
            (
                x.path.clone(),
                match x.kind {
                    b'T' => 0,
                    b'X' => 2,
                    b'L' => 3,
                    b'C' => 4,
                    _ => 1,
                },
                oid20(&x.oid).as_bytes().to_vec(),
                if x.src == b'N' { vec![] } else { expand(&x.raw, x.len) },
            )
        })
        .collect()
}

fn short(b: &[u8]) -> String {
    String::from_utf8_lossy(&b[..b.len().min(40)]).into_owned()
}

fn check_stream_entries(t: &TreeCase, got: &[REntry], want: &[Want]) -> Result<(), (String, String)> {
    let extras = want_extras(t);
    if got.len() != want.len() + extras.len() {
        return Err(("entry-count".into(), format!("got {} entries, tree has {} files + {} extras", got.len(), want.len(), extras.len())));
    }
    let (tree_part, extra_part) = got.split_at(want.len());
    let mut g: Vec<Want> =
        tree_part.iter().map(|e| Want { path: e.path.clone(), kind: e.kind, oid: e.oid.clone(), content: e.content.clone() }).collect();
    g.sort();
    let mut w = want.to_vec();
    w.sort();
    for (a, b) in g.iter().zip(w.iter()) {
        if a != b {
            let what = if a.path != b.path {
                "entry-path"
            } else if a.kind != b.kind {
                "entry-mode"
            } else if a.oid != b.oid {
                "entry-id"
            } else {
                "entry-content"
            };
            return Err((what.into(), format!("got {} kind {} len {}, want {} kind {} len {}", short(&a.path), a.kind, a.content.len(), short(&b.path), b.kind, b.content.len())));
        }
    }
    for (e, x) in extra_part.iter().zip(extras.iter()) {
        if e.path != x.0 || e.kind != x.1 || e.oid != x.2 || e.content != x.3 {
            return Err(("extra-entry".into(), format!("got {} kind {} len {}, want {} kind {} len {}", short(&e.path), e.kind, e.content.len(), short(&x.0), x.1, x.3.len())));
        }
    }
    for e in got {
        if let Some(n) = e.len {
            if n != e.content.len() {
                return Err(("entry-size".into(), format!("{} announced {} delivered {}", short(&e.path), n, e.content.len())));
            }
        }
    }
    Ok(())
}

/// files and symlinks of an archive listing: (path, exec bit, is link, content or target)
type Files = Vec<(Vec<u8>, bool, bool, Vec<u8>)>;
fn files_of_tar(items: &[TarItem]) -> Files {
    let mut v: Files = items
        .iter()
        .filter(|i| i.typ == b'0' || i.typ == b'2')
        .map(|i| (i.path.clone(), i.typ != b'2' && i.mode & 0o100 != 0, i.typ == b'2', if i.typ == b'2' { i.link.clone() } else { i.data.clone() }))
        // (the permission bits of a symlink mean nothing once extracted: git writes 0777, gix 0644)
        .collect();
    v.sort();
    v
}

fn prop(c: &Case) -> Verdict {
    match f_str(c, 0) {
        b"tree" => {
            let t = parse_tree_case(c);
            let mut want = Vec::new();
            if flatten(&t, 0, b"", 0, &mut want).is_none() {
                return Verdict::ok(false, "not-a-git-tree");
            }
            if t.sched.contains(&0) {
                return Verdict::ok(false, "zero-sized-read");
            }
            let mut tmp = None;
            let v = match t.via {
                0 | 1 => {
                    let r = if t.via == 0 {
                        let mut stream = make_stream(&t, &mut tmp);
                        consume(&mut stream, &t.sched)
                    } else {
                        let stream = make_stream(&t, &mut tmp);
                        let mut bytes = Vec::new();
                        if stream.into_read().read_to_end(&mut bytes).is_err() {
                            cleanup(tmp);
                            return Verdict::fail("stream-read-error", "");
                        }
                        let mut s2 = gix_worktree_stream::Stream::from_read(std::io::Cursor::new(bytes));
                        consume(&mut s2, &t.sched)
                    };
                    if r.1 != "end" {
                        Verdict::fail("stream-error", r.1)
                    } else {
                        match check_stream_entries(&t, &r.0, &want) {
                            Ok(()) => Verdict::ok(!want.is_empty() || !t.extras.is_empty(), if t.via == 0 { "stream" } else { "stream-bytes" }),
                            Err((class, d)) => Verdict::fail(class, d),
                        }
                    }
                }
                _ => match tar_of(&t, &mut tmp).ok().and_then(|b| read_tar(&b)) {
                    None => {
                        let mut all = Vec::new();
                        for w in &want {
                            all.push(w.path.clone());
                        }
                        if all.iter().any(|p| tar_path_hazard(p)) {
                            Verdict::fail("tar-long-path-not-utf8", "gix_archive::write_stream failed")
                        } else {
                            Verdict::fail("tar-error", "")
                        }
                    }
                    Some(items) => {
                        let prefix: &[u8] = if t.via == 3 { b"p/" } else { b"" };
                        // every file of the tree once, then the extras
                        let mut wantf: Files = want
                            .iter()
                            .map(|w| ([prefix, &w.path[..]].concat(), w.kind == 2, w.kind == 3, w.content.clone()))
                            .collect();
                        for x in want_extras(&t) {
                            if x.1 == 1 || x.1 == 2 || x.1 == 3 {
                                wantf.push(([prefix, &x.0[..]].concat(), x.1 == 2, x.1 == 3, x.3.clone()));
                            }
                        }
                        wantf.sort();
                        let gotf = files_of_tar(&items);
                        let ndirs = t.extras.iter().filter(|x| x.kind == b'T' || x.kind == b'C').count();
                        if gotf != wantf {
                            let d = gotf.iter().zip(wantf.iter()).find(|(a, b)| a != b);
                            Verdict::fail(
                                "tar-files",
                                match d {
                                    Some((a, b)) => format!("got {} x{} l{} len {}, want {} x{} l{} len {}", short(&a.0), a.1, a.2, a.3.len(), short(&b.0), b.1, b.2, b.3.len()),
                                    None => format!("got {} files, want {}", gotf.len(), wantf.len()),
                                },
                            )
                        } else if items.len() != wantf.len() + ndirs {
                            Verdict::fail("tar-extra-items", format!("{} items, {} expected", items.len(), wantf.len() + ndirs))
                        } else if sampled_for_git(c) && t.extras.is_empty() {
                            // the property's last sentence: same files as `git archive`
                            match git_archive_files(&t) {
                                Some(gf) => {
                                    let gf: Files = gf.into_iter().map(|f| ([prefix, &f.0[..]].concat(), f.1, f.2, f.3)).collect();
                                    if gf == gotf {
                                        Verdict::ok(!wantf.is_empty(), "tar-vs-git-archive")
                                    } else {
                                        {
                                        let d = gf.iter().zip(gotf.iter()).find(|(a, b)| a != b);
                                        Verdict::fail(
                                            "tar-vs-git-archive",
                                            match d {
                                                Some((a, b)) => format!(
                                                    "git: {} x{} l{} {} | gix: {} x{} l{} {}",
                                                    hexs(&a.0), a.1, a.2, digest(&a.3), hexs(&b.0), b.1, b.2, digest(&b.3)
                                                ),
                                                None => format!("git archive has {} files, gix {}", gf.len(), gotf.len()),
                                            },
                                        )
                                    }
                                    }
                                }
                                None => Verdict::ok(!wantf.is_empty(), "tar"),
                            }
                        } else {
                            Verdict::ok(!wantf.is_empty(), "tar")
                        }
                    }
                },
            };
            cleanup(tmp);
            v
        }
        b"dec" => {
            let (s, sched) = dec_stream(c);
            if sched.contains(&0) {
                return Verdict::ok(false, "zero-sized-read");
            }
            match ref_decode(&s) {
                None => Verdict::ok(false, "malformed-stream"),
                Some(want) => {
                    let mut stream = gix_worktree_stream::Stream::from_read(std::io::Cursor::new(s));
                    let r = consume(&mut stream, &sched);
                    if r.1 != "end" {
                        return Verdict::fail("decode-error", r.1);
                    }
                    if r.0.len() != want.len() {
                        return Verdict::fail("decode-count", format!("{} vs {}", r.0.len(), want.len()));
                    }
                    for (g, w) in r.0.iter().zip(want.iter()) {
                        if g.path != w.path || g.kind != w.kind || g.oid != w.oid || g.content != w.content || g.len != w.len {
                            return Verdict::fail("decode-entry", format!("{} len {} vs {} len {}", short(&g.path), g.content.len(), short(&w.path), w.content.len()));
                        }
                    }
                    Verdict::ok(!want.is_empty(), "decode")
                }
            }
        }
        _ => Verdict::ok(false, "unknown-op"),
    }
}

/// the stream format read by a plain parser: Some(entries) iff the bytes are a complete well-formed stream
fn ref_decode(s: &[u8]) -> Option<Vec<REntry>> {
    let mut out = Vec::new();
    let mut p = 0usize;
    while p < s.len() {
        if s.len() - p < 38 {
            return None;
        }
        let path_len = u64::from_le_bytes(s[p..p + 8].try_into().unwrap());
        let stream_len = u64::from_le_bytes(s[p + 8..p + 16].try_into().unwrap());
        let (mode, hash) = (s[p + 16], s[p + 17]);
        if mode > 4 || hash != 0 {
            return None;
        }
        let oid = s[p + 18..p + 38].to_vec();
        p += 38;
        if path_len > (s.len() - p) as u64 {
            return None;
        }
        let path = s[p..p + path_len as usize].to_vec();
        p += path_len as usize;
        let mut content = Vec::new();
        let len = if stream_len == u64::MAX {
            loop {
                if s.len() - p < 2 {
                    return None;
                }
                let n = u16::from_le_bytes([s[p], s[p + 1]]) as usize;
                p += 2;
                if n == 0 {
                    break;
                }
                if s.len() - p < n {
                    return None;
                }
                content.extend_from_slice(&s[p..p + n]);
                p += n;
            }
            None
        } else {
            if stream_len > (s.len() - p) as u64 {
                return None;
            }
            content.extend_from_slice(&s[p..p + stream_len as usize]);
            p += stream_len as usize;
            Some(stream_len as usize)
        };
        out.push(REntry { path, kind: mode, oid, len, content, reads: 0 });
    }
    Some(out)
}

// ------------------------------------------------------------------------------------------- git archive

fn sampled_for_git(c: &Case) -> bool {
    let mut h = 0u32;
    for f in c {
        h = h.wrapping_mul(131).wrapping_add(hash32(f));
    }
    h % 4 == 0
}

fn git_dir() -> std::path::PathBuf {
    let d = tmp_root();
    std::fs::create_dir_all(d.join("objects")).unwrap();
    std::fs::create_dir_all(d.join("refs")).unwrap();
    std::fs::create_dir_all(d.join("info")).unwrap();
    std::fs::write(d.join("HEAD"), b"ref: refs/heads/main\n").unwrap();
    std::fs::write(d.join("config"), b"[core]\n\trepositoryformatversion = 0\n\tbare = true\n").unwrap();
    d
}

fn run_git(dir: &std::path::Path, args: &[&str], stdin: &[u8]) -> Option<(bool, Vec<u8>)> {
    use std::io::Write;
    use std::process::{Command, Stdio};
    let mut cmd = Command::new("/usr/bin/git");
    cmd.current_dir(dir)
        .env_clear()
        .env("HOME", dir)
        .env("GIT_DIR", dir)
        .env("GIT_CONFIG_NOSYSTEM", "1")
        .env("GIT_CONFIG_GLOBAL", "/dev/null")
        .env("LC_ALL", "C")
        .env("PATH", "/usr/bin:/bin");
    cmd.args(args).stdin(Stdio::piped()).stdout(Stdio::piped()).stderr(Stdio::null());
    let mut child = cmd.spawn().ok()?;
    let mut si = child.stdin.take()?;
    let data = stdin.to_vec();
    let w = std::thread::spawn(move || {
        let _ = si.write_all(&data);
    });
    let out = child.wait_with_output().ok()?;
    let _ = w.join();
    out.status.code()?;
    Some((out.status.success(), out.stdout))
}

fn attr_safe(p: &[u8]) -> bool {
    !p.is_empty() && p.iter().all(|b| b.is_ascii_alphanumeric() || matches!(b, b'.' | b'-' | b'_' | b'/'))
}

/// `git archive --format=tar <tree>` of the same tree (built with fast-import, export-ignore through
/// info/attributes), read back with read_tar: the files and symlinks in archive order
fn git_archive_items(t: &TreeCase) -> Option<Vec<TarItem>> {
    let mut want = Vec::new();
    // flatten without ignores to get every file for fast-import
    let all = TreeCase { igns: vec![], ..t.clone() };
    flatten(&all, 0, b"", 0, &mut want)?;
    if !t.igns.iter().all(|p| attr_safe(p)) {
        return None;
    }
    // paths fast-import can take unquoted
    let mut subs = Vec::new();
    fn commits(t: &TreeCase, dir: usize, prefix: &[u8], out: &mut Vec<(Vec<u8>, Vec<u8>)>) {
        let empty = Vec::new();
        for e in t.dirs.get(dir).unwrap_or(&empty) {
            let mut path = prefix.to_vec();
            path.extend_from_slice(&e.name);
            if e.kind == b'T' {
                path.push(b'/');
                commits(t, dir_index(&e.refr), &path, out);
            } else if e.kind == b'C' {
                out.push((path, oid20(&e.refr).as_bytes().to_vec()));
            }
        }
    }
    commits(t, 0, b"", &mut subs);
    let quote = |p: &[u8]| -> Vec<u8> {
        let mut q = vec![b'"'];
        for b in p {
            match b {
                b'"' => q.extend_from_slice(b"\\\""),
                b'\\' => q.extend_from_slice(b"\\\\"),
                b'\n' => q.extend_from_slice(b"\\n"),
                _ => q.push(*b),
            }
        }
        q.push(b'"');
        q
    };
    let mut fi = Vec::new();
    for (i, w) in want.iter().enumerate() {
        fi.extend_from_slice(format!("blob\nmark :{}\ndata {}\n", i + 1, w.content.len()).as_bytes());
        fi.extend_from_slice(&w.content);
        fi.push(b'\n');
    }
    fi.extend_from_slice(b"commit refs/heads/main\ncommitter a <a@b> 0 +0000\ndata 0\n");
    for (i, w) in want.iter().enumerate() {
        let mode = match w.kind {
            2 => "100755",
            3 => "120000",
            _ => "100644",
        };
        fi.extend_from_slice(format!("M {} :{} ", mode, i + 1).as_bytes());
        fi.extend_from_slice(&quote(&w.path));
        fi.push(b'\n');
    }
    for (p, id) in &subs {
        fi.extend_from_slice(format!("M 160000 {} ", hexs(id)).as_bytes());
        fi.extend_from_slice(&quote(p));
        fi.push(b'\n');
    }
    fi.extend_from_slice(b"\ndone\n");
    let dir = git_dir();
    let mut attrs = Vec::new();
    for p in &t.igns {
        attrs.push(b'/');
        attrs.extend_from_slice(p);
        attrs.extend_from_slice(b" export-ignore\n");
    }
    std::fs::write(dir.join("info").join("attributes"), &attrs).ok()?;
    let r = (|| {
        let (ok, _) = run_git(&dir, &["fast-import", "--quiet", "--done"], &fi)?;
        if !ok {
            return None;
        }
        let (ok, tar) = run_git(&dir, &["archive", "--format=tar", "refs/heads/main^{tree}"], b"")?;
        if !ok {
            return None;
        }
        read_tar(&tar)
    })();
    let _ = std::fs::remove_dir_all(&dir);
    r
}

fn git_archive_files(t: &TreeCase) -> Option<Files> {
    git_archive_items(t).map(|i| files_of_tar(&i))
}

/// arrow B: what `git archive` puts into the archive for this tree (files and symlinks, archive order),
/// compared with the Coq Spec's listing (run "spec")
fn git(c: &Case) -> String {
    if f_str(c, 0) != b"tree" {
        return "-".into();
    }
    let t = parse_tree_case(c);
    let mut want = Vec::new();
    if flatten(&t, 0, b"", 0, &mut want).is_none() || !git_sorted(&t) || want.is_empty() && t.dirs.iter().all(|d| d.is_empty()) {
        return "-".into();
    }
    match git_archive_items(&t) {
        None => "-".into(),
        Some(items) => {
            let mut v: Vec<String> = items
                .iter()
                .filter(|i| i.typ == b'0' || i.typ == b'2')
                .map(|i| {
                    format!(
                        "{}:{}:{}",
                        hexs(&i.path),
                        if i.typ == b'2' { 3 } else if i.mode & 0o100 != 0 { 2 } else { 1 },
                        digest(if i.typ == b'2' { &i.link } else { &i.data })
                    )
                })
                .collect();
            v.push("end".into());
            v.join(" ")
        }
    }
}

/// entries of every directory in git's tree order (directories compare as name + '/')
fn git_sorted(t: &TreeCase) -> bool {
    t.dirs.iter().all(|d| {
        d.windows(2).all(|w| {
            let key = |e: &TEntry| {
                let mut k = e.name.clone();
                if e.kind == b'T' {
                    k.push(b'/');
                }
                k
            };
            key(&w[0]) < key(&w[1])
        })
    })
}

// ------------------------------------------------------------------------------------------- generator

const SIZES: &[usize] = &[0, 1, 2, 100, 4095, 4096, 8191, 8192, 8193, 65534, 65535, 65536, 65537, 131069, 131070, 131071, 200000];
const READS: &[usize] = &[1, 2, 3, 7, 100, 4096, 8192, 65534, 65535, 65536, 100000];

fn rand_content(rng: &mut Rng, big_ok: bool) -> (Vec<u8>, usize) {
    match rng.below(20) {
        0..=2 => (vec![], 0),
        3..=12 => (rng.word(b"ab\n\r\0\xff ", 1, 20), 0),
        13..=15 => {
            let raw = rng.word(b"abc\n\0\xfe", 1, 7);
            (raw, rng.range(21, 3000) as usize)
        }
        _ => {
            let raw = rng.word(b"abcdefg\n\0\xfe", 1, 7);
            if big_ok {
                (raw, *rng.pick(SIZES))
            } else {
                (raw, rng.range(1, 300) as usize)
            }
        }
    }
}

fn rand_name(rng: &mut Rng, weird: bool) -> Vec<u8> {
    if weird && rng.chance(1, 3) {
        return match rng.below(5) {
            0 => vec![],
            1 => b"a/b".to_vec(),
            2 => b"/".to_vec(),
            3 => b"b/".to_vec(),
            _ => b"..".to_vec(),
        };
    }
    match rng.below(12) {
        0 => rng.word(b"ab", 50, 70),
        1 => rng.word(b"a\xc3\xa4 *?[\xff\\\"", 1, 4),
        2 => {
            let mut n = b".".to_vec();
            n.extend(rng.word(b"ab", 1, 2));
            n
        }
        _ => rng.word(b"ab-.0_", 1, 3),
    }
}

fn git_key(e: &TEntry) -> Vec<u8> {
    let mut k = e.name.clone();
    if e.kind == b'T' {
        k.push(b'/');
    }
    k
}

fn rand_sched(rng: &mut Rng) -> Vec<usize> {
    match rng.below(10) {
        0..=3 => vec![8192],
        4 => vec![],
        5 => vec![*rng.pick(READS)],
        _ => (0..rng.range(1, 4)).map(|_| if rng.chance(1, 4) { rng.range(1, 70000) as usize } else { *rng.pick(READS) }).collect(),
    }
}

fn rand_link_target(rng: &mut Rng) -> Vec<u8> {
    let n = rng.range(1, 3);
    let mut t = Vec::new();
    if rng.chance(1, 6) {
        t.push(b'/');
    }
    for i in 0..n {
        if i > 0 {
            t.push(b'/');
        }
        t.extend_from_slice(*rng.pick(&[&b".."[..], b"a", b"b.c", b"-", b"a"]));
    }
    if rng.chance(1, 12) {
        // long target: beyond the 100 bytes of a tar header field
        t.push(b'/');
        t.extend(rng.word(b"ab", 100, 130));
    }
    t
}

fn tar_path_hazard(p: &[u8]) -> bool {
    p.len() + 2 > 100 && (!p.is_ascii() || p.windows(2).any(|w| w == b".."))
}

fn rand_tree_case(rng: &mut Rng) -> TreeCase {
    let via = match rng.below(10) {
        0..=3 => 0,
        4..=5 => 1,
        6..=8 => 2,
        _ => 3,
    };
    let weird = via < 2 && rng.chance(1, 12);
    let tar = via >= 2;
    let nd = rng.range(1, 6) as usize;
    let mut bigs = if rng.chance(1, 8) { 2 } else { 0 };
    let mut dirs: Vec<Vec<TEntry>> = Vec::new();
    let mut unreferenced: Vec<usize> = (1..nd).collect();
    for i in 0..nd {
        let cnt = match rng.below(8) {
            0 => 0,
            1..=5 => rng.range(1, 4),
            _ => rng.range(4, 8),
        } as usize;
        let mut es: Vec<TEntry> = Vec::new();
        // make sure every later directory is referenced from somewhere (mostly)
        let mut subs: Vec<usize> = Vec::new();
        unreferenced.retain(|j| {
            if *j > i && (*j == i + 1 || rng.chance(1, 2)) {
                subs.push(*j);
                false
            } else {
                true
            }
        });
        if i + 1 < nd && rng.chance(1, 6) {
            subs.push(rng.range(i as i64 + 1, nd as i64 - 1) as usize); // shared subtree
        }
        for j in subs {
            es.push(TEntry { name: rand_name(rng, weird), kind: b'T', refr: num(j), raw: vec![], len: 0 });
        }
        for _ in 0..cnt {
            let kind = *rng.pick(b"BBBBXXLLC");
            let (raw, len) = if kind == b'L' {
                (rand_link_target(rng), 0)
            } else if kind == b'C' {
                (vec![], 0)
            } else {
                let big = bigs > 0 && rng.chance(1, 3);
                if big {
                    bigs -= 1;
                }
                rand_content(rng, big)
            };
            es.push(TEntry { name: rand_name(rng, weird), kind, refr: rng.bytes(20), raw, len });
        }
        if !weird || rng.chance(1, 2) {
            // unique names in git order
            let mut uniq: Vec<TEntry> = Vec::new();
            for e in es {
                if name_ok(&e.name) || weird {
                    if !uniq.iter().any(|o| o.name == e.name) {
                        uniq.push(e);
                    }
                }
            }
            // insertion sort by git's key
            for a in 1..uniq.len() {
                let mut b = a;
                while b > 0 && git_key(&uniq[b - 1]) > git_key(&uniq[b]) {
                    uniq.swap(b - 1, b);
                    b -= 1;
                }
            }
            es = uniq;
        }
        dirs.push(es);
    }
    let mut t = TreeCase { via, dirs, ..Default::default() };
    // export-ignore for some real paths
    let mut all = Vec::new();
    fn paths(t: &TreeCase, dir: usize, prefix: &[u8], depth: usize, out: &mut Vec<Vec<u8>>) {
        if depth > 8 {
            return;
        }
        let empty = Vec::new();
        for e in t.dirs.get(dir).unwrap_or(&empty) {
            let mut p = prefix.to_vec();
            p.extend_from_slice(&e.name);
            out.push(p.clone());
            if e.kind == b'T' {
                p.push(b'/');
                paths(t, dir_index(&e.refr), &p, depth + 1, out);
            }
        }
    }
    paths(&t, 0, b"", 0, &mut all);
    if !weird && rng.chance(1, 2) {
        for p in all.iter() {
            if attr_safe(p) && !p.starts_with(b"/") && !p.contains(&b' ') && rng.chance(1, 5) && t.igns.len() < 3 {
                t.igns.push(p.clone());
            }
        }
    }
    // additional entries
    let nx = match rng.below(10) {
        0..=4 => 0,
        5..=7 => 1,
        _ => rng.range(2, 3),
    };
    for i in 0..nx {
        let kind = *rng.pick(b"BBXLTC");
        let src = if kind == b'T' && rng.chance(2, 3) { b'N' } else { *rng.pick(b"MMPPN") };
        // the tar library refuses a symlink without a target
        let src = if tar && kind == b'L' && src == b'N' { b'M' } else { src };
        let (raw, len) = if kind == b'L' {
            (rand_link_target(rng), 0)
        } else if src == b'P' && rng.chance(1, 2) && bigs < 3 {
            bigs += 1;
            (rng.word(b"xyz\n\0", 1, 5), *rng.pick(SIZES))
        } else {
            rand_content(rng, false)
        };
        let mut path = if rng.chance(1, 4) && !all.is_empty() { rng.pick(&all).clone() } else { format!("extra{i}").into_bytes() };
        if rng.chance(1, 4) {
            path = [&b"xd/"[..], &path[..]].concat();
        }
        if tar && (path.is_empty() || path.split(|b| *b == b'/').any(|s| !name_ok(s))) {
            path = format!("extra{i}").into_bytes();
        }
        let oid = if rng.chance(1, 2) { vec![0; 20] } else { rng.bytes(20) };
        t.extras.push(Extra { path, kind, oid, src, raw, len });
    }
    // the tar library cuts a path longer than 100 bytes down to the longest valid UTF-8 prefix of its first 100 bytes
    // for the header's name field and fails if nothing or a `..` component is left (see NOTES.md, known class
    // tar-long-path-not-utf8): such trees are streamed, not archived
    let tar = tar && !all.iter().any(|p| tar_path_hazard(p));
    if !tar {
        t.via = if t.via >= 2 { t.via - 2 } else { t.via };
    }
    t.sched = if tar { vec![] } else { rand_sched(rng) };
    t
}

// --- streams for the decoder

fn enc_header(path: &[u8], oid: &[u8], mode: u8, len: Option<u64>) -> Vec<u8> {
    let mut h = Vec::new();
    h.extend_from_slice(&(path.len() as u64).to_le_bytes());
    h.extend_from_slice(&len.unwrap_or(u64::MAX).to_le_bytes());
    h.push(mode);
    h.push(0);
    h.extend_from_slice(oid);
    h.extend_from_slice(path);
    h
}

/// segments (raw, len) of a stream of random entries, with optional damage
fn rand_dec_case(rng: &mut Rng) -> Case {
    let mut segs: Vec<(Vec<u8>, usize)> = Vec::new();
    let n = rng.range(0, 4);
    let damage = rng.chance(1, 3);
    for _ in 0..n {
        let path = rng.word(b"ab/.", 0, 12);
        let oid = rng.bytes(20);
        let mode = rng.below(5) as u8;
        let known = rng.chance(1, 2);
        if known {
            let big = rng.chance(1, 8);
            let (raw, len) = rand_content(rng, big);
            let l = if len == 0 { raw.len() } else if raw.is_empty() { 0 } else { len };
            segs.push((enc_header(&path, &oid, mode, Some(l as u64)), 0));
            if l > 0 {
                segs.push((raw, len));
            }
        } else {
            segs.push((enc_header(&path, &oid, mode, None), 0));
            let chunks = rng.range(0, 4);
            for _ in 0..chunks {
                let l = match rng.below(6) {
                    0 => 65535,
                    1 => 65534,
                    2 => 1,
                    _ => rng.range(1, 400) as usize,
                };
                segs.push(((l as u16).to_le_bytes().to_vec(), 0));
                segs.push((rng.word(b"pqr\0\n", 1, 5), l.max(6)));
                if l < 6 {
                    // exact short chunk: raw itself
                    let last = segs.len() - 1;
                    segs[last] = (rng.word(b"pqr", l, l), 0);
                }
            }
            segs.push((vec![0, 0], 0));
        }
    }
    if damage && !segs.is_empty() {
        match rng.below(7) {
            0 => {
                // truncate inside a segment
                let i = rng.below(segs.len() as u64) as usize;
                segs.truncate(i + 1);
                let (raw, len) = segs[i].clone();
                let full = expand(&raw, len);
                let cut = rng.below(full.len() as u64 + 1) as usize;
                segs[i] = (full[..cut].to_vec(), 0);
            }
            1 => {
                // bad mode / hash byte in some header
                let heads: Vec<usize> = (0..segs.len()).filter(|i| segs[*i].1 == 0 && segs[*i].0.len() >= 38).collect();
                if !heads.is_empty() {
                    let i = *rng.pick(&heads);
                    let at = if rng.chance(1, 2) { 16 } else { 17 };
                    segs[i].0[at] = *rng.pick(&[5u8, 6, 255, 1, 128]);
                }
            }
            2 => {
                // path length: slightly off, or beyond isize::MAX
                let heads: Vec<usize> = (0..segs.len()).filter(|i| segs[*i].1 == 0 && segs[*i].0.len() >= 38).collect();
                if !heads.is_empty() {
                    let i = *rng.pick(&heads);
                    let v: u64 = match rng.below(5) {
                        0 => 1 << 63,
                        1 => u64::MAX,
                        2 => (1 << 63) + 7,
                        3 => rng.below(70000),
                        _ => rng.below(40),
                    };
                    segs[i].0[0..8].copy_from_slice(&v.to_le_bytes());
                }
            }
            3 => {
                // stream length: anything
                let heads: Vec<usize> = (0..segs.len()).filter(|i| segs[*i].1 == 0 && segs[*i].0.len() >= 38).collect();
                if !heads.is_empty() {
                    let i = *rng.pick(&heads);
                    let v: u64 = match rng.below(5) {
                        0 => u64::MAX,
                        1 => u64::MAX - 1,
                        2 => 0,
                        3 => rng.below(70000),
                        _ => rng.next(),
                    };
                    segs[i].0[8..16].copy_from_slice(&v.to_le_bytes());
                }
            }
            4 => {
                // trailing garbage
                let n = rng.below(40) as usize;
                segs.push((rng.bytes(n), 0));
            }
            5 => {
                // drop a segment
                let i = rng.below(segs.len() as u64) as usize;
                segs.remove(i);
            }
            _ => {
                // flip a byte in a small segment that is not a header
                let small: Vec<usize> = (0..segs.len()).filter(|i| segs[*i].1 == 0 && !segs[*i].0.is_empty() && segs[*i].0.len() < 38).collect();
                if !small.is_empty() {
                    let i = *rng.pick(&small);
                    let at = rng.below(segs[i].0.len() as u64) as usize;
                    segs[i].0[at] ^= 1 << rng.below(8);
                }
            }
        }
    }
    let sched = rand_sched(rng);
    let mut c: Case = vec![tag("dec"), num(segs.len()), num(sched.len())];
    for (raw, len) in segs {
        c.push(raw);
        c.push(num(len));
    }
    for s in sched {
        c.push(num(s));
    }
    c
}

fn leaf(name: &[u8], kind: u8, raw: &[u8], len: usize, k: u8) -> TEntry {
    TEntry { name: name.to_vec(), kind, refr: vec![k; 20], raw: raw.to_vec(), len }
}

fn gen(rng: &mut Rng, n: usize) -> Vec<Case> {
    let mut out = Vec::new();
    // boundary block: one file of every threshold size, as tree blob and as file-backed extra, all ways of reading
    for (i, sz) in SIZES.iter().enumerate() {
        let via = (i % 3) as u64;
        let t = TreeCase {
            via,
            dirs: vec![vec![leaf(b"f", b'B', b"abc", *sz, 1), TEntry { name: b"d".to_vec(), kind: b'T', refr: num(1), raw: vec![], len: 0 }], vec![leaf(b"g", b'X', b"xy", *sz, 2)]],
            extras: vec![Extra { path: b"extra".to_vec(), kind: b'B', oid: vec![0; 20], src: b'P', raw: b"pq".to_vec(), len: *sz }],
            igns: vec![],
            sched: if via == 2 { vec![] } else { vec![READS[i % READS.len()]] },
        };
        out.push(tree_case_line(&t));
    }
    // empty tree, extras only, ignored directory
    out.push(tree_case_line(&TreeCase { via: 0, dirs: vec![vec![]], ..Default::default() }));
    out.push(tree_case_line(&TreeCase {
        via: 2,
        dirs: vec![vec![
            leaf(b"a", b'B', b"hello\n", 0, 3),
            TEntry { name: b"d".to_vec(), kind: b'T', refr: num(1), raw: vec![], len: 0 },
            leaf(b"l", b'L', b"d/x", 0, 4),
            leaf(b"s", b'C', b"", 0, 5),
        ], vec![leaf(b"x", b'X', b"#!/bin/sh\n", 0, 6)]],
        extras: vec![],
        igns: vec![b"d".to_vec()],
        sched: vec![],
    }));
    while out.len() < n {
        if rng.chance(1, 4) {
            let c = rand_dec_case(rng);
            let (s, sched) = dec_stream(&c);
            if stream_safe(&s, &sched) {
                out.push(c);
            }
        } else {
            out.push(tree_case_line(&rand_tree_case(rng)));
        }
    }
    out.truncate(n.max(1));
    out
}

fn main() {
    main_with(Harness { gen, imp, prop, git: Some(git), deadline: std::time::Duration::from_secs(180) });
}
