(* C08 — the buffer layout of resolve_deltas: [source][target][instructions], two passes. *)
From Coq Require Import Lia ZifyBool ZifyNat ZifyN.
From GixV.Base Require Import Bytes Outcome.
From GixV.C08 Require Import Model Spec ProofsApply.
Local Open Scope N_scope.

Lemma skipn_skipn' {A} (y : nat) : forall (x : nat) (l : list A), skipn x (skipn y l) = skipn (y + x) l.
Proof.
  induction y as [|y IH]; intros x l; [reflexivity|]. destruct l as [|a l]; [rewrite !skipn_nil; reflexivity|].
  cbn [skipn Nat.add]. apply IH.
Qed.

(* ---- size headers ------------------------------------------------------------------------------ *)
Lemma dhs_loop_app d x : varint_ends d = true ->
  forall i size consumed, dhs_loop (d ++ x) i size consumed = dhs_loop d i size consumed.
Proof.
  induction d as [|a d IH]; intros H i size consumed; [discriminate|].
  cbn [varint_ends] in H. cbn [app dhs_loop]. destruct (b2N a <? 128); [reflexivity|]. apply IH. exact H.
Qed.

Lemma dhs_app d x : varint_ends d = true -> decode_header_size (d ++ x) = decode_header_size d.
Proof. intros H. unfold decode_header_size. apply dhs_loop_app. exact H. Qed.

Lemma dhs_loop_consumed d : forall i size consumed,
  snd (dhs_loop d i size consumed) <= consumed + len d.
Proof.
  induction d as [|a d IH]; intros i size consumed; cbn [dhs_loop].
  - cbn [snd]. unfold len. cbn [length]. lia.
  - destruct (b2N a <? 128).
    + cbn [snd]. unfold len. cbn [length]. lia.
    + specialize (IH (i + 7) (N.lor size (N.shiftl (b2N a mod 128) i)) (consumed + 1)).
      unfold len in *. cbn [length]. lia.
Qed.

Lemma dhs_consumed d : (N.to_nat (snd (decode_header_size d)) <= length d)%nat.
Proof. pose proof (dhs_loop_consumed d 0 0 0). unfold decode_header_size, len in *. lia. Qed.

Definition o1 (d : bytes) : nat := N.to_nat (snd (decode_header_size d)).
Definition bsz (d : bytes) : N := fst (decode_header_size d).
Definition o2 (d : bytes) : nat := N.to_nat (snd (decode_header_size (skipn (o1 d) d))).
Definition rsz (d : bytes) : N := fst (decode_header_size (skipn (o1 d) d)).
Definition hl (d : bytes) : nat := (o1 d + o2 d)%nat.
Definition hdr_ok (d : bytes) : Prop := varint_ends d = true /\ varint_ends (skipn (o1 d) d) = true.

Lemma hl_le d : (hl d <= length d)%nat.
Proof.
  unfold hl, o2. pose proof (dhs_consumed d). pose proof (dhs_consumed (skipn (o1 d) d)) as H2.
  rewrite skipn_length in H2. unfold o1 in *. lia.
Qed.

(* what Spec.patch says, unpacked *)
Lemma patch_inv base d w : patch base d = Some w ->
  hdr_ok d /\ bsz d = len base /\ (bsz d <> 0 \/ rsz d <> 0) /\
  apply base (N.to_nat (rsz d)) (skipn (hl d) d) = Ok w /\ length w = N.to_nat (rsz d).
Proof.
  unfold patch, hdr_ok, bsz, rsz, hl, o2, o1.
  destruct (decode_header_size d) as [bs a1] eqn:E1. cbn [fst snd].
  destruct (decode_header_size (skipn (N.to_nat a1) d)) as [rs a2] eqn:E2. cbn [fst snd].
  destruct (varint_ends d); [|discriminate].
  destruct (varint_ends (skipn (N.to_nat a1) d)); [|discriminate]. cbn [andb].
  destruct (N.eqb_spec bs (len base)); [|discriminate]. cbn [andb].
  destruct (negb ((bs =? 0) && (rs =? 0))) eqn:E3; [|discriminate].
  rewrite skipn_skipn'.
  destruct (apply base (N.to_nat rs) _) as [r| | |] eqn:E4; try discriminate.
  intros H. injection H as <-. repeat split; try assumption; try reflexivity.
  - lia.
  - eapply apply_ok_length. exact E4.
Qed.

(* ---- first pass -------------------------------------------------------------------------------- *)
Fixpoint infos_of (rel : nat) (ds : list bytes) : list dinfo :=
  match ds with
  | [] => []
  | d :: r => {| di_start := rel + hl d; di_end := rel + length d; di_base := bsz d; di_result := rsz d |}
              :: infos_of (rel + length d) r
  end.
Fixpoint maxsizes (b : N) (ds : list bytes) : N :=
  match ds with
  | [] => b
  | d :: r => maxsizes (N.max (N.max b (bsz d)) (rsz d)) r
  end.

Lemma scan_spec : forall ds pre rel b, Forall hdr_ok ds ->
  scan (pre ++ concat ds) (length pre) rel ds b = (infos_of rel ds, maxsizes b ds).
Proof.
  induction ds as [|d r IH]; intros pre rel b F; [reflexivity|].
  inversion F as [|? ? [H1 H2] Fr]; subst. cbn [scan concat infos_of maxsizes].
  rewrite skipn_app, skipn_all, Nat.sub_diag. cbn [app skipn].
  rewrite (dhs_app d (concat r) H1).
  destruct (decode_header_size d) as [bs a1] eqn:E1.
  assert (A1 : N.to_nat a1 = o1 d) by (unfold o1; rewrite E1; reflexivity).
  rewrite A1. rewrite skipn_app.
  assert (L1 : (o1 d <= length d)%nat) by (unfold o1; apply dhs_consumed).
  replace (o1 d - length d)%nat with O by lia. cbn [skipn].
  rewrite (dhs_app _ (concat r) H2).
  destruct (decode_header_size (skipn (o1 d) d)) as [rs a2] eqn:E2.
  assert (B : bsz d = bs) by (unfold bsz; rewrite E1; reflexivity).
  assert (R : rsz d = rs) by (unfold rsz; rewrite E2; reflexivity).
  assert (A2 : N.to_nat a2 = o2 d) by (unfold o2; rewrite E2; reflexivity).
  replace (pre ++ d ++ concat r) with ((pre ++ d) ++ concat r) by (rewrite app_assoc; reflexivity).
  replace (length pre + length d)%nat with (length (pre ++ d)) by (rewrite app_length; reflexivity).
  rewrite (IH (pre ++ d) (rel + length d)%nat _ Fr).
  rewrite A2, B, R. unfold hl. rewrite Nat.add_assoc. reflexivity.
Qed.

Lemma maxsizes_ge ds : forall b, b <= maxsizes b ds.
Proof. induction ds as [|d r IH]; intros b; cbn [maxsizes]; [lia|]. specialize (IH (N.max (N.max b (bsz d)) (rsz d))). lia. Qed.

Lemma maxsizes_bound ds : forall b, Forall (fun d => bsz d <= maxsizes b ds /\ rsz d <= maxsizes b ds) ds.
Proof.
  induction ds as [|d r IH]; intros b; [constructor|]. cbn [maxsizes]. constructor.
  - pose proof (maxsizes_ge r (N.max (N.max b (bsz d)) (rsz d))). lia.
  - apply IH.
Qed.

(* ---- second pass: the apply loop with swapping buffers ----------------------------------------------- *)
Fixpoint replay (b : bytes) (ds : list bytes) : option bytes :=
  match ds with
  | [] => Some b
  | d :: r => match patch b d with Some w => replay w r | None => None end
  end.

Lemma replay_app b ds1 ds2 : replay b (ds1 ++ ds2) =
  match replay b ds1 with Some w => replay w ds2 | None => None end.
Proof.
  revert b. induction ds1 as [|d r IH]; intros b; [reflexivity|]. cbn [app replay].
  destruct (patch b d); [apply IH | reflexivity].
Qed.

Lemma slice_ins (P d R : bytes) h : (h <= length d)%nat ->
  firstn (length P + length d - (length P + h)) (skipn (length P + h) (P ++ d ++ R)) = skipn h d.
Proof.
  intros H. rewrite skipn_app. rewrite (skipn_all2 P) by lia. cbn [app].
  replace (length P + h - length P)%nat with h by lia.
  rewrite skipn_app. replace (h - length d)%nat with O by lia. cbn [skipn].
  rewrite firstn_app. rewrite skipn_length.
  replace (length P + length d - (length P + h) - (length d - h))%nat with O by lia.
  cbn [firstn]. rewrite app_nil_r. apply firstn_all2. rewrite skipn_length. lia.
Qed.

Lemma firstn_prefix (a b : bytes) n : n = length a -> firstn n (a ++ b) = a.
Proof. intros ->. rewrite firstn_app, firstn_all, Nat.sub_diag. cbn [firstn]. apply app_nil_r. Qed.

Lemma odd_S n : Nat.odd (S n) = negb (Nat.odd n).
Proof. rewrite Nat.odd_succ. rewrite <- Nat.negb_odd. reflexivity. Qed.

Lemma apply_chain_spec : forall ds cur obj M P R first second (odd : bool) junk,
  replay cur ds = Some obj ->
  Forall (fun d => bsz d <= N.of_nat M /\ rsz d <= N.of_nat M) ds ->
  length first = M -> length second = M ->
  (if odd then second else first) = cur ++ junk ->
  exists f' s' junk',
    apply_chain first second (P ++ concat ds ++ R) odd (infos_of (length P) ds) = Ok (f', s') /\
    length f' = M /\ length s' = M /\
    (if xorb odd (Nat.odd (length ds)) then s' else f') = obj ++ junk'.
Proof.
  induction ds as [|d r IH]; intros cur obj M P R first second odd junk Hr Hb L1 L2 Hsrc.
  - cbn [replay] in Hr. injection Hr as <-. exists first, second, junk. cbn [infos_of apply_chain length Nat.odd].
    rewrite xorb_false_r. auto.
  - cbn [replay] in Hr. destruct (patch cur d) as [w1|] eqn:Ep; [|discriminate].
    destruct (patch_inv _ _ _ Ep) as (Hh & Hbs & _ & Hap & Hlw).
    inversion Hb as [|? ? [B1 B2] Hb']; subst.
    cbn [infos_of apply_chain concat di_start di_end di_base di_result].
    pose proof (hl_le d) as Hl.
    destruct (Nat.ltb_spec (length P + length d) (length P + hl d)) as [Hc|_]; [lia|].
    replace (P ++ (d ++ concat r) ++ R) with (P ++ d ++ (concat r ++ R)) by (rewrite <- !app_assoc; reflexivity).
    rewrite slice_ins by exact Hl.
    assert (Hfp : firstn (N.to_nat (bsz d)) (cur ++ junk) = cur)
      by (apply firstn_prefix; rewrite Hbs; unfold len; lia).
    replace (P ++ d ++ concat r ++ R) with ((P ++ d) ++ concat r ++ R) by (rewrite <- !app_assoc; reflexivity).
    replace (length P + length d)%nat with (length (P ++ d)) by (rewrite app_length; reflexivity).
    cbn [length]. rewrite odd_S.
    destruct odd; cbn iota in Hsrc |- *; rewrite Hsrc, Hfp, Hap; cbn [obind].
    + destruct (IH w1 obj (length first) (P ++ d) R (w1 ++ skipn (N.to_nat (rsz d)) first) (cur ++ junk) false
                  (skipn (N.to_nat (rsz d)) first) Hr Hb') as (f' & s' & j' & E & A & B & D).
      * rewrite app_length, skipn_length. lia.
      * rewrite <- Hsrc. lia.
      * reflexivity.
      * exists f', s', j'. rewrite E.
        split; [reflexivity|]. split; [lia|]. split; [lia|].
        destruct (Nat.odd (length r)); cbn [xorb negb] in D |- *; exact D.
    + destruct (IH w1 obj (length (cur ++ junk)) (P ++ d) R (cur ++ junk) (w1 ++ skipn (N.to_nat (rsz d)) second) true
                  (skipn (N.to_nat (rsz d)) second)) as (f' & s' & j' & E & A & B & D).
      * exact Hr.
      * rewrite <- Hsrc. exact Hb'.
      * reflexivity.
      * rewrite app_length, skipn_length. rewrite <- Hsrc. lia.
      * reflexivity.
      * exists f', s', j'. rewrite E.
        split; [reflexivity|]. split; [lia|]. split; [lia|].
        destruct (Nat.odd (length r)); cbn [xorb negb] in D |- *; exact D.
Qed.

Lemma last_result_cons i j is : last_result (i :: j :: is) = last_result (j :: is).
Proof.
  unfold last_result. cbn [rev]. destruct (rev is ++ [j]) as [|x l] eqn:E.
  - destruct (rev is); discriminate.
  - reflexivity.
Qed.

Lemma last_result_spec : forall ds cur obj rel,
  replay cur ds = Some obj -> ds <> [] -> last_result (infos_of rel ds) = len obj.
Proof.
  induction ds as [|d r IH]; intros cur obj rel Hr Hne; [congruence|].
  cbn [replay] in Hr. destruct (patch cur d) as [w1|] eqn:Ep; [|discriminate].
  destruct (patch_inv _ _ _ Ep) as (_ & _ & _ & _ & Hlw).
  destruct r as [|d2 r'].
  - cbn [replay] in Hr. injection Hr as <-. cbn. unfold len. lia.
  - cbn [infos_of]. rewrite last_result_cons. apply (IH w1 obj (rel + length d)%nat Hr). discriminate.
Qed.

Lemma replay_hdr_ok : forall ds cur obj, replay cur ds = Some obj -> Forall hdr_ok ds.
Proof.
  induction ds as [|d r IH]; intros cur obj Hr; [constructor|].
  cbn [replay] in Hr. destruct (patch cur d) as [w1|] eqn:Ep; [|discriminate].
  constructor; [exact (proj1 (patch_inv _ _ _ Ep)) | eapply IH; exact Hr].
Qed.

(* the first delta's base size is the base object's size, and not every size is zero *)
Lemma replay_first : forall d r cur obj, replay cur (d :: r) = Some obj ->
  bsz d = len cur /\ (bsz d <> 0 \/ rsz d <> 0).
Proof.
  intros d r cur obj Hr. cbn [replay] in Hr. destruct (patch cur d) as [w1|] eqn:Ep; [|discriminate].
  destruct (patch_inv _ _ _ Ep) as (_ & A & B & _). auto.
Qed.
