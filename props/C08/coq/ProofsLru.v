(* C08 — the caches: memory accounting of StaticLinkedList, and the cache contract for all three
   delta caches ("whatever get returns was put under that key"). *)
From Coq Require Import Lia ZifyBool ZifyNat ZifyN.
From GixV.Base Require Import Bytes Outcome.
From GixV.C08 Require Import Model.
Local Open Scope N_scope.

(* ---- lists --------------------------------------------------------------------------------- *)
Lemma split_last_caps l r x : split_last l = Some (r, x) -> caps l = caps r + ce_cap x.
Proof.
  revert r x. induction l as [|e l IH]; intros r x H; [discriminate|].
  cbn [split_last] in H. destruct (split_last l) as [[r' x']|] eqn:E.
  - injection H as <- <-. cbn [caps]. rewrite (IH r' x' eq_refl). lia.
  - injection H as <- <-. destruct l; [cbn; lia|]. cbn [split_last] in E.
    destruct (split_last l) as [[? ?]|]; discriminate.
Qed.

Lemma split_last_count l r x : split_last l = Some (r, x) -> count l = count r + 1.
Proof.
  revert r x. induction l as [|e l IH]; intros r x H; [discriminate|].
  cbn [split_last] in H. destruct (split_last l) as [[r' x']|] eqn:E.
  - injection H as <- <-. specialize (IH r' x' eq_refl). unfold count in *. cbn [length]. lia.
  - injection H as <- <-. destruct l; [cbn; lia|]. cbn [split_last] in E.
    destruct (split_last l) as [[? ?]|]; discriminate.
Qed.

Lemma split_last_none l : split_last l = None -> l = [].
Proof. destruct l; [reflexivity|]. cbn [split_last]. destruct (split_last l) as [[? ?]|]; discriminate. Qed.

Lemma split_last_Forall (Q : centry -> Prop) l r x :
  split_last l = Some (r, x) -> Forall Q l -> Forall Q r /\ Q x.
Proof.
  revert r x. induction l as [|e l IH]; intros r x H F; [discriminate|].
  inversion F as [|? ? Qe Fl]; subst.
  cbn [split_last] in H. destruct (split_last l) as [[r' x']|] eqn:E.
  - injection H as <- <-. destruct (IH r' x' eq_refl Fl). split; [constructor|]; assumption.
  - injection H as <- <-. split; [constructor | exact Qe].
Qed.

Lemma lookup_caps key l e r : lru_lookup key l = Some (e, r) -> caps (e :: r) = caps l.
Proof.
  revert e r. induction l as [|a l IH]; intros e r H; [discriminate|].
  cbn [lru_lookup] in H. destruct (ce_key a =? key).
  - injection H as <- <-. reflexivity.
  - destruct (lru_lookup key l) as [[x r']|]; [|discriminate]. injection H as <- <-.
    specialize (IH x r' eq_refl). cbn [caps] in *. lia.
Qed.

Lemma lookup_count key l e r : lru_lookup key l = Some (e, r) -> count (e :: r) = count l.
Proof.
  revert e r. induction l as [|a l IH]; intros e r H; [discriminate|].
  cbn [lru_lookup] in H. destruct (ce_key a =? key).
  - injection H as <- <-. reflexivity.
  - destruct (lru_lookup key l) as [[x r']|]; [|discriminate]. injection H as <- <-.
    specialize (IH x r' eq_refl). unfold count in *. cbn [length] in *. lia.
Qed.

Lemma lookup_Forall (Q : centry -> Prop) key l e r :
  lru_lookup key l = Some (e, r) -> Forall Q l -> ce_key e = key /\ Q e /\ Forall Q r.
Proof.
  revert e r. induction l as [|a l IH]; intros e r H F; [discriminate|].
  inversion F as [|? ? Qa Fl]; subst.
  cbn [lru_lookup] in H. destruct (N.eqb_spec (ce_key a) key) as [K|K].
  - injection H as <- <-. auto.
  - destruct (lru_lookup key l) as [[x r']|]; [|discriminate]. injection H as <- <-.
    destruct (IH x r' eq_refl Fl) as (A & B & D). repeat split; auto.
Qed.

(* ---- StaticLinkedList: the accounting invariant ----------------------------------------------- *)
Definition cap_ok (c : N) : Prop := c = 0 \/ 8 <= c.

Record sinv (s : slru) : Prop := {
  si_acct : s_used s = caps (s_inner s) + s_fcap s;       (* mem_used = all capacities held *)
  si_limit : 1 <= s_limit s;
  si_bound : s_used s <= s_limit s + 7;                   (* the limit is exceeded by less than a minimal vector *)
  si_caps : Forall (fun e => cap_ok (ce_cap e)) (s_inner s);
  si_fcap : cap_ok (s_fcap s);
  si_size : 1 <= s_size s;
  si_count : count (s_inner s) <= s_size s }.

Lemma sinv_new size limit : 1 <= size -> sinv (slru_new size limit).
Proof.
  intros Hs. unfold slru_new.
  constructor; cbn [s_used s_inner s_fcap s_limit s_size caps count length].
  - lia.
  - destruct (limit =? 0) eqn:E; unfold USZ; lia.
  - destruct (limit =? 0) eqn:E; unfold USZ; lia.
  - constructor.
  - left; reflexivity.
  - exact Hs.
  - unfold count. cbn [length]. lia.
Qed.

Lemma grow_cap_ok c n : cap_ok c -> cap_ok (grow_cap c n).
Proof. unfold cap_ok, grow_cap. intros [->|H]; destruct (n <=? _) eqn:E; lia. Qed.

Lemma sub_ok bd a b : b <= a -> sub_usize bd a b = Ok (a - b).
Proof. intros H. unfold sub_usize. destruct (b <=? a) eqn:E; [reflexivity|lia]. Qed.

(* the state after the branch that makes space *)
Lemma insert_inv (Q : centry -> Prop) size e inner inner' ev :
  1 <= size -> count inner <= size ->
  lru_insert size e inner = (inner', ev) -> Forall Q inner -> Q e ->
  Forall Q inner' /\ count inner' <= size /\
  match ev with
  | Some p => caps inner' + ce_cap p = ce_cap e + caps inner /\ Q p
  | None => caps inner' = ce_cap e + caps inner
  end.
Proof.
  intros Hs Hc H F Qe. unfold lru_insert in H. destruct (count inner <? size) eqn:E.
  - injection H as <- <-. split; [|split].
    + constructor; assumption.
    + unfold count in *; cbn [length]; lia.
    + reflexivity.
  - destruct (split_last inner) as [[r x]|] eqn:S.
    + injection H as <- <-. destruct (split_last_Forall Q _ _ _ S F) as [Fr Qx].
      pose proof (split_last_caps _ _ _ S). pose proof (split_last_count _ _ _ S).
      split; [|split; [|split]].
      * constructor; assumption.
      * unfold count in *; cbn [length]; lia.
      * cbn [caps]; lia.
      * exact Qx.
    + apply split_last_none in S. subst inner. injection H as <- <-. split; [|split].
      * constructor; assumption.
      * unfold count in *; cbn [length] in *; lia.
      * reflexivity.
Qed.

Definition entries_ok (P : N -> hit -> Prop) (l : list centry) : Prop :=
  Forall (fun e => P (ce_key e) (hit_of e)) l.

(* one put: never panics (debug or release), keeps the accounting exact, keeps every stored value *)
Lemma slru_put_inv (P : N -> hit -> Prop) bd s key data kind csz :
  sinv s -> entries_ok P (s_inner s) -> P key (kind, csz, data) ->
  exists s', slru_put bd s key data kind csz = Ok s' /\ sinv s' /\ entries_ok P (s_inner s') /\
             s_limit s' = s_limit s /\ s_size s' = s_size s.
Proof.
  intros [Ha Hl Hb Hc Hf Hs Hn] HP Hk. unfold slru_put.
  destruct (s_limit s <? len data) eqn:E0.
  { exists s. repeat split; try assumption. }
  set (n := len data) in *.
  set (Q := fun e : centry => cap_ok (ce_cap e) /\ P (ce_key e) (hit_of e)).
  assert (FQ : Forall Q (s_inner s)).
  { unfold entries_ok in HP. rewrite Forall_forall in *. intros e He. split; auto. }
  assert (FQnil : Forall Q []) by constructor.
  unfold sat_sub.
  (* the three ways to arrive at the insertion *)
  assert (Hmid : exists inner fcap used,
     (if (if s_used s <=? s_limit s then s_limit s - s_used s else 0) <? n
      then if (if s_used s <=? s_limit s then s_limit s - s_used s else 0) + s_fcap s <? n
           then Ok ([], 0, 0)
           else obind (sub_usize bd (s_used s) (s_fcap s)) (fun u => Ok (s_inner s, 0, u))
      else Ok (s_inner s, s_fcap s, s_used s)) = @Ok _ err (inner, fcap, used) /\
     used = caps inner + fcap /\ Forall Q inner /\ cap_ok fcap /\ count inner <= s_size s /\
     used - fcap + grow_cap fcap n <= s_limit s + 7).
  { destruct ((if s_used s <=? s_limit s then s_limit s - s_used s else 0) <? n) eqn:E1.
    - destruct ((if s_used s <=? s_limit s then s_limit s - s_used s else 0) + s_fcap s <? n) eqn:E2.
      + exists [], 0, 0. split; [reflexivity|]. split; [reflexivity|]. split; [exact FQnil|].
        split; [left; reflexivity|]. split; [unfold count; cbn [length]; lia|].
        unfold grow_cap. destruct (n <=? 0) eqn:E3; lia.
      + rewrite sub_ok by lia. cbn [obind]. exists (s_inner s), 0, (s_used s - s_fcap s).
        split; [reflexivity|]. split; [lia|]. split; [exact FQ|].
        split; [left; reflexivity|]. split; [exact Hn|].
        unfold grow_cap, cap_ok in *. destruct (n <=? 0) eqn:E3; destruct (s_used s <=? s_limit s) eqn:E4; lia.
    - exists (s_inner s), (s_fcap s), (s_used s).
      split; [reflexivity|]. split; [exact Ha|]. split; [exact FQ|]. split; [exact Hf|]. split; [exact Hn|].
      unfold grow_cap, cap_ok in *. destruct (n <=? s_fcap s) eqn:E3; destruct (s_used s <=? s_limit s) eqn:E4; lia. }
  destruct Hmid as (inner & fcap & used & -> & Hu & FI & Cf & Cn & Bd). cbn [obind].
  rewrite sub_ok by lia. cbn [obind].
  set (e := {| ce_key := key; ce_kind := kind; ce_csz := csz; ce_data := data; ce_cap := grow_cap fcap n |}).
  assert (Qe : Q e). { split; [apply grow_cap_ok; exact Cf | exact Hk]. }
  destruct (lru_insert (s_size s) e inner) as [inner' ev] eqn:EI.
  destruct (insert_inv Q _ _ _ _ _ Hs Cn EI FI Qe) as (FI' & Cn' & Hev).
  assert (F1 : Forall (fun e => cap_ok (ce_cap e)) inner') by (eapply Forall_impl; [|exact FI']; intros a [A _]; exact A).
  assert (F2 : entries_ok P inner') by (eapply Forall_impl; [|exact FI']; intros a [_ A]; exact A).
  destruct ev as [p|].
  - destruct Hev as [Hcaps [Cp _]]. eexists. split; [reflexivity|]. cbn.
    repeat split; try assumption; cbn in *; try lia.
  - eexists. split; [reflexivity|]. cbn.
    repeat split; try assumption; cbn in *; try lia. left; reflexivity.
Qed.

Lemma slru_get_inv (P : N -> hit -> Prop) s key s' r :
  sinv s -> entries_ok P (s_inner s) -> slru_get s key = (s', r) ->
  sinv s' /\ entries_ok P (s_inner s') /\ (forall h, r = Some h -> P key h) /\
  s_limit s' = s_limit s /\ s_size s' = s_size s.
Proof.
  intros [Ha Hl Hb Hc Hf Hs Hn] HP H. unfold slru_get in H.
  destruct (lru_lookup key (s_inner s)) as [[e l]|] eqn:E.
  - injection H as <- <-.
    pose proof (lookup_caps _ _ _ _ E) as C1. pose proof (lookup_count _ _ _ _ E) as C2.
    destruct (lookup_Forall _ _ _ _ _ E Hc) as (_ & A1 & A2).
    destruct (lookup_Forall _ _ _ _ _ E HP) as (K & B1 & B2).
    split; [|split; [|split; [|split; reflexivity]]].
    + constructor; cbn [s_used s_inner s_fcap s_limit s_size]; try assumption; try lia.
      constructor; assumption.
    + cbn [s_inner]. constructor; assumption.
    + intros h Hh. injection Hh as <-. rewrite <- K. exact B1.
  - injection H as <- <-. split; [constructor; assumption|]. split; [exact HP|]. split; [discriminate|]. split; reflexivity.
Qed.

(* ---- any sequence of puts and gets ------------------------------------------------------------ *)
Inductive lop := Put (key : N) (data : bytes) (kind csz : N) | Get (key : N).

Fixpoint run_ops (bd : build) (s : slru) (ops : list lop) : outcome slru err :=
  match ops with
  | [] => Ok s
  | Put k d kind csz :: r => obind (slru_put bd s k d kind csz) (fun s' => run_ops bd s' r)
  | Get k :: r => run_ops bd (fst (slru_get s k)) r
  end.

Lemma static_lru_mem_invariant_all bd size limit ops :
  1 <= size ->
  exists s, run_ops bd (slru_new size limit) ops = Ok s /\ sinv s.
Proof.
  intros Hs. pose proof (sinv_new size limit Hs) as I.
  assert (E : entries_ok (fun _ _ => True) (s_inner (slru_new size limit))) by constructor.
  revert I E. generalize (slru_new size limit) as s.
  induction ops as [|[k d kind csz|k] r IH]; intros s I E.
  - exists s. split; [reflexivity | exact I].
  - cbn [run_ops]. destruct (slru_put_inv (fun _ _ => True) bd s k d kind csz I E Logic.I) as (s' & -> & I' & E' & _).
    cbn [obind]. apply IH; assumption.
  - cbn [run_ops]. destruct (slru_get s k) as [s' h] eqn:G.
    destruct (slru_get_inv (fun _ _ => True) s k s' h I E G) as (I' & E' & _). cbn [fst]. apply IH; assumption.
Qed.

Lemma static_lru_mem_invariant_lemma : forall bd size limit ops, 1 <= size ->
  exists s, run_ops bd (slru_new size limit) ops = Ok s /\
            s_used s = caps (s_inner s) + s_fcap s /\
            s_used s <= s_limit s + 7 /\
            count (s_inner s) <= size.
Proof.
  intros bd size limit ops Hs.
  destruct (static_lru_mem_invariant_all bd size limit ops Hs) as (s & E & I).
  exists s. split; [exact E|]. destruct I as [Ha Hl Hb Hc Hf Hs' Hn]. split; [exact Ha|]. split; [exact Hb|].
  assert (Z : forall ops s0 s1, run_ops bd s0 ops = Ok s1 -> sinv s0 -> s_size s1 = s_size s0).
  { clear. induction ops as [|[k d kind csz|k] r IH]; intros s0 s1 H I0; cbn [run_ops] in H.
    - injection H as <-. reflexivity.
    - destruct (slru_put_inv (fun _ _ => True) bd s0 k d kind csz I0) as (s' & E' & I' & _ & _ & S');
        [apply Forall_forall; intros; exact Logic.I | exact Logic.I |].
      rewrite E' in H. cbn [obind] in H. rewrite (IH _ _ H I'). exact S'.
    - destruct (slru_get s0 k) as [s' h] eqn:G. cbn [fst] in H.
      destruct (slru_get_inv (fun _ _ => True) s0 k s' h I0) as (I' & _ & _ & _ & S');
        [apply Forall_forall; intros; exact Logic.I | exact G |].
      rewrite (IH _ _ H I'). exact S'. }
  rewrite (Z _ _ _ E (sinv_new size limit Hs)) in Hn. exact Hn.
Qed.


(* ---- MemoryCappedHashmap (both the pack cache and the object cache) ------------------------------ *)
Lemma evict_Forall (Q : centry -> Prop) extra w cap : forall fuel l, Forall Q l -> Forall Q (evict fuel extra l w cap).
Proof.
  induction fuel as [|f IH]; intros l F; [exact F|]. cbn [evict].
  destruct (_ <? cap); [exact F|]. destruct (split_last l) as [[r x]|] eqn:S; [|exact F].
  apply IH. exact (proj1 (split_last_Forall Q _ _ _ S F)).
Qed.

Lemma mcache_put_inv (P : N -> hit -> Prop) m key data kind csz :
  entries_ok P (m_list m) -> P key (kind, csz, data) -> entries_ok P (m_list (mcache_put m key data kind csz)).
Proof.
  intros F Hk. unfold mcache_put. destruct (m_cap m <=? _); [exact F|]. cbn [m_list].
  constructor; [exact Hk|]. apply evict_Forall.
  destruct (lru_lookup key (m_list m)) as [[e r]|] eqn:E; [|exact F].
  exact (proj2 (proj2 (lookup_Forall _ _ _ _ _ E F))).
Qed.

Lemma mcache_get_inv (P : N -> hit -> Prop) m key m' r :
  entries_ok P (m_list m) -> mcache_get m key = (m', r) ->
  entries_ok P (m_list m') /\ (forall h, r = Some h -> P key h).
Proof.
  intros F H. unfold mcache_get in H. destruct (lru_lookup key (m_list m)) as [[e l]|] eqn:E.
  - injection H as <- <-. destruct (lookup_Forall _ _ _ _ _ E F) as (K & B1 & B2). split.
    + constructor; assumption.
    + intros h Hh. injection Hh as <-. rewrite <- K. exact B1.
  - injection H as <- <-. split; [exact F | discriminate].
Qed.

(* ---- the contract, for the three delta caches behind `dyn DecodeEntry` ---------------------------- *)
Definition cache_inv (P : N -> hit -> Prop) (c : cache) : Prop :=
  match c with
  | CNever => True
  | CStatic s => sinv s /\ entries_ok P (s_inner s)
  | CMem m => entries_ok P (m_list m)
  end.

Lemma cache_get_contract P c k c' r :
  cache_inv P c -> cache_get c k = (c', r) -> cache_inv P c' /\ (forall h, r = Some h -> P k h).
Proof.
  destruct c as [|s|m]; cbn [cache_inv cache_get]; intros I H.
  - injection H as <- <-. split; [exact Logic.I | discriminate].
  - destruct (slru_get s k) as [s' x] eqn:G. injection H as <- <-. destruct I as [I E].
    destruct (slru_get_inv P s k s' x I E G) as (A & B & D & _). cbn [cache_inv]. auto.
  - destruct (mcache_get m k) as [m' x] eqn:G. injection H as <- <-.
    destruct (mcache_get_inv P m k m' x I G). cbn [cache_inv]. auto.
Qed.

Lemma cache_put_contract P bd c k d kind csz :
  cache_inv P c -> P k (kind, csz, d) ->
  exists c', cache_put bd c k d kind csz = Ok c' /\ cache_inv P c'.
Proof.
  destruct c as [|s|m]; cbn [cache_inv cache_put]; intros I Hk.
  - exists CNever. split; [reflexivity | exact Logic.I].
  - destruct I as [I E]. destruct (slru_put_inv P bd s k d kind csz I E Hk) as (s' & -> & I' & E' & _).
    cbn [obind]. exists (CStatic s'). cbn [cache_inv]. auto.
  - eexists. split; [reflexivity|]. cbn [cache_inv]. apply mcache_put_inv; assumption.
Qed.
