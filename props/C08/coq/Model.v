(* C08 — model of pack object decoding with delta caches.
   Sources (pinned tree, after the fix commit recorded in findings.txt):
     gix-pack/src/cache/mod.rs                  DecodeEntry, Never, set_vec_to_slice
     gix-pack/src/cache/lru.rs                  StaticLinkedList::{new,put,get} (over uluru::LRUCache),
                                                MemoryCappedHashmap::{new,put,get} (over clru::CLruCache)
     gix-pack/src/cache/object.rs               MemoryCappedHashmap (object cache, over clru)
     gix-pack/src/data/file/decode/entry.rs     File::decode_entry, File::resolve_deltas
     gix-pack/src/data/delta.rs                 decode_header_size, apply   (as in props/C07)
     gix-odb/src/cache.rs                       Cache::try_find_cached (object cache in front of the store)

   Abstractions (stated in NOTES.md):
   * a pack is a list of entries; an entry is addressed by its index (the harness maps index <->
     pack offset injectively), its payload is the INFLATED entry data (zlib is a contract: inflating
     an entry into a buffer writes min(|data|, |buffer|) bytes at the front of the buffer);
   * the cache key (pack_id, data_offset) is the entry index; compressed sizes are symbolic: the
     compressed size of entry i is the number i;
   * uluru::LRUCache and clru::CLruCache are modelled by their documented list semantics
     (most recently used first); Vec<u8> capacities follow RawVec::grow_amortized for u8
     (max(2*cap, needed, 8)), which gix-pack's own unit test `journey` pins;
   * usize `-`/`-=` is explicit ([sub_usize]: debug panics, release wraps); sums of live vector
     capacities are assumed to stay below 2^64, so `+=` is plain addition.
   No proofs in this file. *)
From GixV.Base Require Import Bytes Outcome.
Local Open Scope N_scope.
Local Open Scope outcome_scope.

Inductive build := Debug | Release.
Inductive err := Unresolved.

Definition USZ : N := 18446744073709551616.
Definition len (l : bytes) : N := N.of_nat (length l).

Definition sub_usize (bd : build) (a b : N) : outcome N err :=
  if b <=? a then Ok (a - b)
  else match bd with Debug => Panic | Release => Ok (a + USZ - b) end.
(* usize::saturating_sub *)
Definition sat_sub (a b : N) : N := if b <=? a then a - b else 0.

(* ---- Vec<u8> capacity ------------------------------------------------------------------- *)
(* set_vec_to_slice: clear(); try_reserve(n); extend_from_slice — capacity afterwards *)
Definition grow_cap (cap n : N) : N :=
  if n <=? cap then cap else N.max 8 (N.max (2 * cap) n).

(* ---- cache entries ---------------------------------------------------------------------- *)
Record centry := { ce_key : N; ce_kind : N; ce_csz : N; ce_data : bytes; ce_cap : N }.

Definition hit := (N * N * bytes)%type.          (* kind, compressed size, data *)
Definition hit_of (e : centry) : hit := (ce_kind e, ce_csz e, ce_data e).

(* first entry with the key, and the list without it (uluru lookup + touch_index; clru get) *)
Fixpoint lru_lookup (key : N) (l : list centry) : option (centry * list centry) :=
  match l with
  | [] => None
  | e :: r =>
      if ce_key e =? key then Some (e, r)
      else match lru_lookup key r with
           | Some (x, r') => Some (x, e :: r')
           | None => None
           end
  end.

Fixpoint split_last (l : list centry) : option (list centry * centry) :=
  match l with
  | [] => None
  | e :: r => match split_last r with
              | None => Some ([], e)
              | Some (r', x) => Some (e :: r', x)
              end
  end.

Definition count (l : list centry) : N := N.of_nat (length l).

(* uluru::LRUCache::insert for capacity [size] >= 1: evicts the least recently used entry when full *)
Definition lru_insert (size : N) (e : centry) (l : list centry) : list centry * option centry :=
  if count l <? size then (e :: l, None)
  else match split_last l with
       | Some (r, x) => (e :: r, Some x)
       | None => (e :: l, None)
       end.

(* ---- StaticLinkedList<SIZE> -------------------------------------------------------------- *)
Record slru := {
  s_size : N;                (* SIZE *)
  s_inner : list centry;     (* most recently used first *)
  s_flen : N; s_fcap : N;    (* last_evicted: len and capacity *)
  s_used : N; s_limit : N }.

Definition slru_new (size limit : N) : slru :=
  {| s_size := size; s_inner := []; s_flen := 0; s_fcap := 0; s_used := 0;
     s_limit := if limit =? 0 then USZ - 1 else limit |}.

Fixpoint caps (l : list centry) : N :=
  match l with [] => 0 | e :: r => ce_cap e + caps r end.

Definition slru_put (bd : build) (s : slru) (key : N) (data : bytes) (kind csz : N)
  : outcome slru err :=
  let n := len data in
  if s_limit s <? n then Ok s
  else
    let mem_free := sat_sub (s_limit s) (s_used s) in
    ' (inner, fcap, used) <-
       (if mem_free <? n then
          let fc := s_fcap s in                        (* last_evicted.capacity(); then Vec::new() *)
          if mem_free + fc <? n then Ok ([], 0, 0)     (* inner.clear(); mem_used = 0 *)
          else u <- sub_usize bd (s_used s) fc ;; Ok (s_inner s, 0, u)
        else Ok (s_inner s, s_fcap s, s_used s)) ;;
    u1 <- sub_usize bd used fcap ;;                    (* v = take(last_evicted); mem_used -= v.capacity() *)
    let cap' := grow_cap fcap n in
    let u2 := u1 + cap' in
    let e := {| ce_key := key; ce_kind := kind; ce_csz := csz; ce_data := data; ce_cap := cap' |} in
    match lru_insert (s_size s) e inner with
    | (inner', Some p) =>
        Ok {| s_size := s_size s; s_inner := inner'; s_flen := len (ce_data p); s_fcap := ce_cap p;
              s_used := u2; s_limit := s_limit s |}
    | (inner', None) =>
        Ok {| s_size := s_size s; s_inner := inner'; s_flen := 0; s_fcap := 0;
              s_used := u2; s_limit := s_limit s |}
    end.

Definition slru_get (s : slru) (key : N) : slru * option hit :=
  match lru_lookup key (s_inner s) with
  | Some (e, r) =>
      ({| s_size := s_size s; s_inner := e :: r; s_flen := s_flen s; s_fcap := s_fcap s;
          s_used := s_used s; s_limit := s_limit s |}, Some (hit_of e))
  | None => (s, None)
  end.

(* ---- MemoryCappedHashmap (clru::CLruCache with a weight scale) ----------------------------- *)
(* [extra] is the constant part of an entry's weight: 0 for the pack cache (weight = data.len()),
   size_of::<Entry>() + 20 = 52 for the object cache. *)
Record mcache := { m_cap : N; m_extra : N; m_list : list centry }.

Definition mcache_new (cap extra : N) : mcache := {| m_cap := cap; m_extra := extra; m_list := [] |}.

Fixpoint weight (extra : N) (l : list centry) : N :=
  match l with [] => 0 | e :: r => len (ce_data e) + extra + weight extra r end.

(* while storage.len() + self.weight + weight >= capacity { pop_back } *)
Fixpoint evict (fuel : nat) (extra : N) (l : list centry) (w cap : N) : list centry :=
  match fuel with
  | O => l
  | S f =>
      if count l + weight extra l + w <? cap then l
      else match split_last l with
           | Some (r, _) => evict f extra r w cap
           | None => l
           end
  end.

Definition mcache_put (m : mcache) (key : N) (data : bytes) (kind csz : N) : mcache :=
  let w := len data + m_extra m in
  if m_cap m <=? w then m
  else
    let l1 := match lru_lookup key (m_list m) with Some (_, r) => r | None => m_list m end in
    let l2 := evict (S (length l1)) (m_extra m) l1 w (m_cap m) in
    {| m_cap := m_cap m; m_extra := m_extra m;
       m_list := {| ce_key := key; ce_kind := kind; ce_csz := csz; ce_data := data; ce_cap := 0 |} :: l2 |}.

Definition mcache_get (m : mcache) (key : N) : mcache * option hit :=
  match lru_lookup key (m_list m) with
  | Some (e, r) => ({| m_cap := m_cap m; m_extra := m_extra m; m_list := e :: r |}, Some (hit_of e))
  | None => (m, None)
  end.

(* ---- the concrete delta caches behind `dyn DecodeEntry` ------------------------------------ *)
Inductive cache := CNever | CStatic (s : slru) | CMem (m : mcache).

Definition cache_get (c : cache) (key : N) : cache * option hit :=
  match c with
  | CNever => (CNever, None)
  | CStatic s => let '(s', r) := slru_get s key in (CStatic s', r)
  | CMem m => let '(m', r) := mcache_get m key in (CMem m', r)
  end.

Definition cache_put (bd : build) (c : cache) (key : N) (data : bytes) (kind csz : N)
  : outcome cache err :=
  match c with
  | CNever => Ok CNever
  | CStatic s => s' <- slru_put bd s key data kind csz ;; Ok (CStatic s')
  | CMem m => Ok (CMem (mcache_put m key data kind csz))
  end.

(* ---- delta.rs (as props/C07; sizes are below 2^14 in every case that is run, see Run.case_ok,
        so the u64 shifts cannot overflow) --------------------------------------------------- *)
Fixpoint dhs_loop (d : bytes) (i size consumed : N) : N * N :=
  match d with
  | [] => (size, consumed)
  | x :: d' =>
      let c := b2N x in
      let size' := N.lor size (N.shiftl (c mod 128) i) in
      if c <? 128 then (size', consumed + 1)
      else dhs_loop d' (i + 7) size' (consumed + 1)
  end.
Definition decode_header_size (d : bytes) : N * N := dhs_loop d 0 0 0.

Definition opt_byte (flag : bool) (d : bytes) : outcome (N * bytes) err :=
  if flag then match d with [] => Panic | x :: d' => Ok (b2N x, d') end
  else Ok (0, d).

Definition take_room (room : nat) (w : bytes) : bytes := firstn room w.

Fixpoint apply_loop (fuel : nat) (base : bytes) (room : nat) (data : bytes) : outcome bytes err :=
  match fuel with
  | O => OutOfFuel
  | S f =>
      match data with
      | [] => if Nat.eqb room 0 then Ok [] else Panic       (* assert_eq!(target.len(), 0) *)
      | x :: d =>
          let c := b2N x in
          if 128 <=? c then
            ' (o0, d) <- opt_byte (N.testbit c 0) d ;;
            ' (o1, d) <- opt_byte (N.testbit c 1) d ;;
            ' (o2, d) <- opt_byte (N.testbit c 2) d ;;
            ' (o3, d) <- opt_byte (N.testbit c 3) d ;;
            ' (s0, d) <- opt_byte (N.testbit c 4) d ;;
            ' (s1, d) <- opt_byte (N.testbit c 5) d ;;
            ' (s2, d) <- opt_byte (N.testbit c 6) d ;;
            let ofs := o0 + 256 * o1 + 65536 * o2 + 16777216 * o3 in
            let size := s0 + 256 * s1 + 65536 * s2 in
            let size := if size =? 0 then 65536 else size in
            if ofs + size <=? len base then                     (* &base[ofs..ofs + size] *)
              let w := take_room room (firstn (N.to_nat size) (skipn (N.to_nat ofs) base)) in
              r <- apply_loop f base (room - length w) d ;; Ok (w ++ r)
            else Panic
          else if c =? 0 then Panic                             (* unsupported command code 0 *)
          else if c <=? len d then                              (* &data[i..i + size] *)
            let w := take_room room (firstn (N.to_nat c) d) in
            r <- apply_loop f base (room - length w) (skipn (N.to_nat c) d) ;; Ok (w ++ r)
          else Panic
      end
  end.

(* apply(base, target, data) with target.len() = room: Ok w means target was overwritten by w *)
Definition apply (base : bytes) (room : nat) (data : bytes) : outcome bytes err :=
  apply_loop (S (length data)) base room data.

(* ---- buffers ------------------------------------------------------------------------------ *)
(* Vec::resize(n, 0) *)
Definition resize (n : nat) (l : bytes) : bytes := firstn n l ++ repeat x00 (n - length l).
(* zlib contract: inflating [data] into the buffer [buf] overwrites its first min(|data|,|buf|) bytes *)
Definition inflate_into (data buf : bytes) : bytes :=
  firstn (length buf) data ++ skipn (length data) buf.

(* ---- packs -------------------------------------------------------------------------------- *)
Inductive ekind :=
| EBase (kind : N)                     (* commit 1, tree 2, blob 3, tag 4 *)
| EDelta (base : N)                    (* OFS_DELTA, or REF_DELTA resolved inside the pack: index of the base entry *)
| EExt (kind : N) (base_data : bytes). (* REF_DELTA whose base the resolver supplies from outside the pack *)
Record pentry := { pe_kind : ekind; pe_data : bytes }.
Definition pack := list pentry.
Definition pnth (p : pack) (i : N) : option pentry := nth_error p (N.to_nat i).

(* what the chain walk ends at *)
Inductive base_src :=
| FromOut (n : N) (kind : N)           (* cache hit or out-of-pack base: the object is out[..n] *)
| InPack (kind : N) (data : bytes).    (* an undeltified entry, still to be inflated *)

(* Outcome of decode_entry *)
Record res := { r_kind : N; r_num_deltas : N; r_decompressed : N; r_compressed : N; r_object_size : N }.

(* per-delta bookkeeping of the first pass (struct Delta) *)
Record dinfo := { di_start : nat; di_end : nat; di_base : N; di_result : N }.

(* first pass over the inflated deltas (oldest first): both size headers are read from the slice
   that starts at the delta and extends to the END of the buffer *)
Fixpoint scan (out : bytes) (pos rel : nat) (chain : list bytes) (biggest : N) : list dinfo * N :=
  match chain with
  | [] => ([], biggest)
  | d :: rest =>
      let ins := skipn pos out in
      let '(bs, o1) := decode_header_size ins in
      let '(rs, o2) := decode_header_size (skipn (N.to_nat o1) ins) in
      let i := {| di_start := rel + N.to_nat o1 + N.to_nat o2; di_end := rel + length d;
                  di_base := bs; di_result := rs |} in
      let '(is, b) := scan out (pos + length d) (rel + length d) rest (N.max (N.max biggest bs) rs) in
      (i :: is, b)
  end.

(* the apply loop: [odd] = the source buffer is currently the second one (after an odd number of swaps) *)
Fixpoint apply_chain (first second ins : bytes) (odd : bool) (is : list dinfo)
  : outcome (bytes * bytes) err :=
  match is with
  | [] => Ok (first, second)
  | i :: r =>
      if Nat.ltb (di_end i) (di_start i) then Panic          (* &mut instructions[data]: start > end *)
      else
        let data := firstn (di_end i - di_start i) (skipn (di_start i) ins) in
        let src := if odd then second else first in
        let dst := if odd then first else second in
        w <- apply (firstn (N.to_nat (di_base i)) src) (N.to_nat (di_result i)) data ;;
        let dst' := w ++ skipn (N.to_nat (di_result i)) dst in
        if odd then apply_chain dst' second ins false r
        else apply_chain first dst' ins true r
  end.

Definition last_result (is : list dinfo) : N :=
  match rev is with i :: _ => di_result i | [] => 0 end.

Section Decode.
  Variable C : Type.
  Variable cget : C -> N -> C * option hit.
  Variable cput : C -> N -> bytes -> N -> N -> outcome C err.    (* key data kind compressed_size *)

  Record walked := {
    w_cache : C; w_out : bytes;
    w_chain : list (N * bytes);           (* (entry, inflated delta), the requested entry LAST *)
    w_base : base_src; w_total : N; w_consumed : option N }.

  (* the `while cursor.header.is_delta()` loop; [chain] is kept oldest-first, i.e. already in the
     order of `chain.iter().rev()` *)
  Fixpoint walk (fuel : nat) (p : pack) (c : C) (out : bytes) (cur : N)
           (chain : list (N * bytes)) (total : N) : outcome walked err :=
    match fuel with
    | O => OutOfFuel
    | S f =>
        match pnth p cur with
        | None => Err Unresolved                            (* resolve() returned None *)
        | Some e =>
            match pe_kind e with
            | EBase k =>
                Ok {| w_cache := c; w_out := out; w_chain := chain; w_base := InPack k (pe_data e);
                      w_total := total; w_consumed := None |}
            | dk =>
                let '(c1, r) := cget c cur in
                match r with
                | Some (k, csz, data) =>
                    Ok {| w_cache := c1; w_out := data; w_chain := chain;
                          w_base := FromOut (len data) k; w_total := total;
                          w_consumed := if total =? 0 then Some csz else None |}
                | None =>
                    let total' := total + len (pe_data e) in
                    let chain' := (cur, pe_data e) :: chain in
                    match dk with
                    | EDelta b => walk f p c1 out b chain' total'
                    | EExt k bd =>
                        Ok {| w_cache := c1; w_out := bd; w_chain := chain';
                              w_base := FromOut (len bd) k; w_total := total'; w_consumed := None |}
                    | EBase _ => Panic
                    end
                end
            end
        end
    end.

  Definition base_kind (b : base_src) : N :=
    match b with FromOut _ k => k | InPack k _ => k end.

  (* everything of resolve_deltas after the chain walk *)
  Definition finish (first : N) (first_size : N) (w : walked) : outcome (C * bytes * res) err :=
    match w_chain w with
    | [] =>
        (* the cache held the requested entry itself *)
        match w_consumed w with
        | Some csz =>
            Ok (w_cache w, w_out w,
                {| r_kind := base_kind (w_base w); r_num_deltas := 0; r_decompressed := first_size;
                   r_compressed := csz; r_object_size := first_size |})
        | None => Panic
        end
    | chain =>
        let datas := map snd chain in
        let total := N.to_nat (w_total w) in
        let delta_start := match w_base w with FromOut n _ => N.to_nat n | InPack _ _ => O end in
        let out1 := resize (delta_start + total) (w_out w) in
        let out2 := firstn delta_start out1 ++ concat datas in          (* every delta inflated in place *)
        let '(is, biggest) := scan out2 delta_start O datas 0 in
        let m := N.to_nat biggest in
        let out3 := resize (m + m + total) out2 in
        out4 <- (if Nat.ltb delta_start (m + m)
                 then Ok (firstn (m + m) out3 ++ firstn total (skipn delta_start out3))  (* copy_within *)
                 else if Nat.eqb total 0 && Nat.eqb delta_start (m + m) then Ok out3
                 else Panic) ;;                                          (* &buffers[delta_range] *)
        let out5 := match w_base w with
                    | InPack _ data => inflate_into data out4
                    | FromOut _ _ => out4
                    end in
        let b1 := firstn m out5 in
        let b2 := firstn m (skipn m out5) in
        let ins := skipn (m + m) out5 in
        ' (b1', b2') <- apply_chain b1 b2 ins false is ;;
        let last := N.to_nat (last_result is) in
        let b1'' := if Nat.odd (length chain) then firstn last b2' ++ skipn last b1' else b1' in
        let out6 := firstn last (b1'' ++ b2' ++ ins) in
        let kind := base_kind (w_base w) in
        c' <- cput (w_cache w) first out6 kind first ;;
        Ok (c', out6,
            {| r_kind := kind; r_num_deltas := N.of_nat (length chain); r_decompressed := first_size;
               r_compressed := first; r_object_size := last_result is |})
    end.

  (* File::decode_entry for the entry with index [i]; the state is (delta cache, the caller's `out`) *)
  Definition decode_entry (p : pack) (st : C * bytes) (i : N) : outcome (C * bytes * res) err :=
    match pnth p i with
    | None => Err Unresolved
    | Some e =>
        match pe_kind e with
        | EBase k =>
            Ok (fst st, pe_data e,
                {| r_kind := k; r_num_deltas := 0; r_decompressed := len (pe_data e);
                   r_compressed := i; r_object_size := len (pe_data e) |})
        | _ =>
            w <- walk (S (length p)) p (fst st) (snd st) i [] 0 ;;
            finish i (len (pe_data e)) w
        end
    end.
End Decode.

(* ---- gix_odb::Cache::try_find_cached: an object cache (keyed by object id; here: by the index
        of the entry the id belongs to) in front of the pack lookup ------------------------------ *)
Section Odb.
  Variable C : Type.
  Variable cget : C -> N -> C * option hit.
  Variable cput : C -> N -> bytes -> N -> N -> outcome C err.

  (* state: object cache (None = not configured), delta cache, buffer *)
  Definition find_cached (p : pack) (st : option mcache * C * bytes) (i : N)
    : outcome (option mcache * C * bytes * N) err :=          (* ..., kind *)
    let '(oc, c, out) := st in
    match oc with
    | Some m =>
        match mcache_get m i with
        | (m', Some (k, _, data)) => Ok (Some m', c, data, k)
        | (m', None) =>
            ' (c', out', r) <- decode_entry C cget cput p (c, out) i ;;
            Ok (Some (mcache_put m' i out' (r_kind r) 0), c', out', r_kind r)
        end
    | None =>
        ' (c', out', r) <- decode_entry C cget cput p (c, out) i ;;
        Ok (None, c', out', r_kind r)
    end.
End Odb.
