(* C08 — specification: what object an entry of a pack denotes (git's unpack_entry / patch_delta).
   A base entry denotes its own bytes; a delta entry denotes patch_delta(base object, delta), which
   git only accepts when the base-size header equals the size of the base object and the
   instructions produce exactly the announced result size.  [apply] and [decode_header_size] are the
   delta interpreter shared with props/C07, where they are proved equal to the instruction semantics
   (apply_is_semantics, delta_size_header_RT). *)
From GixV.Base Require Import Bytes Outcome.
From GixV.C08 Require Import Model.
Local Open Scope N_scope.

(* the varint at the head of [d] ends inside [d] *)
Fixpoint varint_ends (d : bytes) : bool :=
  match d with
  | [] => false
  | x :: r => if b2N x <? 128 then true else varint_ends r
  end.

(* patch_delta(base, delta) *)
Definition patch (base delta : bytes) : option bytes :=
  let '(bs, o1) := decode_header_size delta in
  let rest := skipn (N.to_nat o1) delta in
  let '(rs, o2) := decode_header_size rest in
  (* both sizes 0: no instruction can be valid and the delta would be shorter than DELTA_SIZE_MIN;
     git never writes it (gix panics on it, see Properties.decode_empty_delta_panics) *)
  if varint_ends delta && varint_ends rest && (bs =? len base) && negb ((bs =? 0) && (rs =? 0)) then
    match apply base (N.to_nat rs) (skipn (N.to_nat o2) rest) with
    | Ok w => Some w
    | _ => None
    end
  else None.

(* (kind, bytes) of entry [i]; [fuel] bounds the chain length *)
Fixpoint object_at (fuel : nat) (p : pack) (i : N) : option (N * bytes) :=
  match fuel with
  | O => None
  | S f =>
      match pnth p i with
      | None => None
      | Some e =>
          match pe_kind e with
          | EBase k => Some (k, pe_data e)
          | EDelta b =>
              match object_at f p b with
              | Some (k, base) =>
                  match patch base (pe_data e) with Some w => Some (k, w) | None => None end
              | None => None
              end
          | EExt k bd =>
              match patch bd (pe_data e) with Some w => Some (k, w) | None => None end
          end
      end
  end.

Definition object_of (p : pack) (i : N) : option (N * bytes) := object_at (S (length p)) p i.
