(* C08 — decode_entry returns the object the entry denotes, for every cache that obeys the contract. *)
From Coq Require Import Lia ZifyBool ZifyNat ZifyN.
From GixV.Base Require Import Bytes Outcome.
From GixV.C08 Require Import Model Spec ProofsApply ProofsBuf.
Local Open Scope N_scope.
Local Open Scope outcome_scope.

(* the buffer preparation of resolve_deltas: everything between the chain walk and the apply loop *)
Definition prep (wout : bytes) (base : base_src) (datas : list bytes) (total : nat)
  : outcome (bytes * list dinfo * nat) err :=
  let delta_start := match base with FromOut n _ => N.to_nat n | InPack _ _ => O end in
  let out1 := resize (delta_start + total) wout in
  let out2 := firstn delta_start out1 ++ concat datas in
  let '(is, biggest) := scan out2 delta_start O datas 0 in
  let m := N.to_nat biggest in
  let out3 := resize (m + m + total) out2 in
  out4 <- (if Nat.ltb delta_start (m + m)
           then Ok (firstn (m + m) out3 ++ firstn total (skipn delta_start out3))
           else if Nat.eqb total 0 && Nat.eqb delta_start (m + m) then Ok out3
           else Panic) ;;
  Ok (match base with
      | InPack _ data => inflate_into data out4
      | FromOut _ _ => out4
      end, is, m).

Lemma resize_ge n (l : bytes) : (length l <= n)%nat -> resize n l = l ++ repeat x00 (n - length l).
Proof. intros H. unfold resize. rewrite firstn_all2 by exact H. reflexivity. Qed.

Lemma prep_spec wout base B d0 dr obj :
  replay B (d0 :: dr) = Some obj ->
  match base with FromOut n _ => wout = B /\ n = len B | InPack _ data => data = B end ->
  exists Y m,
    prep wout base (d0 :: dr) (length (concat (d0 :: dr))) = Ok (B ++ Y ++ concat (d0 :: dr), infos_of O (d0 :: dr), m) /\
    (length B + length Y = m + m)%nat /\ (length B <= m)%nat /\
    Forall (fun d => bsz d <= N.of_nat m /\ rsz d <= N.of_nat m) (d0 :: dr).
Proof.
  intros Hr Hbase. set (ds := d0 :: dr) in *. set (T := length (concat ds)).
  pose proof (replay_hdr_ok _ _ _ Hr) as Hok.
  destruct (replay_first _ _ _ _ Hr) as [Hb0 Hnz].
  set (big := maxsizes 0 ds). set (m := N.to_nat big).
  pose proof (maxsizes_bound ds 0) as Hbound. fold big in Hbound.
  assert (Hb : Forall (fun d => bsz d <= N.of_nat m /\ rsz d <= N.of_nat m) ds).
  { eapply Forall_impl; [|exact Hbound]. intros d [A1 A2]. unfold m. lia. }
  assert (HB : (length B <= m)%nat).
  { inversion Hbound as [|? ? [A1 _] _]; subst. unfold m, len in *. lia. }
  assert (Hm : (0 < m)%nat).
  { inversion Hbound as [|? ? [A1 A2] _]; subst. unfold m. lia. }
  set (preB := match base with FromOut _ _ => B | InPack _ _ => [] end).
  assert (Hpre : (length preB <= m)%nat) by (unfold preB; destruct base; cbn [length]; lia).
  unfold prep.
  set (dstart := match base with FromOut n _ => N.to_nat n | InPack _ _ => O end).
  assert (Hds : dstart = length preB).
  { unfold dstart, preB. destruct base as [n k|k data]; [|reflexivity]. destruct Hbase as [_ ->]. unfold len. lia. }
  assert (Hout2 : firstn dstart (resize (dstart + T) wout) = preB).
  { unfold preB, dstart. destruct base as [n k|k data]; [|reflexivity].
    destruct Hbase as [-> ->]. replace (N.to_nat (len B)) with (length B) by (unfold len; lia).
    rewrite resize_ge by lia. apply firstn_prefix. reflexivity. }
  fold T. rewrite Hout2. rewrite Hds.
  rewrite (scan_spec ds preB O 0 Hok). fold big. fold m.
  assert (L2 : length (preB ++ concat ds) = (length preB + T)%nat) by (rewrite app_length; reflexivity).
  rewrite (resize_ge (m + m + T)) by lia. rewrite L2.
  set (Z := repeat x00 (m + m + T - (length preB + T))).
  assert (LZ : length Z = (m + m - length preB)%nat) by (unfold Z; rewrite repeat_length; lia).
  destruct (Nat.ltb_spec (length preB) (m + m)) as [_|Hc]; [|lia]. cbn [obind].
  (* the rescued instructions *)
  assert (E1 : firstn T (skipn (length preB) ((preB ++ concat ds) ++ Z)) = concat ds).
  { rewrite <- app_assoc. rewrite skipn_app, skipn_all, Nat.sub_diag. cbn [app skipn].
    apply firstn_prefix. reflexivity. }
  rewrite E1.
  set (X := firstn (m + m) ((preB ++ concat ds) ++ Z)).
  assert (LX : length X = (m + m)%nat).
  { unfold X. rewrite firstn_length, !app_length. fold T. lia. }
  assert (PX : firstn (length preB) X = preB).
  { unfold X. rewrite firstn_firstn. replace (Nat.min (length preB) (m + m)) with (length preB) by lia.
    rewrite <- app_assoc. apply firstn_prefix. reflexivity. }
  exists (skipn (length B) X), m.
  assert (LY : (length B + length (skipn (length B) X) = m + m)%nat) by (rewrite skipn_length; lia).
  split; [|auto].
  f_equal. f_equal. f_equal.
  destruct base as [n k|k data].
  - (* the base object is already at the front *)
    unfold preB in PX. rewrite app_assoc. f_equal. rewrite <- (firstn_skipn (length B) X) at 1. rewrite PX. reflexivity.
  - subst data. unfold inflate_into. rewrite app_length, LX.
    rewrite firstn_all2 by lia. rewrite skipn_app. replace (length B - length X)%nat with O by lia.
    cbn [skipn]. reflexivity.
Qed.

Lemma object_at_mono : forall f f' p i x, object_at f p i = Some x -> (f <= f')%nat -> object_at f' p i = Some x.
Proof.
  induction f as [|f IH]; intros f' p i x H Hle; [discriminate|].
  destruct f' as [|f']; [lia|]. cbn [object_at] in *.
  destruct (pnth p i) as [e|]; [|discriminate]. destruct (pe_kind e) as [k|b|k bd]; try exact H.
  destruct (object_at f p b) as [[k base]|] eqn:E; [|discriminate].
  rewrite (IH f' p b (k, base) E) by lia. exact H.
Qed.

Section Exact.
  Variable C : Type.
  Variable cget : C -> N -> C * option hit.
  Variable cput : C -> N -> bytes -> N -> N -> outcome C err.
  (* the contract: a family of invariants "every stored value satisfies P for its key" *)
  Variable cinv : (N -> hit -> Prop) -> C -> Prop.
  Hypothesis Hget : forall P c k c' r, cinv P c -> cget c k = (c', r) ->
    cinv P c' /\ (forall h, r = Some h -> P k h).
  Hypothesis Hput : forall P c k d kind csz, cinv P c -> P k (kind, csz, d) ->
    exists c', cput c k d kind csz = Ok c' /\ cinv P c'.
  Variable p : pack.

  (* cache coherence: what is stored under an entry is the object the entry denotes *)
  Definition Coh : N -> hit -> Prop :=
    fun k h => object_of p k = Some (fst (fst h), snd h) /\ snd (fst h) = k.

  Definition sumlen (l : list (N * bytes)) : N := N.of_nat (length (concat (map snd l))).

  Lemma sumlen_snoc l k d : sumlen (l ++ [(k, d)]) = sumlen l + len d.
  Proof. unfold sumlen, len. rewrite map_app, concat_app, app_length. cbn [map concat snd]. rewrite app_nil_r. lia. Qed.

  Lemma walk_spec : forall f cur chain total c out kind obj,
    (f <= S (length p))%nat -> cinv Coh c -> object_at f p cur = Some (kind, obj) ->
    exists w newer B,
      walk C cget f p c out cur chain total = Ok w /\ cinv Coh (w_cache C w) /\
      w_chain C w = newer ++ chain /\ w_total C w = total + sumlen newer /\
      replay B (map snd newer) = Some obj /\ base_kind (w_base C w) = kind /\
      match w_base C w with
      | FromOut n _ => w_out C w = B /\ n = len B
      | InPack _ data => data = B
      end.
  Proof.
    induction f as [|f IH]; intros cur chain total c out kind obj Hf Hc Hobj; [discriminate|].
    pose proof (object_at_mono _ (S (length p)) _ _ _ Hobj Hf) as Hfull.
    cbn [object_at] in Hobj. cbn [walk].
    destruct (pnth p cur) as [e|] eqn:En; [|discriminate].
    (* a cache hit for the current entry, whatever kind of delta it is *)
    assert (Hhit : forall c1 k' csz d, cinv Coh c1 -> Coh cur (k', csz, d) ->
      exists w newer B,
        @Ok (walked C) err {| w_cache := c1; w_out := d; w_chain := chain; w_base := FromOut (len d) k'; w_total := total;
              w_consumed := if total =? 0 then Some csz else None |} = Ok w /\ cinv Coh (w_cache C w) /\
        w_chain C w = newer ++ chain /\ w_total C w = total + sumlen newer /\
        replay B (map snd newer) = Some obj /\ base_kind (w_base C w) = kind /\
        match w_base C w with FromOut n _ => w_out C w = B /\ n = len B | InPack _ data => data = B end).
    { intros c1 k' csz d Hc1 [Ho _]. cbn [fst snd] in Ho. unfold object_of in Ho. rewrite Hfull in Ho.
      injection Ho as <- <-. eexists. exists [], obj. split; [reflexivity|]. cbn.
      repeat split; try assumption. unfold sumlen. cbn. lia. }
    destruct (pe_kind e) as [k|b|k bd] eqn:Ek.
    - injection Hobj as <- <-. eexists. exists [], (pe_data e). split; [reflexivity|]. cbn.
      repeat split; try assumption. unfold sumlen. cbn. lia.
    - destruct (object_at f p b) as [[k base]|] eqn:Eb; [|discriminate].
      destruct (patch base (pe_data e)) as [w1|] eqn:Ep; [|discriminate]. injection Hobj as <- <-.
      destruct (cget c cur) as [c1 r] eqn:Eg. destruct (Hget Coh c cur c1 r Hc Eg) as [Hc1 Hr].
      destruct r as [[[k' csz] d]|].
      + apply Hhit; [exact Hc1 | apply Hr; reflexivity].
      + destruct (IH b ((cur, pe_data e) :: chain) (total + len (pe_data e)) c1 out k base) as
          (w & newer & B & E & I & Ech & Et & Erp & Ekd & Eb');
          [lia | exact Hc1 | exact Eb |].
        exists w, (newer ++ [(cur, pe_data e)]), B. split; [exact E|]. split; [exact I|].
        split; [rewrite Ech, <- app_assoc; reflexivity|].
        split; [rewrite Et, sumlen_snoc; lia|].
        split; [rewrite map_app, replay_app, Erp; cbn [map snd replay]; rewrite Ep; reflexivity|].
        split; assumption.
    - destruct (patch bd (pe_data e)) as [w1|] eqn:Ep; [|discriminate]. injection Hobj as <- <-.
      destruct (cget c cur) as [c1 r] eqn:Eg. destruct (Hget Coh c cur c1 r Hc Eg) as [Hc1 Hr].
      destruct r as [[[k' csz] d]|].
      + apply Hhit; [exact Hc1 | apply Hr; reflexivity].
      + eexists. exists [(cur, pe_data e)], bd. split; [reflexivity|]. cbn [w_cache w_chain w_total w_base w_out base_kind].
        split; [exact Hc1|]. split; [reflexivity|].
        split; [unfold sumlen, len; cbn [map snd concat]; rewrite app_nil_r; lia|].
        split; [cbn [map snd replay]; rewrite Ep; reflexivity|].
        split; [reflexivity|]. split; reflexivity.
  Qed.

  Lemma finish_eq i fs (w : walked C) : finish C cput i fs w =
    match w_chain C w with
    | [] =>
        match w_consumed C w with
        | Some csz =>
            Ok (w_cache C w, w_out C w,
                {| r_kind := base_kind (w_base C w); r_num_deltas := 0; r_decompressed := fs;
                   r_compressed := csz; r_object_size := fs |})
        | None => Panic
        end
    | chain =>
        ' (out5, is, m) <- prep (w_out C w) (w_base C w) (map snd chain) (N.to_nat (w_total C w)) ;;
        ' (b1', b2') <- apply_chain (firstn m out5) (firstn m (skipn m out5)) (skipn (m + m) out5) false is ;;
        let last := N.to_nat (last_result is) in
        let b1'' := if Nat.odd (length chain) then firstn last b2' ++ skipn last b1' else b1' in
        let out6 := firstn last (b1'' ++ b2' ++ skipn (m + m) out5) in
        c' <- cput (w_cache C w) i out6 (base_kind (w_base C w)) i ;;
        Ok (c', out6,
            {| r_kind := base_kind (w_base C w); r_num_deltas := N.of_nat (length chain); r_decompressed := fs;
               r_compressed := i; r_object_size := last_result is |})
    end.
  Proof.
    unfold finish, prep. destruct (w_chain C w) as [|c0 cr]; [reflexivity|].
    destruct (scan _ _ _ _ _) as [is biggest].
    destruct (Nat.ltb _ _); [reflexivity|]. destruct (_ && _); reflexivity.
  Qed.

  Lemma finish_spec (w : walked C) i fs B kind obj :
    w_chain C w <> [] ->
    replay B (map snd (w_chain C w)) = Some obj ->
    w_total C w = sumlen (w_chain C w) ->
    base_kind (w_base C w) = kind ->
    match w_base C w with FromOut n _ => w_out C w = B /\ n = len B | InPack _ data => data = B end ->
    cinv Coh (w_cache C w) -> object_of p i = Some (kind, obj) ->
    exists c' r, finish C cput i fs w = Ok (c', obj, r) /\ cinv Coh c' /\ r_kind r = kind /\ r_compressed r = i.
  Proof.
    intros Hne Hr Ht Hk Hbase Hc Ho. rewrite finish_eq.
    destruct (w_chain C w) as [|c0 cr] eqn:Ech; [congruence|].
    cbn [map] in Hr |- *.
    destruct (prep_spec (w_out C w) (w_base C w) B (snd c0) (map snd cr) obj Hr Hbase) as (Y & m & Ep & LY & LB & Hb).
    replace (N.to_nat (w_total C w)) with (length (concat (snd c0 :: map snd cr)))
      by (rewrite Ht; unfold sumlen; cbn [map]; lia).
    rewrite Ep. cbn [obind].
    set (ds := snd c0 :: map snd cr) in *.
    set (out5 := B ++ Y ++ concat ds).
    assert (L5 : length out5 = (m + m + length (concat ds))%nat) by (unfold out5; rewrite !app_length; lia).
    assert (E1 : firstn m out5 = B ++ firstn (m - length B) (Y ++ concat ds)).
    { unfold out5. rewrite firstn_app. rewrite firstn_all2 by lia. reflexivity. }
    assert (E3 : skipn (m + m) out5 = [] ++ concat ds ++ []).
    { unfold out5. rewrite app_assoc. rewrite skipn_app. rewrite skipn_all2 by (rewrite app_length; lia).
      rewrite app_length. replace (m + m - (length B + length Y))%nat with O by lia. cbn [skipn app].
      rewrite app_nil_r. reflexivity. }
    destruct (apply_chain_spec ds B obj m [] [] (firstn m out5) (firstn m (skipn m out5)) false
                (firstn (m - length B) (Y ++ concat ds)) Hr Hb) as (f' & s' & j' & Ea & La & Ls & Eo).
    { rewrite firstn_length. lia. }
    { rewrite firstn_length, skipn_length. lia. }
    { exact E1. }
    rewrite E3. cbn [length] in Ea. rewrite Ea. cbn [obind].
    assert (Elast : last_result (infos_of 0 ds) = len obj).
    { apply (last_result_spec ds B obj O Hr). discriminate. }
    rewrite Elast. replace (N.to_nat (len obj)) with (length obj) by (unfold len; lia).
    assert (Lobj : (length obj <= m)%nat).
    { cbn [xorb] in Eo. destruct (Nat.odd (length ds)); [rewrite <- Ls|rewrite <- La]; rewrite Eo, app_length; lia. }
    assert (Eodd : Nat.odd (length (c0 :: cr)) = Nat.odd (length ds)).
    { unfold ds. cbn [length]. rewrite map_length. reflexivity. }
    rewrite Eodd. cbn [xorb] in Eo.
    assert (E6 : firstn (length obj)
               ((if Nat.odd (length ds) then firstn (length obj) s' ++ skipn (length obj) f' else f') ++
                s' ++ [] ++ concat ds ++ []) = obj).
    { destruct (Nat.odd (length ds)); rewrite Eo.
      - rewrite (firstn_prefix obj j') by reflexivity. rewrite <- app_assoc. apply firstn_prefix. reflexivity.
      - rewrite <- app_assoc. apply firstn_prefix. reflexivity. }
    rewrite E6.
    destruct (Hput Coh (w_cache C w) i obj (base_kind (w_base C w)) i Hc) as (c' & Ec & Ic).
    { unfold Coh. cbn [fst snd]. rewrite Hk. split; [exact Ho | reflexivity]. }
    rewrite Ec. cbn [obind]. eexists. eexists. split; [reflexivity|]. cbn [r_kind r_compressed]. auto.
  Qed.

  (* File::decode_entry: with a coherent cache the result is the object the entry denotes, the kind is
     right, the compressed size reported is the requested entry's, and the cache stays coherent *)
  Lemma decode_exact_lemma c out i kind obj :
    cinv Coh c -> object_of p i = Some (kind, obj) ->
    exists c' r, decode_entry C cget cput p (c, out) i = Ok (c', obj, r) /\
                 cinv Coh c' /\ r_kind r = kind /\ r_compressed r = i.
  Proof.
    intros Hc Ho. pose proof Ho as Ho'. unfold object_of in Ho. cbn [object_at] in Ho.
    unfold decode_entry. destruct (pnth p i) as [e|] eqn:En; [|discriminate]. cbn [fst snd].
    destruct (pe_kind e) as [k|b|k bd] eqn:Ek.
    - injection Ho as <- <-. eexists. eexists. split; [reflexivity|]. cbn. auto.
    - (* first iteration of the walk by hand: hit on the requested entry, or a chain of at least one delta *)
      cbn [walk]. rewrite En, Ek.
      destruct (cget c i) as [c1 r] eqn:Eg. destruct (Hget Coh c i c1 r Hc Eg) as [Hc1 Hr].
      destruct r as [[[k' csz] d]|].
      + destruct (Hr _ eq_refl) as [Hd Hcsz]. cbn [fst snd] in Hd, Hcsz. rewrite Ho' in Hd. injection Hd as <- <-.
        cbn [obind]. rewrite finish_eq. cbn. eexists. eexists. split; [reflexivity|]. cbn. auto.
      + destruct (object_at (length p) p b) as [[k base]|] eqn:Eb; [|discriminate].
        destruct (patch base (pe_data e)) as [w1|] eqn:Ep; [|discriminate]. injection Ho as <- <-.
        destruct (walk_spec (length p) b [(i, pe_data e)] (0 + len (pe_data e)) c1 out k base) as
          (w & newer & B & E & I & Ech & Et & Erp & Ekd & Eb'); [lia | exact Hc1 | exact Eb |].
        rewrite E. cbn [obind].
        apply (finish_spec w i (len (pe_data e)) B k w1).
        * rewrite Ech. destruct newer; discriminate.
        * rewrite Ech, map_app, replay_app, Erp. cbn [map snd replay]. rewrite Ep. reflexivity.
        * rewrite Et, Ech, sumlen_snoc. lia.
        * exact Ekd.
        * exact Eb'.
        * exact I.
        * exact Ho'.
    - cbn [walk]. rewrite En, Ek.
      destruct (cget c i) as [c1 r] eqn:Eg. destruct (Hget Coh c i c1 r Hc Eg) as [Hc1 Hr].
      destruct r as [[[k' csz] d]|].
      + destruct (Hr _ eq_refl) as [Hd Hcsz]. cbn [fst snd] in Hd, Hcsz. rewrite Ho' in Hd. injection Hd as <- <-.
        cbn [obind]. rewrite finish_eq. cbn. eexists. eexists. split; [reflexivity|]. cbn. auto.
      + destruct (patch bd (pe_data e)) as [w1|] eqn:Ep; [|discriminate]. injection Ho as <- <-.
        cbn [obind].
        apply (finish_spec _ i (len (pe_data e)) bd k w1); cbn [w_chain w_total w_base w_out w_cache base_kind].
        * discriminate.
        * cbn [map snd replay]. rewrite Ep. reflexivity.
        * unfold sumlen, len. cbn [map snd concat]. rewrite app_nil_r. lia.
        * reflexivity.
        * split; reflexivity.
        * exact Hc1.
        * exact Ho'.
  Qed.
End Exact.
