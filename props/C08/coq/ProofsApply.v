(* C08 — delta::apply returns Ok only with a completely written target (as props/C07 apply_total). *)
From Coq Require Import Lia ZifyBool ZifyNat ZifyN.
From GixV.Base Require Import Bytes Outcome.
From GixV.C08 Require Import Model.
Local Open Scope N_scope.

Definition good (room : nat) (o : outcome bytes err) : Prop :=
  match o with Ok r => length r = room | Panic => True | _ => False end.

Lemma opt_byte_cases fl d :
  (exists v d', opt_byte fl d = Ok (v, d') /\ (length d' <= length d)%nat) \/ opt_byte fl d = Panic.
Proof.
  destruct fl; cbn [opt_byte].
  - destruct d as [|x d']; [right; reflexivity|]. left. exists (b2N x), d'. split; [reflexivity|cbn; lia].
  - left. exists 0, d. split; [reflexivity|lia].
Qed.

Lemma take_room_le room w : (length (take_room room w) <= room)%nat.
Proof. unfold take_room. rewrite firstn_length. lia. Qed.

Lemma good_step room w o : good (room - length (take_room room w)) o ->
  good room (obind o (fun r => Ok (take_room room w ++ r))).
Proof.
  pose proof (take_room_le room w). destruct o; cbn [obind good]; auto.
  intros E. rewrite app_length. lia.
Qed.

Lemma apply_loop_good : forall f base room data, (length data < f)%nat ->
  good room (apply_loop f base room data).
Proof.
  induction f as [|f IH]; intros base room data Hf; [lia|].
  cbn [apply_loop]. destruct data as [|x d].
  - destruct (Nat.eqb_spec room 0); cbn [good]; [subst; reflexivity | exact I].
  - cbn [length] in Hf. destruct (128 <=? b2N x).
    + destruct (opt_byte_cases (N.testbit (b2N x) 0) d) as [(v0 & d0 & E0 & L0)|E0]; rewrite E0; cbn [obind good]; [|exact I].
      destruct (opt_byte_cases (N.testbit (b2N x) 1) d0) as [(v1 & d1 & E1 & L1)|E1]; rewrite E1; cbn [obind good]; [|exact I].
      destruct (opt_byte_cases (N.testbit (b2N x) 2) d1) as [(v2 & d2 & E2 & L2)|E2]; rewrite E2; cbn [obind good]; [|exact I].
      destruct (opt_byte_cases (N.testbit (b2N x) 3) d2) as [(v3 & d3 & E3 & L3)|E3]; rewrite E3; cbn [obind good]; [|exact I].
      destruct (opt_byte_cases (N.testbit (b2N x) 4) d3) as [(v4 & d4 & E4 & L4)|E4]; rewrite E4; cbn [obind good]; [|exact I].
      destruct (opt_byte_cases (N.testbit (b2N x) 5) d4) as [(v5 & d5 & E5 & L5)|E5]; rewrite E5; cbn [obind good]; [|exact I].
      destruct (opt_byte_cases (N.testbit (b2N x) 6) d5) as [(v6 & d6 & E6 & L6)|E6]; rewrite E6; cbn [obind good]; [|exact I].
      match goal with |- good _ (if ?c then _ else Panic) => destruct c end; [|exact I].
      apply good_step. apply IH. lia.
    + destruct (b2N x =? 0); [exact I|]. destruct (b2N x <=? len d); [|exact I].
      apply good_step. apply IH. rewrite skipn_length. lia.
Qed.

Lemma apply_ok_length base n data r : apply base n data = Ok r -> length r = n.
Proof.
  pose proof (apply_loop_good (S (length data)) base n data (Nat.lt_succ_diag_r _)) as G.
  unfold apply. intros E. rewrite E in G. exact G.
Qed.
