(* C08 — request sequences, the concrete caches, and the object cache of gix_odb::Cache. *)
From Coq Require Import Lia ZifyBool ZifyNat ZifyN.
From GixV.Base Require Import Bytes Outcome.
From GixV.C08 Require Import Model Spec ProofsApply ProofsBuf ProofsLru ProofsDecode.
Local Open Scope N_scope.
Local Open Scope outcome_scope.

(* a sequence of decode_entry calls sharing the cache and the output buffer *)
Fixpoint run_seq (C : Type) (cget : C -> N -> C * option hit) (cput : C -> N -> bytes -> N -> N -> outcome C err)
         (p : pack) (st : C * bytes) (reqs : list N) : outcome (list (N * bytes) * C) err :=
  match reqs with
  | [] => Ok ([], fst st)
  | i :: r =>
      ' (c', out', x) <- decode_entry C cget cput p st i ;;
      ' (rest, c'') <- run_seq C cget cput p (c', out') r ;;
      Ok ((r_kind x, out') :: rest, c'')
  end.

Definition cache_contract (C : Type) (cget : C -> N -> C * option hit)
           (cput : C -> N -> bytes -> N -> N -> outcome C err)
           (cinv : (N -> hit -> Prop) -> C -> Prop) : Prop :=
  (forall P c k c' r, cinv P c -> cget c k = (c', r) -> cinv P c' /\ (forall h, r = Some h -> P k h)) /\
  (forall P c k d kind csz, cinv P c -> P k (kind, csz, d) -> exists c', cput c k d kind csz = Ok c' /\ cinv P c').

Lemma decode_exact_any C cget cput cinv : cache_contract C cget cput cinv ->
  forall p c out i kind obj,
  cinv (Coh p) c -> object_of p i = Some (kind, obj) ->
  exists c' r, decode_entry C cget cput p (c, out) i = Ok (c', obj, r) /\
               cinv (Coh p) c' /\ r_kind r = kind /\ r_compressed r = i.
Proof. intros [Hg Hp] p c out i kind obj. apply (decode_exact_lemma C cget cput cinv Hg Hp). Qed.

Lemma decode_sequence_any C cget cput cinv : cache_contract C cget cput cinv ->
  forall p reqs c out objs,
  cinv (Coh p) c -> map (object_of p) reqs = map Some objs ->
  exists c', run_seq C cget cput p (c, out) reqs = Ok (objs, c') /\ cinv (Coh p) c'.
Proof.
  intros HC p reqs. induction reqs as [|i r IH]; intros c out objs Hc Hm.
  - destruct objs; [|discriminate]. exists c. split; [reflexivity | exact Hc].
  - destruct objs as [|[kind obj] objs]; [discriminate|]. cbn [map] in Hm. injection Hm as Ho Hm.
    destruct (decode_exact_any C cget cput cinv HC p c out i kind obj Hc Ho) as (c' & x & E & I & K & _).
    cbn [run_seq]. rewrite E. cbn [obind].
    destruct (IH c' obj objs I Hm) as (c'' & E' & I'). rewrite E'. cbn [obind]. rewrite K.
    exists c''. split; [reflexivity | exact I'].
Qed.

(* the three delta caches of gix-pack satisfy the contract, in debug and release builds *)
Lemma concrete_contract bd : cache_contract cache cache_get (cache_put bd) cache_inv.
Proof.
  split.
  - intros P c k c' r. apply cache_get_contract.
  - intros P c k d kind csz. apply cache_put_contract.
Qed.

Lemma new_never_inv P : cache_inv P CNever.
Proof. exact I. Qed.
Lemma new_static_inv P size limit : 1 <= size -> cache_inv P (CStatic (slru_new size limit)).
Proof. intros H. split; [apply sinv_new; exact H | constructor]. Qed.
Lemma new_mem_inv P cap extra : cache_inv P (CMem (mcache_new cap extra)).
Proof. constructor. Qed.

(* ---- gix_odb::Cache::try_find_cached ------------------------------------------------------------- *)
Definition CohO (p : pack) : N -> hit -> Prop := fun k h => object_of p k = Some (fst (fst h), snd h).
Definition oc_inv (p : pack) (oc : option mcache) : Prop :=
  match oc with Some m => entries_ok (CohO p) (m_list m) | None => True end.

Lemma find_cached_exact_any C cget cput cinv : cache_contract C cget cput cinv ->
  forall p oc c out i kind obj,
  oc_inv p oc -> cinv (Coh p) c -> object_of p i = Some (kind, obj) ->
  exists oc' c', find_cached C cget cput p (oc, c, out) i = Ok (oc', c', obj, kind) /\
                 oc_inv p oc' /\ cinv (Coh p) c'.
Proof.
  intros HC p oc c out i kind obj Ho Hc Hobj. unfold find_cached.
  destruct oc as [m|].
  - destruct (mcache_get m i) as [m' r] eqn:G.
    destruct (mcache_get_inv (CohO p) m i m' r Ho G) as [Im Hr].
    destruct r as [[[k csz] d]|].
    + specialize (Hr _ eq_refl). unfold CohO in Hr. cbn [fst snd] in Hr. rewrite Hobj in Hr. injection Hr as <- <-.
      exists (Some m'), c. split; [reflexivity|]. split; [exact Im | exact Hc].
    + destruct (decode_exact_any C cget cput cinv HC p c out i kind obj Hc Hobj) as (c' & x & E & I & K & _).
      rewrite E. cbn [obind]. rewrite K. eexists. exists c'. split; [reflexivity|]. split; [|exact I].
      cbn [oc_inv]. apply mcache_put_inv; [exact Im|]. unfold CohO. cbn [fst snd]. exact Hobj.
  - destruct (decode_exact_any C cget cput cinv HC p c out i kind obj Hc Hobj) as (c' & x & E & I & K & _).
    rewrite E. cbn [obind]. rewrite K. exists None, c'. split; [reflexivity|]. split; [exact Logic.I | exact I].
Qed.
