(* C08 — transcript printer: the same observable line the Rust harness prints for a case.
   cases:
     lru <size> <limit> <op>*            StaticLinkedList::<size>::new(limit), then the ops
                                          op = 'p' key kind csz data… | 'g' key   (one field per op)
     dec <cfgs> <requests> (<hdr> <data> <ext> <id>)*
                                          a pack of entries, a list of cache configurations (comma
                                          separated) and a request sequence (one byte per request: entry index);
                                          the sequence is run once per configuration with a fresh cache and buffer
        hdr = b<kind> | o<base index> | r<base index> | x<kind>      (x: ext = base object, out of pack)
        cfg = [o<object cache bytes>+] ( n | s<size>:<limit> | m<bytes> )
     mem <cap> <op>*                     lru::MemoryCappedHashmap::new(cap) through the same put/get ops
     mdec <cfgs> <requests> <k> <pids> (<hdr> <data> <ext> <id>)*
                                          like dec, but the entry list is k packs of equal length (entry
                                          indices are global, bases stay inside their pack) with distinct
                                          pack ids (indices into the harness' table), sharing caches and buffer.
                                          The key byte of lru/mem ops and the entry index of dec/mdec stand for
                                          the full (pack_id, offset) pair: the harness maps them injectively to
                                          ids/offsets that differ only in high bits.
   mode "spec": the objects the requests denote (Spec.object_of), compared with git. *)
From GixV.Base Require Import Bytes Outcome.
From GixV.C08 Require Import Model Spec.
Local Open Scope N_scope.

Definition dec (n : N) : bytes := N_to_dec n.

Fixpoint join (sep : bytes) (ls : list bytes) : bytes :=
  match ls with
  | [] => []
  | [x] => x
  | x :: r => x ++ sep ++ join sep r
  end.

Fixpoint split_on_acc (sep : byte) (l cur : bytes) : list bytes :=
  match l with
  | [] => [rev cur]
  | x :: r => if beqb x sep then rev cur :: split_on_acc sep r [] else split_on_acc sep r (x :: cur)
  end.
Definition split_on (sep : byte) (l : bytes) : list bytes := split_on_acc sep l [].

Definition numv (l : bytes) : N := match dec_to_N l with Some v => v | None => 0 end.

(* a position-sensitive checksum without division: a = sum of (byte+1), b = sum of the running a *)
Fixpoint sums (l : bytes) (a b : N) : N * N :=
  match l with
  | [] => (a, b)
  | x :: r => let a' := a + b2N x + 1 in sums r a' (b + a')
  end.
Definition digest (l : bytes) : bytes :=
  if Nat.leb (length l) 24 then bs "=" ++ hex_encode l
  else let '(a, b) := sums l 0 0 in bs "#" ++ dec a ++ bs "." ++ dec b.

(* ---- lru ---------------------------------------------------------------------------------- *)
Definition size_ok (n : N) : bool :=
  (n =? 1) || (n =? 2) || (n =? 3) || (n =? 4) || (n =? 10) || (n =? 64).

Definition show_state (s : slru) : bytes :=
  dec (s_used s) ++ bs ":" ++ dec (count (s_inner s)) ++ bs ":" ++ dec (s_flen s) ++ bs ":" ++ dec (s_fcap s).

Definition show_hit (r : option hit) : bytes :=
  match r with
  | None => bs "-"
  | Some (k, csz, d) => dec k ++ bs ":" ++ dec csz ++ bs ":" ++ digest d
  end.

Fixpoint run_lru (bd : build) (s : slru) (ops : list bytes) (acc : list bytes) : outcome (list bytes) err :=
  match ops with
  | [] => Ok (rev acc)
  | op :: r =>
      match op with
      | x70 :: key :: kind :: csz :: data =>
          match slru_put bd s (b2N key) data (b2N kind) (b2N csz) with
          | Ok s' => run_lru bd s' r ((bs "p" ++ show_state s') :: acc)
          | Err e => Err e
          | Panic => Panic
          | OutOfFuel => OutOfFuel
          end
      | x67 :: key :: _ =>
          let '(s', h) := slru_get s (b2N key) in
          run_lru bd s' r ((bs "g" ++ show_hit h ++ bs "/" ++ show_state s') :: acc)
      | _ => run_lru bd s r (bs "?" :: acc)
      end
  end.

Fixpoint run_mem (m : mcache) (ops : list bytes) (acc : list bytes) : list bytes :=
  match ops with
  | [] => rev acc
  | op :: r =>
      match op with
      | x70 :: key :: kind :: csz :: data =>
          run_mem (mcache_put m (b2N key) data (b2N kind) (b2N csz)) r (bs "p" :: acc)
      | x67 :: key :: _ =>
          let '(m', h) := mcache_get m (b2N key) in
          run_mem m' r ((bs "g" ++ show_hit h) :: acc)
      | _ => run_mem m r (bs "?" :: acc)
      end
  end.

(* ---- dec ---------------------------------------------------------------------------------- *)
Definition kind_ok (k : N) : bool := (1 <=? k) && (k <=? 4).

(* both size headers of a delta are at most two bytes long and end inside the delta *)
Definition short_varint (d : bytes) : option bytes :=
  match d with
  | a :: r =>
      if b2N a <? 128 then Some r
      else match r with
           | b :: r2 => if b2N b <? 128 then Some r2 else None
           | [] => None
           end
  | [] => None
  end.
Definition delta_hdr_ok (d : bytes) : bool :=
  match short_varint d with
  | Some r => match short_varint r with Some _ => true | None => false end
  | None => false
  end.

(* entries from (hdr, data, ext, id) field groups; None = malformed case *)
Fixpoint parse_entries (idx : N) (fs : list bytes) : option pack :=
  match fs with
  | [] => Some []
  | h :: d :: x :: _id :: r =>
      let e :=
        match h with
        | x62 :: k => if kind_ok (numv k) then Some {| pe_kind := EBase (numv k); pe_data := d |} else None
        | x6f :: b => if (numv b <? idx) && delta_hdr_ok d
                      then Some {| pe_kind := EDelta (numv b); pe_data := d |} else None
        | x72 :: b => if delta_hdr_ok d then Some {| pe_kind := EDelta (numv b); pe_data := d |} else None
        | x78 :: k => if kind_ok (numv k) && delta_hdr_ok d
                      then Some {| pe_kind := EExt (numv k) x; pe_data := d |} else None
        | _ => None
        end in
      match e, parse_entries (idx + 1) r with
      | Some e, Some p => Some (e :: p)
      | _, _ => None
      end
  | _ => None
  end.

Inductive cfg := CfgNever | CfgStatic (size limit : N) | CfgMem (cap : N).

Definition parse_inner (c : bytes) : option cfg :=
  match c with
  | [x6e] => Some CfgNever
  | x73 :: r =>
      match split_on x3a r with
      | [a; b] => if size_ok (numv a) then Some (CfgStatic (numv a) (numv b)) else None
      | _ => None
      end
  | x6d :: r => if 1 <=? numv r then Some (CfgMem (numv r)) else None
  | _ => None
  end.

(* (use the gix_odb::Cache wrapper?, object cache capacity (0 = none), delta cache) *)
Definition parse_cfg (c : bytes) : option (option N * cfg) :=
  match c with
  | x6f :: r =>
      match split_on x2b r with
      | [a; b] => match parse_inner b with Some i => Some (Some (numv a), i) | None => None end
      | _ => None
      end
  | _ => match parse_inner c with Some i => Some (None, i) | None => None end
  end.

Fixpoint parse_cfgs (cs : list bytes) : option (list (option N * cfg)) :=
  match cs with
  | [] => Some []
  | c :: r => match parse_cfg c, parse_cfgs r with
              | Some x, Some l => Some (x :: l)
              | _, _ => None
              end
  end.

Definition new_cache (c : cfg) : cache :=
  match c with
  | CfgNever => CNever
  | CfgStatic size limit => CStatic (slru_new size limit)
  | CfgMem cap => CMem (mcache_new cap 0)
  end.

Definition show_res (i : N) (out : bytes) (r : res) : bytes :=
  dec (r_kind r) ++ bs ":" ++ dec (r_num_deltas r) ++ bs ":" ++ dec (r_decompressed r) ++ bs ":" ++
  (if r_compressed r =? i then bs "1" else bs "0") ++ bs ":" ++ dec (r_object_size r) ++ bs ":" ++ digest out.

Fixpoint run_reqs (bd : build) (p : pack) (st : cache * bytes) (reqs : list N) (acc : list bytes)
  : outcome (list bytes) err :=
  match reqs with
  | [] => Ok (rev acc)
  | i :: r =>
      match decode_entry cache cache_get (cache_put bd) p st i with
      | Ok (c', out', x) => run_reqs bd p (c', out') r (show_res i out' x :: acc)
      | Err _ => run_reqs bd p st r (bs "err" :: acc)
      | Panic => Panic
      | OutOfFuel => OutOfFuel
      end
  end.

Fixpoint run_odb (bd : build) (p : pack) (st : option mcache * cache * bytes) (reqs : list N)
         (acc : list bytes) : outcome (list bytes) err :=
  match reqs with
  | [] => Ok (rev acc)
  | i :: r =>
      match find_cached cache cache_get (cache_put bd) p st i with
      | Ok (oc, c', out', k) => run_odb bd p (oc, c', out') r ((dec k ++ bs ":" ++ digest out') :: acc)
      | Err _ => run_odb bd p st r (bs "err" :: acc)
      | Panic => Panic
      | OutOfFuel => OutOfFuel
      end
  end.

Definition run_cfg (bd : build) (p : pack) (reqs : list N) (c : option N * cfg) : outcome bytes err :=
  match c with
  | (None, i) => omap (join (bs ",")) (run_reqs bd p (new_cache i, []) reqs [])
  | (Some oc, i) =>
      let m := if oc =? 0 then None else Some (mcache_new oc 52) in
      omap (join (bs ",")) (run_odb bd p (m, new_cache i, []) reqs [])
  end.

Fixpoint run_cfgs (bd : build) (p : pack) (reqs : list N) (cs : list (option N * cfg)) (acc : list bytes)
  : outcome (list bytes) err :=
  match cs with
  | [] => Ok (rev acc)
  | c :: r =>
      match run_cfg bd p reqs c with
      | Ok l => run_cfgs bd p reqs r (l :: acc)
      | Err e => Err e
      | Panic => Panic
      | OutOfFuel => OutOfFuel
      end
  end.

Definition show_spec (p : pack) (i : N) : bytes :=
  match object_of p i with
  | Some (k, d) => dec k ++ bs ":" ++ digest d
  | None => bs "none"
  end.

Definition show_lines (o : outcome (list bytes) err) : bytes :=
  match o with
  | Ok l => join (bs " ") l
  | Err _ => bs "err"
  | Panic => bs "PANIC"
  | OutOfFuel => bs "HANG"
  end.

(* bases stay inside their pack: entries [i] and [b] are in the same segment of length [seg] *)
Fixpoint seg_ok (seg i : N) (p : pack) : bool :=
  match p with
  | [] => true
  | e :: r =>
      (match pe_kind e with
       | EDelta b => (b / seg =? i / seg)
       | _ => true
       end) && seg_ok seg (i + 1) r
  end.

Fixpoint distinct_bytes (l : bytes) : bool :=
  match l with
  | [] => true
  | x :: r => negb (existsb (beqb x) r) && distinct_bytes r
  end.

Definition run_dec (spec : bool) (bd : build) (cfgsf reqsf : bytes) (p : pack) : bytes :=
  match parse_cfgs (split_on x2c cfgsf) with
  | Some cs =>
      let reqs := map b2N reqsf in
      if forallb (fun i => i <? N.of_nat (length p)) reqs then
        if spec then join (bs ",") (map (show_spec p) reqs)
        else show_lines (run_cfgs bd p reqs cs [])
      else bs "invalid"
  | None => bs "invalid"
  end.

Definition run_model (spec : bool) (bd : build) (fs : list bytes) : bytes :=
  let op := nth_field 0 fs in
  if bytes_eqb op (bs "lru") then
    let size := field_N 1 fs in
    if size_ok size then show_lines (run_lru bd (slru_new size (field_N 2 fs)) (skipn 3 fs) [])
    else bs "invalid"
  else if bytes_eqb op (bs "mem") then
    let cap := field_N 1 fs in
    if 1 <=? cap then join (bs " ") (run_mem (mcache_new cap 0) (skipn 2 fs) [])
    else bs "invalid"
  else if bytes_eqb op (bs "dec") then
    match parse_entries 0 (skipn 3 fs) with
    | Some p => run_dec spec bd (nth_field 1 fs) (nth_field 2 fs) p
    | None => bs "invalid"
    end
  else if bytes_eqb op (bs "mdec") then
    match parse_entries 0 (skipn 5 fs) with
    | Some p =>
        let k := field_N 3 fs in
        let pids := nth_field 4 fs in
        let n := N.of_nat (length p) in
        if (1 <=? k) && (k <=? 4) && (1 <=? n) && (n mod k =? 0) && (len pids =? k)
           && forallb (fun b => b2N b <? 16) pids && distinct_bytes pids && seg_ok (n / k) 0 p
        then run_dec spec bd (nth_field 1 fs) (nth_field 2 fs) p
        else bs "invalid"
    | None => bs "invalid"
    end
  else bs "?".

Definition run (fs : list bytes) : bytes :=
  match fs with
  | mode :: rest =>
      if bytes_eqb mode (bs "spec") then run_model true Debug rest
      else if bytes_eqb mode (bs "model-release") then run_model false Release rest
      else run_model false Debug rest
  | [] => bs "?"
  end.
