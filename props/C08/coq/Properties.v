(* C08 — theorems (placeholder, filled in below) *)
From GixV.Base Require Import Bytes Outcome.
From GixV.C08 Require Import Model Spec.
