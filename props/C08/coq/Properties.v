(* C08 — theorems.  Every name here is checked with Print Assumptions (no axioms). *)
From GixV.Base Require Import Bytes Outcome.
From GixV.C08 Require Import Model Spec ProofsLru ProofsBuf ProofsDecode ProofsSeq.
Local Open Scope N_scope.

(* ---- decoding is exact whatever the cache --------------------------------------------------------- *)

(* For EVERY cache implementation (type C, get, put) that obeys the cache contract — there is a family
   of invariants "every stored value satisfies P for its key" kept by get and put, get only returns
   values satisfying P for the requested key, put does not panic — every pack p, every state of the
   caller's output buffer, every entry i that denotes an object (Spec.object_of: git's unpack_entry /
   patch_delta semantics): if the cache is coherent with p, File::decode_entry (chain walk with the cache
   shortcut, both passes over the [source][target][instructions] buffer, the odd/even swap, the final
   copy and truncate, cache.put) returns exactly that object and its kind, reports the compressed size of
   the requested entry, and leaves the cache coherent. *)
Theorem decode_exact : forall C cget cput cinv, cache_contract C cget cput cinv ->
  forall p c out i kind obj,
  cinv (Coh p) c -> object_of p i = Some (kind, obj) ->
  exists c' r, decode_entry C cget cput p (c, out) i = Ok (c', obj, r) /\
               cinv (Coh p) c' /\ r_kind r = kind /\ r_compressed r = i.
Proof. exact decode_exact_any. Qed.

(* ... lifted to every request sequence (any order, any repetition) over one cache and one buffer *)
Theorem decode_sequence_exact : forall C cget cput cinv, cache_contract C cget cput cinv ->
  forall p reqs c out objs,
  cinv (Coh p) c -> map (object_of p) reqs = map Some objs ->
  exists c', run_seq C cget cput p (c, out) reqs = Ok (objs, c') /\ cinv (Coh p) c'.
Proof. exact decode_sequence_any. Qed.

(* Never, StaticLinkedList<SIZE> (any SIZE >= 1, any memory limit) and MemoryCappedHashmap (any capacity)
   obey the contract in debug and release builds, and start coherent with every pack *)
Theorem delta_caches_refine_contract : forall bd, cache_contract cache cache_get (cache_put bd) cache_inv.
Proof. exact concrete_contract. Qed.

Theorem fresh_caches_coherent : forall P,
  cache_inv P CNever /\
  (forall size limit, 1 <= size -> cache_inv P (CStatic (slru_new size limit))) /\
  (forall cap extra, cache_inv P (CMem (mcache_new cap extra))).
Proof. intros P. split; [apply new_never_inv | split; [apply new_static_inv | apply new_mem_inv]]. Qed.

(* gix_odb::Cache::try_find_cached: an object cache (MemoryCappedHashmap keyed by object) in front of the
   pack lookup returns the same exact object, with or without delta cache, and stays coherent *)
Theorem find_cached_exact : forall C cget cput cinv, cache_contract C cget cput cinv ->
  forall p oc c out i kind obj,
  oc_inv p oc -> cinv (Coh p) c -> object_of p i = Some (kind, obj) ->
  exists oc' c', find_cached C cget cput p (oc, c, out) i = Ok (oc', c', obj, kind) /\
                 oc_inv p oc' /\ cinv (Coh p) c'.
Proof. exact find_cached_exact_any. Qed.

(* ---- the static LRU's memory accounting ------------------------------------------------------------ *)

(* StaticLinkedList<SIZE>::new(limit) followed by ANY sequence of put/get, debug or release build:
   no step panics (the usize subtractions never underflow), mem_used is exactly the sum of the
   capacities of all vectors held (entries + free list), it exceeds the limit by less than the minimal
   capacity of a vector (8), and at most SIZE entries are held. *)
Theorem static_lru_mem_invariant : forall bd size limit ops, 1 <= size ->
  exists s, run_ops bd (slru_new size limit) ops = Ok s /\
            s_used s = caps (s_inner s) + s_fcap s /\
            s_used s <= s_limit s + 7 /\
            count (s_inner s) <= size.
Proof. exact static_lru_mem_invariant_lemma. Qed.

(* the cache contract spelled out for the delta caches: whatever get returns satisfies P when every
   value put did; put never panics *)
Theorem delta_caches_get_contract : forall P c k c' r,
  cache_inv P c -> cache_get c k = (c', r) -> cache_inv P c' /\ (forall h, r = Some h -> P k h).
Proof. exact cache_get_contract. Qed.

Theorem delta_caches_put_contract : forall P bd c k d kind csz,
  cache_inv P c -> P k (kind, csz, d) ->
  exists c', cache_put bd c k d kind csz = Ok c' /\ cache_inv P c'.
Proof. exact cache_put_contract. Qed.

(* the object cache (MemoryCappedHashmap over clru, weight = len + 52) *)
Theorem object_cache_put_contract : forall P m k d kind,
  entries_ok P (m_list m) -> P k (kind, 0, d) -> entries_ok P (m_list (mcache_put m k d kind 0)).
Proof. intros P m k d kind. apply mcache_put_inv. Qed.

Theorem object_cache_get_contract : forall P m k m' r,
  entries_ok P (m_list m) -> mcache_get m k = (m', r) ->
  entries_ok P (m_list m') /\ (forall h, r = Some h -> P k h).
Proof. exact mcache_get_inv. Qed.

(* ---- buffer layout, separately -------------------------------------------------------------------- *)

(* the apply loop over [source][target][instructions]: for deltas d1..dk that git's patch_delta accepts in
   sequence from the object at the front of the source buffer, buffers of any size M >= every size in the
   chain, the result ends up at the front of the first buffer for even k and of the second for odd k *)
Theorem apply_loop_layout : forall ds cur obj M P R first second (odd : bool) junk,
  replay cur ds = Some obj ->
  Forall (fun d => bsz d <= N.of_nat M /\ rsz d <= N.of_nat M) ds ->
  length first = M -> length second = M ->
  (if odd then second else first) = cur ++ junk ->
  exists f' s' junk',
    apply_chain first second (P ++ concat ds ++ R) odd (infos_of (length P) ds) = Ok (f', s') /\
    length f' = M /\ length s' = M /\
    (if xorb odd (Nat.odd (length ds)) then s' else f') = obj ++ junk'.
Proof. exact apply_chain_spec. Qed.

(* ---- examples (non-vacuity) ------------------------------------------------------------------------ *)

(* the witness of the defect fixed in /repo (ten 1-byte puts, one 20-byte put, two 1-byte puts,
   limit 100) runs without panic and ends with exact accounting *)
Example static_lru_witness :
  let one := Put 0 [x00] 3 1 in
  let big := Put 0 (repeat x00 20) 3 1 in
  match run_ops Debug (slru_new 10 100) (repeat one 10 ++ [big; one; one]) with
  | Ok s => s_used s = 100 /\ count (s_inner s) = 10
  | _ => False
  end.
Proof. vm_compute. split; reflexivity. Qed.

(* tiny limits: the minimal capacity of a vector (8) exceeds the limit 1, mem_used = 8 *)
Example static_lru_tiny_limit :
  match run_ops Debug (slru_new 1 1) [Put 0 [x07] 3 1; Put 1 [x08] 3 1; Get 1] with
  | Ok s => s_used s = 8
  | _ => False
  end.
Proof. vm_compute. reflexivity. Qed.

(* a pack: blob "abc", a delta on it ("abcabc"), a delta on that ("bc") and one with an out-of-pack base *)
Definition ex_pack : pack :=
  [ {| pe_kind := EBase 3; pe_data := bs "abc" |};
    {| pe_kind := EDelta 0; pe_data := [x03; x06; x90; x03; x90; x03] |};
    {| pe_kind := EDelta 1; pe_data := [x06; x02; x91; x01; x02] |};
    {| pe_kind := EExt 1 (bs "xyz"); pe_data := [x03; x04; x90; x03; x01; x21] |} ].

Example ex_pack_objects :
  map (object_of ex_pack) [0; 1; 2; 3] =
  [Some (3, bs "abc"); Some (3, bs "abcabc"); Some (3, bs "bc"); Some (1, bs "xyz!")].
Proof. vm_compute. reflexivity. Qed.

(* the hypotheses of decode_sequence_exact are satisfiable: a request sequence with repetitions against a
   2-entry static LRU with a 100-byte limit *)
Example ex_sequence :
  match run_seq cache cache_get (cache_put Debug) ex_pack (CStatic (slru_new 2 100), bs "junk") [2; 1; 2; 3; 0; 2] with
  | Ok (objs, _) => map snd objs = [bs "bc"; bs "abcabc"; bs "bc"; bs "xyz!"; bs "abc"; bs "bc"]
  | _ => False
  end.
Proof. vm_compute. reflexivity. Qed.

(* outside the theorem's hypotheses: a delta with both sizes 0 on an empty out-of-pack base (git cannot
   write it) panics in the 'rescue' step of resolve_deltas *)
Example decode_empty_delta_panics :
  decode_entry cache cache_get (cache_put Debug) [ {| pe_kind := EExt 3 []; pe_data := [x00; x00] |} ] (CNever, []) 0 = Panic.
Proof. vm_compute. reflexivity. Qed.
