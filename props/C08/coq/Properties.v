(* C08 — theorems.  Every name here is checked with Print Assumptions (no axioms). *)
From GixV.Base Require Import Bytes Outcome.
From GixV.C08 Require Import Model Spec ProofsLru.
Local Open Scope N_scope.

(* StaticLinkedList<SIZE>::new(limit) followed by ANY sequence of put/get, debug or release build:
   no step panics (the usize subtractions never underflow), mem_used is exactly the sum of the
   capacities of all vectors held (entries + free list), it exceeds the limit by less than the minimal
   capacity of a vector (8), and at most SIZE entries are held. *)
Theorem static_lru_mem_invariant : forall bd size limit ops, 1 <= size ->
  exists s, run_ops bd (slru_new size limit) ops = Ok s /\
            s_used s = caps (s_inner s) + s_fcap s /\
            s_used s <= s_limit s + 7 /\
            count (s_inner s) <= size.
Proof.
  intros bd size limit ops Hs.
  destruct (static_lru_mem_invariant_all bd size limit ops Hs) as (s & E & I).
  exists s. split; [exact E|]. destruct I. repeat split; try assumption.
  assert (Z : forall ops s0 s1, run_ops bd s0 ops = Ok s1 -> sinv s0 -> s_size s1 = s_size s0).
  { clear. induction ops as [|[k d kind csz|k] r IH]; intros s0 s1 H I0; cbn [run_ops] in H.
    - injection H as <-. reflexivity.
    - destruct (slru_put_inv (fun _ _ => True) bd s0 k d kind csz I0) as (s' & E' & I' & _ & _ & S');
        [apply Forall_forall; intros; exact Logic.I | exact Logic.I |].
      rewrite E' in H. cbn [obind] in H. rewrite (IH _ _ H I'). exact S'.
    - destruct (slru_get s0 k) as [s' h] eqn:G. cbn [fst] in H.
      destruct (slru_get_inv (fun _ _ => True) s0 k s' h I0) as (I' & _ & _ & _ & S');
        [apply Forall_forall; intros; exact Logic.I | exact G |].
      rewrite (IH _ _ H I'). exact S'. }
  rewrite (Z _ _ _ E (sinv_new size limit Hs)) in si_count. exact si_count.
Qed.

(* the cache contract, for each of the delta caches behind `dyn DecodeEntry` (Never, StaticLinkedList,
   MemoryCappedHashmap) and any predicate P on (key, value): if every value put satisfied P for its
   key, whatever get returns satisfies P for the requested key — and put never panics. *)
Theorem delta_caches_get_contract : forall P c k c' r,
  cache_inv P c -> cache_get c k = (c', r) -> cache_inv P c' /\ (forall h, r = Some h -> P k h).
Proof. exact cache_get_contract. Qed.

Theorem delta_caches_put_contract : forall P bd c k d kind csz,
  cache_inv P c -> P k (kind, csz, d) ->
  exists c', cache_put bd c k d kind csz = Ok c' /\ cache_inv P c'.
Proof. exact cache_put_contract. Qed.

(* the object cache (MemoryCappedHashmap over clru, weight = len + 52) obeys the same contract *)
Theorem object_cache_contract : forall P m k d kind m' r,
  entries_ok P (m_list m) ->
  (P k (kind, 0, d) -> entries_ok P (m_list (mcache_put m k d kind 0))) /\
  (mcache_get m k = (m', r) -> entries_ok P (m_list m') /\ (forall h, r = Some h -> P k h)).
Proof.
  intros P m k d kind m' r F. split.
  - intros Hk. apply mcache_put_inv; assumption.
  - intros G. eapply mcache_get_inv; eassumption.
Qed.

(* non-vacuity: the witness of the defect fixed in /repo (ten 1-byte puts, one 20-byte put, two
   1-byte puts, limit 100) now runs without panic and ends with exact accounting *)
Example static_lru_witness :
  let one := Put 0 [x00] 3 1 in
  let big := Put 0 (repeat x00 20) 3 1 in
  match run_ops Debug (slru_new 10 100) (repeat one 10 ++ [big; one; one]) with
  | Ok s => s_used s = 100 /\ count (s_inner s) = 10
  | _ => False
  end.
Proof. vm_compute. split; reflexivity. Qed.

(* tiny limits: the minimal capacity of a vector (8) exceeds the limit 1, mem_used = 8 *)
Example static_lru_tiny_limit :
  match run_ops Debug (slru_new 1 1) [Put 0 [x07] 3 1; Put 1 [x08] 3 1; Get 1] with
  | Ok s => s_used s = 8
  | _ => False
  end.
Proof. vm_compute. reflexivity. Qed.
