//! C08 harness: objects decoded from packs are exact whatever delta cache / object cache is used.
//!
//! cases (see coq/Run.v):
//!   lru <size> <limit> <op>*                       StaticLinkedList::<size>::new(limit) + put/get ops
//!   dec <cfgs> <requests> (<hdr> <data> <ext> <id>)*   a pack, cache configurations, a request sequence
//!
//! The pack of a `dec` case is written to a real pack file (entry headers by hand, zlib through
//! gix-features' deflate writer) and decoded with `gix_pack::data::File::decode_entry`, resp. through
//! `gix_odb::Cache` (object cache + pack cache in front of a `gix_pack::Find` store).
use gix_pack::cache::{self, DecodeEntry};
use gix_pack::data::{self, decode::entry::ResolvedBase};
use gixv_common::*;
use std::cell::RefCell;
use std::collections::HashMap;
use std::io::Write;
use std::panic::{catch_unwind, AssertUnwindSafe};
use std::sync::atomic::{AtomicU64, Ordering};

// ------------------------------------------------------------------------------------------
// small helpers
// ------------------------------------------------------------------------------------------

fn kind_of(k: u8) -> gix_object::Kind {
    match k {
        1 => gix_object::Kind::Commit,
        2 => gix_object::Kind::Tree,
        3 => gix_object::Kind::Blob,
        _ => gix_object::Kind::Tag,
    }
}
fn kind_num(k: gix_object::Kind) -> u8 {
    match k {
        gix_object::Kind::Commit => 1,
        gix_object::Kind::Tree => 2,
        gix_object::Kind::Blob => 3,
        gix_object::Kind::Tag => 4,
    }
}
/// Run.numv: all-digit decimal, anything else is 0
fn numv(b: &[u8]) -> u64 {
    if b.is_empty() || !b.iter().all(u8::is_ascii_digit) {
        0
    } else {
        std::str::from_utf8(b).unwrap().parse().unwrap_or(0)
    }
}
fn digest(d: &[u8]) -> String {
    if d.len() <= 24 {
        format!("={}", hexs(d))
    } else {
        let (mut a, mut s) = (0u64, 0u64);
        for b in d {
            a += u64::from(*b) + 1;
            s += a;
        }
        format!("#{a}.{s}")
    }
}

// ------------------------------------------------------------------------------------------
// StaticLinkedList with a run-time SIZE
// ------------------------------------------------------------------------------------------

trait Lru: DecodeEntry + Send {
    /// (mem_used, mem_limit, entries, last_evicted.len(), last_evicted.capacity(), sum of entry capacities)
    fn st(&self) -> (usize, usize, usize, usize, usize, usize);
    fn as_de(&mut self) -> &mut dyn DecodeEntry;
}
macro_rules! lru_impl {
    ($($n:literal),*) => {
        $(impl Lru for cache::lru::StaticLinkedList<$n> {
            fn st(&self) -> (usize, usize, usize, usize, usize, usize) { self.verif_state() }
            fn as_de(&mut self) -> &mut dyn DecodeEntry { self }
        })*
        fn new_static(size: u64, limit: usize) -> Option<Box<dyn Lru>> {
            match size {
                $($n => Some(Box::new(cache::lru::StaticLinkedList::<$n>::new(limit))),)*
                _ => None,
            }
        }
        fn new_static_de(size: u64, limit: usize) -> Box<dyn DecodeEntry + Send> {
            match size {
                $($n => Box::new(cache::lru::StaticLinkedList::<$n>::new(limit)),)*
                _ => Box::new(cache::Never),
            }
        }
    };
}
lru_impl!(1, 2, 3, 4, 10, 64);
const SIZES: [u64; 6] = [1, 2, 3, 4, 10, 64];

fn show_state(c: &dyn Lru) -> String {
    let (used, _limit, n, flen, fcap, _caps) = c.st();
    format!("{used}:{n}:{flen}:{fcap}")
}

/// pack ids and offsets that differ only in high bits: a cache that truncates either aliases keys
const PIDS: [u32; 16] = [
    0, 1, 1 << 15, 1 << 16, (1 << 16) + 1, 1 << 31, 0xffff_0001, u32::MAX, (1 << 15) | (1 << 16), 0xffff, 2, (1 << 24) + 1,
    0x8000_0001, 0x0001_8000, 0x7fff_ffff, 0x0100_0000,
];
const OFFS: [u64; 16] = [
    0, 1, 12, 13, 1 << 16, (1 << 16) + 12, 1 << 32, (1 << 32) + 1, (1 << 32) + 12, 1 << 48, u64::MAX, 1 << 31, (1 << 31) + 12,
    (1 << 63) + 12, 0xffff_ffff, (1 << 40) + 13,
];
/// the model's key is the byte; this map to (pack_id, offset) is injective
fn lru_key(key: u8) -> (u32, u64) {
    (PIDS[(key >> 4) as usize], OFFS[(key & 15) as usize])
}

fn lru_transcript(c: &Case) -> String {
    let size = f_u64(c, 1);
    let Some(mut l) = new_static(size, f_u64(c, 2) as usize) else {
        return "invalid".into();
    };
    let mut out = Vec::new();
    let mut buf = Vec::new();
    for op in c.iter().skip(3) {
        if op.len() >= 4 && op[0] == b'p' {
            let (p, o) = lru_key(op[1]);
            l.put(p, o, &op[4..], kind_of(op[2]), op[3] as usize);
            out.push(format!("p{}", show_state(l.as_ref())));
        } else if op.len() >= 2 && op[0] == b'g' {
            let (p, o) = lru_key(op[1]);
            let h = match l.get(p, o, &mut buf) {
                Some((k, csz)) => format!("{}:{}:{}", kind_num(k), csz, digest(&buf)),
                None => "-".into(),
            };
            out.push(format!("g{}/{}", h, show_state(l.as_ref())));
        } else {
            out.push("?".into());
        }
    }
    out.join(" ")
}

/// `mem <cap> <op>*`: lru::MemoryCappedHashmap through the DecodeEntry API
fn mem_transcript(c: &Case) -> String {
    let cap = f_u64(c, 1);
    if cap == 0 {
        return "invalid".into();
    }
    let mut l = cache::lru::MemoryCappedHashmap::new(cap as usize);
    let mut out = Vec::new();
    let mut buf = Vec::new();
    for op in c.iter().skip(2) {
        if op.len() >= 4 && op[0] == b'p' {
            let (p, o) = lru_key(op[1]);
            l.put(p, o, &op[4..], kind_of(op[2]), op[3] as usize);
            out.push("p".to_string());
        } else if op.len() >= 2 && op[0] == b'g' {
            let (p, o) = lru_key(op[1]);
            out.push(match l.get(p, o, &mut buf) {
                Some((k, csz)) => format!("g{}:{}:{}", kind_num(k), csz, digest(&buf)),
                None => "g-".into(),
            });
        } else {
            out.push("?".into());
        }
    }
    out.join(" ")
}

// ------------------------------------------------------------------------------------------
// packs
// ------------------------------------------------------------------------------------------

#[derive(Clone, Debug)]
enum EK {
    Base(u8),
    Ofs(usize),
    Ref(usize),
    Ext(u8, Vec<u8>),
}
#[derive(Clone, Debug)]
struct PEntry {
    k: EK,
    data: Vec<u8>,
    id: Vec<u8>,
}
#[derive(Clone, Debug)]
enum Inner {
    Never,
    Static(u64, u64),
    Mem(u64),
}
#[derive(Clone, Debug)]
struct Cfg {
    odb: Option<u64>,
    inner: Inner,
}

fn short_varint(d: &[u8]) -> Option<&[u8]> {
    match d {
        [a, r @ ..] if *a < 128 => Some(r),
        [_, b, r @ ..] if *b < 128 => Some(r),
        _ => None,
    }
}
fn delta_hdr_ok(d: &[u8]) -> bool {
    short_varint(d).and_then(short_varint).is_some()
}

fn parse_inner(c: &[u8]) -> Option<Inner> {
    match c {
        [b'n'] => Some(Inner::Never),
        [b's', r @ ..] => {
            let parts: Vec<&[u8]> = r.split(|b| *b == b':').collect();
            if parts.len() == 2 && SIZES.contains(&numv(parts[0])) {
                Some(Inner::Static(numv(parts[0]), numv(parts[1])))
            } else {
                None
            }
        }
        [b'm', r @ ..] if numv(r) >= 1 => Some(Inner::Mem(numv(r))),
        _ => None,
    }
}
fn parse_cfg(c: &[u8]) -> Option<Cfg> {
    match c {
        [b'o', r @ ..] => {
            let parts: Vec<&[u8]> = r.split(|b| *b == b'+').collect();
            if parts.len() == 2 {
                Some(Cfg { odb: Some(numv(parts[0])), inner: parse_inner(parts[1])? })
            } else {
                None
            }
        }
        _ => Some(Cfg { odb: None, inner: parse_inner(c)? }),
    }
}

/// `dec` and `mdec` cases. For `mdec <cfgs> <reqs> <k> <pids> entries…` the entry list is k packs of equal
/// length; entry indices are global, bases must stay inside their pack.
struct DecCase {
    cfgs: Vec<Cfg>,
    reqs: Vec<usize>,
    entries: Vec<PEntry>,
    k: usize,
    pids: Vec<Option<u32>>,
}
fn parse_dec(c: &Case) -> Option<DecCase> {
    let multi = f_str(c, 0) == b"mdec";
    let cfgs: Option<Vec<Cfg>> = f_str(c, 1).split(|b| *b == b',').map(parse_cfg).collect();
    let cfgs = cfgs?;
    let first = if multi { 5 } else { 3 };
    let fields = &c[first.min(c.len())..];
    if fields.len() % 4 != 0 {
        return None;
    }
    let mut entries = Vec::new();
    for (idx, g) in fields.chunks(4).enumerate() {
        let (h, d, x, id) = (&g[0], &g[1], &g[2], &g[3]);
        let k = match h.split_first() {
            Some((b'b', k)) if (1..=4).contains(&numv(k)) => EK::Base(numv(k) as u8),
            Some((b'o', b)) if numv(b) < idx as u64 && delta_hdr_ok(d) => EK::Ofs(numv(b) as usize),
            Some((b'r', b)) if delta_hdr_ok(d) => EK::Ref(numv(b).min(1 << 40) as usize),
            Some((b'x', k)) if (1..=4).contains(&numv(k)) && delta_hdr_ok(d) => EK::Ext(numv(k) as u8, x.clone()),
            _ => return None,
        };
        entries.push(PEntry { k, data: d.clone(), id: id.clone() });
    }
    let reqs: Vec<usize> = f_str(c, 2).iter().map(|b| *b as usize).collect();
    if reqs.iter().any(|i| *i >= entries.len()) {
        return None;
    }
    let (k, pids) = if multi {
        let k = numv(f_str(c, 3)) as usize;
        let pf = f_str(c, 4);
        let n = entries.len();
        if !(1..=4).contains(&k) || n == 0 || n % k != 0 || pf.len() != k || pf.iter().any(|b| *b >= 16) {
            return None;
        }
        for (a, x) in pf.iter().enumerate() {
            if pf[..a].contains(x) {
                return None;
            }
        }
        let seg = n / k;
        for (i, e) in entries.iter().enumerate() {
            if let EK::Ofs(b) | EK::Ref(b) = &e.k {
                if *b / seg != i / seg {
                    return None;
                }
            }
        }
        (k, pf.iter().map(|b| Some(PIDS[*b as usize])).collect())
    } else {
        (1, vec![None])
    };
    Some(DecCase { cfgs, reqs, entries, k, pids })
}

static COUNTER: AtomicU64 = AtomicU64::new(0);
struct TmpFile(std::path::PathBuf);
impl Drop for TmpFile {
    fn drop(&mut self) {
        let _ = std::fs::remove_file(&self.0);
    }
}

fn deflate(data: &[u8]) -> Vec<u8> {
    let mut w = gix_features::zlib::stream::deflate::Write::new(Vec::new());
    w.write_all(data).expect("deflate");
    w.flush().expect("deflate flush");
    w.into_inner()
}

/// what zlib consumes of `stream` when asked to fill exactly `len` bytes (independent of gix-pack)
fn consumed_in(stream: &[u8], len: usize) -> usize {
    let mut d = flate2::Decompress::new(true);
    let mut buf = vec![0u8; len];
    let _ = d.decompress(stream, &mut buf, flate2::FlushDecompress::None);
    d.total_in() as usize
}

fn fake_id(prefix: u8, idx: usize) -> [u8; 20] {
    let mut id = [prefix; 20];
    id[12..].copy_from_slice(&(idx as u64).to_be_bytes());
    id
}
fn id_index(id: &[u8], prefix: u8) -> Option<usize> {
    if id.len() == 20 && id[..12].iter().all(|b| *b == prefix) {
        Some(u64::from_be_bytes(id[12..].try_into().unwrap()) as usize)
    } else {
        None
    }
}

struct Built {
    _tmp: TmpFile,
    file: data::File,
    offsets: Vec<u64>,
    csz: Vec<usize>,
}

fn entry_header(ty: u8, size: u64, p: &mut Vec<u8>) {
    let mut size = size;
    let mut c = (ty << 4) | (size & 15) as u8;
    size >>= 4;
    while size != 0 {
        p.push(c | 0x80);
        c = (size & 0x7f) as u8;
        size >>= 7;
    }
    p.push(c);
}

fn build_pack(entries: &[PEntry]) -> Built {
    let mut p = Vec::new();
    p.extend_from_slice(b"PACK");
    p.extend_from_slice(&2u32.to_be_bytes());
    p.extend_from_slice(&(entries.len() as u32).to_be_bytes());
    let mut offsets = Vec::new();
    let mut csz = Vec::new();
    for (i, e) in entries.iter().enumerate() {
        let ofs = p.len() as u64;
        offsets.push(ofs);
        match &e.k {
            EK::Base(k) => entry_header(*k, e.data.len() as u64, &mut p),
            EK::Ofs(b) => {
                entry_header(6, e.data.len() as u64, &mut p);
                // git's offset encoding
                let mut d = ofs - offsets[*b];
                let mut buf = vec![(d & 127) as u8];
                d >>= 7;
                while d != 0 {
                    d -= 1;
                    buf.push(0x80 | (d & 127) as u8);
                    d >>= 7;
                }
                buf.reverse();
                p.extend_from_slice(&buf);
            }
            EK::Ref(b) => {
                entry_header(7, e.data.len() as u64, &mut p);
                p.extend_from_slice(&fake_id(0xEE, *b));
            }
            EK::Ext(..) => {
                entry_header(7, e.data.len() as u64, &mut p);
                p.extend_from_slice(&fake_id(0xDD, i));
            }
        }
        let z = deflate(&e.data);
        csz.push(consumed_in(&z, e.data.len()));
        p.extend_from_slice(&z);
    }
    p.extend_from_slice(&[0u8; 20]);
    let n = COUNTER.fetch_add(1, Ordering::SeqCst);
    let path = std::env::temp_dir().join(format!("gixv-c08-{}-{}.pack", std::process::id(), n));
    std::fs::write(&path, &p).expect("write pack");
    let file = data::File::at(&path, gix_hash::Kind::Sha1).expect("open pack");
    Built { _tmp: TmpFile(path), file, offsets, csz }
}

/// k packs (entries rebased to pack-local indices) sharing caches and buffers
struct Multi {
    packs: Vec<(Built, Vec<PEntry>)>,
    seg: usize,
}
impl Multi {
    fn new(d: &DecCase) -> Multi {
        let seg = (d.entries.len() / d.k).max(1);
        let mut packs = Vec::new();
        for (j, chunk) in d.entries.chunks(seg).enumerate() {
            let local: Vec<PEntry> = chunk
                .iter()
                .map(|e| {
                    let mut e = e.clone();
                    e.k = match e.k {
                        EK::Ofs(b) => EK::Ofs(b.wrapping_sub(j * seg)),
                        EK::Ref(b) if b >= j * seg => EK::Ref(b - j * seg),
                        k => k,
                    };
                    e
                })
                .collect();
            let mut b = build_pack(&local);
            if let Some(Some(id)) = d.pids.get(j) {
                b.file.id = *id;
            }
            packs.push((b, local));
        }
        Multi { packs, seg }
    }
    fn locate(&self, gi: usize) -> (&Built, &[PEntry], usize) {
        let j = (gi / self.seg).min(self.packs.len() - 1);
        (&self.packs[j].0, &self.packs[j].1, gi - j * self.seg)
    }
}

fn decode(
    m: &Multi,
    gi: usize,
    out: &mut Vec<u8>,
    inflate: &mut gix_features::zlib::Inflate,
    cache: &mut dyn DecodeEntry,
) -> Result<data::decode::entry::Outcome, data::decode::Error> {
    let (b, entries, i) = m.locate(gi);
    let entry = b.file.entry(b.offsets[i])?;
    let resolve = |id: &gix_hash::oid, out: &mut Vec<u8>| -> Option<ResolvedBase> {
        let id = id.as_bytes();
        if let Some(j) = id_index(id, 0xEE) {
            let ofs = *b.offsets.get(j)?;
            b.file.entry(ofs).ok().map(ResolvedBase::InPack)
        } else if let Some(j) = id_index(id, 0xDD) {
            match &entries.get(j)?.k {
                EK::Ext(k, base) => {
                    // like gix-odb's dynamic store: the base object fills `out`
                    out.resize(base.len(), 0);
                    out.copy_from_slice(base);
                    Some(ResolvedBase::OutOfPack { kind: kind_of(*k), end: out.len() })
                }
                _ => None,
            }
        } else {
            None
        }
    };
    b.file.decode_entry(entry, out, inflate, &resolve, cache)
}

/// does following the base pointers from `i` (no cache) run into a cycle?
fn cyclic(entries: &[PEntry], i: usize) -> bool {
    let mut cur = i;
    for _ in 0..=entries.len() {
        match entries.get(cur).map(|e| &e.k) {
            Some(EK::Ofs(b)) | Some(EK::Ref(b)) => cur = *b,
            _ => return false,
        }
    }
    true
}

fn new_pack_cache(inner: &Inner) -> Box<dyn DecodeEntry + Send> {
    match inner {
        Inner::Never => Box::new(cache::Never),
        Inner::Static(size, limit) => new_static_de(*size, *limit as usize),
        Inner::Mem(cap) => Box::new(cache::lru::MemoryCappedHashmap::new(*cap as usize)),
    }
}

/// A `gix_pack::Find` store over the packs, to put `gix_odb::Cache` in front of.
struct Store<'a> {
    m: &'a Multi,
    n: usize,
    inflate: RefCell<gix_features::zlib::Inflate>,
}
impl gix_pack::Find for Store<'_> {
    fn contains(&self, id: &gix_hash::oid) -> bool {
        id_index(id.as_bytes(), 0xAA).map_or(false, |i| i < self.n)
    }
    fn try_find_cached<'b>(
        &self,
        id: &gix_hash::oid,
        buffer: &'b mut Vec<u8>,
        pack_cache: &mut dyn DecodeEntry,
    ) -> Result<Option<(gix_object::Data<'b>, Option<data::entry::Location>)>, gix_object::find::Error> {
        let Some(i) = id_index(id.as_bytes(), 0xAA).filter(|i| *i < self.n) else {
            return Ok(None);
        };
        let r = decode(self.m, i, buffer, &mut self.inflate.borrow_mut(), pack_cache)?;
        let (b, _, li) = self.m.locate(i);
        Ok(Some((
            gix_object::Data { kind: r.kind, data: buffer.as_slice() },
            Some(data::entry::Location { pack_id: b.file.id, entry_size: r.compressed_size, pack_offset: b.offsets[li] }),
        )))
    }
    fn location_by_oid(&self, _id: &gix_hash::oid, _buf: &mut Vec<u8>) -> Option<data::entry::Location> {
        None
    }
    fn pack_offsets_and_oid(&self, _pack_id: u32) -> Option<Vec<(data::Offset, gix_hash::ObjectId)>> {
        None
    }
    fn entry_by_location(&self, _location: &data::entry::Location) -> Option<gix_pack::find::Entry> {
        None
    }
}

/// One decoded request: Ok(Some((kind, bytes, transcript))) | Ok(None) = error returned | Err = HANG
type ReqResult = Result<Option<(u8, Vec<u8>, String)>, ()>;

/// Run the request sequence under one configuration; `f` sees every result.
fn run_cfg(m: &Multi, n: usize, reqs: &[usize], cfg: &Cfg, f: &mut dyn FnMut(usize, usize, ReqResult) -> bool) {
    match cfg.odb {
        None => {
            let mut cache = new_pack_cache(&cfg.inner);
            let mut out = Vec::new();
            let mut inflate = gix_features::zlib::Inflate::default();
            for (pos, &i) in reqs.iter().enumerate() {
                let (b, entries, li) = m.locate(i);
                if cyclic(entries, li) {
                    f(pos, i, Err(()));
                    return;
                }
                let r = match decode(m, i, &mut out, &mut inflate, cache.as_mut()) {
                    Ok(o) => Some((
                        kind_num(o.kind),
                        out.clone(),
                        format!(
                            "{}:{}:{}:{}:{}:{}",
                            kind_num(o.kind),
                            o.num_deltas,
                            o.decompressed_size,
                            u8::from(o.compressed_size == b.csz[li]),
                            o.object_size,
                            digest(&out)
                        ),
                    )),
                    Err(_) => None,
                };
                if !f(pos, i, Ok(r)) {
                    return;
                }
            }
        }
        Some(objcap) => {
            let store = Store { m, n, inflate: RefCell::new(Default::default()) };
            let mut c = gix_odb::Cache::from(store);
            if !matches!(cfg.inner, Inner::Never) {
                let inner = cfg.inner.clone();
                c.set_pack_cache(move || new_pack_cache(&inner));
            }
            if objcap > 0 {
                c.set_object_cache(move || Box::new(cache::object::MemoryCappedHashmap::new(objcap as usize)));
            }
            let mut out = Vec::new();
            for (pos, &i) in reqs.iter().enumerate() {
                let (_, entries, li) = m.locate(i);
                if cyclic(entries, li) {
                    f(pos, i, Err(()));
                    return;
                }
                let id = gix_hash::ObjectId::from(fake_id(0xAA, i));
                let r = match gix_pack::Find::try_find(&c, &id, &mut out) {
                    Ok(Some((d, _loc))) => {
                        let k = kind_num(d.kind);
                        let bytes = d.data.to_vec();
                        let line = format!("{}:{}", k, digest(&bytes));
                        Some((k, bytes, line))
                    }
                    _ => None,
                };
                if !f(pos, i, Ok(r)) {
                    return;
                }
            }
        }
    }
}

fn dec_transcript(c: &Case) -> String {
    let Some(dc) = parse_dec(c) else {
        return "invalid".into();
    };
    let m = Multi::new(&dc);
    let (cfgs, reqs) = (&dc.cfgs, &dc.reqs);
    let mut lines = Vec::new();
    for cfg in cfgs {
        let mut parts = Vec::new();
        let mut hang = false;
        run_cfg(&m, dc.entries.len(), reqs, cfg, &mut |_pos, _i, r| match r {
            Ok(Some((_, _, line))) => {
                parts.push(line);
                true
            }
            Ok(None) => {
                parts.push("err".into());
                true
            }
            Err(()) => {
                hang = true;
                false
            }
        });
        if hang {
            return "HANG".into();
        }
        lines.push(parts.join(","));
    }
    lines.join(" ")
}

fn imp(c: &Case) -> String {
    match f_str(c, 0) {
        b"lru" => lru_transcript(c),
        b"dec" | b"mdec" => dec_transcript(c),
        b"mem" => mem_transcript(c),
        _ => "?".into(),
    }
}

// ------------------------------------------------------------------------------------------
// the property, with independent oracles
// ------------------------------------------------------------------------------------------

/// patch-delta.c: None when git would reject the delta.
fn git_patch_delta(base: &[u8], delta: &[u8]) -> Option<Vec<u8>> {
    fn hdr(d: &[u8], pos: &mut usize) -> Option<u64> {
        let (mut v, mut sh) = (0u64, 0u32);
        loop {
            let b = *d.get(*pos)?;
            *pos += 1;
            if sh < 64 {
                v |= u64::from(b & 0x7f) << sh;
            }
            sh += 7;
            if b & 0x80 == 0 {
                return Some(v);
            }
        }
    }
    if delta.len() < 4 {
        return None; // DELTA_SIZE_MIN
    }
    let mut i = 0usize;
    let bsz = hdr(delta, &mut i)?;
    if bsz != base.len() as u64 {
        return None;
    }
    let rsz = hdr(delta, &mut i)?;
    let mut out: Vec<u8> = Vec::new();
    while i < delta.len() {
        let cmd = delta[i];
        i += 1;
        if cmd & 0x80 != 0 {
            let (mut ofs, mut size) = (0u64, 0u64);
            for (bit, sh) in [(1u8, 0u32), (2, 8), (4, 16), (8, 24)] {
                if cmd & bit != 0 {
                    ofs |= u64::from(*delta.get(i)?) << sh;
                    i += 1;
                }
            }
            for (bit, sh) in [(0x10u8, 0u32), (0x20, 8), (0x40, 16)] {
                if cmd & bit != 0 {
                    size |= u64::from(*delta.get(i)?) << sh;
                    i += 1;
                }
            }
            if size == 0 {
                size = 0x10000;
            }
            if ofs + size > base.len() as u64 || out.len() as u64 + size > rsz {
                return None;
            }
            out.extend_from_slice(&base[ofs as usize..(ofs + size) as usize]);
        } else if cmd != 0 {
            let n = cmd as usize;
            if i + n > delta.len() || (out.len() + n) as u64 > rsz {
                return None;
            }
            out.extend_from_slice(&delta[i..i + n]);
            i += n;
        } else {
            return None;
        }
    }
    if out.len() as u64 != rsz {
        return None;
    }
    Some(out)
}

/// the object every entry denotes (None: git would not accept the entry), by naive recursion
fn oracle_objects(entries: &[PEntry]) -> Vec<Option<(u8, Vec<u8>)>> {
    fn go(entries: &[PEntry], i: usize, depth: usize, memo: &mut Vec<Option<Option<(u8, Vec<u8>)>>>) -> Option<(u8, Vec<u8>)> {
        if depth > entries.len() {
            return None;
        }
        if let Some(m) = &memo[i] {
            return m.clone();
        }
        let e = &entries[i];
        let r = match &e.k {
            EK::Base(k) => Some((*k, e.data.clone())),
            EK::Ofs(b) | EK::Ref(b) => {
                if *b < entries.len() {
                    go(entries, *b, depth + 1, memo).and_then(|(k, base)| git_patch_delta(&base, &e.data).map(|t| (k, t)))
                } else {
                    None
                }
            }
            EK::Ext(k, base) => git_patch_delta(base, &e.data).map(|t| (*k, t)),
        };
        if depth == 0 {
            memo[i] = Some(r.clone());
        }
        r
    }
    let mut memo = vec![None; entries.len()];
    (0..entries.len()).map(|i| go(entries, i, 0, &mut memo)).collect()
}

fn prop_dec(c: &Case) -> Verdict {
    let Some(dc) = parse_dec(c) else {
        return Verdict::ok(false, "invalid-case");
    };
    let (cfgs, reqs, entries) = (&dc.cfgs, &dc.reqs, &dc.entries);
    let objs = oracle_objects(entries);
    // ids reported by git for the entries (real packs): the oracle itself must reproduce them
    for (i, e) in entries.iter().enumerate() {
        if e.id.len() == 20 {
            if let Some((k, d)) = &objs[i] {
                let id = gix_object::compute_hash(gix_hash::Kind::Sha1, kind_of(*k), d);
                if id.as_bytes() != e.id.as_slice() {
                    return Verdict::fail("oracle-id-mismatch", format!("entry {i}"));
                }
            } else {
                return Verdict::fail("oracle-rejects-git-entry", format!("entry {i}"));
            }
        }
    }
    let m = Multi::new(&dc);
    let mut nontrivial = false;
    let mut git_ids = false;
    for cfg in cfgs {
        let mut failure: Option<(String, String)> = None;
        let r = catch_unwind(AssertUnwindSafe(|| {
            run_cfg(&m, entries.len(), reqs, cfg, &mut |pos, i, r| {
                let Some((ek, ed)) = &objs[i] else { return !matches!(r, Err(())) };
                match r {
                    Ok(Some((k, bytes, _))) => {
                        if k != *ek || bytes != *ed {
                            failure = Some(("wrong-object".into(), format!("cfg {cfg:?} request #{pos} entry {i}: kind {k} vs {ek}, {} vs {} bytes", bytes.len(), ed.len())));
                            return false;
                        }
                        if entries[i].id.len() == 20 {
                            let id = gix_object::compute_hash(gix_hash::Kind::Sha1, kind_of(k), &bytes);
                            if id.as_bytes() != entries[i].id.as_slice() {
                                failure = Some(("wrong-id".into(), format!("cfg {cfg:?} request #{pos} entry {i}")));
                                return false;
                            }
                            git_ids = true;
                        }
                        if !matches!(entries[i].k, EK::Base(_)) && (cfg.odb.is_some() || !matches!(cfg.inner, Inner::Never)) {
                            nontrivial = true;
                        }
                        true
                    }
                    Ok(None) => {
                        failure = Some(("valid-object-fails".into(), format!("cfg {cfg:?} request #{pos} entry {i}: error")));
                        false
                    }
                    Err(()) => {
                        failure = Some(("valid-object-fails".into(), format!("cfg {cfg:?} request #{pos} entry {i}: cycle")));
                        false
                    }
                }
            })
        }));
        if let Some((class, detail)) = failure {
            return Verdict::fail(class, detail);
        }
        if r.is_err() {
            // a panic: only a failure of the property when a valid object was being decoded. Find out
            // by replaying with per-request knowledge: every request up to the panic was valid or not?
            let any_invalid = reqs.iter().any(|i| objs[*i].is_none());
            if !any_invalid {
                return Verdict::fail("valid-object-panics", format!("cfg {cfg:?}"));
            }
            // malformed entries may panic (see NOTES); requests after them are not judged
        }
    }
    Verdict::ok(nontrivial, if dc.k > 1 { "dec-multi-pack" } else if git_ids { "dec-git-pack" } else if nontrivial { "dec-cached" } else { "dec-plain" })
}

fn prop_lru(c: &Case) -> Verdict {
    let size = f_u64(c, 1);
    let limit_arg = f_u64(c, 2) as usize;
    let Some(mut l) = new_static(size, limit_arg) else {
        return Verdict::ok(false, "invalid-case");
    };
    let mut last_put: HashMap<u8, (u8, usize, Vec<u8>)> = HashMap::new();
    let mut buf = Vec::new();
    let mut hits = 0;
    for (n, op) in c.iter().skip(3).enumerate() {
        if op.len() >= 4 && op[0] == b'p' {
            let (p, o) = lru_key(op[1]);
            let r = catch_unwind(AssertUnwindSafe(|| l.put(p, o, &op[4..], kind_of(op[2]), op[3] as usize)));
            if r.is_err() {
                return Verdict::fail("lru-put-panics", format!("op #{n}"));
            }
            // objects that cannot ever fit the memory limit are ignored by design (documented)
            if limit_arg == 0 || op.len() - 4 <= limit_arg {
                last_put.insert(op[1], (op[2], op[3] as usize, op[4..].to_vec()));
            }
        } else if op.len() >= 2 && op[0] == b'g' {
            let (p, o) = lru_key(op[1]);
            if let Some((k, csz)) = l.get(p, o, &mut buf) {
                hits += 1;
                match last_put.get(&op[1]) {
                    Some((ek, ecsz, ed)) if kind_num(k) == *ek && csz == *ecsz && buf == *ed => {}
                    _ => return Verdict::fail("lru-get-wrong", format!("op #{n}")),
                }
            }
        } else {
            continue;
        }
        let (used, limit, n_entries, _flen, fcap, caps) = l.st();
        if used != caps + fcap {
            return Verdict::fail("lru-accounting", format!("op #{n}: mem_used {used}, capacities held {}", caps + fcap));
        }
        if limit != usize::MAX && used > limit + 7 {
            return Verdict::fail("lru-over-limit", format!("op #{n}: mem_used {used}, limit {limit}"));
        }
        if n_entries as u64 > size {
            return Verdict::fail("lru-too-many", format!("op #{n}"));
        }
    }
    Verdict::ok(c.len() > 5, if hits > 0 { "lru-hits" } else { "lru" })
}

/// MemoryCappedHashmap through the cache API: get returns nothing or what was last put under exactly
/// that (pack_id, offset); values that are too heavy are refused and leave the older value in place
fn prop_mem(c: &Case) -> Verdict {
    let cap = f_u64(c, 1) as usize;
    if cap == 0 {
        return Verdict::ok(false, "invalid-case");
    }
    let mut l = cache::lru::MemoryCappedHashmap::new(cap);
    let mut last_put: HashMap<u8, (u8, usize, Vec<u8>)> = HashMap::new();
    let mut buf = Vec::new();
    let mut hits = 0;
    for (n, op) in c.iter().skip(2).enumerate() {
        if op.len() >= 4 && op[0] == b'p' {
            let (p, o) = lru_key(op[1]);
            l.put(p, o, &op[4..], kind_of(op[2]), op[3] as usize);
            if op.len() - 4 < cap {
                last_put.insert(op[1], (op[2], op[3] as usize, op[4..].to_vec()));
            }
        } else if op.len() >= 2 && op[0] == b'g' {
            let (p, o) = lru_key(op[1]);
            if let Some((k, csz)) = l.get(p, o, &mut buf) {
                hits += 1;
                match last_put.get(&op[1]) {
                    Some((ek, ecsz, ed)) if kind_num(k) == *ek && csz == *ecsz && buf == *ed => {}
                    _ => return Verdict::fail("mem-get-wrong", format!("op #{n}")),
                }
            }
        }
    }
    Verdict::ok(c.len() > 4, if hits > 0 { "mem-hits" } else { "mem" })
}

fn prop(c: &Case) -> Verdict {
    match f_str(c, 0) {
        b"lru" => prop_lru(c),
        b"mem" => prop_mem(c),
        b"dec" | b"mdec" => prop_dec(c),
        _ => Verdict::ok(false, "unknown-op"),
    }
}

// ------------------------------------------------------------------------------------------
// generator
// ------------------------------------------------------------------------------------------

fn varint(mut n: u64, out: &mut Vec<u8>) {
    loop {
        let b = (n & 0x7f) as u8;
        n >>= 7;
        if n == 0 {
            out.push(b);
            return;
        }
        out.push(b | 0x80);
    }
}

fn rand_data(rng: &mut Rng, max: usize) -> Vec<u8> {
    let lens = [0usize, 1, 2, 7, 8, 9, 30, 60, 127, 128, 129, 300];
    let big = [700usize, 1500, 4000];
    let n = (if rng.chance(1, 16) { *rng.pick(&big) } else { *rng.pick(&lens) }).min(max);
    if rng.chance(1, 3) {
        rng.bytes(n)
    } else {
        rng.word(b"abc\n", n, n)
    }
}

fn copy_op(ofs: u64, size: u64, out: &mut Vec<u8>) {
    let at = out.len();
    out.push(0x80);
    let mut cmd = 0x80u8;
    for i in 0..4 {
        let b = ((ofs >> (8 * i)) & 0xff) as u8;
        if b != 0 {
            cmd |= 1 << i;
            out.push(b);
        }
    }
    for i in 0..2 {
        let b = ((size >> (8 * i)) & 0xff) as u8;
        if b != 0 {
            cmd |= 0x10 << i;
            out.push(b);
        }
    }
    out[at] = cmd;
}

/// a valid delta against `base` and the object it produces (all sizes below 2^14)
fn make_delta(rng: &mut Rng, base: &[u8]) -> (Vec<u8>, Vec<u8>) {
    let mut ops = Vec::new();
    let mut target = Vec::new();
    let n_ops = rng.range(0, 6);
    for _ in 0..n_ops {
        if target.len() > 9000 {
            break;
        }
        if !base.is_empty() && rng.chance(2, 3) {
            let ofs = rng.below(base.len() as u64);
            let max = (base.len() as u64 - ofs).min(6000);
            let size = if rng.chance(1, 3) { max } else { 1 + rng.below(max) };
            copy_op(ofs, size, &mut ops);
            target.extend_from_slice(&base[ofs as usize..(ofs + size) as usize]);
        } else {
            let n = *rng.pick(&[1usize, 2, 5, 20, 126, 127]);
            let d = if rng.chance(1, 2) { rng.bytes(n) } else { rng.word(b"xyz\n", n, n) };
            ops.push(n as u8);
            ops.extend_from_slice(&d);
            target.extend_from_slice(&d);
        }
    }
    let mut delta = Vec::new();
    varint(base.len() as u64, &mut delta);
    varint(target.len() as u64, &mut delta);
    delta.extend_from_slice(&ops);
    (delta, target)
}

fn synth_pack(rng: &mut Rng) -> Vec<PEntry> {
    let n = if rng.chance(1, 6) { rng.range(14, 26) } else { rng.range(1, 12) } as usize;
    let chainy = rng.chance(1, 2);
    let mut entries: Vec<PEntry> = Vec::new();
    let mut objs: Vec<Vec<u8>> = Vec::new();
    let mut kinds: Vec<u8> = Vec::new();
    for i in 0..n {
        if i == 0 || rng.chance(1, if chainy { 9 } else { 4 }) {
            let k = rng.range(1, 4) as u8;
            let d = rand_data(rng, 4000);
            entries.push(PEntry { k: EK::Base(k), data: d.clone(), id: vec![] });
            objs.push(d);
            kinds.push(k);
        } else if rng.chance(1, 10) {
            let k = rng.range(1, 4) as u8;
            let base = rand_data(rng, 1500);
            let (delta, target) = make_delta(rng, &base);
            entries.push(PEntry { k: EK::Ext(k, base), data: delta, id: vec![] });
            objs.push(target);
            kinds.push(k);
        } else {
            let j = if rng.chance(if chainy { 9 } else { 5 }, 10) { i - 1 } else { rng.below(i as u64) as usize };
            let (delta, target) = make_delta(rng, &objs[j]);
            let k = if rng.chance(1, 2) { EK::Ofs(j) } else { EK::Ref(j) };
            entries.push(PEntry { k, data: delta, id: vec![] });
            objs.push(target);
            kinds.push(kinds[j]);
        }
    }
    if rng.chance(1, 4) {
        // permute: forward references become REF deltas
        let mut perm: Vec<usize> = (0..n).collect();
        for i in (1..n).rev() {
            perm.swap(i, rng.below(i as u64 + 1) as usize);
        }
        // perm[new] = old
        let mut new_of = vec![0usize; n];
        for (new, old) in perm.iter().enumerate() {
            new_of[*old] = new;
        }
        let mut out = Vec::new();
        for (new, old) in perm.iter().enumerate() {
            let mut e = entries[*old].clone();
            e.k = match e.k {
                EK::Ofs(b) if new_of[b] < new => EK::Ofs(new_of[b]),
                EK::Ofs(b) | EK::Ref(b) => EK::Ref(new_of[b]),
                k => k,
            };
            out.push(e);
        }
        entries = out;
    }
    entries
}

fn corrupt(rng: &mut Rng, entries: &mut [PEntry]) {
    let deltas: Vec<usize> = entries.iter().enumerate().filter(|(_, e)| !matches!(e.k, EK::Base(_))).map(|(i, _)| i).collect();
    if deltas.is_empty() {
        return;
    }
    let i = *rng.pick(&deltas);
    let n = entries.len();
    let e = &mut entries[i];
    match rng.below(8) {
        0 => {
            // base size off by a little
            if e.data[0] < 127 {
                e.data[0] = if rng.chance(1, 2) { e.data[0] + 1 } else { e.data[0].saturating_sub(1) };
            }
        }
        1 => {
            // result size off by a little
            let p = if e.data[0] < 128 { 1 } else { 2 };
            if p < e.data.len() && e.data[p] < 127 {
                e.data[p] = if rng.chance(1, 2) { e.data[p] + 1 } else { e.data[p].saturating_sub(1) };
            }
        }
        2 => {
            let keep = rng.below(e.data.len() as u64 + 1) as usize;
            e.data.truncate(keep);
        }
        3 => {
            let p = rng.below(e.data.len() as u64) as usize;
            e.data[p] ^= 1 << rng.below(8);
        }
        4 => {
            let n_extra = rng.range(1, 4) as usize;
            let extra = rng.bytes(n_extra);
            e.data.extend_from_slice(&extra);
        }
        5 => e.k = EK::Ref(n + rng.below(3) as usize), // unresolvable
        6 => e.data = vec![0, 0],                      // sizes 0/0, no instructions
        _ => {
            if let EK::Ext(_, base) = &mut e.k {
                base.push(b'!');
            } else {
                e.k = EK::Ref(rng.below(n as u64) as usize); // may create a cycle or a wrong base
            }
        }
    }
}

const CFG_POOL: [&str; 30] = [
    "n", "s1:0", "s1:1", "s1:100", "s2:0", "s2:8", "s2:100", "s3:20", "s3:0", "s4:1000", "s4:0", "s10:100", "s10:0",
    "s64:0", "s64:300", "s64:1", "m1", "m2", "m64", "m300", "m1000", "m1048576", "o0+n", "o100+n", "o60+s2:0",
    "o1000+m64", "o53+s64:0", "o5000+s64:0", "o300+m300", "o100000+s3:0",
];

fn pick_cfgs(rng: &mut Rng) -> Vec<u8> {
    let n = rng.range(2, 4);
    let mut v: Vec<&str> = Vec::new();
    for _ in 0..n {
        v.push(*rng.pick(&CFG_POOL));
    }
    v.join(",").into_bytes()
}

fn pick_requests(rng: &mut Rng, n: usize) -> Vec<u8> {
    let len = rng.range(1, 40) as usize;
    match rng.below(6) {
        0 => (0..n.min(60)).map(|i| i as u8).collect(),
        1 => (0..n).rev().take(60).map(|i| i as u8).collect(),
        2 => {
            // few distinct entries, many repetitions
            let a: Vec<u8> = (0..3).map(|_| rng.below(n as u64) as u8).collect();
            (0..len).map(|_| *rng.pick(&a)).collect()
        }
        3 => {
            // everything twice
            let start = rng.below(n as u64) as usize;
            let mut v: Vec<u8> = (start..n.min(start + 25)).map(|i| i as u8).collect();
            v.extend((start..n.min(start + 25)).map(|i| i as u8));
            v
        }
        _ => (0..len).map(|_| rng.below(n as u64) as u8).collect(),
    }
}

fn dec_case(cfgs: Vec<u8>, reqs: Vec<u8>, entries: &[PEntry]) -> Case {
    let mut c = vec![tag("dec"), cfgs, reqs];
    for e in entries {
        let (h, x) = match &e.k {
            EK::Base(k) => (format!("b{k}"), vec![]),
            EK::Ofs(b) => (format!("o{b}"), vec![]),
            EK::Ref(b) => (format!("r{b}"), vec![]),
            EK::Ext(k, base) => (format!("x{k}"), base.clone()),
        };
        c.push(h.into_bytes());
        c.push(e.data.clone());
        c.push(x);
        c.push(e.id.clone());
    }
    c
}

fn put_op(key: u8, kind: u8, csz: u8, data: &[u8]) -> Vec<u8> {
    let mut v = vec![b'p', key, kind, csz];
    v.extend_from_slice(data);
    v
}

fn lru_case(size: u64, limit: u64, ops: Vec<Vec<u8>>) -> Case {
    let mut c = vec![tag("lru"), num(size), num(limit)];
    c.extend(ops);
    c
}

/// a small set of keys, many of which agree in the low bits of the pack id or of the offset
fn pick_keys(rng: &mut Rng) -> Vec<u8> {
    match rng.below(4) {
        0 => (0..rng.range(1, 6)).map(|_| rng.below(256) as u8).collect(),
        1 => {
            // one offset, pack ids that collide when truncated to 16 (or 8, 15, 31) bits
            let off = rng.below(16) as u8;
            [0u8, 3, 1, 4, 6, 2, 8, 7, 9, 12, 5].iter().map(|p| (p << 4) | off).collect()
        }
        2 => {
            // one pack id, offsets that collide when truncated to 32 or 16 bits
            let pid = rng.below(16) as u8;
            [0u8, 6, 1, 7, 2, 8, 5, 13, 3, 15, 9].iter().map(|o| (pid << 4) | o).collect()
        }
        _ => (0..12).map(|i| i as u8).collect(),
    }
}

fn random_ops(rng: &mut Rng, lens: &[usize]) -> Vec<Vec<u8>> {
    let keys = pick_keys(rng);
    let n = rng.range(3, 70);
    let mut ops = Vec::new();
    for i in 0..n {
        let key = *rng.pick(&keys);
        if rng.chance(3, 5) {
            let len = *rng.pick(lens);
            let data: Vec<u8> = (0..len).map(|j| (i as u8).wrapping_mul(7).wrapping_add(j as u8).wrapping_add(key)).collect();
            ops.push(put_op(key, rng.range(1, 4) as u8, rng.below(256) as u8, &data));
        } else {
            ops.push(vec![b'g', key]);
        }
    }
    ops
}

fn random_lru(rng: &mut Rng) -> Case {
    let size = *rng.pick(&SIZES);
    let limit = *rng.pick(&[0u64, 1, 2, 7, 8, 9, 15, 16, 17, 20, 24, 40, 50, 64, 100, 101, 1000]);
    let lens = [0usize, 1, 1, 2, 7, 8, 9, 15, 16, 17, 20, 24, 33, 50, 64, 100, 101];
    lru_case(size, limit, random_ops(rng, &lens))
}

fn random_mem(rng: &mut Rng) -> Case {
    let cap = *rng.pick(&[1u64, 2, 9, 20, 64, 100, 300, 5000]);
    let lens = [0usize, 1, 1, 2, 7, 8, 9, 16, 19, 20, 33, 50, 64, 99, 100];
    let mut c = vec![tag("mem"), num(cap)];
    c.extend(random_ops(rng, &lens));
    c
}

/// pack ids (indices into PIDS) that collide in their low bits, and some that do not
const PID_SETS: [&[u8]; 8] = [&[0, 3], &[1, 4], &[1, 6], &[2, 8], &[7, 9], &[0, 3, 5], &[1, 4, 6, 12], &[10, 11]];

/// k packs of the same shape (equal entry and data offsets wherever the zlib streams have equal
/// lengths) but different contents, decoded through one shared cache
fn mdec_case(rng: &mut Rng) -> Case {
    let mut a = synth_pack(rng);
    while a.len() > 40 {
        a = synth_pack(rng);
    }
    let pids = *rng.pick(&PID_SETS);
    let k = pids.len();
    let n = a.len();
    let mut entries: Vec<PEntry> = Vec::new();
    for j in 0..k {
        for e in &a {
            let mut e = e.clone();
            if j > 0 {
                // same lengths, other bytes: flip letters of base data and of inserted literals
                match &e.k {
                    EK::Base(_) => {
                        for b in e.data.iter_mut() {
                            if b.is_ascii_lowercase() {
                                *b = b'a' + (*b - b'a' + j as u8) % 26;
                            }
                        }
                    }
                    _ => {
                        // walk the instructions; literals only
                        let mut i = 0;
                        for _ in 0..2 {
                            while i < e.data.len() && e.data[i] & 0x80 != 0 {
                                i += 1;
                            }
                            i += 1;
                        }
                        while i < e.data.len() {
                            let cmd = e.data[i];
                            i += 1;
                            if cmd & 0x80 != 0 {
                                i += (cmd & 0x7f).count_ones() as usize;
                            } else {
                                for b in e.data.iter_mut().skip(i).take(cmd as usize) {
                                    if b.is_ascii_lowercase() {
                                        *b = b'a' + (*b - b'a' + j as u8) % 26;
                                    }
                                }
                                i += cmd as usize;
                            }
                        }
                        if let EK::Ext(_, base) = &mut e.k {
                            for b in base.iter_mut() {
                                if b.is_ascii_lowercase() {
                                    *b = b'a' + (*b - b'a' + j as u8) % 26;
                                }
                            }
                        }
                    }
                }
            }
            e.k = match e.k {
                EK::Ofs(b) => EK::Ofs(b + j * n),
                EK::Ref(b) => EK::Ref(b + j * n),
                x => x,
            };
            entries.push(e);
        }
    }
    // the same local entries of every pack, interleaved, with repetitions
    let mut reqs = Vec::new();
    let locals: Vec<usize> = match rng.below(3) {
        0 => (0..n).collect(),
        1 => (0..n).rev().collect(),
        _ => (0..rng.range(1, 12)).map(|_| rng.below(n as u64) as usize).collect(),
    };
    for l in locals.iter().take(20) {
        for j in 0..k {
            if l + j * n < 256 {
                reqs.push((l + j * n) as u8);
            }
        }
        if rng.chance(1, 2) {
            for j in (0..k).rev() {
                if l + j * n < 256 {
                    reqs.push((l + j * n) as u8);
                }
            }
        }
    }
    let plain = ["n", "s1:0", "s2:0", "s3:0", "s4:0", "s10:0", "s64:0", "s64:300", "s10:100", "m64", "m300", "m1000", "m1048576",
        "o0+s64:0", "o0+m1048576", "o60+s2:0", "o100000+s64:0"];
    let cfgs: Vec<&str> = (0..rng.range(2, 4)).map(|_| *rng.pick(&plain)).collect();
    let mut c = dec_case(cfgs.join(",").into_bytes(), reqs, &entries);
    c[0] = tag("mdec");
    c.insert(3, num(k));
    c.insert(4, pids.to_vec());
    c
}

fn boundary(out: &mut Vec<Case>) {
    // the accounting witness of DESIGN §10 #20
    let mut ops: Vec<Vec<u8>> = (0..10).map(|_| put_op(0, 3, 1, &[0])).collect();
    ops.push(put_op(0, 3, 1, &(0..20).collect::<Vec<u8>>()));
    ops.push(put_op(0, 3, 1, &[0]));
    ops.push(put_op(0, 3, 1, &[0]));
    out.push(lru_case(10, 100, ops));
    // gix-pack's own unit test `journey`
    let mut ops: Vec<Vec<u8>> = (0..10).map(|_| put_op(0, 3, 1, &[0])).collect();
    ops.push(put_op(0, 3, 1, &(0..20).collect::<Vec<u8>>()));
    ops.push(put_op(0, 3, 1, &(0..50).collect::<Vec<u8>>()));
    ops.push(put_op(0, 3, 1, &(0..101).collect::<Vec<u8>>()));
    ops.push(vec![b'g', 0]);
    out.push(lru_case(10, 100, ops));
    // the minimal vector capacity (8) exceeds a tiny limit
    out.push(lru_case(1, 1, vec![put_op(0, 3, 1, &[7]), put_op(1, 3, 1, &[8]), vec![b'g', 1], vec![b'g', 0]]));
    out.push(lru_case(2, 1, vec![put_op(0, 3, 1, &[7]), put_op(1, 3, 1, &[8]), put_op(2, 3, 1, &[9]), vec![b'g', 1]]));
    // 13 one-byte objects: 104 bytes of capacity against a limit of 100
    let mut ops: Vec<Vec<u8>> = (0..15).map(|i| put_op(i, 3, 1, &[i])).collect();
    ops.push(vec![b'g', 14]);
    ops.push(vec![b'g', 0]);
    out.push(lru_case(64, 100, ops));
    // duplicates of one key, eviction order
    out.push(lru_case(
        3,
        0,
        vec![
            put_op(1, 1, 1, b"a"),
            put_op(2, 2, 2, b"b"),
            put_op(1, 3, 3, b"c"),
            vec![b'g', 1],
            vec![b'g', 2],
            put_op(3, 4, 4, b"d"),
            put_op(4, 1, 5, b"e"),
            vec![b'g', 1],
            vec![b'g', 2],
            vec![b'g', 3],
        ],
    ));
    // empty data
    out.push(lru_case(2, 8, vec![put_op(1, 3, 0, b""), vec![b'g', 1], put_op(2, 3, 0, b"12345678"), put_op(3, 3, 0, b"1"), vec![b'g', 1]]));

    // keys that differ only in the high bits of the pack id (2^16, 2^31, 0xffff_0001 ...) or of the offset
    for (a, b) in [(0x00u8, 0x30u8), (0x11, 0x41), (0x11, 0x61), (0x22, 0x82), (0x70, 0x90), (0x00, 0x50), (0x10, 0xc0), (0x00, 0x06), (0x02, 0x08), (0x04, 0x09), (0x00, 0x0b)] {
        let ops = vec![put_op(a, 1, 1, b"first"), put_op(b, 2, 2, b"second"), vec![b'g', a], vec![b'g', b], vec![b'g', a]];
        out.push(lru_case(4, 0, ops.clone()));
        let mut c = vec![tag("mem"), num(1000)];
        c.extend(ops);
        out.push(c);
    }
    // two packs [blob, delta] of the same shape under pack ids 0 and 2^16 (and 1 / 0xffff_0001), one cache
    for pids in [[0u8, 3], [1, 6], [2, 8]] {
        let mut entries = Vec::new();
        for j in 0..2u8 {
            let base = if j == 0 { b"hello world, hello pack\n".to_vec() } else { b"jello world, jello pack\n".to_vec() };
            let mut delta = Vec::new();
            varint(base.len() as u64, &mut delta);
            varint(base.len() as u64 + 1, &mut delta);
            copy_op(0, base.len() as u64, &mut delta);
            delta.push(1);
            delta.push(b'p' + j);
            entries.push(PEntry { k: EK::Base(3), data: base, id: vec![] });
            entries.push(PEntry { k: EK::Ofs(2 * j as usize), data: delta, id: vec![] });
        }
        let mut c = dec_case(b"n,s2:0,s64:0,m1000,o0+s64:0,o1000+m64".to_vec(), vec![1, 3, 1, 3, 0, 2], &entries);
        c[0] = tag("mdec");
        c.insert(3, num(2));
        c.insert(4, pids.to_vec());
        out.push(c);
    }
    // packs: chains of length 1..12 over one base, all request orders, all cache kinds
    let all_cfgs = CFG_POOL.join(",").into_bytes();
    for depth in [1usize, 2, 3, 4, 10, 11, 12] {
        let mut entries = vec![PEntry { k: EK::Base(3), data: b"hello world, hello pack\n".to_vec(), id: vec![] }];
        let mut obj = entries[0].data.clone();
        for d in 0..depth {
            // copy all, then insert one byte
            let mut delta = Vec::new();
            varint(obj.len() as u64, &mut delta);
            varint(obj.len() as u64 + 1, &mut delta);
            copy_op(0, obj.len() as u64, &mut delta);
            delta.push(1);
            delta.push(b'0' + (d % 10) as u8);
            obj.push(b'0' + (d % 10) as u8);
            entries.push(PEntry { k: if d % 2 == 0 { EK::Ofs(d) } else { EK::Ref(d) }, data: delta, id: vec![] });
        }
        let n = entries.len();
        let fwd: Vec<u8> = (0..n as u8).collect();
        let bwd: Vec<u8> = (0..n as u8).rev().collect();
        let mut twice = bwd.clone();
        twice.extend_from_slice(&bwd);
        twice.extend_from_slice(&fwd);
        out.push(dec_case(all_cfgs.clone(), fwd, &entries));
        out.push(dec_case(all_cfgs.clone(), twice, &entries));
        out.push(dec_case(all_cfgs.clone(), vec![(n - 1) as u8, (n - 1) as u8, 1, (n - 1) as u8], &entries));
    }
    // shrinking and growing results, out-of-pack base, empty result
    {
        let base = (0..200u8).collect::<Vec<u8>>();
        let mut d1 = Vec::new();
        varint(200, &mut d1);
        varint(3, &mut d1);
        copy_op(100, 3, &mut d1);
        let mut d2 = Vec::new();
        varint(3, &mut d2);
        varint(9, &mut d2);
        copy_op(0, 3, &mut d2);
        copy_op(0, 3, &mut d2);
        copy_op(0, 3, &mut d2);
        let mut d3 = Vec::new();
        varint(9, &mut d3);
        varint(0, &mut d3);
        let mut d4 = Vec::new();
        varint(0, &mut d4);
        varint(2, &mut d4);
        d4.extend_from_slice(&[2, b'h', b'i']);
        let entries = vec![
            PEntry { k: EK::Ext(1, base), data: d1, id: vec![] },
            PEntry { k: EK::Ofs(0), data: d2, id: vec![] },
            PEntry { k: EK::Ref(1), data: d3, id: vec![] },
            PEntry { k: EK::Ofs(2), data: d4, id: vec![] },
        ];
        out.push(dec_case(all_cfgs.clone(), vec![3, 2, 1, 0, 0, 1, 2, 3, 3], &entries));
        out.push(dec_case(all_cfgs.clone(), vec![0, 1, 2, 3, 1, 3], &entries));
    }
    // sizes 0/0 with an empty out-of-pack base: panic in the 'rescue' step (props/C07 NOTES)
    out.push(dec_case(b"n,s2:0".to_vec(), vec![0], &[PEntry { k: EK::Ext(3, vec![]), data: vec![0, 0], id: vec![] }]));
    // unresolvable base
    out.push(dec_case(
        b"n,m64,o100+n".to_vec(),
        vec![0, 1, 0],
        &[
            PEntry { k: EK::Base(3), data: b"abc".to_vec(), id: vec![] },
            PEntry { k: EK::Ref(7), data: vec![3, 3, 0x90, 3], id: vec![] },
        ],
    ));
}

// ---- real packs from git -------------------------------------------------------------------

fn git(dir: &std::path::Path, args: &[&str], stdin: &[u8]) -> Vec<u8> {
    use std::process::{Command, Stdio};
    let mut child = Command::new("/usr/bin/git")
        .args(args)
        .env("GIT_DIR", dir)
        .env("GIT_CONFIG_NOSYSTEM", "1")
        .env("GIT_CONFIG_GLOBAL", "/dev/null")
        .env("HOME", dir)
        .stdin(Stdio::piped())
        .stdout(Stdio::piped())
        .stderr(Stdio::null())
        .spawn()
        .expect("spawn git");
    let mut si = child.stdin.take().unwrap();
    let input = stdin.to_vec();
    let t = std::thread::spawn(move || {
        let _ = si.write_all(&input);
    });
    let o = child.wait_with_output().expect("git output");
    let _ = t.join();
    assert!(o.status.success(), "git {args:?} failed");
    o.stdout
}

struct RawEntry {
    offset: u64,
    ty: u8,
    base_ofs: u64,
    base_id: Vec<u8>,
    data: Vec<u8>,
}

fn parse_pack(p: &[u8]) -> Vec<RawEntry> {
    assert_eq!(&p[..4], b"PACK");
    let n = u32::from_be_bytes(p[8..12].try_into().unwrap()) as usize;
    let mut pos = 12usize;
    let mut out = Vec::new();
    for _ in 0..n {
        let offset = pos as u64;
        let mut c = p[pos];
        pos += 1;
        let ty = (c >> 4) & 7;
        let mut size = u64::from(c & 15);
        let mut shift = 4;
        while c & 0x80 != 0 {
            c = p[pos];
            pos += 1;
            size |= u64::from(c & 0x7f) << shift;
            shift += 7;
        }
        let (mut base_ofs, mut base_id) = (0u64, Vec::new());
        if ty == 6 {
            let mut c = p[pos];
            pos += 1;
            let mut d = u64::from(c & 127);
            while c & 128 != 0 {
                d += 1;
                c = p[pos];
                pos += 1;
                d = (d << 7) + u64::from(c & 127);
            }
            base_ofs = offset - d;
        } else if ty == 7 {
            base_id = p[pos..pos + 20].to_vec();
            pos += 20;
        }
        let mut dz = flate2::Decompress::new(true);
        let mut data = vec![0u8; size as usize];
        let mut extra = [0u8; 8];
        // fill the buffer, then let zlib see the end of the stream
        let st = dz.decompress(&p[pos..], &mut data, flate2::FlushDecompress::None).expect("inflate");
        if !matches!(st, flate2::Status::StreamEnd) {
            let before = dz.total_in() as usize;
            let st2 = dz.decompress(&p[pos + before..], &mut extra, flate2::FlushDecompress::Finish).expect("inflate end");
            assert!(matches!(st2, flate2::Status::StreamEnd), "stream end");
        }
        assert_eq!(dz.total_out(), size);
        pos += dz.total_in() as usize;
        out.push(RawEntry { offset, ty, base_ofs, base_id, data });
    }
    assert_eq!(pos + 20, p.len(), "pack fully parsed");
    out
}

/// A random history packed by git. None when the pack does not fit the case format (sizes >= 2^14).
fn git_pack(rng: &mut Rng, serial: usize) -> Option<Vec<PEntry>> {
    let dir = std::env::temp_dir().join(format!("gixv-c08-gen-{}-{}", std::process::id(), serial));
    let _ = std::fs::remove_dir_all(&dir);
    std::fs::create_dir_all(dir.join("objects")).unwrap();
    std::fs::create_dir_all(dir.join("refs/heads")).unwrap();
    std::fs::write(dir.join("HEAD"), "ref: refs/heads/main\n").unwrap();
    struct Cleanup(std::path::PathBuf);
    impl Drop for Cleanup {
        fn drop(&mut self) {
            let _ = std::fs::remove_dir_all(&self.0);
        }
    }
    let _cleanup = Cleanup(dir.clone());

    let words = ["alpha", "beta", "gamma", "delta", "epsilon", "zeta", "eta", "theta", "iota", "kappa"];
    let paths = ["a.txt", "b.txt", "dir/c.txt", "dir/d.txt", "dir/sub/e.txt"];
    let nfiles = rng.range(1, 5) as usize;
    let mut files: Vec<Vec<String>> = Vec::new();
    for _ in 0..nfiles {
        let nlines = if rng.chance(1, 8) { rng.range(40, 120) } else { rng.range(3, 30) } as usize;
        files.push(
            (0..nlines)
                .map(|_| {
                    let k = rng.range(1, 8);
                    (0..k).map(|_| *rng.pick(&words)).collect::<Vec<_>>().join(" ")
                })
                .collect(),
        );
    }
    let ncommits = rng.range(2, 8) as usize;
    let mut s = Vec::new();
    for c in 0..ncommits {
        let msg = format!("commit {c}\n\n{}\n", (0..rng.range(0, 30)).map(|_| *rng.pick(&words)).collect::<Vec<_>>().join(" "));
        write!(s, "commit refs/heads/main\nmark :{}\ncommitter C O Mitter <c@example.com> {} +0000\ndata {}\n{}", c + 1, 1000000000 + c, msg.len(), msg).unwrap();
        if c > 0 {
            writeln!(s, "from :{c}").unwrap();
        }
        for (fi, f) in files.iter_mut().enumerate() {
            if c > 0 && !rng.chance(2, 3) {
                continue;
            }
            if c > 0 {
                for _ in 0..rng.range(1, 4) {
                    let at = rng.below(f.len() as u64 + 1) as usize;
                    match rng.below(3) {
                        0 => f.insert(at.min(f.len()), format!("{} {}", rng.pick(&words), rng.next() % 1000)),
                        1 if f.len() > 2 => {
                            f.remove(at.min(f.len() - 1));
                        }
                        _ => {
                            let at = at.min(f.len() - 1);
                            f[at] = format!("{} changed {}", rng.pick(&words), rng.next() % 1000);
                        }
                    }
                }
            }
            let content = f.join("\n") + "\n";
            write!(s, "M 100644 inline {}\ndata {}\n{}\n", paths[fi], content.len(), content).unwrap();
        }
        if rng.chance(1, 4) {
            let tmsg = format!("tag of {c}\n");
            write!(s, "tag v{c}\nfrom :{}\ntagger T Agger <t@example.com> 1000000000 +0000\ndata {}\n{}\n", c + 1, tmsg.len(), tmsg).unwrap();
        }
    }
    git(&dir, &["fast-import", "--quiet"], &s);

    let depth = *rng.pick(&[1u32, 2, 3, 5, 10, 50]);
    let window = *rng.pick(&[1u32, 2, 10, 50]);
    let ofs = rng.chance(1, 2);
    let thin = rng.chance(1, 4) && ncommits > 2;
    let depth_arg = format!("--depth={depth}");
    let window_arg = format!("--window={window}");
    let mut args = vec!["-c", "pack.threads=1", "pack-objects", "--stdout", "--revs", "-q", &depth_arg, &window_arg];
    if ofs {
        args.push("--delta-base-offset");
    }
    let input = if thin {
        args.push("--thin");
        format!("refs/heads/main\n^refs/heads/main~{}\n", rng.range(1, ncommits as i64 - 1))
    } else {
        args.push("--all");
        String::new()
    };
    let pack = git(&dir, &args, input.as_bytes());
    let raw = parse_pack(&pack);
    if raw.is_empty() || raw.len() > 250 {
        return None;
    }

    // git's view of every object in the repository: id -> (type, size)
    let listing = git(&dir, &["cat-file", "--batch-check", "--batch-all-objects"], b"");
    let mut git_objs: HashMap<Vec<u8>, (String, usize)> = HashMap::new();
    for l in String::from_utf8_lossy(&listing).lines() {
        let f: Vec<&str> = l.split(' ').collect();
        git_objs.insert(unhex(f[0]), (f[1].to_string(), f[2].parse().unwrap()));
    }
    let type_name = |k: u8| ["", "commit", "tree", "blob", "tag"][k as usize];

    // resolve: ids become known for bases first
    let by_offset: HashMap<u64, usize> = raw.iter().enumerate().map(|(i, e)| (e.offset, i)).collect();
    let mut objs: Vec<Option<(u8, Vec<u8>)>> = vec![None; raw.len()];
    let mut ids: Vec<Vec<u8>> = vec![vec![]; raw.len()];
    let mut ext: HashMap<usize, (u8, Vec<u8>)> = HashMap::new();
    loop {
        let mut progress = false;
        let known: HashMap<Vec<u8>, usize> = ids.iter().enumerate().filter(|(_, id)| !id.is_empty()).map(|(i, id)| (id.clone(), i)).collect();
        for i in 0..raw.len() {
            if objs[i].is_some() {
                continue;
            }
            let e = &raw[i];
            let r = match e.ty {
                1..=4 => Some((e.ty, e.data.clone())),
                6 => objs[by_offset[&e.base_ofs]].clone().map(|(k, b)| (k, git_patch_delta(&b, &e.data).expect("git delta applies"))),
                7 => match known.get(&e.base_id) {
                    Some(j) => objs[*j].clone().map(|(k, b)| (k, git_patch_delta(&b, &e.data).expect("git delta applies"))),
                    None => None,
                },
                _ => panic!("entry type"),
            };
            if let Some((k, d)) = r {
                ids[i] = gix_object::compute_hash(gix_hash::Kind::Sha1, kind_of(k), &d).as_bytes().to_vec();
                objs[i] = Some((k, d));
                progress = true;
            }
        }
        if objs.iter().all(Option::is_some) {
            break;
        }
        if !progress {
            // thin pack: fetch the missing bases from the repository
            let mut fetched = false;
            for i in 0..raw.len() {
                if objs[i].is_none() && raw[i].ty == 7 && !ext.contains_key(&i) {
                    let known_now = ids.iter().any(|id| *id == raw[i].base_id);
                    if known_now {
                        continue;
                    }
                    let hexid = hexs(&raw[i].base_id);
                    let (ty, _) = git_objs.get(&raw[i].base_id).expect("base exists in repository").clone();
                    let body = git(&dir, &["cat-file", &ty, &hexid], b"");
                    let k = ["", "commit", "tree", "blob", "tag"].iter().position(|t| *t == ty).unwrap() as u8;
                    let t = git_patch_delta(&body, &raw[i].data).expect("thin delta applies");
                    ids[i] = gix_object::compute_hash(gix_hash::Kind::Sha1, kind_of(k), &t).as_bytes().to_vec();
                    objs[i] = Some((k, t));
                    ext.insert(i, (k, body));
                    fetched = true;
                }
            }
            assert!(fetched, "pack resolves");
        }
    }
    // every object must be one git knows, with git's type and size
    for i in 0..raw.len() {
        let (k, d) = objs[i].as_ref().unwrap();
        let (ty, size) = git_objs.get(&ids[i]).unwrap_or_else(|| panic!("git does not know object of entry {i}"));
        assert_eq!((ty.as_str(), *size), (type_name(*k), d.len()), "type and size as git reports");
    }
    let known: HashMap<Vec<u8>, usize> = ids.iter().enumerate().map(|(i, id)| (id.clone(), i)).collect();
    let mut entries = Vec::new();
    for (i, e) in raw.iter().enumerate() {
        let k = match e.ty {
            1..=4 => EK::Base(e.ty),
            6 => EK::Ofs(by_offset[&e.base_ofs]),
            _ => match ext.get(&i) {
                Some((k, body)) => EK::Ext(*k, body.clone()),
                None => EK::Ref(known[&e.base_id]),
            },
        };
        if !matches!(k, EK::Base(_)) && !delta_hdr_ok(&e.data) {
            return None;
        }
        if e.data.len() >= 16000 || objs[i].as_ref().unwrap().1.len() >= 16000 {
            return None;
        }
        entries.push(PEntry { k, data: e.data.clone(), id: ids[i].clone() });
    }
    Some(entries)
}

fn gen(rng: &mut Rng, n: usize) -> Vec<Case> {
    let mut out = Vec::new();
    boundary(&mut out);
    // real packs: each is used for several (configurations, request sequence) cases
    let n_git = (n / 160).clamp(2, 60);
    let per_pack = 12usize;
    let mut serial = 0;
    for _ in 0..n_git {
        serial += 1;
        let packed = match catch_unwind(AssertUnwindSafe(|| git_pack(rng, serial))) {
            Ok(p) => p,
            Err(e) => {
                let msg = e.downcast_ref::<String>().cloned().or_else(|| e.downcast_ref::<&str>().map(|s| s.to_string())).unwrap_or_default();
                eprintln!("generator: git pack {serial} failed: {msg}");
                std::process::exit(3);
            }
        };
        if let Some(entries) = packed {
            for _ in 0..per_pack {
                let reqs = pick_requests(rng, entries.len());
                out.push(dec_case(pick_cfgs(rng), reqs, &entries));
            }
        }
    }
    while out.len() < n {
        let pickr = rng.below(20);
        if pickr < 5 {
            out.push(random_lru(rng));
        } else if pickr < 7 {
            out.push(random_mem(rng));
        } else if pickr < 10 {
            out.push(mdec_case(rng));
        } else {
            let mut entries = synth_pack(rng);
            if rng.chance(1, 7) {
                corrupt(rng, &mut entries);
            }
            let reqs = pick_requests(rng, entries.len());
            out.push(dec_case(pick_cfgs(rng), reqs, &entries));
        }
    }
    out.truncate(n.max(40));
    out
}

/// Arrow B: for packs that came from git (every requested entry carries the object id git's own
/// index reported), let `git hash-object` confirm that the bytes the patch-delta oracle assigns to the
/// entry hash to that id, and print kind and bytes; the Coq side prints Spec.object_of.
fn git_oracle(c: &Case) -> String {
    if f_str(c, 0) != b"dec" {
        return "-".into();
    }
    let Some(dc) = parse_dec(c) else {
        return "-".into();
    };
    let (reqs, entries) = (dc.reqs.clone(), dc.entries.clone());
    if reqs.is_empty() || !reqs.iter().all(|i| entries[*i].id.len() == 20) {
        return "-".into();
    }
    let objs = oracle_objects(&entries);
    let dir = std::env::temp_dir().join(format!("gixv-c08-git-{}-{}", std::process::id(), COUNTER.fetch_add(1, Ordering::SeqCst)));
    let _ = std::fs::remove_dir_all(&dir);
    std::fs::create_dir_all(dir.join("objects")).unwrap();
    std::fs::create_dir_all(dir.join("refs")).unwrap();
    std::fs::write(dir.join("HEAD"), "ref: refs/heads/main\n").unwrap();
    let mut distinct: Vec<usize> = reqs.clone();
    distinct.sort_unstable();
    distinct.dedup();
    let mut ok = true;
    for kind in 1u8..=4 {
        let of_kind: Vec<usize> = distinct.iter().copied().filter(|i| matches!(&objs[*i], Some((k, _)) if *k == kind)).collect();
        if of_kind.is_empty() {
            continue;
        }
        let mut paths = String::new();
        for i in &of_kind {
            let path = dir.join(format!("obj{i}"));
            std::fs::write(&path, &objs[*i].as_ref().unwrap().1).unwrap();
            paths.push_str(path.to_str().unwrap());
            paths.push('\n');
        }
        let ty = ["", "commit", "tree", "blob", "tag"][kind as usize];
        let out = git(&dir, &["hash-object", "-t", ty, "--stdin-paths"], paths.as_bytes());
        let ids: Vec<Vec<u8>> = String::from_utf8_lossy(&out).lines().map(unhex).collect();
        if ids.len() != of_kind.len() || ids.iter().zip(&of_kind).any(|(id, i)| *id != entries[*i].id) {
            ok = false;
        }
    }
    let _ = std::fs::remove_dir_all(&dir);
    if !ok || distinct.iter().any(|i| objs[*i].is_none()) {
        return "git-disagrees-with-oracle".into();
    }
    reqs.iter()
        .map(|i| {
            let (k, d) = objs[*i].as_ref().unwrap();
            format!("{}:{}", k, digest(d))
        })
        .collect::<Vec<_>>()
        .join(",")
}

fn main() {
    main_with(Harness { gen, imp, prop, git: Some(git_oracle), deadline: std::time::Duration::from_secs(120) });
}
