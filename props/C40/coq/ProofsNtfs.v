(* C40 — git's NTFS checks (is_ntfs_dotgit, is_ntfs_dot_generic) imply gix's (is_dot_git_ntfs, is_dot_ntfs) *)
From Coq Require Import Lia List.
From GixV.Base Require Import Bytes BytesFacts Outcome.
From GixV.C40 Require Import Tables Model Spec.
Local Open Scope N_scope.

Definition nonul (s : bytes) : Prop := ~ In x00 s.

Ltac eval_closed f :=
  repeat match goal with
  | |- context [f ?a ?b] =>
      let v := eval vm_compute in (f a b) in
      match v with true => idtac | false => idtac end;
      change (f a b) with v
  end.

Lemma ci_cases b l u : ci b l u = true -> b = l \/ b = u.
Proof.
  unfold ci. intros H. apply Bool.orb_true_iff in H.
  destruct H as [H|H]; apply beqb_eq in H; auto.
Qed.

Lemma beqb_false_of_notin b c s : ~ In b (c :: s) -> beqb c b = false.
Proof.
  intros H. destruct (beqb c b) eqn:E; [|reflexivity].
  apply beqb_eq in E. subst. exfalso. apply H. left. reflexivity.
Qed.

Lemma notin_tail (b c : byte) s : ~ In b (c :: s) -> ~ In b s.
Proof. intros H G. apply H. right. exact G. Qed.

Lemma tails_agree : forall s, only_spaces_and_periods s = done_ntfs_loop s.
Proof.
  induction s as [|c s IH]; cbn [only_spaces_and_periods done_ntfs_loop]; [reflexivity|].
  rewrite IH. reflexivity.
Qed.

Lemma dotgit_tail_done : forall s, ~ In x5c s -> ~ In x2f s ->
  ntfs_dotgit_tail s = true -> done_ntfs_loop s = true.
Proof.
  induction s as [|c s IH]; intros Hb Hs H; [reflexivity|].
  cbn [ntfs_dotgit_tail] in H. cbn [done_ntfs_loop].
  rewrite (beqb_false_of_notin _ _ _ Hb), (beqb_false_of_notin _ _ _ Hs) in H. cbn [orb] in H.
  destruct (beqb c x3a); [reflexivity|].
  destruct (beqb c x2e), (beqb c x20); cbn [negb andb] in *; try discriminate;
    apply IH; eauto using notin_tail.
Qed.

Lemma skipn_notin (b : byte) n : forall s, ~ In b s -> ~ In b (skipn n s).
Proof.
  induction n as [|n IH]; intros s H; [exact H|].
  destruct s as [|c s]; [exact H|]. cbn [skipn]. apply IH. eauto using notin_tail.
Qed.

(* ---- .git / git~1 ------------------------------------------------------------------------ *)

Lemma ntfs_dotgit_implies : forall c, ~ In x5c c -> ~ In x2f c ->
  Spec.is_ntfs_dotgit c = true -> Model.is_dot_git_ntfs c = true.
Proof.
  intros c Hb Hs H. unfold Spec.is_ntfs_dotgit in H.
  destruct (beqb (at0 c 0) x2e) eqn:E0.
  - destruct c as [|b0 [|b1 [|b2 [|b3 r]]]]; cbn [at0 nth] in *;
      try (vm_compute in E0; discriminate);
      repeat (apply Bool.andb_true_iff in H; destruct H as [H ?]);
      try match goal with G : ci x00 _ _ = true |- _ => vm_compute in G; discriminate end.
    apply beqb_eq in E0. subst b0.
    repeat match goal with G : ci _ _ _ = true |- _ => apply ci_cases in G end.
    assert (Hr : done_ntfs_loop r = true).
    { apply dotgit_tail_done; [apply (skipn_notin x5c 4 _ Hb) | apply (skipn_notin x2f 4 _ Hs) | assumption]. }
    unfold is_dot_git_ntfs, get_to, get_from, opt_is. cbn [length Nat.leb firstn skipn].
    repeat match goal with G : _ \/ _ |- _ => destruct G end; subst;
      eval_closed eq_ic; cbn [is_done_ntfs]; exact Hr.
  - destruct (ci (at0 c 0) x67 x47) eqn:E1; [|discriminate].
    destruct c as [|b0 [|b1 [|b2 [|b3 [|b4 r]]]]]; cbn [at0 nth] in *;
      try (vm_compute in E1; discriminate);
      repeat (apply Bool.andb_true_iff in H; destruct H as [H ?]);
      try match goal with G : ci x00 _ _ = true |- _ => vm_compute in G; discriminate end;
      try match goal with G : beqb x00 _ = true |- _ => vm_compute in G; discriminate end.
    repeat match goal with G : ci _ _ _ = true |- _ => apply ci_cases in G end.
    repeat match goal with G : beqb _ _ = true |- _ => apply beqb_eq in G end.
    assert (Hr : done_ntfs_loop r = true).
    { apply dotgit_tail_done; [apply (skipn_notin x5c 5 _ Hb) | apply (skipn_notin x2f 5 _ Hs) | assumption]. }
    unfold is_dot_git_ntfs, get_to, get_from, opt_is. cbn [length Nat.leb firstn skipn].
    repeat match goal with G : _ \/ _ |- _ => destruct G end; subst;
      eval_closed eq_ic; cbn [is_done_ntfs]; exact Hr.
Qed.

(* ---- strncasecmp ---------------------------------------------------------------------------- *)

Lemma lower_agree : forall x y,
  Bool.eqb (N.eqb (c_tolower (b2N x)) (c_tolower (b2N y))) (beqb (ascii_lower x) (ascii_lower y)) = true.
Proof.
  apply (forall_bytes2 (fun x y =>
    Bool.eqb (N.eqb (c_tolower (b2N x)) (c_tolower (b2N y))) (beqb (ascii_lower x) (ascii_lower y)))).
  vm_compute. reflexivity.
Qed.

Lemma lower_zero : forall y, implb (N.eqb (c_tolower (b2N y)) 0) (beqb y x00) = true.
Proof. apply (forall_bytes (fun y => implb (N.eqb (c_tolower (b2N y)) 0) (beqb y x00))). vm_compute. reflexivity. Qed.

Lemma strncasecmp_firstn : forall n a name, (n <= length name)%nat -> ~ In x00 (firstn n name) ->
  strncasecmp_eq a name n = true -> (n <= length a)%nat /\ eq_ic (firstn n a) (firstn n name) = true.
Proof.
  induction n as [|n IH]; intros a name Hl Hn H.
  - split; [cbn; lia|reflexivity].
  - destruct name as [|y name]; [cbn [length] in Hl; lia|].
    cbn [strncasecmp_eq] in H. cbn [firstn] in Hn.
    assert (Hy : N.eqb (c_tolower (b2N y)) 0 = false).
    { destruct (N.eqb (c_tolower (b2N y)) 0) eqn:E; [|reflexivity].
      pose proof (lower_zero y) as L. rewrite E in L. cbn [implb] in L. apply beqb_eq in L.
      subst y. exfalso. apply Hn. left. reflexivity. }
    destruct a as [|x a]; cbn [at0 nth tl] in H.
    + change (c_tolower (b2N x00)) with 0 in H.
      rewrite N.eqb_sym in Hy. rewrite Hy in H. cbn [negb] in H. discriminate.
    + destruct (N.eqb (c_tolower (b2N x)) (c_tolower (b2N y))) eqn:E; cbn [negb] in H; [|discriminate].
      assert (Hx : N.eqb (c_tolower (b2N x)) 0 = false).
      { apply N.eqb_eq in E. rewrite E. exact Hy. }
      rewrite Hx in H.
      cbn [length] in Hl.
      destruct (IH a name ltac:(lia) ltac:(eauto using notin_tail) H) as [L1 L2].
      split; [cbn [length]; lia|].
      cbn [firstn eq_ic]. pose proof (lower_agree x y) as L. rewrite E in L.
      destruct (beqb (ascii_lower x) (ascii_lower y)); [|discriminate]. exact L2.
Qed.

Lemma at0_some : forall s i b, at0 s i = b -> b <> x00 -> nth_error s i = Some b.
Proof.
  unfold at0. induction s as [|c s IH]; intros i b H Hb.
  - destruct i; cbn [nth] in H; congruence.
  - destruct i; cbn [nth nth_error] in *; [congruence|]. apply IH; assumption.
Qed.

Lemma nth_error_length {A} : forall (s : list A) i x, nth_error s i = Some x -> (i < length s)%nat.
Proof. intros s i x H. apply nth_error_Some. congruence. Qed.

(* ---- the fall-back short name loop ---------------------------------------------------------- *)

Definition not_upper (b : byte) : bool := negb (N.leb 65 (b2N b) && N.leb (b2N b) 90).

Lemma digit_agree : forall c, Bool.eqb (negb (N.ltb (b2N c) 48 || N.ltb 57 (b2N c))) (is_digit c) = true.
Proof.
  apply (forall_bytes (fun c => Bool.eqb (negb (N.ltb (b2N c) 48 || N.ltb 57 (b2N c))) (is_digit c))).
  vm_compute. reflexivity.
Qed.
Lemma digit19_agree : forall c,
  Bool.eqb (negb (N.ltb (b2N c) 49 || N.ltb 57 (b2N c))) (N.leb 49 (b2N c) && N.leb (b2N c) 57) = true.
Proof.
  apply (forall_bytes (fun c =>
    Bool.eqb (negb (N.ltb (b2N c) 49 || N.ltb 57 (b2N c))) (N.leb 49 (b2N c) && N.leb (b2N c) 57))).
  vm_compute. reflexivity.
Qed.
Lemma hi_agree : forall c,
  Bool.eqb (negb (N.eqb (N.land (b2N c) 128) 0)) (N.eqb (N.land (b2N c) 128) 128) = true.
Proof.
  apply (forall_bytes (fun c => Bool.eqb (negb (N.eqb (N.land (b2N c) 128) 0)) (N.eqb (N.land (b2N c) 128) 128))).
  vm_compute. reflexivity.
Qed.
Lemma lower_prefix_agree : forall c ob,
  implb (not_upper ob && N.eqb (c_tolower (b2N c)) (b2N ob)) (beqb (ascii_lower c) (ascii_lower ob)) = true.
Proof.
  apply (forall_bytes2 (fun c ob =>
    implb (not_upper ob && N.eqb (c_tolower (b2N c)) (b2N ob)) (beqb (ascii_lower c) (ascii_lower ob)))).
  vm_compute. reflexivity.
Qed.

Lemma nth_error_at0 : forall (s : bytes) i, (i < length s)%nat -> nth_error s i = Some (at0 s i).
Proof.
  unfold at0. induction s as [|c s IH]; intros i H; [cbn [length] in H; lia|].
  destruct i; cbn [nth nth_error]; [reflexivity|]. apply IH. cbn [length] in H. lia.
Qed.

Lemma eqb_true_eq a b : Bool.eqb a b = true -> a = b.
Proof. destruct a, b; cbn; congruence. Qed.

Lemma short_loop_implies_n : forall n rest, (length rest <= n)%nat ->
  forall i st prefix, length prefix = 6%nat -> forallb not_upper prefix = true ->
  ntfs_short_loop i st rest prefix = true -> ntfs_fallback i st rest prefix = true.
Proof.
  induction n as [|n IH]; intros rest Hn i st prefix Hlen Hup H.
  - destruct rest; [|cbn [length] in Hn; lia].
    cbn [ntfs_short_loop] in H. cbn [ntfs_fallback].
    destruct (Nat.leb 8 i); [reflexivity|discriminate].
  - destruct rest as [|c rest1].
    { cbn [ntfs_short_loop] in H. cbn [ntfs_fallback].
      destruct (Nat.leb 8 i); [reflexivity|discriminate]. }
    cbn [length] in Hn.
    cbn [ntfs_short_loop] in H. cbn [ntfs_fallback].
    destruct (Nat.leb 8 i) eqn:E8.
    { cbn [is_done_ntfs]. rewrite <- tails_agree. exact H. }
    destruct st.
    { pose proof (eqb_true_eq _ _ (digit_agree c)) as D.
      destruct (N.ltb (b2N c) 48 || N.ltb 57 (b2N c)); cbn [negb] in D; rewrite <- D; [discriminate|].
      apply IH; try assumption. lia. }
    destruct (beqb c x7e).
    { destruct rest1 as [|d rest2]; cbn [at0 nth] in H.
      - change (N.ltb (b2N x00) 49) with true in H. cbn [orb] in H. discriminate.
      - pose proof (eqb_true_eq _ _ (digit19_agree d)) as D.
        destruct (N.ltb (b2N d) 49 || N.ltb 57 (b2N d)); cbn [negb] in D; rewrite <- D; [discriminate|].
        apply IH; try assumption. cbn [length] in Hn. lia. }
    destruct (Nat.leb 6 i) eqn:E6; [discriminate|]. cbn [orb].
    pose proof (eqb_true_eq _ _ (hi_agree c)) as Dh. rewrite <- Dh.
    destruct (N.eqb (N.land (b2N c) 128) 0); cbn [negb] in *; [|discriminate].
    apply Nat.leb_gt in E6.
    rewrite (nth_error_at0 prefix i) by lia.
    assert (Hob : not_upper (at0 prefix i) = true).
    { rewrite forallb_forall in Hup. apply Hup. apply nth_error_In with i. apply nth_error_at0. lia. }
    pose proof (lower_prefix_agree c (at0 prefix i)) as L. rewrite Hob in L. cbn [andb] in L.
    destruct (N.eqb (c_tolower (b2N c)) (b2N (at0 prefix i))); cbn [negb] in H; [|discriminate].
    cbn [implb] in L. rewrite L. cbn [negb].
    apply IH; try assumption. lia.
Qed.

Lemma short_loop_implies : forall rest i st prefix, length prefix = 6%nat ->
  forallb not_upper prefix = true ->
  ntfs_short_loop i st rest prefix = true -> ntfs_fallback i st rest prefix = true.
Proof. intros rest. exact (short_loop_implies_n (length rest) rest (le_n _)). Qed.

(* ---- .gitmodules and its short names ----------------------------------------------------------- *)

Lemma strncasecmp_of_eq_ic : forall n a name, (n <= length a)%nat -> (n <= length name)%nat ->
  eq_ic (firstn n a) (firstn n name) = true -> strncasecmp_eq a name n = true.
Proof.
  induction n as [|n IH]; intros a name Ha Hn H; [reflexivity|].
  destruct a as [|x a]; [cbn [length] in Ha; lia|].
  destruct name as [|y name]; [cbn [length] in Hn; lia|].
  cbn [firstn eq_ic] in H. apply Bool.andb_true_iff in H. destruct H as [H1 H2].
  cbn [strncasecmp_eq at0 nth tl].
  pose proof (lower_agree x y) as L. rewrite H1 in L.
  destruct (N.eqb (c_tolower (b2N x)) (c_tolower (b2N y))); [|discriminate]. cbn [negb].
  destruct (N.eqb (c_tolower (b2N x)) 0); [reflexivity|].
  cbn [length] in Ha, Hn. apply IH; try lia. exact H2.
Qed.

Lemma nth_error_at0' : forall (s : bytes) i b, nth_error s i = Some b -> at0 s i = b.
Proof.
  unfold at0. induction s as [|c s IH]; intros i b H; destruct i; cbn [nth nth_error] in *; try congruence.
  apply IH. exact H.
Qed.

Lemma dot_not_short1 : forall c' n, strncasecmp_eq (x2e :: c') ntfs_gitmodules (S n) = false.
Proof. intros. vm_compute. reflexivity. Qed.
Lemma dot_not_short2 : forall c', ntfs_short_loop 0 false (x2e :: c') ntfs_gitmodules_short = false.
Proof. intros. vm_compute. reflexivity. Qed.

Lemma names_agree : bs "gitmodules" = ntfs_gitmodules /\ bs "gi7eba" = ntfs_gitmodules_short.
Proof. split; vm_compute; reflexivity. Qed.

Lemma leb_nonzero : forall d, N.leb 49 (b2N d) = true -> d <> x00.
Proof. intros d H E. subst d. vm_compute in H. discriminate. Qed.

Lemma ntfs_gitmodules_implies : forall c,
  Spec.is_ntfs_dotgitmodules c = true ->
  Model.is_dot_ntfs c ntfs_gitmodules ntfs_gitmodules_short = true.
Proof.
  intros c H. unfold Spec.is_ntfs_dotgitmodules, Spec.is_ntfs_dot_generic in H.
  destruct names_agree as [N1 N2]. rewrite N1, N2 in H.
  change (length ntfs_gitmodules) with 10%nat in H.
  unfold is_dot_ntfs. change (1 + length ntfs_gitmodules)%nat with 11%nat.
  destruct (beqb (at0 c 0) x2e) eqn:E0.
  - (* starts with '.' *)
    assert (Hc : exists c', c = x2e :: c').
    { destruct c as [|b c']; cbn [at0 nth] in E0; [vm_compute in E0; discriminate|].
      apply beqb_eq in E0. subst b. eauto. }
    destruct Hc as [c' ->]. cbn [get_at nth_error opt_is]. change (beqb x2e x2e) with true. cbv iota.
    cbn [tl andb] in H.
    destruct (strncasecmp_eq c' ntfs_gitmodules 10) eqn:E1.
    + destruct (strncasecmp_firstn 10 c' ntfs_gitmodules) as [L1 L2];
        [vm_compute; lia | vm_compute; intuition discriminate | exact E1 |].
      change (firstn 10 ntfs_gitmodules) with ntfs_gitmodules in L2.
      unfold get_range, get_from. cbn [length].
      assert (E11 : Nat.leb 11 (S (length c')) = true) by (apply Nat.leb_le; lia).
      rewrite E11. cbn [opt_is skipn Nat.sub]. rewrite L2.
      cbn [is_done_ntfs]. rewrite <- tails_agree. exact H.
    + rewrite dot_not_short1 in H. cbn [andb] in H. rewrite dot_not_short2 in H. discriminate.
  - (* does not start with '.' *)
    assert (E0' : opt_is (get_at c 0) (fun b => beqb b x2e) = false).
    { destruct c as [|b c']; [reflexivity|]. cbn [get_at nth_error opt_is]. exact E0. }
    rewrite E0'. cbn [andb] in H.
    match goal with |- (if ?mc then _ else _) = true => destruct mc eqn:EM end.
    + (* gix sees a regular short name: so does git *)
      unfold get_to in EM. change (Nat.leb 6 (length ntfs_gitmodules)) with true in EM. cbv iota in EM.
      destruct (Nat.leb 6 (length c)) eqn:E6; [|discriminate].
      apply Nat.leb_le in E6.
      apply Bool.andb_true_iff in EM. destruct EM as [EM M3].
      apply Bool.andb_true_iff in EM. destruct EM as [M1 M2].
      unfold get_at, opt_is in M2, M3.
      destruct (nth_error c 6) as [t|] eqn:T6; [|discriminate].
      destruct (nth_error c 7) as [d|] eqn:T7; [|discriminate].
      apply beqb_eq in M2. subst t.
      assert (S1 : strncasecmp_eq c ntfs_gitmodules 6 = true).
      { apply strncasecmp_of_eq_ic; [lia | vm_compute; lia | exact M1]. }
      rewrite S1, (nth_error_at0' _ _ _ T6), (nth_error_at0' _ _ _ T7) in H.
      change (beqb x7e x7e) with true in H. cbn [andb] in H.
      change short_digit_lo with 49 in M3. change short_digit_hi with 52 in M3.
      rewrite M3 in H.
      pose proof (nth_error_length _ _ _ T7) as L7.
      unfold get_from. assert (E8 : Nat.leb 8 (length c) = true) by (apply Nat.leb_le; lia).
      rewrite E8. cbn [is_done_ntfs]. rewrite <- tails_agree. exact H.
    + destruct (strncasecmp_eq c ntfs_gitmodules 6 && beqb (at0 c 6) x7e
                && N.leb 49 (b2N (at0 c 7)) && N.leb (b2N (at0 c 7)) 52) eqn:E2.
      * (* git sees a regular short name: so does gix — contradiction with EM *)
        exfalso.
        apply Bool.andb_true_iff in E2. destruct E2 as [E2 G4].
        apply Bool.andb_true_iff in E2. destruct E2 as [E2 G3].
        apply Bool.andb_true_iff in E2. destruct E2 as [G1 G2].
        destruct (strncasecmp_firstn 6 c ntfs_gitmodules) as [L1 L2];
          [vm_compute; lia | vm_compute; intuition discriminate | exact G1 |].
        apply beqb_eq in G2.
        pose proof (at0_some c 6 x7e G2 ltac:(discriminate)) as T6.
        pose proof (at0_some c 7 _ eq_refl (leb_nonzero _ G3)) as T7.
        unfold get_to, get_at in EM. change (Nat.leb 6 (length ntfs_gitmodules)) with true in EM. cbv iota in EM.
        assert (E6 : Nat.leb 6 (length c) = true) by (apply Nat.leb_le; lia).
        rewrite E6, T6, T7, L2 in EM. cbn [opt_is] in EM.
        change (beqb x7e x7e) with true in EM.
        change short_digit_lo with 49 in EM. change short_digit_hi with 52 in EM.
        rewrite G3, G4 in EM. discriminate.
      * apply short_loop_implies; [reflexivity | vm_compute; reflexivity | exact H].
Qed.
