(* C40 — specification: what git 2.39 (non-Windows build) refuses.  A transcription of
     read-cache.c  verify_path, verify_dotfile
     path.c        is_ntfs_dotgit, is_ntfs_dot_generic (is_ntfs_dotgitmodules)
     utf8.c        pick_one_utf8_char, next_hfs_char, is_hfs_dot_generic (is_hfs_dotgit, is_hfs_dotgitmodules)
   C strings are NUL-terminated: a `const char *` is modelled by the list of bytes from the pointer
   to (excluding) the terminator, reading at or past the end yields 0.  Written independently of
   Model.v; validated against /usr/bin/git by the harness (`git` sub-command, mode "spec"). *)
From GixV.Base Require Import Bytes.
Local Open Scope N_scope.

Definition at0 (s : bytes) (i : nat) : byte := nth i s x00.
Definition c_tolower (n : N) : N := if N.leb 65 n && N.leb n 90 then n + 32 else n.
Definition land_is (b : byte) (mask v : N) : bool := N.eqb (N.land (b2N b) mask) v.
Definition is_byte (b : byte) (n : N) : bool := N.eqb (b2N b) n.

(* ---- utf8.c ------------------------------------------------------------------------------- *)

(* pick_one_utf8_char(&s, NULL): None = "invalid" ( *start = NULL, returns 0 );
   Some (ch, incr) otherwise.  With remainder_p = NULL the remainder is 999 and the string is read
   up to its terminator. *)
Definition pick_one (s : bytes) : option (N * nat) :=
  let s0 := at0 s 0 in let s1 := at0 s 1 in let s2 := at0 s 2 in let s3 := at0 s 3 in
  if N.ltb (b2N s0) 128 then Some (b2N s0, 1%nat)
  else if land_is s0 224 192 then
    if negb (land_is s1 192 128) || land_is s0 254 192 then None
    else Some (N.lor (N.shiftl (N.land (b2N s0) 31) 6) (N.land (b2N s1) 63), 2%nat)
  else if land_is s0 240 224 then
    if negb (land_is s1 192 128)
       || negb (land_is s2 192 128)
       || (is_byte s0 224 && land_is s1 224 128)                            (* overlong *)
       || (is_byte s0 237 && land_is s1 224 160)                            (* surrogate *)
       || (is_byte s0 239 && is_byte s1 191 && land_is s2 254 190)          (* U+FFFE, U+FFFF *)
    then None
    else Some (N.lor (N.lor (N.shiftl (N.land (b2N s0) 15) 12) (N.shiftl (N.land (b2N s1) 63) 6))
                     (N.land (b2N s2) 63), 3%nat)
  else if land_is s0 248 240 then
    if negb (land_is s1 192 128)
       || negb (land_is s2 192 128)
       || negb (land_is s3 192 128)
       || (is_byte s0 240 && land_is s1 240 128)                            (* overlong *)
       || (is_byte s0 244 && N.ltb 143 (b2N s1))                            (* > U+10FFFF *)
       || N.ltb 244 (b2N s0)
    then None
    else Some (N.lor (N.lor (N.lor (N.shiftl (N.land (b2N s0) 7) 18) (N.shiftl (N.land (b2N s1) 63) 12))
                            (N.shiftl (N.land (b2N s2) 63) 6)) (N.land (b2N s3) 63), 4%nat)
  else None.

Definition hfs_ignored (c : N) : bool :=
  existsb (N.eqb c)
    [8204; 8205; 8206; 8207;            (* 200c..200f *)
     8234; 8235; 8236; 8237; 8238;      (* 202a..202e *)
     8298; 8299; 8300; 8301; 8302; 8303;(* 206a..206f *)
     65279].                            (* feff *)

(* next_hfs_char(&s): the returned code point and the new pointer; HInvalid = returned 0 with the
   pointer set to NULL.  The `while (1)` loop is given fuel; [next_hfs] supplies enough of it
   (Proofs: next_hfs_never_out_of_fuel). *)
Inductive hfs_next := HOut (c : N) (rest : bytes) | HInvalid | HFuel.
Fixpoint next_hfs_char (fuel : nat) (s : bytes) : hfs_next :=
  match fuel with
  | O => HFuel
  | S f =>
    match pick_one s with
    | None => HInvalid
    | Some (out, incr) =>
        if hfs_ignored out then next_hfs_char f (skipn incr s) else HOut out (skipn incr s)
    end
  end.
Definition next_hfs (s : bytes) : hfs_next := next_hfs_char (S (length s)) s.

(* is_hfs_dot_generic after the leading '.': the `for` loop over the needle, then the final test *)
Fixpoint hfs_needle_loop (needle : bytes) (s : bytes) : bool :=
  match needle with
  | n :: needle' =>
      match next_hfs s with
      | HOut c s' =>
          if N.ltb 127 c then false
          else if negb (N.eqb (c_tolower c) (b2N n)) then false
          else hfs_needle_loop needle' s'
      | HInvalid => false         (* c = 0 and tolower(0) != *needle: the needles contain no NUL *)
      | HFuel => false
      end
  | [] =>
      match next_hfs s with
      | HOut c _ => negb (negb (N.eqb c 0) && negb (N.eqb c 47))      (* if (c && !is_dir_sep(c)) return 0 *)
      | HInvalid => true          (* c = 0 *)
      | HFuel => false
      end
  end.

Definition is_hfs_dot_generic (path needle : bytes) : bool :=
  match next_hfs path with
  | HOut c s' => if negb (N.eqb c 46) then false else hfs_needle_loop needle s'
  | HInvalid => false
  | HFuel => false
  end.
Definition is_hfs_dotgit (path : bytes) : bool := is_hfs_dot_generic path (bs "git").
Definition is_hfs_dotgitmodules (path : bytes) : bool := is_hfs_dot_generic path (bs "gitmodules").

(* ---- path.c ------------------------------------------------------------------------------- *)

Definition ci (b : byte) (lower upper : byte) : bool := beqb b lower || beqb b upper.

(* the trailing `for (;;)` of is_ntfs_dotgit *)
Fixpoint ntfs_dotgit_tail (name : bytes) : bool :=
  match name with
  | [] => true                                                       (* !c *)
  | c :: name' =>
      if beqb c x5c || beqb c x2f || beqb c x3a then true           (* is_xplatform_dir_sep(c) || c == ':' *)
      else if negb (beqb c x2e) && negb (beqb c x20) then false
      else ntfs_dotgit_tail name'
  end.

Definition is_ntfs_dotgit (name : bytes) : bool :=
  if beqb (at0 name 0) x2e then                                                  (* .git *)
    ci (at0 name 1) x67 x47 && ci (at0 name 2) x69 x49 && ci (at0 name 3) x74 x54
    && ntfs_dotgit_tail (skipn 4 name)
  else if ci (at0 name 0) x67 x47 then                                           (* git~1 *)
    ci (at0 name 1) x69 x49 && ci (at0 name 2) x74 x54 && beqb (at0 name 3) x7e && beqb (at0 name 4) x31
    && ntfs_dotgit_tail (skipn 5 name)
  else false.

(* only_spaces_and_periods: from name[i] on *)
Fixpoint only_spaces_and_periods (name : bytes) : bool :=
  match name with
  | [] => true
  | c :: name' =>
      if beqb c x3a then true
      else if negb (beqb c x20) && negb (beqb c x2e) then false
      else only_spaces_and_periods name'
  end.

(* !strncasecmp(a, b, n) in the C locale; both NUL-terminated *)
Fixpoint strncasecmp_eq (a b : bytes) (n : nat) : bool :=
  match n with
  | O => true
  | S n' =>
      let x := c_tolower (b2N (at0 a 0)) in
      let y := c_tolower (b2N (at0 b 0)) in
      if negb (N.eqb x y) then false
      else if N.eqb x 0 then true
      else strncasecmp_eq (tl a) (tl b) n'
  end.

(* the fall-back short name loop `for (i = 0, saw_tilde = 0; i < 8; i++)`; [rest] = name + i *)
Fixpoint ntfs_short_loop (i : nat) (saw_tilde : bool) (rest prefix : bytes) {struct rest} : bool :=
  if Nat.leb 8 i then only_spaces_and_periods rest
  else match rest with
  | [] => false                                                      (* name[i] == '\0' *)
  | c :: rest1 =>
      if saw_tilde then
        if N.ltb (b2N c) 48 || N.ltb 57 (b2N c) then false else ntfs_short_loop (S i) true rest1 prefix
      else if beqb c x7e then
        let d := at0 rest1 0 in
        if N.ltb (b2N d) 49 || N.ltb 57 (b2N d) then false
        else match rest1 with
             | [] => false
             | _ :: rest2 => ntfs_short_loop (S (S i)) true rest2 prefix
             end
      else if Nat.leb 6 i then false
      else if negb (N.eqb (N.land (b2N c) 128) 0) then false
      else if negb (N.eqb (c_tolower (b2N c)) (b2N (at0 prefix i))) then false
      else ntfs_short_loop (S i) false rest1 prefix
  end.

Definition is_ntfs_dot_generic (name dotgit_name short_prefix : bytes) : bool :=
  let len := length dotgit_name in
  if beqb (at0 name 0) x2e && strncasecmp_eq (tl name) dotgit_name len
  then only_spaces_and_periods (skipn (len + 1) name)
  else if strncasecmp_eq name dotgit_name 6 && beqb (at0 name 6) x7e
          && N.leb 49 (b2N (at0 name 7)) && N.leb (b2N (at0 name 7)) 52
  then only_spaces_and_periods (skipn 8 name)
  else ntfs_short_loop 0 false name short_prefix.
Definition is_ntfs_dotgitmodules (name : bytes) : bool :=
  is_ntfs_dot_generic name (bs "gitmodules") (bs "gi7eba").

(* ---- read-cache.c --------------------------------------------------------------------------- *)

Inductive gmode := GRegular | GSymlink | GDir.
Record gopts := { g_hfs : bool; g_ntfs : bool; g_mode : gmode }.
Definition s_islnk (o : gopts) : bool := match g_mode o with GSymlink => true | _ => false end.
Definition s_isdir (o : gopts) : bool := match g_mode o with GDir => true | _ => false end.
Definition is_dir_sep (c : byte) : bool := beqb c x2f.
Definition nul_or_sep (c : byte) : bool := beqb c x00 || is_dir_sep c.

(* skip_iprefix(rest, "modules", &rest) && ( *rest == 0 || is_dir_sep( *rest)) *)
Fixpoint skip_iprefix (s prefix : bytes) {struct prefix} : option bytes :=
  match prefix with
  | [] => Some s
  | p :: prefix' =>
      match s with
      | c :: s' => if N.eqb (c_tolower (b2N c)) (c_tolower (b2N p)) then skip_iprefix s' prefix' else None
      | [] => None
      end
  end.

(* verify_dotfile(rest, mode): the first character was '.'; true = fine *)
Definition verify_dotfile (o : gopts) (rest : bytes) : bool :=
  if nul_or_sep (at0 rest 0) then false
  else if ci (at0 rest 0) x67 x47 then
    if negb (ci (at0 rest 1) x69 x49) then true
    else if negb (ci (at0 rest 2) x74 x54) then true
    else if nul_or_sep (at0 rest 3) then false
    else if s_islnk o then
      match skip_iprefix (skipn 3 rest) (bs "modules") with
      | Some r => if nul_or_sep (at0 r 0) then false else true
      | None => true
      end
    else true
  else if beqb (at0 rest 0) x2e then
    if nul_or_sep (at0 rest 1) then false else true
  else true.

(* the checks at the start of a component ("inside:") and behind a backslash *)
Definition start_refused (o : gopts) (path : bytes) : bool :=
  (g_hfs o && (is_hfs_dotgit path || (s_islnk o && is_hfs_dotgitmodules path)))
  || (g_ntfs o && (is_ntfs_dotgit path || (s_islnk o && is_ntfs_dotgitmodules path))).
Definition backslash_refused (o : gopts) (path : bytes) : bool :=
  is_ntfs_dotgit path || (s_islnk o && is_ntfs_dotgitmodules path).

(* after "inside:" : c = *path++ and the tests on it; [k] continues the loop behind c *)
Definition first_char_ok (o : gopts) (path : bytes) : bool :=
  match path with
  | [] => s_isdir o                                                  (* c == '\0' *)
  | c :: rest => negb ((beqb c x2e && negb (verify_dotfile o rest)) || is_dir_sep c)
  end.

(* the `for (;;)` loop from a `c = *path++` on *)
Fixpoint scan (o : gopts) (path : bytes) {struct path} : bool :=
  match path with
  | [] => true
  | c :: rest =>
      if is_dir_sep c then
        negb (start_refused o rest) && first_char_ok o rest
        && match rest with [] => true | _ :: rest1 => scan o rest1 end
      else if beqb c x5c && g_ntfs o then
        negb (backslash_refused o rest) && scan o rest
      else scan o rest
  end.

(* verify_path(path, mode) for a build without GIT_WINDOWS_NATIVE: has_dos_drive_prefix() is 0 and
   is_valid_path() is 1.  true = the path may enter the index *)
Definition verify_path (o : gopts) (path : bytes) : bool :=
  negb (start_refused o path) && first_char_ok o path
  && match path with [] => true | _ :: rest1 => scan o rest1 end.

Definition git_refuses (o : gopts) (path : bytes) : bool := negb (verify_path o path).
