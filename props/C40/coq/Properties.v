From GixV.Base Require Import Bytes Outcome.
From GixV.C40 Require Import Model Spec Proofs.

Theorem component_never_panics_or_hangs : forall input symlink o,
  component input symlink o <> Panic /\ component input symlink o <> OutOfFuel.
Proof. exact component_total. Qed.
