(* C40 — Path names git refuses to write are refused.
   Spec.git_refuses is git 2.39's verify_path (non-Windows build) with core.protectHFS / core.protectNTFS;
   Model.component is gix_validate::path::component. *)
From GixV.Base Require Import Bytes Outcome.
From GixV.C40 Require Import Tables Model Spec Proofs ProofsNtfs ProofsUtf8 ProofsHfs ProofsMain.

(* component() returns Ok or Err on every input *)
Theorem component_never_panics_or_hangs : forall input symlink o,
  component input symlink o <> Panic /\ component input symlink o <> OutOfFuel.
Proof. exact component_total. Qed.

(* the loop of git's next_hfs_char terminates within the fuel the Spec gives it *)
Theorem spec_next_hfs_char_fuel_suffices : forall s, next_hfs s <> HFuel.
Proof. exact next_hfs_never_out_of_fuel. Qed.

(* THE PROPERTY.  For every component (a byte string without NUL), every combination of
   protect_windows / protect_hfs / protect_ntfs and every mode: if git (core.protectHFS = protect_hfs,
   core.protectNTFS = protect_ntfs) refuses the name, component() returns an error - unless the input
   is in one of the two known classes (".", ".." ; a backslash with protect_ntfs but not protect_windows). *)
Theorem git_refuses_implies_gix_refuses_except_known : forall c o m,
  ~ In x00 c -> known_class c o = false ->
  git_refuses (gopts_of o m) c = true ->
  exists e, component c (is_symlink m) o = Err e.
Proof. exact git_refuses_gix_refuses. Qed.

(* With protect_windows and protect_ntfs on (component::Options::default()) there is no exception. *)
Theorem git_refuses_implies_gix_refuses_with_windows_protection : forall c o m,
  protect_windows o = true -> protect_ntfs o = true ->
  ~ In x00 c -> git_refuses (gopts_of o m) c = true ->
  exists e, component c (is_symlink m) o = Err e.
Proof. exact git_refuses_gix_refuses_windows. Qed.

(* the full statement is false of the code: the two known classes are real *)
Theorem git_refuses_implies_gix_refuses_refuted_dotdot :
  exists c o m, ~ In x00 c /\ git_refuses (gopts_of o m) c = true /\ component c (is_symlink m) o = Ok tt.
Proof. exists (bs ".."), (opts false false false), GRegular. exact dotdot_witness. Qed.

Theorem git_refuses_implies_gix_refuses_refuted_backslash :
  exists c o m, ~ In x00 c /\ git_refuses (gopts_of o m) c = true /\ component c (is_symlink m) o = Ok tt.
Proof. exists (bs "a\.git"), (opts false true true), GRegular. exact backslash_witness. Qed.

(* the parts, one per git function *)
Theorem hfs_dotgit_refused : forall s, ~ In x00 s -> ~ In x2f s ->
  Spec.is_hfs_dotgit s = true -> Model.is_dot_hfs s hfs_needle_git = true.
Proof. exact hfs_dotgit_implies. Qed.
Theorem hfs_dotgitmodules_refused : forall s, ~ In x00 s -> ~ In x2f s ->
  Spec.is_hfs_dotgitmodules s = true -> Model.is_dot_hfs s hfs_needle_gitmodules = true.
Proof. exact hfs_dotgitmodules_implies. Qed.
Theorem ntfs_dotgit_refused : forall c, ~ In x5c c -> ~ In x2f c ->
  Spec.is_ntfs_dotgit c = true -> Model.is_dot_git_ntfs c = true.
Proof. exact ntfs_dotgit_implies. Qed.
Theorem ntfs_dotgitmodules_refused : forall c,
  Spec.is_ntfs_dotgitmodules c = true -> Model.is_dot_ntfs c ntfs_gitmodules ntfs_gitmodules_short = true.
Proof. exact ntfs_gitmodules_implies. Qed.

(* git's UTF-8 decoder against bstr's: what git decodes, bstr decodes to the same scalar and length;
   what git cannot decode is, for bstr, ill-formed or U+FFFE / U+FFFF *)
Theorem git_decodes_implies_bstr_decodes : forall s cp n, s <> [] -> pick_one s = Some (cp, n) ->
  chars s = UCh cp n :: chars (skipn n s).
Proof. intros s cp n H1 H2. exact (proj1 (pick_some s cp n H1 H2)). Qed.
Theorem git_undecodable_is_ill_formed_or_nonchar : forall s, s <> [] -> pick_one s = None ->
  exists u rest, chars s = u :: rest /\ undecodable_for_git u = true.
Proof. intros s H1 H2. destruct (pick_none s H1 H2) as (u & rest & A & B & _). eauto. Qed.

(* Windows device names (git refuses these only in its Windows build; stated against a table of names):
   every reserved name, bare, in any letter case, is a device for gix and is refused under
   protect_windows + protect_ntfs.  Names with trailing spaces / extensions / streams: tested only. *)
Theorem windows_device_names_refused_partial : forall d a o sym,
  In d device_names -> eq_ic a d = true ->
  protect_windows o = true -> protect_ntfs o = true ->
  is_win_device a = true /\ exists e, component a sym o = Err e.
Proof. exact device_names_refused. Qed.

(* non-vacuity: inputs satisfying the hypotheses of the main theorem, refused for different reasons *)
Example ex_hfs_ignorable :   (* ".g<U+200C>it" under protect_hfs only *)
  let c := [x2e; x67; xe2; x80; x8c; x69; x74] in let o := opts false true false in
  ~ In x00 c /\ known_class c o = false /\ git_refuses (gopts_of o GRegular) c = true.
Proof. cbv zeta. split; [vm_compute; intuition discriminate|]. split; vm_compute; reflexivity. Qed.
Example ex_hfs_ill_formed_tail :   (* ".git\xff" under protect_hfs only: the repaired defect *)
  let c := [x2e; x67; x69; x74; xff] in let o := opts false true false in
  ~ In x00 c /\ known_class c o = false /\ git_refuses (gopts_of o GRegular) c = true
  /\ component c false o = Err DotGitDir.
Proof. cbv zeta. split; [vm_compute; intuition discriminate|]. repeat split; vm_compute; reflexivity. Qed.
Example ex_ntfs_short_name :   (* "GI7EB~10 ." as a symlink under protect_ntfs only *)
  let c := bs "GI7EB~10 ." in let o := opts false false true in
  ~ In x00 c /\ known_class c o = false /\ git_refuses (gopts_of o GSymlink) c = true.
Proof. cbv zeta. split; [vm_compute; intuition discriminate|]. split; vm_compute; reflexivity. Qed.
Example ex_device : In (bs "conout$") device_names /\ eq_ic (bs "ConOut$") (bs "conout$") = true.
Proof. split; [vm_compute; auto 10|vm_compute; reflexivity]. Qed.
