(* C40 — assembly: git's verify_path refuses a component => gix's component() refuses it *)
From Coq Require Import Lia List.
From GixV.Base Require Import Bytes BytesFacts Outcome.
From GixV.C40 Require Import Tables Model Spec Proofs ProofsNtfs ProofsUtf8 ProofsHfs.
Local Open Scope N_scope.

Definition is_symlink (m : gmode) : bool := match m with GSymlink => true | _ => false end.
Definition gopts_of (o : options) (m : gmode) : gopts :=
  {| g_hfs := protect_hfs o; g_ntfs := protect_ntfs o; g_mode := m |}.

Definition is_dots (c : bytes) : bool := bytes_eqb c [x2e] || bytes_eqb c [x2e; x2e].
(* the two known deviations (findings.txt: dot-or-dotdot, ntfs-backslash) *)
Definition known_class (c : bytes) (o : options) : bool :=
  (is_dots c && negb (protect_windows o && protect_ntfs o))
  || (protect_ntfs o && negb (protect_windows o) && has_byte x5c c).

Lemma has_byte_false b s : has_byte b s = false -> ~ In b s.
Proof.
  unfold has_byte. intros H G. assert (E : existsb (beqb b) s = true).
  { apply existsb_exists. exists b. split; [exact G|]. apply beqb_eq. reflexivity. }
  congruence.
Qed.

Ltac solve_checks :=
  unfold component_checks;
  repeat (match goal with
          | |- context [if ?b then _ else _] => destruct b eqn:?
          | |- context [match ?x with Some _ => _ | None => _ end] => destruct x eqn:?
          end; try solve [eauto]; try discriminate).

Lemma checks_hfs_git c sym o : protect_hfs o = true -> is_dot_hfs c hfs_needle_git = true ->
  exists e, component_checks c sym o = Err e.
Proof. intros H1 H2. unfold component_checks. rewrite H1, H2. cbn [andb]. eauto. Qed.

Lemma checks_hfs_modules c o : protect_hfs o = true -> is_dot_hfs c hfs_needle_gitmodules = true ->
  exists e, component_checks c true o = Err e.
Proof.
  intros H1 H2. unfold component_checks. rewrite H1, H2. cbn [andb].
  destruct (is_dot_hfs c hfs_needle_git); eauto.
Qed.

Lemma checks_ntfs_git c sym o : protect_ntfs o = true -> is_dot_git_ntfs c = true ->
  exists e, component_checks c sym o = Err e.
Proof.
  intros H1 H2. unfold component_checks. rewrite H1, H2. cbn [andb].
  repeat match goal with |- context [if ?b then _ else _] => destruct b; eauto end.
Qed.

Lemma checks_ntfs_modules c o : protect_ntfs o = true ->
  is_dot_ntfs c ntfs_gitmodules ntfs_gitmodules_short = true ->
  exists e, component_checks c true o = Err e.
Proof.
  intros H1 H2. unfold component_checks. rewrite H1, H2. cbn [andb].
  repeat match goal with |- context [if ?b then _ else _] => destruct b; eauto end.
Qed.

(* ---- the loop of verify_path on a single component ---------------------------------------------- *)

Lemma scan_ok : forall o rest, ~ In x2f rest -> (g_ntfs o = false \/ ~ In x5c rest) -> scan o rest = true.
Proof.
  induction rest as [|c rest IH]; intros Hs Hb; [reflexivity|].
  cbn [scan]. unfold is_dir_sep. rewrite (beqb_false_of_notin _ _ _ Hs).
  assert (E : beqb c x5c && g_ntfs o = false).
  { destruct Hb as [Hb|Hb]; [rewrite Hb; apply Bool.andb_false_r|].
    rewrite (beqb_false_of_notin _ _ _ Hb). reflexivity. }
  rewrite E. apply IH; [eauto using notin_tail|].
  destruct Hb as [Hb|Hb]; [left; exact Hb|right; eauto using notin_tail].
Qed.

(* ---- verify_dotfile -------------------------------------------------------------------------------- *)

Lemma nos_false c (s : bytes) : ~ In x00 (c :: s) -> ~ In x2f (c :: s) -> nul_or_sep c = false.
Proof.
  intros H1 H2. unfold nul_or_sep, is_dir_sep.
  rewrite (beqb_false_of_notin _ _ _ H1), (beqb_false_of_notin _ _ _ H2). reflexivity.
Qed.

Lemma nos_at0_nil : forall s, ~ In x00 s -> ~ In x2f s -> nul_or_sep (at0 s 0) = true -> s = [].
Proof.
  intros [|c s] H1 H2 H; [reflexivity|]. rewrite at0_cons0 in H.
  rewrite (nos_false c s H1 H2) in H. discriminate.
Qed.

Lemma skip_suffix : forall p s r, skip_iprefix s p = Some r -> forall b : byte, In b r -> In b s.
Proof.
  induction p as [|y p IH]; intros s r H b Hb; cbn [skip_iprefix] in H.
  - assert (E : s = r) by congruence. subst r. exact Hb.
  - destruct s as [|c s]; [discriminate|].
    destruct (N.eqb (c_tolower (b2N c)) (c_tolower (b2N y))); [|discriminate].
    right. eapply IH; eauto.
Qed.

Lemma skip_nil_eq_ic : forall p s, skip_iprefix s p = Some [] -> eq_ic s p = true.
Proof.
  induction p as [|y p IH]; intros s H; cbn [skip_iprefix] in H.
  - assert (E : s = []) by congruence. subst s. reflexivity.
  - destruct s as [|c s]; [discriminate|].
    destruct (N.eqb (c_tolower (b2N c)) (c_tolower (b2N y))) eqn:E; [|discriminate].
    cbn [eq_ic]. pose proof (lower_agree c y) as L. rewrite E in L.
    destruct (beqb (ascii_lower c) (ascii_lower y)); [|discriminate]. cbn [andb]. apply IH. exact H.
Qed.

Lemma ci_nonzero b l u : ci b l u = true -> l <> x00 -> u <> x00 -> b <> x00.
Proof. intros H Hl Hu. apply ci_cases in H. destruct H; subst; assumption. Qed.

Lemma dotfile_cases : forall o rest, ~ In x00 rest -> ~ In x2f rest -> verify_dotfile o rest = false ->
  rest = [] \/ rest = [x2e] \/ eq_ic rest (bs "git") = true
  \/ (s_islnk o = true /\ eq_ic rest (bs "gitmodules") = true).
Proof.
  intros o rest Hz Hs H. unfold verify_dotfile in H.
  destruct rest as [|r0 rest1]; [left; reflexivity|]. right.
  rewrite !at0_consS, at0_cons0 in H. rewrite (nos_false _ _ Hz Hs) in H.
  pose proof (notin_tail _ _ _ Hz) as Hz1. pose proof (notin_tail _ _ _ Hs) as Hs1.
  destruct (ci r0 x67 x47) eqn:G0.
  - right.
    destruct (ci (at0 rest1 0) x69 x49) eqn:G1; cbn [negb] in H; [|discriminate].
    destruct (present1 rest1 (at0_some _ _ _ eq_refl (ci_nonzero _ _ _ G1 ltac:(discriminate) ltac:(discriminate))))
      as (r1 & rest2 & ->).
    rewrite ?at0_consS, ?at0_cons0 in *.
    destruct (ci (at0 rest2 0) x74 x54) eqn:G2; cbn [negb] in H; [|discriminate].
    destruct (present1 rest2 (at0_some _ _ _ eq_refl (ci_nonzero _ _ _ G2 ltac:(discriminate) ltac:(discriminate))))
      as (r2 & rest3 & ->).
    rewrite ?at0_consS, ?at0_cons0 in *.
    pose proof (notin_tail _ _ _ (notin_tail _ _ _ Hz1)) as Hz3.
    pose proof (notin_tail _ _ _ (notin_tail _ _ _ Hs1)) as Hs3.
    assert (Egit : eq_ic [r0; r1; r2] (bs "git") = true).
    { apply ci_cases in G0. apply ci_cases in G1. apply ci_cases in G2.
      destruct G0, G1, G2; subst; vm_compute; reflexivity. }
    destruct (nul_or_sep (at0 rest3 0)) eqn:N3.
    + left. rewrite (nos_at0_nil _ Hz3 Hs3 N3). exact Egit.
    + right. destruct (s_islnk o); [|discriminate]. split; [reflexivity|].
      cbn [skipn] in H.
      destruct (skip_iprefix rest3 (bs "modules")) as [r|] eqn:SK; [|discriminate].
      destruct (nul_or_sep (at0 r 0)) eqn:NR; [|discriminate].
      assert (r = []).
      { apply nos_at0_nil; [| |exact NR]; intros G; [apply Hz3|apply Hs3]; eapply skip_suffix; eauto. }
      subst r. apply skip_nil_eq_ic in SK.
      change (bs "gitmodules") with (bs "git" ++ bs "modules").
      change (bs "git") with [x67; x69; x74] in *. cbn [app eq_ic] in *.
      rewrite SK. exact Egit.
  - left. destruct (beqb r0 x2e) eqn:G; [|discriminate]. apply beqb_eq in G. subst r0.
    destruct (nul_or_sep (at0 rest1 0)) eqn:N1; [|discriminate].
    rewrite (nos_at0_nil _ Hz1 Hs1 N1). reflexivity.
Qed.

(* ---- all case variants of a lower-case literal ---------------------------------------------------- *)

Definition upper_of (y : byte) : byte :=
  let n := b2N y in if N.leb 97 n && N.leb n 122 then N2b (n - 32) else y.
Fixpoint variants (l : bytes) : list bytes :=
  match l with
  | [] => [[]]
  | y :: l' => flat_map (fun t => [y :: t; upper_of y :: t]) (variants l')
  end.

Lemma variant_byte : forall x y,
  implb (not_upper y && beqb (ascii_lower x) (ascii_lower y)) (beqb x y || beqb x (upper_of y)) = true.
Proof.
  apply (forall_bytes2 (fun x y =>
    implb (not_upper y && beqb (ascii_lower x) (ascii_lower y)) (beqb x y || beqb x (upper_of y)))).
  vm_compute. reflexivity.
Qed.

Lemma eq_ic_in_variants : forall l a, forallb not_upper l = true -> eq_ic a l = true -> In a (variants l).
Proof.
  induction l as [|y l IH]; intros a Hu H.
  - destruct a; [left; reflexivity|discriminate].
  - destruct a as [|x a]; [discriminate|]. cbn [eq_ic] in H. cbn [forallb] in Hu.
    apply Bool.andb_true_iff in H. destruct H as [H1 H2].
    apply Bool.andb_true_iff in Hu. destruct Hu as [U1 U2].
    cbn [variants]. apply in_flat_map. exists a. split; [apply IH; assumption|].
    pose proof (variant_byte x y) as V. rewrite U1, H1 in V. cbn [andb implb] in V.
    apply Bool.orb_true_iff in V. destruct V as [V|V]; apply beqb_eq in V; subst x;
      [left; reflexivity|right; left; reflexivity].
Qed.

Definition all_opts : list options :=
  flat_map (fun w => flat_map (fun h => map (fun n =>
    {| protect_windows := w; protect_hfs := h; protect_ntfs := n |}) [true; false]) [true; false]) [true; false].
Lemma in_all_opts o : In o all_opts.
Proof. destruct o as [[] [] []]; vm_compute; auto 10. Qed.

Definition checks_refuse_all (names : list bytes) (sym : bool) (sel : options -> bool) : bool :=
  forallb (fun a => forallb (fun o => implb (sel o) (negb (is_ok (component_checks a sym o)))) all_opts) names.

Lemma checks_refuse_all_use names sym sel a o :
  checks_refuse_all names sym sel = true -> In a names -> sel o = true ->
  exists e, component_checks a sym o = Err e.
Proof.
  intros H Ha Ho. unfold checks_refuse_all in H. rewrite forallb_forall in H.
  specialize (H a Ha). rewrite forallb_forall in H. specialize (H o (in_all_opts o)).
  rewrite Ho in H. cbn [implb] in H.
  destruct (component_checks_total a sym o) as [T1 T2].
  destruct (component_checks a sym o) as [u|e| |]; cbn [is_ok negb] in H; try discriminate; try congruence.
  eauto.
Qed.

Lemma dotgit_variants_refused : forall sym,
  checks_refuse_all (variants (bs ".git")) sym (fun _ => true) = true.
Proof. intros []; vm_compute; reflexivity. Qed.
Lemma dotgitmodules_variants_refused :
  checks_refuse_all (variants (bs ".gitmodules")) true (fun _ => true) = true.
Proof. vm_compute. reflexivity. Qed.
Lemma dots_refused_on_windows : forall sym,
  checks_refuse_all [[x2e]; [x2e; x2e]] sym (fun o => protect_windows o && protect_ntfs o) = true.
Proof. intros []; vm_compute; reflexivity. Qed.

(* ---- the theorem ------------------------------------------------------------------------------------ *)

Lemma islnk_agree o m : s_islnk (gopts_of o m) = is_symlink m.
Proof. reflexivity. Qed.

Lemma checks_refuse : forall c o m, c <> [] -> ~ In x00 c -> ~ In x2f c ->
  (protect_ntfs o = false \/ ~ In x5c c) ->
  (is_dots c = true -> protect_windows o && protect_ntfs o = true) ->
  verify_path (gopts_of o m) c = false ->
  exists e, component_checks c (is_symlink m) o = Err e.
Proof.
  intros c o m Hne Hz Hs Hb Hd H. unfold verify_path in H.
  destruct (start_refused (gopts_of o m) c) eqn:SR.
  - clear H. unfold start_refused in SR. rewrite islnk_agree in SR. cbn [g_hfs g_ntfs gopts_of] in SR.
    apply Bool.orb_true_iff in SR. destruct SR as [SR|SR];
      apply Bool.andb_true_iff in SR; destruct SR as [F SR];
      apply Bool.orb_true_iff in SR; destruct SR as [SR|SR].
    + apply checks_hfs_git; [exact F|]. apply hfs_dotgit_implies; assumption.
    + apply Bool.andb_true_iff in SR. destruct SR as [L SR]. rewrite L.
      apply checks_hfs_modules; [exact F|]. apply hfs_dotgitmodules_implies; assumption.
    + apply checks_ntfs_git; [exact F|]. apply ntfs_dotgit_implies; try assumption.
      destruct Hb as [Hb|Hb]; [congruence|exact Hb].
    + apply Bool.andb_true_iff in SR. destruct SR as [L SR]. rewrite L.
      apply checks_ntfs_modules; [exact F|]. apply ntfs_gitmodules_implies. exact SR.
  - cbn [negb andb] in H. destruct c as [|b rest]; [congruence|].
    pose proof (notin_tail _ _ _ Hz) as Hz1. pose proof (notin_tail _ _ _ Hs) as Hs1.
    rewrite (scan_ok (gopts_of o m) rest Hs1) in H.
    2:{ destruct Hb as [Hb|Hb]; [left; exact Hb|right; eauto using notin_tail]. }
    rewrite Bool.andb_true_r in H. unfold first_char_ok, is_dir_sep in H.
    rewrite (beqb_false_of_notin _ _ _ Hs), Bool.orb_false_r in H.
    apply Bool.negb_false_iff in H. apply Bool.andb_true_iff in H. destruct H as [Hdot Hvd].
    apply beqb_eq in Hdot. subst b. apply Bool.negb_true_iff in Hvd.
    destruct (dotfile_cases _ _ Hz1 Hs1 Hvd) as [->|[->|[G|[L G]]]].
    + apply (checks_refuse_all_use _ _ _ _ _ (dots_refused_on_windows (is_symlink m)));
        [left; reflexivity|]. apply Hd. reflexivity.
    + apply (checks_refuse_all_use _ _ _ _ _ (dots_refused_on_windows (is_symlink m)));
        [right; left; reflexivity|]. apply Hd. reflexivity.
    + apply (checks_refuse_all_use _ _ _ _ _ (dotgit_variants_refused (is_symlink m))); [|reflexivity].
      apply eq_ic_in_variants; [vm_compute; reflexivity|].
      change (bs ".git") with (x2e :: bs "git"). cbn [eq_ic]. rewrite G. reflexivity.
    + rewrite islnk_agree in L. rewrite L.
      apply (checks_refuse_all_use _ _ _ _ _ dotgitmodules_variants_refused); [|reflexivity].
      apply eq_ic_in_variants; [vm_compute; reflexivity|].
      change (bs ".gitmodules") with (x2e :: bs "gitmodules"). cbn [eq_ic]. rewrite G. reflexivity.
Qed.

Lemma component_nonempty c sym o : c <> [] ->
  component c sym o =
    if protect_windows o then
      if has_byte x2f c || has_byte x5c c then Err PathSeparator
      else if second_char_is_colon c then Err WindowsPathPrefix
      else component_checks c sym o
    else if has_byte x2f c then Err PathSeparator
    else component_checks c sym o.
Proof. destruct c; [congruence|reflexivity]. Qed.

Theorem git_refuses_gix_refuses : forall c o m,
  ~ In x00 c -> known_class c o = false ->
  git_refuses (gopts_of o m) c = true ->
  exists e, component c (is_symlink m) o = Err e.
Proof.
  intros c o m Hz Hk H. unfold git_refuses in H. apply Bool.negb_true_iff in H.
  destruct (list_eq_dec Byte.byte_eq_dec c []) as [->|Hne]; [cbn; eauto|].
  unfold known_class in Hk. apply Bool.orb_false_iff in Hk. destruct Hk as [K1 K2].
  rewrite (component_nonempty _ _ _ Hne).
  destruct (has_byte x2f c) eqn:Hs.
  { destruct (protect_windows o); cbn [orb]; eauto. }
  apply has_byte_false in Hs.
  destruct (protect_windows o) eqn:W.
  - destruct (has_byte x5c c) eqn:Hb; cbn [orb]; [eauto|]. apply has_byte_false in Hb.
    destruct (second_char_is_colon c); [eauto|].
    apply checks_refuse; try assumption; [right; exact Hb|].
    intros D. rewrite D in K1. cbn [andb] in K1. rewrite W.
    destruct (protect_ntfs o); [reflexivity|discriminate].
  - apply checks_refuse; try assumption.
    + cbn [negb] in K2. rewrite Bool.andb_true_r in K2.
      destruct (protect_ntfs o); [|left; reflexivity]. cbn [andb] in K2. right. apply has_byte_false. exact K2.
    + intros D. rewrite D in K1. cbn [andb negb] in K1. discriminate.
Qed.

(* ---- corollaries and witnesses ------------------------------------------------------------------------ *)

Lemma known_class_off_when_all_on c o :
  protect_windows o = true -> protect_ntfs o = true -> known_class c o = false.
Proof.
  intros W N. unfold known_class. rewrite W, N. cbn [andb negb].
  rewrite Bool.andb_false_r. reflexivity.
Qed.

Theorem git_refuses_gix_refuses_windows : forall c o m,
  protect_windows o = true -> protect_ntfs o = true ->
  ~ In x00 c -> git_refuses (gopts_of o m) c = true ->
  exists e, component c (is_symlink m) o = Err e.
Proof.
  intros c o m W N Hz H. apply git_refuses_gix_refuses; try assumption.
  apply known_class_off_when_all_on; assumption.
Qed.

Definition opts (w h n : bool) : options := {| protect_windows := w; protect_hfs := h; protect_ntfs := n |}.

Lemma dotdot_witness :
  let c := bs ".." in let o := opts false false false in
  ~ In x00 c /\ git_refuses (gopts_of o GRegular) c = true /\ component c false o = Ok tt.
Proof. cbv zeta. split; [vm_compute; intuition discriminate|]. split; vm_compute; reflexivity. Qed.

Lemma backslash_witness :
  let c := bs "a\.git" in let o := opts false true true in
  ~ In x00 c /\ git_refuses (gopts_of o GRegular) c = true /\ component c false o = Ok tt.
Proof. cbv zeta. split; [vm_compute; intuition discriminate|]. split; vm_compute; reflexivity. Qed.

(* reserved device names, bare, in any case *)
Definition device_names : list bytes :=
  map bs ["aux"; "nul"; "prn"; "con"; "conin$"; "conout$";
          "com1"; "com2"; "com3"; "com4"; "com5"; "com6"; "com7"; "com8"; "com9";
          "lpt0"; "lpt1"; "lpt2"; "lpt3"; "lpt4"; "lpt5"; "lpt6"; "lpt7"; "lpt8"; "lpt9"]%string.

Definition devices_refused_all : bool :=
  forallb (fun d => forallb (fun a => forallb (fun o =>
     implb (protect_windows o && protect_ntfs o)
           (is_win_device a && negb (is_ok (component a false o)) && negb (is_ok (component a true o))))
     all_opts) (variants d)) device_names.

Lemma devices_refused_all_true : devices_refused_all = true.
Proof. vm_compute. reflexivity. Qed.

Theorem device_names_refused : forall d a o sym,
  In d device_names -> eq_ic a d = true ->
  protect_windows o = true -> protect_ntfs o = true ->
  is_win_device a = true /\ exists e, component a sym o = Err e.
Proof.
  intros d a o sym Hd Ha W N.
  pose proof devices_refused_all_true as H. unfold devices_refused_all in H.
  rewrite forallb_forall in H. specialize (H d Hd). rewrite forallb_forall in H.
  assert (Hv : In a (variants d)).
  { apply eq_ic_in_variants; [|exact Ha].
    revert Hd. generalize d. apply Forall_forall. vm_compute. repeat constructor. }
  specialize (H a Hv). rewrite forallb_forall in H. specialize (H o (in_all_opts o)).
  rewrite W, N in H. cbn [andb implb] in H.
  apply Bool.andb_true_iff in H. destruct H as [H H2].
  apply Bool.andb_true_iff in H. destruct H as [H0 H1].
  split; [exact H0|].
  destruct (component_total a sym o) as [T1 T2].
  destruct sym; [destruct (component a true o)|destruct (component a false o)];
    cbn [is_ok negb] in *; try discriminate; try congruence; eauto.
Qed.
