(* C40 — transcript printer *)
From GixV.Base Require Import Bytes Outcome.
From GixV.C40 Require Import Tables Model Spec.
Local Open Scope N_scope.

Definition err_name (e : err) : bytes :=
  match e with
  | Empty => bs "Empty" | PathSeparator => bs "PathSeparator" | WindowsPathPrefix => bs "WindowsPathPrefix"
  | WindowsReservedName => bs "WindowsReservedName" | WindowsIllegalCharacter => bs "WindowsIllegalCharacter"
  | DotGitDir => bs "DotGitDir" | SymlinkedGitModules => bs "SymlinkedGitModules"
  end.

Definition opts_of (n : N) : options :=
  {| protect_windows := N.testbit n 0; protect_hfs := N.testbit n 1; protect_ntfs := N.testbit n 2 |}.
Definition gopts_of (n mode : N) : gopts :=
  {| g_hfs := N.testbit n 1; g_ntfs := N.testbit n 2;
     g_mode := if N.eqb mode 1 then GSymlink else if N.eqb mode 2 then GDir else GRegular |}.

Definition show_uch (u : uch) : bytes :=
  match u with
  | UCh cp len => N_to_dec cp ++ bs ":" ++ N_to_dec (N.of_nat len)
  | UBad len => bs "bad:" ++ N_to_dec (N.of_nat len)
  end.
Fixpoint join_comma (l : list bytes) : bytes :=
  match l with
  | [] => []
  | [x] => x
  | x :: r => x ++ x2c :: join_comma r
  end.

Definition run_model (fs : list bytes) : bytes :=
  let op := nth_field 0 fs in
  if bytes_eqb op (bs "comp") then
    match component (nth_field 3 fs) (N.eqb (field_N 2 fs) 1) (opts_of (field_N 1 fs)) with
    | Ok _ => bs "ok"
    | Err e => bs "err " ++ err_name e
    | Panic => bs "PANIC"
    | OutOfFuel => bs "HANG"
    end
  else if bytes_eqb op (bs "chars") then
    match chars (nth_field 1 fs) with
    | [] => bs "-"
    | l => join_comma (map show_uch l)
    end
  else if bytes_eqb op (bs "dev") then bool_to_bytes (is_win_device (nth_field 1 fs))
  else bs "?".

Definition run_spec (fs : list bytes) : bytes :=
  if bytes_eqb (nth_field 0 fs) (bs "comp") then
    if git_refuses (gopts_of (field_N 1 fs) (field_N 2 fs)) (nth_field 3 fs) then bs "refuse" else bs "accept"
  else bs "-".

Definition run (fs : list bytes) : bytes :=
  match fs with
  | mode :: rest => if bytes_eqb mode (bs "spec") then run_spec rest else run_model rest
  | [] => bs "?"
  end.
