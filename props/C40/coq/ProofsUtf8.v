(* C40 — git's pick_one_utf8_char against bstr's lossy decoder (Model.chars) *)
From Coq Require Import Lia List.
From GixV.Base Require Import Bytes BytesFacts Outcome.
From GixV.C40 Require Import Tables Model Spec ProofsNtfs.
Local Open Scope N_scope.

Definition ge128 (b : byte) : bool := negb (N.ltb (b2N b) 128).
Definition g2 (b : byte) : bool := land_is b 224 192.
Definition g3 (b : byte) : bool := land_is b 240 224.
Definition g4 (b : byte) : bool := land_is b 248 240.

(* model-side summary of a (lead, second byte) pair *)
Definition m_bad2 (b0 b1 : byte) : bool :=
  match second_range b0 with None => true | Some (lo, hi, _) => negb (in_range b1 lo hi) end.
Definition m_ok (b0 b1 : byte) (extra : nat) : bool :=
  match second_range b0 with Some (lo, hi, e) => Nat.eqb e extra && in_range b1 lo hi | None => false end.

Definition hi3 (b0 b1 : byte) : N :=
  N.lor (N.shiftl (N.land (b2N b0) 15) 12) (N.shiftl (N.land (b2N b1) 63) 6).
Definition hi4 (b0 b1 : byte) : N :=
  N.lor (N.shiftl (N.land (b2N b0) 7) 18) (N.shiftl (N.land (b2N b1) 63) 12).
Definition big (n : N) : bool := negb (N.eqb (N.shiftr n 7) 0).

Lemma pair2 : forall b0 b1,
  implb (ge128 b0 && g2 b0)
    (if negb (land_is b1 192 128) || land_is b0 254 192 then m_bad2 b0 b1
     else m_ok b0 b1 0 && big (cp2 b0 b1)) = true.
Proof.
  apply (forall_bytes2 (fun b0 b1 => implb (ge128 b0 && g2 b0)
    (if negb (land_is b1 192 128) || land_is b0 254 192 then m_bad2 b0 b1
     else m_ok b0 b1 0 && big (cp2 b0 b1)))).
  vm_compute. reflexivity.
Qed.

Lemma pair3 : forall b0 b1,
  implb (ge128 b0 && negb (g2 b0) && g3 b0)
    (if negb (land_is b1 192 128) || (is_byte b0 224 && land_is b1 224 128) || (is_byte b0 237 && land_is b1 224 160)
     then m_bad2 b0 b1 else m_ok b0 b1 1 && big (hi3 b0 b1)) = true.
Proof.
  apply (forall_bytes2 (fun b0 b1 => implb (ge128 b0 && negb (g2 b0) && g3 b0)
    (if negb (land_is b1 192 128) || (is_byte b0 224 && land_is b1 224 128) || (is_byte b0 237 && land_is b1 224 160)
     then m_bad2 b0 b1 else m_ok b0 b1 1 && big (hi3 b0 b1)))).
  vm_compute. reflexivity.
Qed.

Lemma pair4 : forall b0 b1,
  implb (ge128 b0 && negb (g2 b0) && negb (g3 b0) && g4 b0)
    (if negb (land_is b1 192 128) || (is_byte b0 240 && land_is b1 240 128)
        || (is_byte b0 244 && N.ltb 143 (b2N b1)) || N.ltb 244 (b2N b0)
     then m_bad2 b0 b1 else m_ok b0 b1 2 && big (hi4 b0 b1)) = true.
Proof.
  apply (forall_bytes2 (fun b0 b1 => implb (ge128 b0 && negb (g2 b0) && negb (g3 b0) && g4 b0)
    (if negb (land_is b1 192 128) || (is_byte b0 240 && land_is b1 240 128)
        || (is_byte b0 244 && N.ltb 143 (b2N b1)) || N.ltb 244 (b2N b0)
     then m_bad2 b0 b1 else m_ok b0 b1 2 && big (hi4 b0 b1)))).
  vm_compute. reflexivity.
Qed.

Lemma nolead : forall b0,
  implb (ge128 b0 && negb (g2 b0) && negb (g3 b0) && negb (g4 b0))
        (match second_range b0 with None => true | Some _ => false end) = true.
Proof.
  apply (forall_bytes (fun b0 => implb (ge128 b0 && negb (g2 b0) && negb (g3 b0) && negb (g4 b0))
        (match second_range b0 with None => true | Some _ => false end))).
  vm_compute. reflexivity.
Qed.

Lemma cont_agree : forall b, Bool.eqb (land_is b 192 128) (is_cont b) = true.
Proof. apply (forall_bytes (fun b => Bool.eqb (land_is b 192 128) (is_cont b))). vm_compute. reflexivity. Qed.

Lemma befbf : forall b, implb (land_is b 254 190) (beqb b xbe || beqb b xbf) = true.
Proof. apply (forall_bytes (fun b => implb (land_is b 254 190) (beqb b xbe || beqb b xbf))). vm_compute. reflexivity. Qed.

Lemma is_byte_eq b n : is_byte b n = true -> b = N2b n.
Proof. unfold is_byte. intros H. apply N.eqb_eq in H. rewrite <- H. symmetry. apply N2b_b2N. Qed.

Lemma cont_present : forall l i, land_is (at0 l i) 192 128 = true -> nth_error l i = Some (at0 l i).
Proof.
  intros l i H. apply at0_some; [reflexivity|]. intros E. rewrite E in H. vm_compute in H. discriminate.
Qed.

Lemma cont_is : forall b, land_is b 192 128 = true -> is_cont b = true.
Proof. intros b H. pose proof (cont_agree b) as A. rewrite H in A. destruct (is_cont b); [reflexivity|discriminate]. Qed.
Lemma cont_not : forall b, land_is b 192 128 = false -> is_cont b = false.
Proof. intros b H. pose proof (cont_agree b) as A. rewrite H in A. destruct (is_cont b); [discriminate|reflexivity]. Qed.

(* small shifts: a code point that is 0 or '/' has nothing above bit 6 *)
Lemma big_lor_l a b : big a = true -> big (N.lor a b) = true.
Proof.
  unfold big. intros H. rewrite N.shiftr_lor.
  destruct (N.eqb (N.lor (N.shiftr a 7) (N.shiftr b 7)) 0) eqn:E; [|reflexivity].
  apply N.eqb_eq in E. apply N.lor_eq_0_l in E. rewrite E in H. discriminate.
Qed.

(* what a decoded item looks like to the two checks that matter *)
Definition undec_kept (u : uch) : Prop := undecodable_for_git u = true /\ keep u = true.

Lemma ubad_undec n : undec_kept (UBad n).
Proof. split; vm_compute; reflexivity. Qed.

Lemma at0_cons0 b (r : bytes) : at0 (b :: r) 0 = b.
Proof. reflexivity. Qed.
Lemma at0_consS b (r : bytes) i : at0 (b :: r) (S i) = at0 r i.
Proof. reflexivity. Qed.

Lemma present1 : forall (r : bytes), nth_error r 0 = Some (at0 r 0) -> exists b1 r1, r = b1 :: r1.
Proof. intros [|b1 r1] H; [discriminate|eauto]. Qed.

Lemma pick_some : forall s cp n, s <> [] -> pick_one s = Some (cp, n) ->
  chars s = UCh cp n :: chars (skipn n s)
  /\ (n <= length s)%nat /\ (0 < n)%nat
  /\ ((exists b r, s = b :: r /\ cp = b2N b /\ n = 1%nat) \/ big cp = true).
Proof.
  intros s cp n Hs H. destruct s as [|b0 r0]; [congruence|]. clear Hs.
  unfold pick_one in H. cbv zeta in H. rewrite !at0_consS, at0_cons0 in H.
  destruct (N.ltb (b2N b0) 128) eqn:E1.
  { injection H as <- <-. cbn [chars]. rewrite E1. cbn [skipn length].
    split; [reflexivity|]. split; [lia|]. split; [lia|]. left. eauto. }
  destruct (land_is b0 224 192) eqn:E2.
  { destruct (negb (land_is (at0 r0 0) 192 128) || land_is b0 254 192) eqn:C; [discriminate|].
    injection H as <- <-.
    pose proof (pair2 b0 (at0 r0 0)) as P. unfold ge128, g2 in P. rewrite E1, E2, C in P.
    cbn [negb andb implb] in P. apply Bool.andb_true_iff in P. destruct P as [P1 P2].
    apply Bool.orb_false_iff in C. destruct C as [C1 C2]. apply Bool.negb_false_iff in C1.
    destruct (present1 _ (cont_present r0 0 C1)) as (b1 & r1 & ->). rewrite at0_cons0 in *.
    unfold m_ok in P1. cbn [chars]. rewrite E1.
    destruct (second_range b0) as [[[lo hi] e]|]; [|discriminate].
    apply Bool.andb_true_iff in P1. destruct P1 as [Pe Pr]. apply Nat.eqb_eq in Pe. subst e.
    rewrite Pr. cbn [negb skipn length].
    split; [reflexivity|]. split; [lia|]. split; [lia|]. right. exact P2. }
  destruct (land_is b0 240 224) eqn:E3.
  { match type of H with (if ?c then _ else _) = _ => destruct c eqn:C; [discriminate|] end.
    injection H as <- <-.
    repeat (apply Bool.orb_false_iff in C; destruct C as [C ?]).
    apply Bool.negb_false_iff in C.
    pose proof (pair3 b0 (at0 r0 0)) as P. unfold ge128, g2, g3 in P. rewrite E1, E2, E3 in P.
    rewrite C in P.
    match goal with G : is_byte b0 224 && _ = false |- _ => rewrite G in P end.
    match goal with G : is_byte b0 237 && _ = false |- _ => rewrite G in P end.
    cbn [negb andb orb implb] in P. apply Bool.andb_true_iff in P. destruct P as [P1 P2].
    destruct (present1 _ (cont_present r0 0 C)) as (b1 & r1 & ->). rewrite at0_consS, at0_cons0 in *.
    match goal with G : negb (land_is (at0 r1 0) 192 128) = false |- _ =>
      apply Bool.negb_false_iff in G; rename G into C2 end.
    destruct (present1 _ (cont_present r1 0 C2)) as (b2 & r2 & ->). rewrite at0_cons0 in *.
    unfold m_ok in P1. cbn [chars]. rewrite E1.
    destruct (second_range b0) as [[[lo hi] e]|]; [|discriminate].
    apply Bool.andb_true_iff in P1. destruct P1 as [Pe Pr]. apply Nat.eqb_eq in Pe. subst e.
    rewrite Pr, (cont_is _ C2). cbn [negb skipn length].
    split; [reflexivity|]. split; [lia|]. split; [lia|]. right.
    apply big_lor_l. exact P2. }
  destruct (land_is b0 248 240) eqn:E4; [|discriminate].
  match type of H with (if ?c then _ else _) = _ => destruct c eqn:C; [discriminate|] end.
  injection H as <- <-.
  repeat (apply Bool.orb_false_iff in C; destruct C as [C ?]).
  apply Bool.negb_false_iff in C.
  pose proof (pair4 b0 (at0 r0 0)) as P. unfold ge128, g2, g3, g4 in P. rewrite E1, E2, E3, E4 in P.
  rewrite C in P.
  match goal with G : is_byte b0 240 && _ = false |- _ => rewrite G in P end.
  match goal with G : is_byte b0 244 && _ = false |- _ => rewrite G in P end.
  match goal with G : N.ltb 244 (b2N b0) = false |- _ => rewrite G in P end.
  cbn [negb andb orb implb] in P. apply Bool.andb_true_iff in P. destruct P as [P1 P2].
  destruct (present1 _ (cont_present r0 0 C)) as (b1 & r1 & ->). rewrite !at0_consS, at0_cons0 in *.
  match goal with G : negb (land_is (at0 r1 0) 192 128) = false |- _ =>
    apply Bool.negb_false_iff in G; rename G into C2 end.
  destruct (present1 _ (cont_present r1 0 C2)) as (b2 & r2 & ->). rewrite !at0_consS, at0_cons0 in *.
  match goal with G : negb (land_is (at0 r2 0) 192 128) = false |- _ =>
    apply Bool.negb_false_iff in G; rename G into C3 end.
  destruct (present1 _ (cont_present r2 0 C3)) as (b3 & r3 & ->). rewrite at0_cons0 in *.
  unfold m_ok in P1. cbn [chars]. rewrite E1.
  destruct (second_range b0) as [[[lo hi] e]|]; [|discriminate].
  apply Bool.andb_true_iff in P1. destruct P1 as [Pe Pr]. apply Nat.eqb_eq in Pe. subst e.
  rewrite Pr, (cont_is _ C2), (cont_is _ C3). cbn [negb skipn length].
  split; [reflexivity|]. split; [lia|]. split; [lia|]. right.
  apply big_lor_l. apply big_lor_l. exact P2.
Qed.

(* the model's first item when the (lead, second) pair is already bad *)
Lemma chars_bad2 : forall b0 r0, N.ltb (b2N b0) 128 = false -> m_bad2 b0 (at0 r0 0) = true ->
  exists rest, chars (b0 :: r0) = UBad 1 :: rest.
Proof.
  intros b0 r0 E1 M. unfold m_bad2 in M. cbn [chars]. rewrite E1.
  destruct (second_range b0) as [[[lo hi] e]|]; [|eauto].
  destruct r0 as [|b1 r1]; [eauto|]. rewrite at0_cons0 in M. rewrite M. eauto.
Qed.

Lemma pick_none : forall s, s <> [] -> pick_one s = None ->
  exists u rest, chars s = u :: rest /\ undec_kept u.
Proof.
  intros s Hs H. destruct s as [|b0 r0]; [congruence|]. clear Hs.
  unfold pick_one in H. cbv zeta in H. rewrite !at0_consS, at0_cons0 in H.
  destruct (N.ltb (b2N b0) 128) eqn:E1; [discriminate|].
  destruct (land_is b0 224 192) eqn:E2.
  { destruct (negb (land_is (at0 r0 0) 192 128) || land_is b0 254 192) eqn:C; [|discriminate].
    pose proof (pair2 b0 (at0 r0 0)) as P. unfold ge128, g2 in P. rewrite E1, E2, C in P.
    cbn [negb andb implb] in P.
    destruct (chars_bad2 b0 r0 E1 P) as [rest ->]. eauto using ubad_undec. }
  destruct (land_is b0 240 224) eqn:E3.
  { pose proof (pair3 b0 (at0 r0 0)) as P. unfold ge128, g2, g3 in P. rewrite E1, E2, E3 in P.
    cbn [negb andb implb] in P.
    match type of P with (if ?c then _ else _) = _ => destruct c eqn:C01 end.
    { destruct (chars_bad2 b0 r0 E1 P) as [rest ->]. eauto using ubad_undec. }
    (* the pair is fine: then the model reads on *)
    apply Bool.andb_true_iff in P. destruct P as [P1 _].
    apply Bool.orb_false_iff in C01. destruct C01 as [C01 Csur].
    apply Bool.orb_false_iff in C01. destruct C01 as [C01 Cov].
    apply Bool.negb_false_iff in C01.
    destruct (present1 _ (cont_present r0 0 C01)) as (b1 & r1 & ->). rewrite ?at0_consS, ?at0_cons0 in *.
    rewrite C01, Cov, Csur in H. cbn [negb orb] in H.
    unfold m_ok in P1. cbn [chars]. rewrite E1.
    destruct (second_range b0) as [[[lo hi] e]|]; [|discriminate].
    apply Bool.andb_true_iff in P1. destruct P1 as [Pe Pr]. apply Nat.eqb_eq in Pe. subst e.
    rewrite Pr. cbn [negb].
    destruct r1 as [|b2 r2]; [eauto using ubad_undec|]. rewrite at0_cons0 in H.
    destruct (land_is b2 192 128) eqn:L2.
    2:{ rewrite (cont_not _ L2). cbn [negb]. eauto using ubad_undec. }
    rewrite (cont_is _ L2). cbn [negb orb] in *.
    match type of H with (if ?c then _ else _) = _ => destruct c eqn:C5; [|discriminate] end.
    apply Bool.andb_true_iff in C5. destruct C5 as [C5 F2].
    apply Bool.andb_true_iff in C5. destruct C5 as [F0 F1].
    apply is_byte_eq in F0. apply is_byte_eq in F1.
    pose proof (befbf b2) as F. rewrite F2 in F. cbn [implb] in F.
    apply Bool.orb_true_iff in F.
    do 2 eexists. split; [reflexivity|].
    destruct F as [F|F]; apply beqb_eq in F; subst; split; vm_compute; reflexivity. }
  destruct (land_is b0 248 240) eqn:E4.
  { pose proof (pair4 b0 (at0 r0 0)) as P. unfold ge128, g2, g3, g4 in P. rewrite E1, E2, E3, E4 in P.
    cbn [negb andb implb] in P.
    match type of P with (if ?c then _ else _) = _ => destruct c eqn:C01 end.
    { destruct (chars_bad2 b0 r0 E1 P) as [rest ->]. eauto using ubad_undec. }
    apply Bool.andb_true_iff in P. destruct P as [P1 _].
    apply Bool.orb_false_iff in C01. destruct C01 as [C01 Cgt].
    apply Bool.orb_false_iff in C01. destruct C01 as [C01 Cbig].
    apply Bool.orb_false_iff in C01. destruct C01 as [C01 Cov].
    apply Bool.negb_false_iff in C01.
    destruct (present1 _ (cont_present r0 0 C01)) as (b1 & r1 & ->). rewrite ?at0_consS, ?at0_cons0 in *.
    rewrite C01, Cov, Cbig, Cgt in H. cbn [negb orb] in H.
    unfold m_ok in P1. cbn [chars]. rewrite E1.
    destruct (second_range b0) as [[[lo hi] e]|]; [|discriminate].
    apply Bool.andb_true_iff in P1. destruct P1 as [Pe Pr]. apply Nat.eqb_eq in Pe. subst e.
    rewrite Pr. cbn [negb].
    destruct r1 as [|b2 r2]; [eauto using ubad_undec|]. rewrite ?at0_consS, ?at0_cons0 in H.
    destruct (land_is b2 192 128) eqn:L2.
    2:{ rewrite (cont_not _ L2). cbn [negb]. eauto using ubad_undec. }
    rewrite (cont_is _ L2). cbn [negb orb] in *.
    destruct r2 as [|b3 r3]; [eauto using ubad_undec|]. rewrite ?at0_cons0 in H.
    destruct (land_is b3 192 128) eqn:L3.
    2:{ rewrite (cont_not _ L3). cbn [negb]. eauto using ubad_undec. }
    cbn [negb orb] in H. discriminate. }
  pose proof (nolead b0) as P. unfold ge128, g2, g3, g4 in P. rewrite E1, E2, E3, E4 in P.
  cbn [negb andb implb] in P. cbn [chars]. rewrite E1.
  destruct (second_range b0); [discriminate|]. eauto using ubad_undec.
Qed.
