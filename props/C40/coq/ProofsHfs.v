(* C40 — git's is_hfs_dot_generic implies gix's is_dot_hfs *)
From Coq Require Import Lia List.
From GixV.Base Require Import Bytes BytesFacts Outcome.
From GixV.C40 Require Import Tables Model Spec ProofsNtfs ProofsUtf8.
Local Open Scope N_scope.

Definition kept (s : bytes) : list uch := filter keep (chars s).

Lemma ignorable_agree : forall cp n, ignorable (UCh cp n) = hfs_ignored cp.
Proof. intros. reflexivity. Qed.

Lemma In_skipn {A} (b : A) n : forall s, In b (skipn n s) -> In b s.
Proof.
  induction n as [|n IH]; intros s H; [exact H|].
  destruct s as [|c s]; [exact H|]. right. apply IH. exact H.
Qed.

Lemma next_hfs_char_spec : forall fuel s, (length s < fuel)%nat ->
  match next_hfs_char fuel s with
  | HOut c s' =>
      (c = 0 /\ kept s = []) \/
      (exists len, kept s = UCh c len :: kept s' /\ (forall b, In b s' -> In b s)
                   /\ ((exists b, In b s /\ c = b2N b) \/ big c = true))
  | HInvalid => exists u rest, kept s = u :: rest /\ undecodable_for_git u = true
  | HFuel => False
  end.
Proof.
  induction fuel as [|f IH]; intros s Hf; [lia|].
  cbn [next_hfs_char].
  destruct s as [|b0 r0].
  { change (pick_one []) with (Some (0, 1%nat)). change (hfs_ignored 0) with false. cbv iota.
    left. split; reflexivity. }
  set (s := b0 :: r0) in *.
  assert (Hne : s <> []) by (subst s; discriminate).
  destruct (pick_one s) as [[out incr]|] eqn:P.
  - destruct (pick_some s out incr Hne P) as (Hc & Hle & Hpos & Horigin).
    destruct (hfs_ignored out) eqn:I.
    + assert (Hl2 : (length (skipn incr s) < f)%nat) by (rewrite skipn_length; lia).
      specialize (IH (skipn incr s) Hl2).
      assert (Hk : kept s = kept (skipn incr s)).
      { unfold kept. rewrite Hc. cbn [filter]. unfold keep at 1. rewrite ignorable_agree, I. reflexivity. }
      destruct (next_hfs_char f (skipn incr s)) as [c s'| |].
      * destruct IH as [[-> K0]|(len & K1 & K2 & K3)].
        { left. split; [reflexivity|]. rewrite Hk. exact K0. }
        right. exists len. rewrite Hk. split; [exact K1|]. split.
        { intros b Hb. eapply In_skipn. apply K2. exact Hb. }
        destruct K3 as [(b & Hb & ->)|K3]; [left; exists b; split; [eapply In_skipn; exact Hb|reflexivity]|right; exact K3].
      * destruct IH as (u & rest & K1 & K2). exists u, rest. rewrite Hk. split; assumption.
      * exact IH.
    + right. exists incr. split.
      { unfold kept. rewrite Hc. cbn [filter]. unfold keep at 1. rewrite ignorable_agree, I. reflexivity. }
      split; [intros b Hb; eapply In_skipn; exact Hb|].
      destruct Horigin as [(b & r & Es & -> & _)|Hb]; [|right; exact Hb].
      left. exists b. split; [rewrite Es; left; reflexivity|reflexivity].
  - destruct (pick_none s Hne P) as (u & rest & Hc & Hu1 & Hu2).
    exists u, (filter keep rest). split; [|exact Hu1].
    unfold kept. rewrite Hc. cbn [filter]. rewrite Hu2. reflexivity.
Qed.

Lemma next_hfs_spec : forall s,
  match next_hfs s with
  | HOut c s' =>
      (c = 0 /\ kept s = []) \/
      (exists len, kept s = UCh c len :: kept s' /\ (forall b, In b s' -> In b s)
                   /\ ((exists b, In b s /\ c = b2N b) \/ big c = true))
  | HInvalid => exists u rest, kept s = u :: rest /\ undecodable_for_git u = true
  | HFuel => False
  end.
Proof. intros s. apply next_hfs_char_spec. lia. Qed.

Lemma next_hfs_never_out_of_fuel : forall s, next_hfs s <> HFuel.
Proof. intros s E. pose proof (next_hfs_spec s) as H. rewrite E in H. exact H. Qed.

Definition lower_nonzero (b : byte) : bool := not_upper b && negb (beqb b x00).

Lemma b2N_zero b : b2N b = 0 -> b = x00.
Proof. intros H. apply b2N_inj. exact H. Qed.

Lemma hfs_needle_implies : forall needle s, ~ In x00 s -> ~ In x2f s ->
  forallb lower_nonzero needle = true ->
  hfs_needle_loop needle s = true -> hfs_match needle (kept s) = true.
Proof.
  induction needle as [|n needle IH]; intros s Hz Hsl Hn H; cbn [hfs_needle_loop] in H;
    pose proof (next_hfs_spec s) as K; destruct (next_hfs s) as [c s'| |]; try discriminate.
  - destruct K as [[-> K0]|(len & K1 & K2 & K3)]; [rewrite K0; reflexivity|].
    exfalso. apply Bool.negb_true_iff in H. apply Bool.andb_false_iff in H.
    assert (Hc : c = 0 \/ c = 47).
    { destruct H as [H|H]; apply Bool.negb_false_iff in H; apply N.eqb_eq in H; auto. }
    destruct K3 as [(b & Hb & ->)|K3].
    + destruct Hc as [Hc|Hc].
      * apply b2N_zero in Hc. subst b. exact (Hz Hb).
      * assert (b = x2f) by (apply b2N_inj; exact Hc). subst b. exact (Hsl Hb).
    + destruct Hc as [-> | ->]; vm_compute in K3; discriminate.
  - destruct K as (u & rest & -> & Hu). cbn [hfs_match]. exact Hu.
  - cbn [forallb] in Hn. apply Bool.andb_true_iff in Hn. destruct Hn as [Hn0 Hn].
    unfold lower_nonzero in Hn0. apply Bool.andb_true_iff in Hn0. destruct Hn0 as [Hup Hnz].
    destruct (N.ltb 127 c) eqn:E127; [discriminate|].
    destruct (N.eqb (c_tolower c) (b2N n)) eqn:El; cbn [negb] in H; [|discriminate].
    apply N.eqb_eq in El.
    destruct K as [[-> K0]|(len & K1 & K2 & K3)].
    + exfalso. change (c_tolower 0) with 0 in El. symmetry in El. apply b2N_zero in El. subst n.
      vm_compute in Hnz. discriminate.
    + rewrite K1. cbn [hfs_match].
      assert (Hce : char_eq_ic n (UCh c len) = true).
      { unfold char_eq_ic, uch_cp. change lower_N with c_tolower. rewrite El.
        unfold not_upper in Hup. unfold c_tolower at 1. apply Bool.negb_true_iff in Hup. rewrite Hup.
        apply N.eqb_refl. }
      rewrite Hce. apply IH; try assumption.
      * intros G. apply Hz. apply K2. exact G.
      * intros G. apply Hsl. apply K2. exact G.
Qed.

Lemma hfs_generic_implies : forall needle s, ~ In x00 s -> ~ In x2f s ->
  forallb lower_nonzero needle = true ->
  Spec.is_hfs_dot_generic s needle = true -> Model.is_dot_hfs s needle = true.
Proof.
  intros needle s Hz Hsl Hn H. unfold Spec.is_hfs_dot_generic in H.
  pose proof (next_hfs_spec s) as K. destruct (next_hfs s) as [c s'| |]; try discriminate.
  destruct (N.eqb c 46) eqn:E; cbn [negb] in H; [|discriminate].
  apply N.eqb_eq in E. subst c.
  destruct K as [[K _]|(len & K1 & K2 & _)]; [discriminate|].
  unfold is_dot_hfs. fold (kept s). rewrite K1. cbn [uch_cp]. change (N.eqb 46 46) with true. cbv iota.
  apply hfs_needle_implies; try assumption.
  - intros G. apply Hz. apply K2. exact G.
  - intros G. apply Hsl. apply K2. exact G.
Qed.

Lemma hfs_dotgit_implies : forall s, ~ In x00 s -> ~ In x2f s ->
  Spec.is_hfs_dotgit s = true -> Model.is_dot_hfs s hfs_needle_git = true.
Proof.
  intros s Hz Hsl H. apply hfs_generic_implies; try assumption. vm_compute. reflexivity.
Qed.
Lemma hfs_dotgitmodules_implies : forall s, ~ In x00 s -> ~ In x2f s ->
  Spec.is_hfs_dotgitmodules s = true -> Model.is_dot_hfs s hfs_needle_gitmodules = true.
Proof.
  intros s Hz Hsl H. apply hfs_generic_implies; try assumption. vm_compute. reflexivity.
Qed.
