(* C40 — basic facts about the model *)
From Coq Require Import Lia.
From GixV.Base Require Import Bytes BytesFacts Outcome.
From GixV.C40 Require Import Tables Model Spec.
Local Open Scope N_scope.

Lemma component_checks_total input symlink o :
  component_checks input symlink o <> Panic /\ component_checks input symlink o <> OutOfFuel.
Proof.
  unfold component_checks.
  repeat match goal with
  | |- context [if ?c then _ else _] => destruct c
  | |- context [match ?c with Some _ => _ | None => _ end] => destruct c
  end; split; discriminate.
Qed.

Lemma component_total input symlink o :
  component input symlink o <> Panic /\ component input symlink o <> OutOfFuel.
Proof.
  unfold component. destruct input as [|b r]; [split; discriminate|].
  pose proof (component_checks_total (b :: r) symlink o) as H.
  repeat match goal with
  | |- context [if ?c then _ else _] => destruct c
  end; try exact H; split; discriminate.
Qed.
