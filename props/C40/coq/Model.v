(* C40 — executable model of gix-validate/src/path.rs: component() and its helpers, and of the part
   of bstr 1.10 it relies on (lossy UTF-8 decoding behind `chars()` / `char_indices()`).
   No proofs here.  The literal tables come from Tables.v (regenerated from the Rust source). *)
From GixV.Base Require Import Bytes Outcome.
From GixV.C40 Require Import Tables.
Local Open Scope N_scope.

Inductive err :=
| Empty | PathSeparator | WindowsPathPrefix | WindowsReservedName | WindowsIllegalCharacter
| DotGitDir | SymlinkedGitModules.

Record options := { protect_windows : bool; protect_hfs : bool; protect_ntfs : bool }.

(* ---- bstr: lossy UTF-8 decoding ------------------------------------------------------- *)

(* one item of `char_indices()`: a scalar value with its encoded length, or an ill-formed sequence
   (which `chars()` presents as U+FFFD) with the number of bytes it swallowed *)
Inductive uch := UCh (cp : N) (len : nat) | UBad (len : nat).

Definition in_range (b : byte) (lo hi : N) : bool := N.leb lo (b2N b) && N.leb (b2N b) hi.
Definition is_cont (b : byte) : bool := in_range b 128 191.

(* Unicode table 3-7 (well-formed UTF-8 byte sequences), which is what bstr's DFA accepts:
   for a lead byte: the allowed range of the second byte and the number of bytes after the second *)
Definition second_range (b0 : byte) : option (N * N * nat) :=
  let n := b2N b0 in
  if N.ltb n 194 then None                              (* 80..C1 *)
  else if N.leb n 223 then Some (128, 191, 0%nat)       (* C2..DF *)
  else if N.eqb n 224 then Some (160, 191, 1%nat)       (* E0 *)
  else if N.leb n 236 then Some (128, 191, 1%nat)       (* E1..EC *)
  else if N.eqb n 237 then Some (128, 159, 1%nat)       (* ED *)
  else if N.leb n 239 then Some (128, 191, 1%nat)       (* EE..EF *)
  else if N.eqb n 240 then Some (144, 191, 2%nat)       (* F0 *)
  else if N.leb n 243 then Some (128, 191, 2%nat)       (* F1..F3 *)
  else if N.eqb n 244 then Some (128, 143, 2%nat)       (* F4 *)
  else None.                                            (* F5..FF *)

Definition cp2 (b0 b1 : byte) : N :=
  N.lor (N.shiftl (N.land (b2N b0) 31) 6) (N.land (b2N b1) 63).
Definition cp3 (b0 b1 b2 : byte) : N :=
  N.lor (N.lor (N.shiftl (N.land (b2N b0) 15) 12) (N.shiftl (N.land (b2N b1) 63) 6)) (N.land (b2N b2) 63).
Definition cp4 (b0 b1 b2 b3 : byte) : N :=
  N.lor (N.lor (N.lor (N.shiftl (N.land (b2N b0) 7) 18) (N.shiftl (N.land (b2N b1) 63) 12))
               (N.shiftl (N.land (b2N b2) 63) 6)) (N.land (b2N b3) 63).

(* `char_indices()`: an ill-formed sequence swallows the maximal prefix of a well-formed one
   (at least one byte); a truncated sequence at the end swallows everything that is left *)
Fixpoint chars (s : bytes) : list uch :=
  match s with
  | [] => []
  | b0 :: r0 =>
    if N.ltb (b2N b0) 128 then UCh (b2N b0) 1 :: chars r0
    else match second_range b0 with
    | None => UBad 1 :: chars r0
    | Some (lo, hi, extra) =>
      match r0 with
      | [] => [UBad 1]
      | b1 :: r1 =>
        if negb (in_range b1 lo hi) then UBad 1 :: chars r0
        else match extra with
        | O => UCh (cp2 b0 b1) 2 :: chars r1
        | S e1 =>
          match r1 with
          | [] => [UBad 2]
          | b2 :: r2 =>
            if negb (is_cont b2) then UBad 2 :: chars r1
            else match e1 with
            | O => UCh (cp3 b0 b1 b2) 3 :: chars r2
            | S _ =>
              match r2 with
              | [] => [UBad 3]
              | b3 :: r3 =>
                if negb (is_cont b3) then UBad 3 :: chars r2
                else UCh (cp4 b0 b1 b2 b3) 4 :: chars r3
              end
            end
          end
        end
      end
    end
  end.

(* the `char` value `chars()` yields *)
Definition uch_cp (u : uch) : N := match u with UCh cp _ => cp | UBad _ => 65533 end.

(* ---- slice helpers (none of them can panic: the code only uses `get`) -------------------- *)

Definition get_at (s : bytes) (i : nat) : option byte := nth_error s i.
Definition get_to (s : bytes) (n : nat) : option bytes :=           (* s.get(..n) *)
  if Nat.leb n (length s) then Some (firstn n s) else None.
Definition get_from (s : bytes) (n : nat) : option bytes :=         (* s.get(n..) *)
  if Nat.leb n (length s) then Some (skipn n s) else None.
Definition get_range (s : bytes) (a b : nat) : option bytes :=      (* s.get(a..b), a <= b *)
  if Nat.leb b (length s) then Some (firstn (b - a) (skipn a s)) else None.

Definition ascii_lower (b : byte) : byte :=
  let n := b2N b in if N.leb 65 n && N.leb n 90 then N2b (n + 32) else b.
Fixpoint eq_ic (a b : bytes) : bool :=                               (* <[u8]>::eq_ignore_ascii_case *)
  match a, b with
  | [], [] => true
  | x :: a', y :: b' => beqb (ascii_lower x) (ascii_lower y) && eq_ic a' b'
  | _, _ => false
  end.
Definition opt_is {A} (o : option A) (f : A -> bool) : bool :=      (* Option::map_or(false, f) *)
  match o with Some a => f a | None => false end.

Definition ends_with (s suffix : bytes) : bool :=
  if Nat.leb (length suffix) (length s) then bytes_eqb (skipn (length s - length suffix) s) suffix else false.

(* ---- is_done_ntfs / is_done_windows ---------------------------------------------------- *)

Fixpoint done_ntfs_loop (s : bytes) : bool :=
  match s with
  | [] => true
  | b :: r => if beqb b x3a then true
              else if negb (beqb b x20) && negb (beqb b x2e) then false
              else done_ntfs_loop r
  end.
Definition is_done_ntfs (o : option bytes) : bool :=
  match o with None => true | Some s => done_ntfs_loop s end.

Fixpoint skip_spaces (s : bytes) : bytes :=
  match s with
  | b :: r => if beqb b x20 then skip_spaces r else s
  | [] => []
  end.
Definition is_done_windows (o : option bytes) : bool :=
  match o with
  | None => true
  | Some s => match skip_spaces s with
              | [] => true
              | next :: _ => beqb next x2e || beqb next x3a
              end
  end.

(* ---- is_win_device ------------------------------------------------------------------------ *)

Definition is_win_device (input : bytes) : bool :=
  match get_to input 3 with
  | None => false
  | Some in3 =>
    if eq_ic in3 dev_aux && is_done_windows (get_from input 3) then true
    else if eq_ic in3 dev_nul && is_done_windows (get_from input 3) then true
    else if eq_ic in3 dev_prn && is_done_windows (get_from input 3) then true
    else if eq_ic in3 dev_com
            && opt_is (get_at input 3) (fun n => N.leb com_digit_lo (b2N n) && N.leb (b2N n) com_digit_hi)
            && is_done_windows (get_from input 4) then true
    else if eq_ic in3 dev_lpt
            && opt_is (get_at input 3) is_digit
            && is_done_windows (get_from input 4) then true
    else if eq_ic in3 dev_con
            && (is_done_windows (get_from input 3)
                || (opt_is (get_range input 3 6) (fun n => eq_ic n dev_in) && is_done_windows (get_from input 6))
                || (opt_is (get_range input 3 7) (fun n => eq_ic n dev_out) && is_done_windows (get_from input 7)))
         then true
    else false
  end.

Definition win_illegal_byte (b : byte) : bool :=
  N.ltb (b2N b) win_ctl_limit || existsb (beqb b) win_illegal.

Definition check_win_devices_and_illegal_characters (input : bytes) : option err :=
  if is_win_device input then Some WindowsReservedName
  else if existsb win_illegal_byte input then Some WindowsIllegalCharacter
  else if ends_with input win_bad_end1 || ends_with input win_bad_end2 then Some WindowsIllegalCharacter
  else None.

(* ---- is_dot_hfs ---------------------------------------------------------------------------- *)

Definition ignorable (u : uch) : bool := existsb (N.eqb (uch_cp u)) hfs_ignorable.
Definition keep (u : uch) : bool := negb (ignorable u).

Definition lower_N (n : N) : N := if N.leb 65 n && N.leb n 90 then n + 32 else n.
(* char::eq_ignore_ascii_case *)
Definition char_eq_ic (a : byte) (u : uch) : bool := N.eqb (lower_N (b2N a)) (lower_N (uch_cp u)).

(* what follows the needle: nothing, or something git cannot decode (ill-formed, U+FFFE, U+FFFF) *)
Definition undecodable_for_git (u : uch) : bool :=
  match u with
  | UBad _ => true
  | UCh cp _ => N.eqb cp 65534 || N.eqb cp 65535
  end.

Fixpoint hfs_match (needle : bytes) (rest : list uch) : bool :=
  match needle, rest with
  | a :: n', u :: r' => if char_eq_ic a u then hfs_match n' r' else false
  | [], [] => true
  | [], u :: _ => undecodable_for_git u
  | _ :: _, [] => false
  end.

Definition is_dot_hfs (input needle : bytes) : bool :=
  match filter keep (chars input) with
  | u :: rest => if N.eqb (uch_cp u) 46 then hfs_match needle rest else false
  | [] => false
  end.

(* ---- is_dot_git_ntfs / is_dot_ntfs --------------------------------------------------------- *)

Definition is_dot_git_ntfs (input : bytes) : bool :=
  if opt_is (get_to input 4) (fun i => eq_ic i ntfs_dotgit) then is_done_ntfs (get_from input 4)
  else if opt_is (get_to input 5) (fun i => eq_ic i ntfs_git_short) then is_done_ntfs (get_from input 5)
  else false.

(* the `while pos < 8` loop; [rest] = input[pos..] (pos never exceeds the length) *)
Fixpoint ntfs_fallback (pos : nat) (saw_tilde : bool) (rest prefix : bytes) {struct rest} : bool :=
  if Nat.leb 8 pos then is_done_ntfs (Some rest)
  else match rest with
  | [] => false
  | b :: rest1 =>
    if saw_tilde then
      if is_digit b then ntfs_fallback (S pos) true rest1 prefix else false
    else if beqb b x7e then
      match rest1 with
      | [] => false
      | d :: rest2 =>
        if N.leb 49 (b2N d) && N.leb (b2N d) 57 then ntfs_fallback (S (S pos)) true rest2 prefix else false
      end
    else if Nat.leb 6 pos
         || N.eqb (N.land (b2N b) 128) 128
         || match nth_error prefix pos with
            | None => true
            | Some ob => negb (beqb (ascii_lower b) (ascii_lower ob))
            end
    then false
    else ntfs_fallback (S pos) false rest1 prefix
  end.

Definition is_dot_ntfs (input name short_prefix : bytes) : bool :=
  if opt_is (get_at input 0) (fun b => beqb b x2e) then
      let end_pos := (1 + length name)%nat in
      if opt_is (get_range input 1 end_pos) (fun i => eq_ic i name) then is_done_ntfs (get_from input end_pos)
      else false
  else
      if match get_to name 6, get_to input 6 with
         | Some p, Some first6 =>
             eq_ic first6 p
             && opt_is (get_at input 6) (fun b => beqb b x7e)
             && opt_is (get_at input 7) (fun num => N.leb short_digit_lo (b2N num) && N.leb (b2N num) short_digit_hi)
         | _, _ => false
         end
      then is_done_ntfs (get_from input 8)
      else ntfs_fallback 0 false input short_prefix.

(* ---- component() ----------------------------------------------------------------------------- *)

Definition has_byte (b : byte) (s : bytes) : bool := existsb (beqb b) s.

(* everything after the separator / drive-prefix checks *)
Definition component_checks (input : bytes) (symlink : bool) (o : options) : outcome unit err :=
  if protect_hfs o && is_dot_hfs input hfs_needle_git then Err DotGitDir
  else if protect_hfs o && symlink && is_dot_hfs input hfs_needle_gitmodules then Err SymlinkedGitModules
  else if protect_ntfs o && is_dot_git_ntfs input then Err DotGitDir
  else if protect_ntfs o && symlink && is_dot_ntfs input ntfs_gitmodules ntfs_gitmodules_short
       then Err SymlinkedGitModules
  else match (if protect_ntfs o && protect_windows o
              then check_win_devices_and_illegal_characters input else None) with
  | Some e => Err e
  | None =>
    if negb (protect_hfs o || protect_ntfs o) && eq_ic input plain_dotgit then Err DotGitDir
    else if negb (protect_hfs o || protect_ntfs o) && symlink && eq_ic input plain_dotgitmodules
         then Err SymlinkedGitModules
    else Ok tt
  end.

Definition second_char_is_colon (input : bytes) : bool :=
  match chars input with
  | _ :: u :: _ => N.eqb (uch_cp u) 58
  | _ => false
  end.

Definition component (input : bytes) (symlink : bool) (o : options) : outcome unit err :=
  match input with
  | [] => Err Empty
  | _ =>
    if protect_windows o then
      if has_byte x2f input || has_byte x5c input then Err PathSeparator
      else if second_char_is_colon input then Err WindowsPathPrefix
      else component_checks input symlink o
    else if has_byte x2f input then Err PathSeparator
    else component_checks input symlink o
  end.
