//! C40 harness: gix_validate::path::component (and the helpers reached through it) against git's
//! verify_path / verify_dotfile / is_ntfs_dotgit / is_ntfs_dot_generic / is_hfs_dot_generic.
//!
//! cases:
//!   comp  <opts> <mode> <path>   opts = decimal 0..7: bit0 protect_windows, bit1 protect_hfs, bit2 protect_ntfs
//!                                mode = 0 regular file, 1 symlink, 2 directory (git side only; gix sees None)
//!   chars <bytes>                bstr's lossy UTF-8 decoding as used by `is_dot_hfs` and the drive-prefix check
//!   dev   <bytes>                gix_validate::path::component_is_windows_device
use bstr::ByteSlice;
use gix_validate::path::component::{Error, Mode, Options};
use gixv_common::*;
use std::path::PathBuf;
use std::sync::OnceLock;

fn opts_of(n: u64) -> Options {
    Options { protect_windows: n & 1 != 0, protect_hfs: n & 2 != 0, protect_ntfs: n & 4 != 0 }
}

fn err_name(e: &Error) -> &'static str {
    match e {
        Error::Empty => "Empty",
        Error::PathSeparator => "PathSeparator",
        Error::WindowsPathPrefix => "WindowsPathPrefix",
        Error::WindowsReservedName => "WindowsReservedName",
        Error::WindowsIllegalCharacter => "WindowsIllegalCharacter",
        Error::DotGitDir => "DotGitDir",
        Error::SymlinkedGitModules => "SymlinkedGitModules",
    }
}

fn gix_component(c: &Case) -> Result<(), Error> {
    let mode = (f_u64(c, 2) == 1).then_some(Mode::Symlink);
    gix_validate::path::component(f_str(c, 3).as_bstr(), mode, opts_of(f_u64(c, 1))).map(|_| ())
}

fn imp(c: &Case) -> String {
    match f_str(c, 0) {
        b"comp" => match gix_component(c) {
            Ok(()) => "ok".into(),
            Err(e) => format!("err {}", err_name(&e)),
        },
        b"chars" => {
            let s = f_str(c, 1);
            let mut out = String::new();
            for (a, b, ch) in s.char_indices() {
                let bad = ch == '\u{FFFD}' && &s[a..b] != "\u{FFFD}".as_bytes();
                if !out.is_empty() {
                    out.push(',');
                }
                if bad {
                    out.push_str(&format!("bad:{}", b - a));
                } else {
                    out.push_str(&format!("{}:{}", ch as u32, b - a));
                }
            }
            if out.is_empty() {
                out.push('-');
            }
            out
        }
        b"dev" => (gix_validate::path::component_is_windows_device(f_str(c, 1).as_bstr()) as u8).to_string(),
        _ => "?".into(),
    }
}

// ---------------------------------------------------------------------------------------------
// The oracle: git 2.39's C code for a non-Windows build, transcribed with C semantics
// (NUL-terminated strings: reading at the end yields 0).  Checked against /usr/bin/git on a sample.
// ---------------------------------------------------------------------------------------------
fn at(s: &[u8], i: usize) -> u8 {
    s.get(i).copied().unwrap_or(0)
}
fn c_tolower(b: u8) -> u8 {
    b.to_ascii_lowercase()
}

/// utf8.c pick_one_utf8_char(start, NULL): None = invalid (`*start = NULL`).
fn pick_one(s: &[u8], pos: &mut usize) -> Option<u32> {
    let p = *pos;
    let s0 = at(s, p) as u32;
    let (s1, s2, s3) = (at(s, p + 1) as u32, at(s, p + 2) as u32, at(s, p + 3) as u32);
    let (ch, incr);
    if s0 < 0x80 {
        ch = s0;
        incr = 1;
    } else if s0 & 0xe0 == 0xc0 {
        if s1 & 0xc0 != 0x80 || s0 & 0xfe == 0xc0 {
            return None;
        }
        ch = ((s0 & 0x1f) << 6) | (s1 & 0x3f);
        incr = 2;
    } else if s0 & 0xf0 == 0xe0 {
        if s1 & 0xc0 != 0x80
            || s2 & 0xc0 != 0x80
            || (s0 == 0xe0 && s1 & 0xe0 == 0x80)
            || (s0 == 0xed && s1 & 0xe0 == 0xa0)
            || (s0 == 0xef && s1 == 0xbf && s2 & 0xfe == 0xbe)
        {
            return None;
        }
        ch = ((s0 & 0x0f) << 12) | ((s1 & 0x3f) << 6) | (s2 & 0x3f);
        incr = 3;
    } else if s0 & 0xf8 == 0xf0 {
        if s1 & 0xc0 != 0x80
            || s2 & 0xc0 != 0x80
            || s3 & 0xc0 != 0x80
            || (s0 == 0xf0 && s1 & 0xf0 == 0x80)
            || (s0 == 0xf4 && s1 > 0x8f)
            || s0 > 0xf4
        {
            return None;
        }
        ch = ((s0 & 0x07) << 18) | ((s1 & 0x3f) << 12) | ((s2 & 0x3f) << 6) | (s3 & 0x3f);
        incr = 4;
    } else {
        return None;
    }
    *pos = p + incr;
    Some(ch)
}

/// utf8.c next_hfs_char: `pos` becomes None when the pointer was set to NULL.
fn next_hfs_char(s: &[u8], pos: &mut Option<usize>) -> u32 {
    loop {
        let mut p = pos.expect("never called after NULL");
        match pick_one(s, &mut p) {
            None => {
                *pos = None;
                return 0;
            }
            Some(out) => {
                *pos = Some(p);
                match out {
                    0x200c | 0x200d | 0x200e | 0x200f | 0x202a | 0x202b | 0x202c | 0x202d | 0x202e | 0x206a
                    | 0x206b | 0x206c | 0x206d | 0x206e | 0x206f | 0xfeff => continue,
                    _ => return out,
                }
            }
        }
    }
}

fn is_hfs_dot_generic(s: &[u8], start: usize, needle: &[u8]) -> bool {
    let mut pos = Some(start);
    let c = next_hfs_char(s, &mut pos);
    if c != '.' as u32 {
        return false;
    }
    for n in needle {
        let c = next_hfs_char(s, &mut pos);
        if c > 127 {
            return false;
        }
        if c_tolower(c as u8) != *n {
            return false;
        }
    }
    let c = next_hfs_char(s, &mut pos);
    if c != 0 && c != '/' as u32 {
        return false;
    }
    true
}

/// path.c is_ntfs_dotgit
fn is_ntfs_dotgit(s: &[u8], start: usize) -> bool {
    let mut i = start;
    let mut next = || {
        let c = at(s, i);
        i += 1;
        c
    };
    let c = next();
    if c == b'.' {
        let g = next();
        if g != b'g' && g != b'G' {
            return false;
        }
        let c = next();
        if c != b'i' && c != b'I' {
            return false;
        }
        let c = next();
        if c != b't' && c != b'T' {
            return false;
        }
    } else if c == b'g' || c == b'G' {
        let c = next();
        if c != b'i' && c != b'I' {
            return false;
        }
        let c = next();
        if c != b't' && c != b'T' {
            return false;
        }
        if next() != b'~' {
            return false;
        }
        if next() != b'1' {
            return false;
        }
    } else {
        return false;
    }
    loop {
        let c = next();
        if c == 0 || c == b'\\' || c == b'/' || c == b':' {
            return true;
        }
        if c != b'.' && c != b' ' {
            return false;
        }
    }
}

fn only_spaces_and_periods(s: &[u8], mut i: usize) -> bool {
    loop {
        let c = at(s, i);
        i += 1;
        if c == 0 || c == b':' {
            return true;
        }
        if c != b' ' && c != b'.' {
            return false;
        }
    }
}

/// strncasecmp(a, b, n) == 0 in the C locale
fn strncasecmp_eq(s: &[u8], start: usize, b: &[u8], n: usize) -> bool {
    for k in 0..n {
        let x = c_tolower(at(s, start + k));
        let y = c_tolower(at(b, k));
        if x != y {
            return false;
        }
        if x == 0 {
            return true;
        }
    }
    true
}

/// path.c is_ntfs_dot_generic
fn is_ntfs_dot_generic(s: &[u8], start: usize, dotgit_name: &[u8], short_prefix: &[u8]) -> bool {
    let len = dotgit_name.len();
    let name = |i: usize| at(s, start + i);
    if name(0) == b'.' && strncasecmp_eq(s, start + 1, dotgit_name, len) {
        return only_spaces_and_periods(s, start + len + 1);
    }
    if strncasecmp_eq(s, start, dotgit_name, 6) && name(6) == b'~' && name(7) >= b'1' && name(7) <= b'4' {
        return only_spaces_and_periods(s, start + 8);
    }
    let mut i = 0usize;
    let mut saw_tilde = false;
    while i < 8 {
        let b = name(i);
        if b == 0 {
            return false;
        } else if saw_tilde {
            if !b.is_ascii_digit() {
                return false;
            }
        } else if b == b'~' {
            i += 1;
            let d = name(i);
            if !(b'1'..=b'9').contains(&d) {
                return false;
            }
            saw_tilde = true;
        } else if i >= 6 {
            return false;
        } else if b & 0x80 != 0 {
            return false;
        } else if c_tolower(b) != short_prefix[i] {
            return false;
        }
        i += 1;
    }
    only_spaces_and_periods(s, start + i)
}

/// read-cache.c verify_dotfile (`rest` = index just after the '.')
fn verify_dotfile(s: &[u8], rest: usize, symlink: bool) -> bool {
    let r = |i: usize| at(s, rest + i);
    if r(0) == 0 || r(0) == b'/' {
        return false;
    }
    match r(0) {
        b'g' | b'G' => {
            if r(1) != b'i' && r(1) != b'I' {
                return true;
            }
            if r(2) != b't' && r(2) != b'T' {
                return true;
            }
            if r(3) == 0 || r(3) == b'/' {
                return false;
            }
            if symlink {
                let m = b"modules";
                let mut ok = true;
                for (k, x) in m.iter().enumerate() {
                    if c_tolower(r(3 + k)) != *x {
                        ok = false;
                        break;
                    }
                }
                if ok && (r(3 + m.len()) == 0 || r(3 + m.len()) == b'/') {
                    return false;
                }
            }
        }
        b'.' => {
            if r(1) == 0 || r(1) == b'/' {
                return false;
            }
        }
        _ => {}
    }
    true
}

/// read-cache.c verify_path for a non-Windows build; true = path is fine.
fn verify_path(s: &[u8], mode: u64, hfs: bool, ntfs: bool) -> bool {
    let symlink = mode == 1;
    let isdir = mode == 2;
    let mut p = 0usize; // `path`
    let mut c: u8 = 0;
    let mut goto_inside = true;
    loop {
        if !goto_inside && c == 0 {
            return true;
        }
        if goto_inside || c == b'/' {
            goto_inside = false;
            if hfs {
                if is_hfs_dot_generic(s, p, b"git") {
                    return false;
                }
                if symlink && is_hfs_dot_generic(s, p, b"gitmodules") {
                    return false;
                }
            }
            if ntfs {
                if is_ntfs_dotgit(s, p) {
                    return false;
                }
                if symlink && is_ntfs_dot_generic(s, p, b"gitmodules", b"gi7eba") {
                    return false;
                }
            }
            c = at(s, p);
            p += 1;
            if (c == b'.' && !verify_dotfile(s, p, symlink)) || c == b'/' {
                return false;
            }
            if c == 0 {
                return isdir;
            }
        } else if c == b'\\' && ntfs {
            if is_ntfs_dotgit(s, p) {
                return false;
            }
            if symlink && is_ntfs_dot_generic(s, p, b"gitmodules", b"gi7eba") {
                return false;
            }
        }
        c = at(s, p);
        p += 1;
    }
}

// ---------------------------------------------------------------------------------------------
// real git
// ---------------------------------------------------------------------------------------------
fn git_dir() -> &'static PathBuf {
    static DIR: OnceLock<PathBuf> = OnceLock::new();
    DIR.get_or_init(|| {
        let d = std::env::temp_dir().join(format!("gixv-c40-{}", std::process::id()));
        let _ = std::fs::remove_dir_all(&d);
        std::fs::create_dir_all(d.join("objects")).unwrap();
        std::fs::create_dir_all(d.join("refs")).unwrap();
        std::fs::write(d.join("HEAD"), "ref: refs/heads/main\n").unwrap();
        d
    })
}

/// Some(true) = git refuses the path, None = git cannot be asked (NUL in the path, argv cannot carry it)
fn real_git_refuses(path: &[u8], mode: u64, hfs: bool, ntfs: bool) -> Option<bool> {
    use std::os::unix::ffi::OsStrExt;
    if path.contains(&0) {
        return None;
    }
    let d = git_dir();
    let idx = d.join("index");
    let _ = std::fs::remove_file(&idx);
    let m = match mode {
        1 => "120000",
        2 => "040000",
        _ => "100644",
    };
    let mut arg = format!("{m},e69de29bb2d1d6434b8b29ae775ad8c2e48c5391,").into_bytes();
    arg.extend_from_slice(path);
    let out = std::process::Command::new("/usr/bin/git")
        .env_clear()
        .env("GIT_DIR", d)
        .env("GIT_INDEX_FILE", &idx)
        .env("GIT_CONFIG_NOSYSTEM", "1")
        .env("GIT_CONFIG_GLOBAL", "/dev/null")
        .env("LC_ALL", "C")
        .arg("-c")
        .arg(format!("core.protectHFS={hfs}"))
        .arg("-c")
        .arg(format!("core.protectNTFS={ntfs}"))
        .args(["update-index", "--add", "--cacheinfo"])
        .arg(std::ffi::OsStr::from_bytes(&arg))
        .output()
        .ok()?;
    let _ = std::fs::remove_file(&idx);
    if out.status.success() {
        return Some(false);
    }
    let e = String::from_utf8_lossy(&out.stderr);
    if e.contains("Invalid path") {
        Some(true)
    } else {
        None // some other failure of update-index (e.g. a directory mode): no say
    }
}

fn git(c: &Case) -> String {
    if f_str(c, 0) != b"comp" {
        return "-".into();
    }
    let o = f_u64(c, 1);
    let mode = f_u64(c, 2);
    if mode == 2 {
        return "-".into(); // update-index cannot add a directory entry
    }
    match real_git_refuses(f_str(c, 3), mode, o & 2 != 0, o & 4 != 0) {
        Some(true) => "refuse".into(),
        Some(false) => "accept".into(),
        None => "-".into(),
    }
}

// ---------------------------------------------------------------------------------------------
// the property
// ---------------------------------------------------------------------------------------------
const DEVICES: &[&str] = &[
    "AUX", "NUL", "PRN", "CON", "CONIN$", "CONOUT$", "COM1", "COM2", "COM3", "COM4", "COM5", "COM6", "COM7", "COM8",
    "COM9", "LPT0", "LPT1", "LPT2", "LPT3", "LPT4", "LPT5", "LPT6", "LPT7", "LPT8", "LPT9",
];

/// Declarative device rule: a reserved name (any case), then spaces, then the end or '.' or ':' and anything.
fn is_device_by_rule(s: &[u8]) -> bool {
    DEVICES.iter().any(|d| {
        let d = d.as_bytes();
        if s.len() < d.len() || !s[..d.len()].eq_ignore_ascii_case(d) {
            return false;
        }
        let rest = &s[d.len()..];
        let k = rest.iter().take_while(|b| **b == b' ').count();
        matches!(rest.get(k), None | Some(b'.') | Some(b':'))
    })
}

fn fnv(c: &Case) -> u64 {
    let mut h = 0xcbf29ce484222325u64;
    for f in c {
        for b in f {
            h = (h ^ *b as u64).wrapping_mul(0x100000001b3);
        }
        h = (h ^ 0xff).wrapping_mul(0x100000001b3);
    }
    h
}

fn prop(c: &Case) -> Verdict {
    match f_str(c, 0) {
        b"comp" => {
            let o = f_u64(c, 1);
            let (win, hfs, ntfs) = (o & 1 != 0, o & 2 != 0, o & 4 != 0);
            let mode = f_u64(c, 2);
            let path = f_str(c, 3);
            if path.contains(&0) {
                return Verdict::ok(false, "nul-in-path");
            }
            let mut git_refuses = !verify_path(path, mode, hfs, ntfs);
            // a deterministic sample is also put to the real git; git is the authority
            if mode != 2 && fnv(c) % 16 == 0 {
                if let Some(r) = real_git_refuses(path, mode, hfs, ntfs) {
                    if r != git_refuses {
                        return Verdict::fail(
                            "oracle-transcription-differs-from-git",
                            format!("git refuses={r} transcription={git_refuses}"),
                        );
                    }
                    git_refuses = r;
                }
            }
            let gix_refuses = gix_component(c).is_err();
            // Windows device names (git refuses them only in its Windows build): declarative rule
            if win && ntfs && !path.is_empty() && is_device_by_rule(path) && !gix_refuses {
                return Verdict::fail("device-name-accepted", String::from_utf8_lossy(path).to_string());
            }
            if git_refuses && !gix_refuses {
                let class = if path == b"." || path == b".." {
                    "dot-or-dotdot"
                } else if ntfs && !win && path.contains(&b'\\') {
                    "ntfs-backslash"
                } else {
                    "git-refuses-gix-accepts"
                };
                return Verdict::fail(class, format!("opts={o} mode={mode} path={:?}", path.as_bstr()));
            }
            if git_refuses {
                Verdict::ok(true, "both-refuse")
            } else if gix_refuses {
                Verdict::ok(path.len() > 1, "gix-stricter")
            } else {
                let low = path.to_ascii_lowercase();
                let near = low.find(b"git").is_some() || low.find(b"gi7").is_some() || low.contains(&b'~');
                Verdict::ok(near, if near { "both-accept-near-miss" } else { "both-accept" })
            }
        }
        b"chars" => Verdict::ok(false, "chars"),
        b"dev" => {
            let s = f_str(c, 1);
            let got = gix_validate::path::component_is_windows_device(s.as_bstr());
            if is_device_by_rule(s) && !got {
                return Verdict::fail("device-name-missed", String::from_utf8_lossy(s).to_string());
            }
            Verdict::ok(got, if got { "dev-yes" } else { "dev-no" })
        }
        _ => Verdict::ok(false, "?"),
    }
}

// ---------------------------------------------------------------------------------------------
// generator
// ---------------------------------------------------------------------------------------------
const IGNORABLE: &[u32] = &[
    0x200c, 0x200d, 0x200e, 0x200f, 0x202a, 0x202b, 0x202c, 0x202d, 0x202e, 0x206a, 0x206b, 0x206c, 0x206d, 0x206e,
    0x206f, 0xfeff,
];
// neighbours of the ignorable code points and other interesting scalars
const NEAR: &[u32] = &[
    0x200b, 0x2010, 0x2029, 0x202f, 0x2069, 0x2070, 0xfefe, 0xff00, 0xfffd, 0xfffe, 0xffff, 0x80, 0x7ff, 0x800, 0xd7ff,
    0xe000, 0x10000, 0x10ffff, 0x130, 0x212a, 0x2e, 0x67,
];

fn utf8(cp: u32) -> Vec<u8> {
    // raw encoder (also for non-characters); not for surrogates
    if cp < 0x80 {
        vec![cp as u8]
    } else if cp < 0x800 {
        vec![0xc0 | (cp >> 6) as u8, 0x80 | (cp & 0x3f) as u8]
    } else if cp < 0x10000 {
        vec![0xe0 | (cp >> 12) as u8, 0x80 | ((cp >> 6) & 0x3f) as u8, 0x80 | (cp & 0x3f) as u8]
    } else {
        vec![
            0xf0 | (cp >> 18) as u8,
            0x80 | ((cp >> 12) & 0x3f) as u8,
            0x80 | ((cp >> 6) & 0x3f) as u8,
            0x80 | (cp & 0x3f) as u8,
        ]
    }
}

const ILL: &[&[u8]] = &[
    b"\xff", b"\x80", b"\xbf", b"\xc0\x80", b"\xc1\xbf", b"\xc2", b"\xe0\x80\x80", b"\xe0\x9f\xbf", b"\xe2\x80",
    b"\xe2", b"\xed\xa0\x80", b"\xed\xbf\xbf", b"\xef\xbf\xbe", b"\xef\xbf\xbf", b"\xef\xbf", b"\xf0\x80\x80\x80",
    b"\xf0\x8f\xbf\xbf", b"\xf0\x90\x80", b"\xf4\x90\x80\x80", b"\xf5\x80\x80\x80", b"\xf8\x88\x80\x80\x80",
    b"\xe2\x80\x8c\xff", b"\xef\xbb", b"\xf0\x9f\x98",
];

fn mixcase(rng: &mut Rng, s: &[u8]) -> Vec<u8> {
    s.iter().map(|b| if rng.chance(1, 3) { b.to_ascii_uppercase() } else { *b }).collect()
}

fn sprinkle(rng: &mut Rng, s: &[u8], num: u64, den: u64) -> Vec<u8> {
    // insert HFS-ignorable (mostly) code points at random positions
    let mut out = Vec::new();
    for i in 0..=s.len() {
        while rng.chance(num, den) {
            match rng.below(12) {
                0 => out.extend(utf8(*rng.pick(NEAR))),
                1 => out.extend_from_slice(*rng.pick(ILL)),
                _ => out.extend(utf8(*rng.pick(IGNORABLE))),
            }
        }
        if i < s.len() {
            out.push(s[i]);
        }
    }
    out
}

fn tail(rng: &mut Rng) -> Vec<u8> {
    let mut t = match rng.below(10) {
        0..=2 => vec![],
        3..=6 => rng.word(b" .", 1, 4),
        7 => rng.word(b" .:", 1, 4),
        8 => rng.word(b" .:x\\/", 1, 4),
        _ => rng.word(b" .:$DATAx", 1, 8),
    };
    if rng.chance(1, 6) {
        t.extend_from_slice(*rng.pick(&[&b":$DATA"[..], b"::$DATA", b":x", b"\\", b"\\x", b"/", b"/x", b"x", b"~1"]));
    }
    if rng.chance(1, 10) {
        t.extend_from_slice(*rng.pick(ILL));
    }
    t
}

fn base_name(rng: &mut Rng) -> Vec<u8> {
    const NAMES: &[&[u8]] = &[
        b".git", b".git", b".git", b"git~1", b"git~1", b".gitmodules", b".gitmodules", b"gitmod~1", b"gitmod~2",
        b"gitmod~3", b"gitmod~4", b"gitmod~5", b"gitmod~0", b"gi7eba~1", b"gi7eba~9", b"gi7eb~10", b"gi7e~100",
        b"gi7~1000", b"gi~10000", b"g~100000", b"~1000000", b"~9999999", b"gi7eba~0", b"gi7ebx~1", b"gi7eba~~", b".gi",
        b".gitm", b".gitmodule", b".gitmoduless", b".gitignore", b".gitattributes", b"git~2", b"git~10", b"git~", b".",
        b"..", b"...", b".g", b"gitmodules", b"gitmo~1", b".git~1", b"gi7eba~10", b"gi7eb~1", b"gI7eB~99",
    ];
    rng.pick(NAMES).to_vec()
}

fn device_name(rng: &mut Rng) -> Vec<u8> {
    let mut n = if rng.chance(3, 4) {
        rng.pick(DEVICES).as_bytes().to_vec()
    } else {
        rng.pick(&[&b"COM0"[..], b"COM", b"LPT", b"LPTX", b"CONIN", b"CONOUT", b"CONIN$$", b"CO", b"AU", b"NULL", b"PRNT", b"COM10", b"LPT10", b"CONOUT$"])
            .to_vec()
    };
    n = mixcase(rng, &n);
    n.extend(rng.word(b" ", 0, 3));
    match rng.below(8) {
        0..=2 => {}
        3 => n.extend_from_slice(b".txt"),
        4 => n.extend_from_slice(b":x"),
        5 => n.extend_from_slice(b"."),
        6 => n.extend_from_slice(b"x"),
        _ => n.extend(rng.word(b" .:a", 1, 3)),
    }
    n
}

fn random_component(rng: &mut Rng) -> Vec<u8> {
    match rng.below(6) {
        0 => rng.word(b".gitGIT~1 :\\/", 1, 8),
        1 => rng.word(b"abc.~10 ", 1, 10),
        2 => {
            let mut v = Vec::new();
            for _ in 0..rng.range(1, 4) {
                match rng.below(4) {
                    0 => v.extend(utf8(*rng.pick(NEAR))),
                    1 => v.extend(utf8(*rng.pick(IGNORABLE))),
                    2 => v.extend_from_slice(*rng.pick(ILL)),
                    _ => v.extend(rng.word(b".gitx:", 1, 3)),
                }
            }
            v
        }
        3 => {
            let n = rng.range(1, 6) as usize;
            rng.bytes(n)
        }
        4 => rng.word(b"<>:\"|?*\x01\x1f\x20\x7fa.", 1, 5),
        _ => {
            let mut v = rng.word(b"ab", 0, 2);
            v.push(*rng.pick(b":\\/"));
            v.extend(rng.word(b".gitGIT~1modules", 0, 12));
            v
        }
    }
}

fn comp(o: u64, mode: u64, p: Vec<u8>) -> Case {
    vec![tag("comp"), num(o), num(mode), p]
}

fn gen(rng: &mut Rng, n: usize) -> Vec<Case> {
    let mut out: Vec<Case> = Vec::new();
    // ---- deterministic boundary block -------------------------------------------------------
    let mut boundary: Vec<Vec<u8>> = Vec::new();
    for b in [
        &b""[..], b".", b"..", b"...", b".git", b".GIT", b".gIt", b".gi", b".gitx", b".git ", b".git.", b".git:", b".git::$INDEX_ALLOCATION",
        b".git\\", b".git/", b"git~1", b"GIT~1", b"git~2", b"git~1 . .", b"git~1:", b"git~1x", b"a\\.git", b"a\\git~1", b"a\\.git\\b",
        b".gitmodules", b".GITMODULES", b".gitmodules ", b".gitmodules.", b".gitmodules:$DATA", b".gitmodules\\", b".gitmodules/foo",
        b".gitmodule", b".gitmoduless", b"gitmod~1", b"gitmod~4", b"gitmod~5", b"gitmod~0", b"GITMOD~1 .", b"gi7eba~1", b"gi7eba~9",
        b"gi7eba~0", b"gi7eb~10", b"gi7e~100", b"~1000000", b"~9999999", b"~0999999", b"gi7eba~10", b"gi7eba~1x", b"gi7eba~1:",
        b"a\\.gitmodules", b"a\\gitmod~1", b"a\\gi7eba~1", b"a/.git", b"a/", b"/a", b"a//b", b"a/b", b"c:", b"c:x", b"\\", b"a\\b",
        b"aux", b"AUX.c", b"nul", b"prn ", b"con", b"conin$", b"conout$  .xyz", b"com1", b"com0", b"com9:x", b"lpt0", b"lpt9", b"lptx",
        b"a.", b"a ", b"a:b", b"a<", b"a\x1f", b"a\x7f", b"a\x00b", b".git\x00",
        b".git\xff", b".git\xef\xbf\xbe", b".git\xef\xbf\xbf", b".git\xef\xbf\xbd", b".git\xe2\x80", b".git\xe2\x80\x8c", b".git\xe2\x80\x8c\xff",
        b".git\xe2\x80\x8cx", b"\xe2\x80\x8c.git", b".\xe2\x80\x8dg\xe2\x80\x8ei\xe2\x80\x8ft", b".gi\xe2\x80\xaat\xe2\x80\xae", b".git\xe2\x81\xaa\xe2\x81\xaf",
        b"\xef\xbb\xbf.git", b".git\xf0\x90\x80", b".git\xc0\x80", b".git\xed\xa0\x80", b".gi\xfft", b"\xff.git", b".git\xe2\x80\x8b", b".git\xe2\x80\x90",
        b".gitmodules\xff", b".gitmodules\xe2\x80\x8c", b".gitmodule\xe2\x80\x8cs", b".g\xc4\xb0t", b".g\xc4\xb1t", b".\xe2\x84\xaait", b"\xd6\x8d:", b"\xff:", b"\xff\xff:",
        b"\xe2\x80\x8c", b"\xe2\x80\x8c.", b".\xe2\x80\x8c", b".\xe2\x80\x8c.",
    ] {
        boundary.push(b.to_vec());
    }
    for p in &boundary {
        for (o, mode) in [(0u64, 0u64), (7, 1), (6, 1), (2, 0), (4, 0), (3, 1), (5, 1), (1, 0), (6, 0), (0, 1)] {
            out.push(comp(o, mode, p.clone()));
        }
    }
    for il in ILL {
        out.push(vec![tag("chars"), il.to_vec()]);
        let mut v = b"a".to_vec();
        v.extend_from_slice(il);
        v.extend_from_slice(b"b\xe2\x80\x8c");
        out.push(vec![tag("chars"), v]);
    }
    for cp in NEAR.iter().chain(IGNORABLE) {
        out.push(vec![tag("chars"), utf8(*cp)]);
    }
    for d in DEVICES {
        out.push(vec![tag("dev"), d.as_bytes().to_vec()]);
        out.push(vec![tag("dev"), format!("{}  .x", d.to_lowercase()).into_bytes()]);
        out.push(vec![tag("dev"), format!("{}x", d).into_bytes()]);
        out.push(comp(7, 0, d.as_bytes().to_vec()));
        out.push(comp(5, 0, format!("{} :s", d.to_lowercase()).into_bytes()));
    }
    // interleave so that the head of the list (which also goes to the git oracle) is mixed
    let mut rest: Vec<Case> = Vec::new();
    while out.len() + rest.len() < n {
        let o = if rng.chance(1, 2) { *rng.pick(&[6u64, 7, 6, 7, 2, 4, 3, 5]) } else { rng.below(8) };
        let mode = match rng.below(10) {
            0..=4 => 1,
            5..=8 => 0,
            _ => 2,
        };
        let c = match rng.below(20) {
            0..=5 => {
                // .git / .gitmodules look-alikes: case changes, trailing junk
                let bn = base_name(rng);
                let mut p = mixcase(rng, &bn);
                p.extend(tail(rng));
                comp(o, mode, p)
            }
            6..=9 => {
                // HFS: inserted ignorable code points
                let b0: &[u8] = *rng.pick(&[&b".git"[..], b".git", b".gitmodules", b".gitmodules", b".gi", b".gitx", b".gitmodule", b".", b".."]);
                let b = mixcase(rng, b0);
                let mut p = sprinkle(rng, &b, 1, 4);
                if rng.chance(1, 4) {
                    p.extend(tail(rng));
                }
                comp(o, mode, p)
            }
            10 | 11 => {
                // behind a backslash or slash
                let mut p = rng.word(b"ab.", 0, 2);
                p.push(*rng.pick(b"\\\\/:"));
                let bn = base_name(rng);
                p.extend(mixcase(rng, &bn));
                p.extend(tail(rng));
                comp(o, mode, p)
            }
            12 | 13 => comp(o, mode, device_name(rng)),
            14 => vec![tag("dev"), device_name(rng)],
            15 => {
                let mut v = Vec::new();
                for _ in 0..rng.range(1, 5) {
                    match rng.below(5) {
                        0 => v.extend(utf8(*rng.pick(NEAR))),
                        1 => v.extend(utf8(*rng.pick(IGNORABLE))),
                        2 => v.extend_from_slice(*rng.pick(ILL)),
                        3 => {
                            let k = rng.range(1, 4) as usize;
                            v.extend(rng.bytes(k).into_iter().map(|b| b | 0x80))
                        }
                        _ => v.extend(rng.word(b".g:", 1, 2)),
                    }
                }
                vec![tag("chars"), v]
            }
            16 => {
                // fall-back short names
                let k = rng.range(0, 7) as usize;
                let mut p = mixcase(rng, &b"gi7eba"[..k.min(6)]);
                if rng.chance(1, 6) && !p.is_empty() {
                    let i = rng.below(p.len() as u64) as usize;
                    p[i] = *rng.pick(b"x7\xe7~");
                }
                p.push(b'~');
                p.extend(rng.word(b"0123456789", 0, 8usize.saturating_sub(k)));
                if rng.chance(1, 5) {
                    p.extend(rng.word(b"0x~", 1, 1));
                }
                p.extend(tail(rng));
                comp(o, mode, p)
            }
            _ => comp(o, mode, random_component(rng)),
        };
        rest.push(c);
    }
    // mix: boundary and random alternate at the head
    let mut mixed = Vec::with_capacity(out.len() + rest.len());
    let mut a = out.into_iter();
    let mut b = rest.into_iter();
    loop {
        match (a.next(), b.next()) {
            (None, None) => break,
            (x, y) => {
                mixed.extend(x);
                mixed.extend(y);
            }
        }
    }
    mixed.truncate(n.max(1));
    mixed
}

fn main() {
    main_with(Harness { gen, imp, prop, git: Some(git), deadline: std::time::Duration::from_secs(180) });
}
