(* C16 — several edits without dereferencing in one transaction on a store without packed-refs:
   prepare succeeds exactly when the map accepts every edit (all-or-nothing). *)
From Coq Require Import List NArith Bool Arith Lia.
From GixV.Base Require Import Bytes BytesFacts Outcome.
From GixV.C16 Require Import Model Spec ProofsMerge ProofsBasic ProofsSingle.
Import ListNotations.

Definition plain (e : edit) : Prop := re_deref (upd e) = false.

(* ---- pre_process leaves edits without `deref` alone ------------------------------------------------ *)
Lemma split_pass_plain find : forall es k, Forall plain es -> split_pass find k es = (es, []).
Proof.
  induction es as [|e r IH]; intros k F; [reflexivity|].
  inversion F as [|? ? He Fr]; subst. cbn [split_pass]. unfold split_one. unfold plain in He. rewrite He.
  cbn [negb]. rewrite (IH (S k) Fr). reflexivity.
Qed.
Lemma pre_process_plain find es :
  Forall plain es ->
  pre_process find es = if has_dup (map name_of es) then Err EPreprocessingFailed else Ok es.
Proof.
  intros F. unfold pre_process. cbn [splits_loop length]. rewrite (split_pass_plain find es 0 F).
  cbn [app obind]. reflexivity.
Qed.

(* ---- the `for cid in 0..len` loop visits the edits one by one --------------------------------------- *)
Definition prep1 (st : store) (e : edit) : outcome edit err := lock_ref_and_apply_change st None e false false.

Lemma set_nth_app {A} (pre : list A) x y suf : set_nth (length pre) y (pre ++ x :: suf) = pre ++ y :: suf.
Proof. induction pre as [|a pre IH]; cbn; [reflexivity|]. f_equal. exact IH. Qed.
Lemma nth_error_app_here {A} (pre : list A) x suf : nth_error (pre ++ x :: suf) (length pre) = Some x.
Proof. induction pre as [|a pre IH]; cbn; [reflexivity|exact IH]. Qed.

(* all edits prepare *)
Lemma apply_all_ok st : forall suf suf' pre,
  Forall2 (fun e e' => prep1 st e = Ok e') suf suf' ->
  apply_all (length suf) (length pre) st None false false (pre ++ suf) = Ok (pre ++ suf').
Proof.
  induction suf as [|e r IH]; intros suf' pre F; inversion F as [|? e' ? r' He Fr]; subst.
  - reflexivity.
  - cbn [length apply_all]. rewrite nth_error_app_here. cbn [andb]. unfold prep1 in He. rewrite He.
    rewrite set_nth_app.
    replace (pre ++ e' :: r) with ((pre ++ [e']) ++ r) by (rewrite <- app_assoc; reflexivity).
    replace (S (length pre)) with (length (pre ++ [e'])) by (rewrite app_length; cbn; lia).
    rewrite (IH r' (pre ++ [e']) Fr). rewrite <- app_assoc. reflexivity.
Qed.
(* the first edit that does not prepare stops the loop with its error *)
Lemma apply_all_err st err : forall ok ok' pre bad rest,
  Forall2 (fun e e' => prep1 st e = Ok e') ok ok' ->
  prep1 st bad = Err err -> (forall x, err <> ELockAcquire x) ->
  apply_all (length (ok ++ bad :: rest)) (length pre) st None false false (pre ++ ok ++ bad :: rest) = Err err.
Proof.
  induction ok as [|e r IH]; intros ok' pre bad rest F Hb Hn; inversion F as [|? e' ? r' He Fr]; subst.
  - cbn [app length apply_all]. rewrite nth_error_app_here. cbn [andb]. unfold prep1 in Hb. rewrite Hb.
    destruct err; try reflexivity. exfalso. eapply Hn. reflexivity.
  - cbn [app length apply_all]. rewrite nth_error_app_here. cbn [andb]. unfold prep1 in He. rewrite He.
    rewrite set_nth_app.
    replace (pre ++ e' :: r ++ bad :: rest) with ((pre ++ [e']) ++ r ++ bad :: rest)
      by (rewrite <- app_assoc; reflexivity).
    replace (S (length pre)) with (length (pre ++ [e'])) by (rewrite app_length; cbn; lia).
    apply (IH r' (pre ++ [e']) bad rest Fr Hb Hn).
Qed.

(* ---- one edit of the loop on a store without packed-refs ------------------------------------------- *)
Definition mk (u : refedit) : edit := mkEdit u false None.

Definition prepared_of (lo : list (bytes * target)) (u : refedit) : edit :=
  let n := re_name u in
  match re_change u with
  | Delete expected log =>
      mkEdit (mkRefEdit n (Delete (match assoc n lo with Some t => PMatch t | None => expected end) log) false)
             true None
  | Update log expected new =>
      match assoc n lo with
      | Some t => mkEdit (mkRefEdit n (Update log (PMatch t) new) false)
                         (fst (new_would_change_existing new t) || snd (new_would_change_existing new t)) None
      | None => mkEdit (mkRefEdit n (Update log expected new) false) true None
      end
  end.

Definition good (lo : list (bytes * target)) (u : refedit) : Prop :=
  re_deref u = false /\ valid_change (re_change u) /\ lock_ok lo (re_name u) = true.

Lemma prep1_char lo u :
  good lo u ->
  (holds (re_change u) (assoc (re_name u) lo) = true /\ prep1 (mkStore lo None) (mk u) = Ok (prepared_of lo u))
  \/ (holds (re_change u) (assoc (re_name u) lo) = false
      /\ exists err, prep1 (mkStore lo None) (mk u) = Err err /\ forall x, err <> ELockAcquire x).
Proof.
  intros (Hd & Hv & Hl). destruct u as [n c d]. cbn [re_deref re_name re_change] in *. subst d.
  unfold prep1, mk, lock_ref_and_apply_change, prepared_of.
  cbn [lock upd re_name re_change re_deref loose andb parent_index negb].
  unfold acquire, find_in. rewrite Hl.
  replace (match assoc n lo with Some t => Some t | None => None end) with (assoc n lo)
    by (destruct (assoc n lo); reflexivity).
  destruct c as [log expected new|expected log]; cbn [obind re_change].
  - pose proof (check_update_is_cas log expected new (assoc n lo)) as CAS.
    destruct (check_update expected new (assoc n lo)) as [[]|err| |] eqn:CU.
    + left. split; [apply (proj1 CAS); reflexivity|]. cbn [obind].
      destruct (assoc n lo) as [t|].
      * destruct (new_would_change_existing new t) as [eff sy]. cbn [fst snd].
        destruct eff, sy; reflexivity.
      * reflexivity.
    + right. split.
      * destruct (holds (Update log expected new) (assoc n lo)) eqn:H; [|reflexivity].
        assert (X : @Err unit Model.err err = Ok tt) by (apply (proj2 CAS); reflexivity). discriminate.
      * exists err. split; [reflexivity|].
        intros x ->. destruct expected, (assoc n lo); cbn in CU; try destruct (target_eqb _ _); discriminate.
    + exfalso. eapply check_update_never_panics. exact CU.
    + exfalso. destruct expected, (assoc n lo); cbn in CU; try destruct (target_eqb _ _); discriminate.
  - assert (NV : expected <> PMustNotExist) by (intros ->; exact Hv).
    pose proof (check_delete_is_cas log expected (assoc n lo) NV) as CAS.
    destruct (check_delete expected (assoc n lo)) as [[]|err| |] eqn:CU.
    + left. split; [apply (proj1 CAS); reflexivity|]. reflexivity.
    + right. split.
      * destruct (holds (Delete expected log) (assoc n lo)) eqn:H; [|reflexivity].
        assert (X : @Err unit Model.err err = Ok tt) by (apply (proj2 CAS); reflexivity). discriminate.
      * exists err. split; [reflexivity|].
        intros x ->. destruct expected, (assoc n lo); cbn in CU; try destruct (target_eqb _ _); discriminate.
    + exfalso. apply NV. eapply check_delete_panics_only_on_invalid. exact CU.
    + exfalso. destruct expected, (assoc n lo); cbn in CU; try destruct (target_eqb _ _); discriminate.
Qed.

Lemma forallb_false_split {A} (P : A -> bool) l :
  forallb P l = false -> exists ok bad rest, l = ok ++ bad :: rest /\ forallb P ok = true /\ P bad = false.
Proof.
  induction l as [|a r IH]; cbn [forallb]; intros H; [discriminate|].
  destruct (P a) eqn:Pa.
  - destruct (IH H) as (ok & bad & rest & -> & Hok & Hbad).
    exists (a :: ok), bad, rest. cbn [app forallb]. rewrite Pa. auto.
  - exists [], a, r. auto.
Qed.

Definition holds_now (lo : list (bytes * target)) (u : refedit) : bool :=
  holds (re_change u) (assoc (re_name u) lo).

Lemma prepare_all_ok lo us :
  Forall (good lo) us -> forallb (holds_now lo) us = true ->
  Forall2 (fun e e' => prep1 (mkStore lo None) e = Ok e') (map mk us) (map (prepared_of lo) us).
Proof.
  induction us as [|u r IH]; intros G H; cbn [map]; [constructor|].
  inversion G as [|? ? Gu Gr]; subst. cbn [forallb] in H. apply andb_true_iff in H. destruct H as [Hu Hr].
  constructor; [|apply IH; assumption].
  destruct (prep1_char lo u Gu) as [[_ E]|[E _]]; [exact E|]. unfold holds_now in Hu. congruence.
Qed.

(* ---- commit ---------------------------------------------------------------------------------------- *)
Definition nodf (names : list bytes) : Prop := forall a b, In a names -> In b names -> dir_of a b = false.

Lemma keys_remove_key {A} n (l : list (bytes * A)) x : In x (keys (remove_key n l)) -> In x (keys l).
Proof.
  unfold keys. induction l as [|[k v] r IH]; simpl; [tauto|].
  destruct (bytes_eqb n k); simpl; intuition.
Qed.
Lemma keys_set_key {A} n (v : A) l x : In x (keys (set_key n v l)) -> x = n \/ In x (keys l).
Proof.
  unfold set_key. intros [H|H]; [left; symmetry; exact H|right; eapply keys_remove_key; exact H].
Qed.

Lemma existsb_false {A} (f : A -> bool) l : (forall x, In x l -> f x = false) -> existsb f l = false.
Proof.
  intros H. destruct (existsb f l) eqn:E; [|reflexivity].
  apply existsb_exists in E. destruct E as (x & Hx & Fx). rewrite (H x Hx) in Fx. discriminate.
Qed.

Lemma blocked_false names n (l : list (bytes * target)) others :
  nodf names -> In n names -> incl (keys l) names -> incl (map name_of others) names ->
  blocked n l others = false.
Proof.
  intros ND Hn Hl Ho. unfold blocked. apply orb_false_iff. split; apply existsb_false.
  - intros [k v] Hx. cbn [fst]. apply ND; [exact Hn|]. apply Hl. unfold keys. apply (in_map fst _ _ Hx).
  - intros e He. apply andb_false_iff. right. apply ND; [exact Hn|]. apply Ho. apply (in_map name_of _ _ He).
Qed.
Lemma lock_ok_nodf names n (l : list (bytes * target)) :
  nodf names -> In n names -> incl (keys l) names -> lock_ok l n = true.
Proof.
  intros ND Hn Hl. unfold lock_ok. apply negb_true_iff. apply existsb_false.
  intros [k v] Hx. cbn [fst]. apply ND; [|exact Hn]. apply Hl. unfold keys. apply (in_map fst _ _ Hx).
Qed.

(* the value the first loop writes for an edit, if any *)
Definition eff_val (e : edit) : option target :=
  match re_change (upd e) with
  | Update log _ new => if logmode_eqb log AndRef && lock e then Some new else None
  | Delete _ _ => None
  end.
Definition upd_effect (e : edit) (l : list (bytes * target)) : list (bytes * target) :=
  match eff_val e with Some v => set_key (name_of e) v l | None => l end.
Definition unlock (e : edit) : edit :=
  match re_change (upd e) with
  | Update _ _ _ => mkEdit (upd e) false (parent_index e)
  | Delete _ _ => e
  end.
Definition del_flag (e : edit) : bool :=
  match re_change (upd e) with
  | Update _ _ _ => false
  | Delete _ log => logmode_eqb log AndRef
  end.

Lemma name_of_unlock e : name_of (unlock e) = name_of e.
Proof. unfold unlock. destruct (re_change (upd e)); reflexivity. Qed.
Lemma del_flag_unlock e : del_flag (unlock e) = del_flag e.
Proof. unfold unlock, del_flag. destruct (re_change (upd e)) eqn:E; cbn [upd]; rewrite ?E; reflexivity. Qed.

Lemma commit_updates_char names : nodf names -> forall us done l,
  Forall plain us -> incl (map name_of us) names -> incl (map name_of done) names -> incl (keys l) names ->
  commit_updates false done us l
  = Ok (rev done ++ map unlock us, fold_left (fun l e => upd_effect e l) us l, None).
Proof.
  intros ND. induction us as [|e r IH]; intros done l F Iu Id Il.
  - cbn. rewrite app_nil_r. reflexivity.
  - inversion F as [|? ? Pe Fr]; subst.
    assert (In_e : In (name_of e) names) by (apply Iu; left; reflexivity).
    assert (Ir : incl (map name_of r) names) by (intros x Hx; apply Iu; right; exact Hx).
    cbn [commit_updates]. unfold plain in Pe. rewrite Pe.
    cbn [map fold_left]. unfold upd_effect at 2, eff_val, unlock, keeps_lock_for_packed.
    destruct (re_change (upd e)) as [log ex new|ex log] eqn:C.
    + cbn [andb].
      destruct (logmode_eqb log AndRef && lock e) eqn:W.
      * rewrite (blocked_false names (name_of e) l (done ++ r) ND In_e Il).
        2:{ rewrite map_app. apply incl_app; assumption. }
        rewrite IH; [|exact Fr|exact Ir| |].
        -- cbn [rev]. rewrite <- app_assoc. reflexivity.
        -- intros x [<-|Hx]; [exact In_e|apply Id; exact Hx].
        -- intros x Hx. apply keys_set_key in Hx. destruct Hx as [->|Hx]; [exact In_e|apply Il; exact Hx].
      * rewrite IH; [|exact Fr|exact Ir| |exact Il].
        -- cbn [rev]. rewrite <- app_assoc. reflexivity.
        -- intros x [<-|Hx]; [exact In_e|apply Id; exact Hx].
    + rewrite IH; [|exact Fr|exact Ir| |exact Il].
      * cbn [rev]. rewrite <- app_assoc. reflexivity.
      * intros x [<-|Hx]; [exact In_e|apply Id; exact Hx].
Qed.

Lemma commit_deletes_char us : forall l,
  commit_deletes false us l
  = fold_left (fun l e => if del_flag e then remove_key (name_of e) l else l) us l.
Proof.
  induction us as [|e r IH]; intros l; [reflexivity|].
  cbn [commit_deletes fold_left]. rewrite IH. unfold del_flag.
  destruct (re_change (upd e)); reflexivity.
Qed.

(* ---- name by name ---------------------------------------------------------------------------------- *)
Section PerKey.
Variable k : bytes.

Fixpoint fvU (base : option target) (us : list edit) : option target :=
  match us with
  | [] => base
  | e :: r => if bytes_eqb k (name_of e)
              then match eff_val e with Some v => Some v | None => base end
              else fvU base r
  end.
Fixpoint fvD (base : option target) (us : list edit) : option target :=
  match us with
  | [] => base
  | e :: r => if bytes_eqb k (name_of e) then (if del_flag e then None else base) else fvD base r
  end.
Definition spec_val (u : refedit) (base : option target) : option target :=
  match log_mode_of (re_change u) with
  | AndRef => match re_change u with Update _ _ new => Some new | Delete _ _ => None end
  | LogOnly => base
  end.
Fixpoint fvS (base : option target) (us : list refedit) : option target :=
  match us with
  | [] => base
  | u :: r => if bytes_eqb k (re_name u) then spec_val u base else fvS base r
  end.

Lemma fvU_notin base us : ~ In k (map name_of us) -> fvU base us = base.
Proof.
  induction us as [|e r IH]; cbn [fvU map]; intros H; [reflexivity|].
  rewrite bytes_eqb_false by (intros E; apply H; left; symmetry; exact E).
  apply IH. intros Hin. apply H. right. exact Hin.
Qed.
Lemma fvD_notin base us : ~ In k (map name_of us) -> fvD base us = base.
Proof.
  induction us as [|e r IH]; cbn [fvD map]; intros H; [reflexivity|].
  rewrite bytes_eqb_false by (intros E; apply H; left; symmetry; exact E).
  apply IH. intros Hin. apply H. right. exact Hin.
Qed.
Lemma fvS_notin base us : ~ In k (map re_name us) -> fvS base us = base.
Proof.
  induction us as [|e r IH]; cbn [fvS map]; intros H; [reflexivity|].
  rewrite bytes_eqb_false by (intros E; apply H; left; symmetry; exact E).
  apply IH. intros Hin. apply H. right. exact Hin.
Qed.

Lemma fold_upd_char us : NoDup (map name_of us) -> forall l,
  assoc k (fold_left (fun l e => upd_effect e l) us l) = fvU (assoc k l) us.
Proof.
  induction us as [|e r IH]; intros ND l; [reflexivity|].
  cbn [map] in ND. inversion ND as [|? ? Ne Nr]; subst.
  cbn [fold_left fvU]. rewrite (IH Nr).
  destruct (bytes_eqb k (name_of e)) eqn:E.
  - apply bytes_eqb_eq in E. rewrite <- E in Ne. rewrite (fvU_notin _ r Ne).
    unfold upd_effect. destruct (eff_val e); [|reflexivity].
    rewrite assoc_set_key. rewrite <- E. rewrite bytes_eqb_refl. reflexivity.
  - unfold upd_effect. destruct (eff_val e); [|reflexivity].
    rewrite assoc_set_key, E. reflexivity.
Qed.
Lemma fold_del_char us : NoDup (map name_of us) -> forall l,
  assoc k (fold_left (fun l e => if del_flag e then remove_key (name_of e) l else l) us l) = fvD (assoc k l) us.
Proof.
  induction us as [|e r IH]; intros ND l; [reflexivity|].
  cbn [map] in ND. inversion ND as [|? ? Ne Nr]; subst.
  cbn [fold_left fvD]. rewrite (IH Nr).
  destruct (bytes_eqb k (name_of e)) eqn:E.
  - apply bytes_eqb_eq in E. rewrite <- E in Ne. rewrite (fvD_notin _ r Ne).
    destruct (del_flag e); [|reflexivity]. rewrite <- E. apply assoc_remove_key_same.
  - destruct (del_flag e); [|reflexivity]. rewrite (assoc_remove_key_other k (name_of e) l E). reflexivity.
Qed.

Definition one (u : refedit) : list (bytes * bool) := [(re_name u, true)].
Lemma spec_fold_char us : NoDup (map re_name us) -> forall v : view,
  fold_left (fun acc et => apply_edit acc (fst et) (snd et)) (combine us (map one us)) v k = fvS (v k) us.
Proof.
  induction us as [|u r IH]; intros ND v; [reflexivity|].
  cbn [map] in ND. inversion ND as [|? ? Ne Nr]; subst.
  cbn [map combine fold_left fst snd fvS]. rewrite (IH Nr).
  unfold apply_edit, one, spec_val. cbn [last_name].
  destruct (bytes_eqb k (re_name u)) eqn:E.
  - apply bytes_eqb_eq in E. rewrite <- E in Ne. rewrite (fvS_notin _ r Ne).
    destruct (log_mode_of (re_change u)); [|reflexivity]. rewrite <- E. rewrite bytes_eqb_refl. reflexivity.
  - destruct (log_mode_of (re_change u)); [|reflexivity]. rewrite E. reflexivity.
Qed.

Lemma name_of_prepared lo u : name_of (prepared_of lo u) = re_name u.
Proof.
  unfold prepared_of. destruct (re_change u); [destruct (assoc (re_name u) lo)|]; reflexivity.
Qed.

(* both loops together give what the map gives *)
Lemma loops_agree lo us :
  fvD (fvU (assoc k lo) (map (prepared_of lo) us)) (map unlock (map (prepared_of lo) us))
  = fvS (assoc k lo) us.
Proof.
  induction us as [|u r IH]; [reflexivity|].
  cbn [map fvU fvD fvS]. rewrite name_of_unlock, name_of_prepared, del_flag_unlock.
  destruct (bytes_eqb k (re_name u)) eqn:E; [|exact IH].
  apply bytes_eqb_eq in E. rewrite E. clear IH E.
  unfold prepared_of, spec_val, eff_val, del_flag. destruct u as [n c d]. cbn [re_name re_change].
  destruct c as [log ex new|ex log]; cbn [log_mode_of].
  - destruct (assoc n lo) as [t|] eqn:A; cbn [upd re_change lock].
    + destruct (new_would_change_existing new t) as [eff sy] eqn:NW. cbn [fst snd].
      destruct log; cbn [logmode_eqb andb]; [|reflexivity].
      destruct (eff || sy) eqn:ES; [reflexivity|].
      apply orb_false_iff in ES. destruct ES; subst eff sy. apply not_effective in NW. subst t. reflexivity.
    + destruct log; reflexivity.
  - cbn [upd re_change]. destruct log; reflexivity.
Qed.
End PerKey.

(* ---- the transaction as a whole -------------------------------------------------------------------- *)
Lemma touched_plain v us :
  Forall (fun u => re_deref u = false) us -> map (touched v) us = map (fun u => Some (one u)) us.
Proof.
  induction us as [|u r IH]; intros F; [reflexivity|]. inversion F as [|? ? Hu Fr]; subst.
  cbn [map]. rewrite (IH Fr). unfold touched at 1. rewrite Hu. reflexivity.
Qed.
Lemma all_some_map_some {A B} (f : A -> B) l : all_some (map (fun x => Some (f x)) l) = Some (map f l).
Proof. induction l as [|a r IH]; cbn [map all_some]; [reflexivity|]. rewrite IH. reflexivity. Qed.
Lemma concat_one us : map fst (concat (map one us)) = map re_name us.
Proof. induction us as [|u r IH]; cbn; [reflexivity|]. f_equal. exact IH. Qed.
Lemma forallb_edit_ok (v : view) lo us :
  (forall n, v n = assoc n lo) ->
  forallb (fun et => edit_ok v (fst et) (snd et)) (combine us (map one us)) = forallb (holds_now lo) us.
Proof.
  intros OV. induction us as [|u r IH]; [reflexivity|].
  cbn [map combine forallb fst snd]. rewrite IH. unfold edit_ok, one, holds_now. cbn [forallb fst snd].
  rewrite OV, andb_true_r. reflexivity.
Qed.
Lemma names_mk us : map name_of (map mk us) = map re_name us.
Proof. rewrite map_map. reflexivity. Qed.
Lemma names_prepared lo us : map name_of (map (prepared_of lo) us) = map re_name us.
Proof. rewrite map_map. apply map_ext. intros u. apply name_of_prepared. Qed.
Lemma names_unlocked lo us : map name_of (map unlock (map (prepared_of lo) us)) = map re_name us.
Proof.
  rewrite !map_map. apply map_ext. intros u. rewrite name_of_unlock. apply name_of_prepared.
Qed.
Lemma plain_prepared lo us : Forall plain (map (prepared_of lo) us).
Proof.
  apply Forall_forall. intros e He. apply in_map_iff in He. destruct He as (u & <- & _).
  unfold plain, prepared_of. destruct (re_change u); [destruct (assoc (re_name u) lo)|]; reflexivity.
Qed.

Definition simple (u : refedit) : Prop := re_deref u = false /\ valid_change (re_change u).

Lemma multi_edit_refines (lo : list (bytes * target)) (edits : list refedit) (names : list bytes) :
  Forall simple edits -> nodf names -> incl (keys lo) names -> incl (map re_name edits) names ->
  match spec_txn (observe (mkStore lo None)) edits with
  | Some v' => exists st', step (mkStore lo None) (Txn DeletionsOnly true edits) = (ROk, st') /\ agrees st' v'
  | None => exists err, step (mkStore lo None) (Txn DeletionsOnly true edits) = (RPrepareErr err, mkStore lo None)
  end.
Proof.
  intros Fs ND Il Ie.
  assert (OV : forall n, observe (mkStore lo None) n = assoc n lo)
    by (intros n; apply observe_loose_only; reflexivity).
  assert (G : Forall (good lo) edits).
  { apply Forall_forall. intros u Hu. destruct (proj1 (Forall_forall _ _) Fs u Hu) as [Hd Hv].
    split; [exact Hd|split; [exact Hv|]].
    apply (lock_ok_nodf names); [exact ND| |exact Il]. apply Ie. apply in_map. exact Hu. }
  assert (Fd : Forall (fun u => re_deref u = false) edits).
  { apply Forall_forall. intros u Hu. exact (proj1 (proj1 (Forall_forall _ _) Fs u Hu)). }
  assert (Fp : Forall plain (map mk edits)).
  { apply Forall_forall. intros e He. apply in_map_iff in He. destruct He as (u & <- & Hu).
    exact (proj1 (Forall_forall _ _) Fd u Hu). }
  unfold spec_txn. rewrite (touched_plain _ edits Fd), all_some_map_some, concat_one.
  rewrite (forallb_edit_ok _ lo edits OV).
  cbn [step]. unfold prepare_inner. cbn [loose].
  change (map (fun u : refedit => mkEdit u false None) edits) with (map mk edits).
  rewrite (pre_process_plain _ _ Fp), names_mk.
  destruct (has_dup (map re_name edits)) eqn:D.
  - cbn [obind]. eexists. reflexivity.
  - cbn [obind]. unfold prepare_packed. cbn [packed orb is_remove_loose].
    destruct (forallb (holds_now lo) edits) eqn:HB.
    + pose proof (apply_all_ok (mkStore lo None) _ _ [] (prepare_all_ok lo edits G HB)) as AA.
      cbn [length app] in AA. rewrite AA. cbn [obind].
      unfold commit_inner. cbn [is_remove_loose p_updates p_packed loose packed].
      rewrite (commit_updates_char names ND (map (prepared_of lo) edits) [] lo (plain_prepared lo edits)).
      2:{ rewrite names_prepared. exact Ie. }
      2:{ intros x []. }
      2:{ exact Il. }
      cbn [rev app]. eexists. split; [reflexivity|].
      intros k. rewrite observe_loose_only by reflexivity. cbn [loose].
      apply has_dup_NoDup in D.
      rewrite commit_deletes_char, fold_del_char by (rewrite names_unlocked; exact D).
      rewrite fold_upd_char by (rewrite names_prepared; exact D).
      rewrite loops_agree. rewrite (spec_fold_char k edits D). rewrite OV. reflexivity.
    + destruct (forallb_false_split _ _ HB) as (ok & bad & rest & -> & Hok & Hbad).
      apply Forall_app in G. destruct G as [Gok Gbr]. inversion Gbr as [|? ? Gbad Grest]; subst.
      destruct (prep1_char lo bad Gbad) as [[Hh _]|(_ & err & Eb & Nl)];
        [unfold holds_now in Hbad; congruence|].
      pose proof (apply_all_err (mkStore lo None) err _ _ [] (mk bad) (map mk rest)
                    (prepare_all_ok lo ok Gok Hok) Eb Nl) as AE.
      cbn [length app] in AE. rewrite map_app. cbn [map]. rewrite AE. cbn [obind].
      exists err. reflexivity.
Qed.

(* non-vacuity *)
Definition mu_lo : list (bytes * target) := [(bs "HEAD", Sym (bs "refs/heads/a")); (bs "refs/heads/a", Obj x31)].
Definition mu_edits : list refedit :=
  [mkRefEdit (bs "refs/heads/a") (Update AndRef (PMatch (Obj x31)) (Obj x32)) false;
   mkRefEdit (bs "refs/tags/t") (Update AndRef PMustNotExist (Obj x33)) false;
   mkRefEdit (bs "HEAD") (Delete PMustExist AndRef) false].
Definition mu_names : list bytes := [bs "HEAD"; bs "refs/heads/a"; bs "refs/tags/t"].
Lemma mu_hyps :
  Forall simple mu_edits /\ nodf mu_names /\ incl (keys mu_lo) mu_names /\ incl (map re_name mu_edits) mu_names.
Proof.
  split; [|split; [|split]].
  - repeat constructor.
  - intros a b Ha Hb. cbn [mu_names In] in Ha, Hb.
    repeat (destruct Ha as [<-|Ha]); try destruct Ha;
      repeat (destruct Hb as [<-|Hb]); try destruct Hb; vm_compute; reflexivity.
  - intros x Hx. cbn in Hx. cbn [mu_names In]. intuition.
  - intros x Hx. cbn in Hx. cbn [mu_names In]. intuition.
Qed.
Lemma mu_step :
  step (mkStore mu_lo None) (Txn DeletionsOnly true mu_edits)
  = (ROk, mkStore [(bs "refs/tags/t", Obj x33); (bs "refs/heads/a", Obj x32)] None).
Proof. vm_compute. reflexivity. Qed.
Lemma mu_refused :
  step (mkStore mu_lo None)
       (Txn DeletionsOnly true (mu_edits ++ [mkRefEdit (bs "refs/heads/s") (Update AndRef PMustExist (Obj x31)) false]))
  = (RPrepareErr EMustExist, mkStore mu_lo None).
Proof. vm_compute. reflexivity. Qed.
