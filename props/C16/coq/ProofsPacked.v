(* C16 — the single-edit compare-and-swap with a packed-refs file present (mode DeletionsOnly): the current
   value is looked up loose-over-packed, a deletion rewrites packed-refs through the merge. *)
From Coq Require Import List NArith Bool Arith Lia.
From GixV.Base Require Import Bytes BytesFacts Outcome.
From GixV.C16 Require Import Model Spec ProofsMerge ProofsBasic ProofsSingle.
Import ListNotations.

Definition heads : bytes := bs "refs/heads/".

Lemma adjust_heads n : starts_with heads n = true -> adjust_name n = Some n.
Proof. intros H. unfold adjust_name. fold heads. rewrite H, orb_true_r. reflexivity. Qed.
Lemma packed_lookup_heads p n : starts_with heads n = true -> packed_lookup p n = assoc n p.
Proof. intros H. unfold packed_lookup. fold heads. rewrite H, orb_true_r. reflexivity. Qed.
Lemma packed_lookup_ext p p' k : assoc k p = assoc k p' -> packed_lookup p k = packed_lookup p' k.
Proof. intros H. unfold packed_lookup. rewrite H. reflexivity. Qed.
Lemma packed_lookup_none p k : assoc k p = None -> packed_lookup p k = None.
Proof.
  intros H. unfold packed_lookup. rewrite H.
  repeat match goal with |- (if ?c then _ else _) = _ => destruct c end; reflexivity.
Qed.

Lemma single_edit_packed_update (lo : list (bytes * target)) (pk : list (bytes * byte)) (n : bytes)
      (expected : prev) (new : target) :
  let st := mkStore lo (Some pk) in
  let e := mkRefEdit n (Update AndRef expected new) false in
  starts_with heads n = true -> lock_ok lo n = true -> blocked n lo [] = false ->
  match spec_txn (observe st) [e] with
  | Some v' => exists st', step st (Txn DeletionsOnly true [e]) = (ROk, st') /\ agrees st' v'
  | None => exists err, step st (Txn DeletionsOnly true [e]) = (RPrepareErr err, st)
  end.
Proof.
  intros st e Hn Hl Hb. subst st e.
  unfold spec_txn, touched. cbn [re_deref re_name map all_some option_map concat app fst has_dup mem orb
    combine forallb edit_ok snd andb fold_left apply_edit last_name re_change log_mode_of].
  change (observe (mkStore lo (Some pk)) n) with (find_in lo (Some pk) n).
  cbn [step]. unfold prepare_inner, pre_process. cbn [loose map splits_loop split_pass split_one upd re_deref negb
    length app obind name_of re_name has_dup mem orb].
  unfold prepare_packed. cbn [packed orb collect_packed upd re_change log_mode_of logmode_eqb re_name].
  rewrite (adjust_heads n Hn). cbn [rev negb orb Nat.ltb Nat.leb packed_prepare filter pt_buffer].
  cbn [apply_all nth_error length obind].
  unfold lock_ref_and_apply_change. cbn [lock upd re_name re_change re_deref loose name_of andb parent_index
    is_remove_loose negb obind].
  pose proof (check_update_is_cas AndRef expected new (find_in lo (Some pk) n)) as CAS.
  cbn [holds] in CAS |- *.
  remember (find_in lo (Some pk) n) as ex eqn:EX.
  destruct (check_update expected new ex) as [[]|err| |] eqn:CU.
  - assert (HH : holds (Update AndRef expected new) ex = true) by (apply (proj1 CAS); reflexivity).
    cbn [holds] in HH. rewrite HH. cbn [obind].
    destruct ex as [t|].
    + destruct (new_would_change_existing new t) as [eff sy] eqn:NW.
      assert (LK : (eff && true || sy) = (eff || sy)) by (destruct eff, sy; reflexivity).
      rewrite LK. destruct (eff || sy) eqn:ES.
      * unfold acquire. rewrite Hl. cbn [obind set_nth p_updates p_packed].
        unfold commit_inner. cbn [is_remove_loose p_updates commit_updates upd re_deref re_change
          keeps_lock_for_packed andb lock name_of re_name app rev p_packed packed loose logmode_eqb].
        rewrite Hb. cbn [commit_updates rev app commit_deletes re_change upd andb packed_commit pt_edits].
        eexists. split; [reflexivity|]. intros k. unfold observe, find_in. cbn [loose packed].
        rewrite assoc_set_key. destruct (bytes_eqb k n); reflexivity.
      * apply orb_false_iff in ES. destruct ES; subst eff sy. apply not_effective in NW. subst t.
        cbn [obind set_nth p_updates p_packed].
        unfold commit_inner. cbn [is_remove_loose p_updates commit_updates upd re_deref re_change
          keeps_lock_for_packed andb lock name_of re_name app rev p_packed packed loose logmode_eqb
          commit_deletes packed_commit pt_edits].
        eexists. split; [reflexivity|]. intros k.
        destruct (bytes_eqb k n) eqn:E; [|reflexivity]. apply bytes_eqb_eq in E. subst k.
        unfold observe. cbn [loose packed]. symmetry. exact EX.
    + cbn [andb orb]. unfold acquire. rewrite Hl. cbn [obind set_nth p_updates p_packed].
      unfold commit_inner. cbn [is_remove_loose p_updates commit_updates upd re_deref re_change
        keeps_lock_for_packed andb lock name_of re_name app rev p_packed packed loose logmode_eqb].
      rewrite Hb. cbn [commit_updates rev app commit_deletes re_change upd andb packed_commit pt_edits].
      eexists. split; [reflexivity|]. intros k. unfold observe, find_in. cbn [loose packed].
      rewrite assoc_set_key. destruct (bytes_eqb k n); reflexivity.
  - assert (HH : holds (Update AndRef expected new) ex = false).
    { destruct (holds (Update AndRef expected new) ex) eqn:H; [|reflexivity].
      assert (X : @Err unit Model.err err = Ok tt) by (apply (proj2 CAS); exact H). discriminate. }
    cbn [holds] in HH. rewrite HH. cbn [obind]. destruct err; eexists; reflexivity.
  - exfalso. eapply check_update_never_panics. exact CU.
  - exfalso. destruct expected, ex; cbn in CU; try destruct (target_eqb _ _); discriminate.
Qed.

Lemma single_edit_packed_delete (lo : list (bytes * target)) (pk : list (bytes * byte)) (n : bytes)
      (expected : prev) :
  let st := mkStore lo (Some pk) in
  let e := mkRefEdit n (Delete expected AndRef) false in
  ss (keys pk) -> expected <> PMustNotExist -> starts_with heads n = true ->
  match spec_txn (observe st) [e] with
  | Some v' => exists st', step st (Txn DeletionsOnly true [e]) = (ROk, st') /\ agrees st' v'
  | None => exists err, step st (Txn DeletionsOnly true [e]) = (RPrepareErr err, st)
  end.
Proof.
  intros st e Hs NV Hn. subst st e.
  unfold spec_txn, touched. cbn [re_deref re_name map all_some option_map concat app fst has_dup mem orb
    combine forallb edit_ok snd andb fold_left apply_edit last_name re_change log_mode_of].
  change (observe (mkStore lo (Some pk)) n) with (find_in lo (Some pk) n).
  cbn [step]. unfold prepare_inner, pre_process. cbn [loose map splits_loop split_pass split_one upd re_deref negb
    length app obind name_of re_name has_dup mem orb].
  unfold prepare_packed. cbn [packed orb collect_packed upd re_change log_mode_of logmode_eqb re_name].
  rewrite (adjust_heads n Hn). cbn [rev app negb orb Nat.ltb Nat.leb packed_prepare filter pt_buffer snd fst].
  unfold packed_prepare. cbn [filter snd fst]. rewrite (packed_lookup_heads pk n Hn).
  cbn [apply_all nth_error length obind].
  unfold lock_ref_and_apply_change. cbn [lock upd re_name re_change re_deref loose name_of andb parent_index
    is_remove_loose negb obind].
  pose proof (check_delete_is_cas AndRef expected (find_in lo (Some pk) n) NV) as CAS.
  cbn [holds] in CAS |- *.
  remember (find_in lo (Some pk) n) as ex eqn:EX.
  destruct (check_delete expected ex) as [[]|err| |] eqn:CU.
  - assert (HH : holds (Delete expected AndRef) ex = true) by (apply (proj1 CAS); reflexivity).
    cbn [holds] in HH. rewrite HH. clear HH CAS CU EX.
    (* the edit as prepared: only its expectation field depends on the current value *)
    set (expected' := match ex with Some t => PMatch t | None => expected end).
    assert (LINES : has_dup (keys [(n, @None byte)]) = false) by reflexivity.
    destruct (packed_lines_correct pk [(n, None)] Hs LINES) as [_ LK].
    change (sort_edits [(n, @None byte)]) with [(n, @None byte)] in LK.
    destruct (assoc n pk) as [c|] eqn:AP.
    + (* the name is in packed-refs: the file is rewritten without it *)
      cbn [filter pt_edits pt_buffer obind set_nth p_updates p_packed].
      unfold commit_inner. cbn [is_remove_loose p_updates commit_updates upd re_deref re_change
        rev app p_packed packed loose packed_commit pt_edits pt_buffer].
      change (sort_edits [(n, @None byte)]) with [(n, @None byte)].
      assert (LN : assoc n (merge_edits [(n, None)] pk) = None).
      { rewrite LK. unfold merged_lookup. cbn [assoc]. rewrite bytes_eqb_refl. reflexivity. }
      assert (LO : forall k, bytes_eqb k n = false -> assoc k (merge_edits [(n, None)] pk) = assoc k pk).
      { intros k E. rewrite LK. unfold merged_lookup. cbn [assoc]. rewrite E. reflexivity. }
      destruct (merge_edits [(n, None)] pk) as [|l0 lines] eqn:ML;
        cbn [commit_deletes re_change upd logmode_eqb name_of re_name];
        (eexists; split; [reflexivity|]); intros k; unfold observe, find_in; cbn [loose packed];
        destruct (bytes_eqb k n) eqn:E.
      * apply bytes_eqb_eq in E. subst k. rewrite assoc_remove_key_same. reflexivity.
      * rewrite (assoc_remove_key_other k n lo E).
        rewrite (packed_lookup_none pk k) by (rewrite <- (LO k E); reflexivity).
        reflexivity.
      * apply bytes_eqb_eq in E. subst k. rewrite assoc_remove_key_same.
        rewrite (packed_lookup_none (l0 :: lines) n LN). reflexivity.
      * rewrite (assoc_remove_key_other k n lo E).
        rewrite (packed_lookup_ext (l0 :: lines) pk k (LO k E)). reflexivity.
    + (* not in packed-refs: the deletion is dropped from the packed transaction *)
      cbn [filter pt_edits pt_buffer obind set_nth p_updates p_packed].
      unfold commit_inner. cbn [is_remove_loose p_updates commit_updates upd re_deref re_change
        rev app p_packed packed loose packed_commit pt_edits pt_buffer
        commit_deletes logmode_eqb name_of re_name].
      eexists. split; [reflexivity|]. intros k. unfold observe, find_in. cbn [loose packed].
      destruct (bytes_eqb k n) eqn:E.
      * apply bytes_eqb_eq in E. subst k. rewrite assoc_remove_key_same.
        rewrite (packed_lookup_none pk n AP). reflexivity.
      * rewrite (assoc_remove_key_other k n lo E). reflexivity.
  - assert (HH : holds (Delete expected AndRef) ex = false).
    { destruct (holds (Delete expected AndRef) ex) eqn:H; [|reflexivity].
      assert (X : @Err unit Model.err err = Ok tt) by (apply (proj2 CAS); exact H). discriminate. }
    cbn [holds] in HH. rewrite HH. cbn [obind]. destruct (assoc n pk); destruct err; eexists; reflexivity.
  - exfalso. apply NV. eapply check_delete_panics_only_on_invalid. exact CU.
  - exfalso. destruct expected, ex; cbn in CU; try destruct (target_eqb _ _); discriminate.
Qed.

Lemma single_edit_packed_refines (lo : list (bytes * target)) (pk : list (bytes * byte)) (n : bytes) (c : change) :
  ss (keys pk) -> starts_with heads n = true -> valid_change c -> log_mode_of c = AndRef ->
  lock_ok lo n = true -> blocked n lo [] = false ->
  match spec_txn (observe (mkStore lo (Some pk))) [mkRefEdit n c false] with
  | Some v' => exists st', step (mkStore lo (Some pk)) (Txn DeletionsOnly true [mkRefEdit n c false]) = (ROk, st')
                           /\ agrees st' v'
  | None => exists err, step (mkStore lo (Some pk)) (Txn DeletionsOnly true [mkRefEdit n c false])
                        = (RPrepareErr err, mkStore lo (Some pk))
  end.
Proof.
  intros Hs Hn Hv Hlog Hl Hb. destruct c as [log expected new|expected log]; cbn [log_mode_of] in Hlog; subst log.
  - exact (single_edit_packed_update lo pk n expected new Hn Hl Hb).
  - apply (single_edit_packed_delete lo pk n expected Hs); [|exact Hn].
    intros ->. exact Hv.
Qed.

(* non-vacuity *)
Definition pk_ref_a : bytes := bs "refs/heads/a".
Definition pk_ref_t : bytes := bs "refs/tags/t".
Definition pk_lo : list (bytes * target) := [(bs "HEAD", Sym pk_ref_a)].
Definition pk_pk : list (bytes * byte) := [(pk_ref_a, x31); (pk_ref_t, x32)].
Definition pk_change : change := Delete (PMatch (Obj x31)) AndRef.
Lemma pk_hyps :
  ss (keys pk_pk) /\ starts_with heads pk_ref_a = true /\ valid_change pk_change /\ log_mode_of pk_change = AndRef
  /\ lock_ok pk_lo pk_ref_a = true /\ blocked pk_ref_a pk_lo [] = false.
Proof.
  split; [|repeat split; vm_compute; reflexivity].
  cbn [keys map fst ss pk_pk]. repeat split; intros x Hx; cbn [In] in Hx;
    repeat (destruct Hx as [<-|Hx]; [vm_compute; reflexivity|]); destruct Hx.
Qed.
Lemma pk_step :
  step (mkStore pk_lo (Some pk_pk)) (Txn DeletionsOnly true [mkRefEdit pk_ref_a pk_change false])
  = (ROk, mkStore pk_lo (Some [(pk_ref_t, x32)])).
Proof. vm_compute. reflexivity. Qed.
