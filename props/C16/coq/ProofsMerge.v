(* C16 — the merge loop of packed::Transaction::commit: sorted buffer x sorted edits -> sorted buffer
   that holds exactly what the edits say, and the old entries everywhere else. *)
From Coq Require Import List NArith Bool Arith Lia.
From GixV.Base Require Import Bytes BytesFacts Outcome.
From GixV.C16 Require Import Model.
Import ListNotations.

Lemma bytes_cmp_trans a : forall b c x, bytes_cmp a b = x -> bytes_cmp b c = x -> bytes_cmp a c = x.
Proof.
  induction a as [|a0 a IH]; intros [|b0 b] [|c0 c] x; cbn [bytes_cmp]; try congruence.
  destruct (N.compare_spec (b2N a0) (b2N b0)), (N.compare_spec (b2N b0) (b2N c0)),
           (N.compare_spec (b2N a0) (b2N c0)); try lia; intros; subst; try congruence; eauto.
Qed.

Definition keys {A} (l : list (bytes * A)) : list bytes := map fst l.
(* [k] is strictly below every element *)
Definition lb (k : bytes) (l : list bytes) : Prop := forall x, In x l -> bytes_cmp k x = Lt.
(* strictly ascending: sorted and free of duplicates *)
Fixpoint ss (l : list bytes) : Prop :=
  match l with
  | [] => True
  | a :: r => lb a r /\ ss r
  end.

Lemma bytes_eqb_refl a : bytes_eqb a a = true.
Proof. apply bytes_eqb_eq. reflexivity. Qed.
Lemma bytes_eqb_false a b : a <> b -> bytes_eqb a b = false.
Proof.
  intros H. destruct (bytes_eqb a b) eqn:E; [|reflexivity]. apply bytes_eqb_eq in E. contradiction.
Qed.
Lemma lt_neq a b : bytes_cmp a b = Lt -> a <> b.
Proof. intros H E. subst. rewrite bytes_cmp_refl in H. discriminate. Qed.
Lemma gt_lt a b : bytes_cmp a b = Gt -> bytes_cmp b a = Lt.
Proof. intros H. rewrite bytes_cmp_antisym, H. reflexivity. Qed.

Lemma lb_trans a b l : bytes_cmp a b = Lt -> lb b l -> lb a l.
Proof. intros H L x Hx. eapply bytes_cmp_trans; [exact H|apply L; exact Hx]. Qed.
Lemma lb_cons a b l : bytes_cmp a b = Lt -> lb a l -> lb a (b :: l).
Proof. intros H L x [<-|Hx]; auto. Qed.

Lemma assoc_none_lb {A} n (l : list (bytes * A)) : lb n (keys l) -> assoc n l = None.
Proof.
  induction l as [|[k v] r IH]; cbn [assoc keys map fst]; intros H; [reflexivity|].
  rewrite bytes_eqb_false.
  - apply IH. intros x Hx. apply H. right. exact Hx.
  - apply lt_neq. apply H. left. reflexivity.
Qed.
Lemma assoc_none_below {A} n k (l : list (bytes * A)) :
  bytes_cmp n k = Lt -> lb k (keys l) -> assoc n l = None.
Proof. intros H L. apply assoc_none_lb. eapply lb_trans; eassumption. Qed.

(* what a lookup in the merged buffer has to give *)
Definition merged_lookup (n : bytes) (edits : list pedit) (refs : list (bytes * byte)) : option byte :=
  match assoc n edits with
  | Some (Some c) => Some c
  | Some None => None
  | None => assoc n refs
  end.

(* unfolding equations of the nested fixpoint *)
Lemma merge_nil_edits refs : merge_edits [] refs = refs.
Proof. induction refs as [|p r IH]; cbn; [reflexivity|]. f_equal. exact IH. Qed.
Lemma merge_nil_refs e es : merge_edits (e :: es) [] = edit_line e ++ merge_edits es [].
Proof. reflexivity. Qed.
Lemma merge_cons e es p rs :
  merge_edits (e :: es) (p :: rs) =
  match bytes_cmp (fst p) (fst e) with
  | Lt => p :: merge_edits (e :: es) rs
  | Gt => edit_line e ++ merge_edits es (p :: rs)
  | Eq => edit_line e ++ merge_edits es rs
  end.
Proof. reflexivity. Qed.

Lemma keys_edit_line e x : In x (keys (edit_line e)) -> x = fst e.
Proof. destruct e as [k [c|]]; cbn; intuition. Qed.
Lemma assoc_edit_line_other n e (l : list (bytes * byte)) :
  n <> fst e -> assoc n (edit_line e ++ l) = assoc n l.
Proof.
  destruct e as [k [c|]]; cbn [edit_line fst snd app assoc]; intros H; [|reflexivity].
  rewrite bytes_eqb_false by exact H. reflexivity.
Qed.
Lemma keys_app {A} (a b : list (bytes * A)) : keys (a ++ b) = keys a ++ keys b.
Proof. apply map_app. Qed.

Definition merge_ok (es : list pedit) (rs : list (bytes * byte)) : Prop :=
  (forall x, In x (keys (merge_edits es rs)) -> In x (keys rs) \/ In x (keys es))
  /\ ss (keys (merge_edits es rs))
  /\ forall n, assoc n (merge_edits es rs) = merged_lookup n es rs.

Lemma ss_edit_line_app e (l : list (bytes * byte)) :
  lb (fst e) (keys l) -> ss (keys l) -> ss (keys (edit_line e ++ l)).
Proof.
  destruct e as [k [c|]]; cbn [edit_line fst snd app keys map ss]; intros L S; [split; assumption|exact S].
Qed.

Lemma merge_correct es : forall rs, ss (keys rs) -> ss (keys es) -> merge_ok es rs.
Proof.
  induction es as [|e es IHe].
  - intros rs Sr _. unfold merge_ok. rewrite merge_nil_edits. repeat split; auto.
  - induction rs as [|p rs IHr]; intros Sr Se.
    + (* no refs left *)
      destruct Se as [Le Se].
      destruct (IHe [] I Se) as (M & S & A).
      unfold merge_ok. rewrite merge_nil_refs. split; [|split].
      * intros x Hx. rewrite keys_app in Hx. apply in_app_or in Hx. destruct Hx as [Hx|Hx].
        -- right. left. symmetry. apply keys_edit_line. exact Hx.
        -- destruct (M x Hx) as [H|H]; [left; exact H|right; right; exact H].
      * apply ss_edit_line_app; [|exact S].
        intros x Hx. destruct (M x Hx) as [H|H]; [destruct H|apply Le; exact H].
      * intros n. unfold merged_lookup. cbn [assoc]. destruct e as [k v]. cbn [fst].
        destruct (bytes_eqb n k) eqn:E.
        -- apply bytes_eqb_eq in E. subst n.
           assert (N : assoc k (merge_edits es []) = None).
           { apply assoc_none_lb. intros x Hx. destruct (M x Hx) as [H|H]; [destruct H|apply Le; exact H]. }
           destruct v as [c|]; cbn [edit_line snd fst app assoc].
           ++ rewrite bytes_eqb_refl. reflexivity.
           ++ exact N.
        -- rewrite assoc_edit_line_other.
           ++ rewrite A. reflexivity.
           ++ cbn [fst]. intros H. subst. rewrite bytes_eqb_refl in E. discriminate.
    + destruct Sr as [Lp Sr']. pose proof Se as Se0. destruct Se as [Le Se'].
      unfold merge_ok. rewrite merge_cons.
      destruct p as [pk pv]. destruct e as [ek ev]. cbn [fst].
      destruct (bytes_cmp pk ek) eqn:C.
      * (* Eq: the edit replaces the entry *)
        apply bytes_cmp_eq_iff in C. subst ek.
        destruct (IHe rs Sr' Se') as (M & S & A).
        assert (LB : lb pk (keys (merge_edits es rs))).
        { intros x Hx. destruct (M x Hx) as [H|H]; [apply Lp|apply Le]; exact H. }
        split; [|split].
        -- intros x Hx. rewrite keys_app in Hx. apply in_app_or in Hx. destruct Hx as [Hx|Hx].
           ++ apply keys_edit_line in Hx. cbn [fst] in Hx. subst. left. left. reflexivity.
           ++ destruct (M x Hx) as [H|H]; [left; right; exact H|right; right; exact H].
        -- apply ss_edit_line_app; assumption.
        -- intros n. unfold merged_lookup. cbn [assoc].
           destruct (bytes_eqb n pk) eqn:E.
           ++ apply bytes_eqb_eq in E. subst n.
              destruct ev as [c|]; cbn [edit_line snd fst app assoc].
              ** rewrite bytes_eqb_refl. reflexivity.
              ** apply assoc_none_lb. exact LB.
           ++ rewrite assoc_edit_line_other.
              ** rewrite A. reflexivity.
              ** cbn [fst]. intros H. subst. rewrite bytes_eqb_refl in E. discriminate.
      * (* Lt: the entry is kept *)
        destruct (IHr Sr' Se0) as (M & S & A).
        split; [|split].
        -- intros x [Hx|Hx]; [left; left; exact Hx|].
           destruct (M x Hx) as [H|H]; [left; right; exact H|right; exact H].
        -- cbn [keys map fst ss]. split; [|exact S].
           intros x Hx. destruct (M x Hx) as [H|H]; [apply Lp; exact H|].
           destruct H as [<-|H]; [exact C|]. eapply bytes_cmp_trans; [exact C|apply Le; exact H].
        -- intros n. unfold merged_lookup. cbn [assoc].
           destruct (bytes_eqb n pk) eqn:E.
           ++ apply bytes_eqb_eq in E. subst n.
              rewrite (bytes_eqb_false pk ek) by (apply lt_neq; exact C).
              rewrite (assoc_none_below pk ek es C Le). reflexivity.
           ++ rewrite A. unfold merged_lookup. cbn [assoc]. reflexivity.
      * (* Gt: the edit comes first *)
        apply gt_lt in C.
        assert (Sr : ss (keys ((pk, pv) :: rs))) by (split; assumption).
        destruct (IHe ((pk, pv) :: rs) Sr Se') as (M & S & A).
        assert (LB : lb ek (keys (merge_edits es ((pk, pv) :: rs)))).
        { intros x Hx. destruct (M x Hx) as [H|H]; [|apply Le; exact H].
          destruct H as [<-|H]; [exact C|]. eapply bytes_cmp_trans; [exact C|apply Lp; exact H]. }
        split; [|split].
        -- intros x Hx. rewrite keys_app in Hx. apply in_app_or in Hx. destruct Hx as [Hx|Hx].
           ++ apply keys_edit_line in Hx. cbn [fst] in Hx. subst. right. left. reflexivity.
           ++ destruct (M x Hx) as [H|H]; [left; exact H|right; right; exact H].
        -- apply ss_edit_line_app; assumption.
        -- intros n. unfold merged_lookup. cbn [assoc].
           destruct (bytes_eqb n ek) eqn:E.
           ++ apply bytes_eqb_eq in E. subst n.
              destruct ev as [c|]; cbn [edit_line snd fst app assoc].
              ** rewrite bytes_eqb_refl. reflexivity.
              ** apply assoc_none_lb. exact LB.
           ++ rewrite assoc_edit_line_other.
              ** rewrite A. unfold merged_lookup. cbn [assoc]. reflexivity.
              ** cbn [fst]. intros H. subst. rewrite bytes_eqb_refl in E. discriminate.
Qed.

(* ---- sorting the edits ------------------------------------------------------------------------- *)

Lemma insert_sorted_keys e l x : In x (keys (insert_sorted e l)) <-> x = fst e \/ In x (keys l).
Proof.
  unfold keys. induction l as [|y r IH]; simpl; [intuition|].
  destruct (bytes_cmp (fst e) (fst y)); simpl; try rewrite IH; intuition.
Qed.

Lemma insert_sorted_ss e l : ~ In (fst e) (keys l) -> ss (keys l) -> ss (keys (insert_sorted e l)).
Proof.
  induction l as [|y r IH]; cbn [insert_sorted keys map ss]; intros N S.
  - split; [intros x []|exact I].
  - destruct S as [L S]. fold (keys r) in *.
    destruct (bytes_cmp (fst e) (fst y)) eqn:C.
    + apply bytes_cmp_eq_iff in C. exfalso. apply N. left. symmetry. exact C.
    + cbn [map ss]. fold (keys r). split; [|split; assumption].
      apply lb_cons; [exact C|]. eapply lb_trans; eassumption.
    + cbn [map ss]. fold (keys (insert_sorted e r)). split.
      * intros x Hx. apply insert_sorted_keys in Hx. destruct Hx as [->|Hx]; [apply gt_lt; exact C|apply L; exact Hx].
      * apply IH; [|exact S]. intros H. apply N. right. exact H.
Qed.

Lemma insert_sorted_assoc e l n :
  ~ In (fst e) (keys l) ->
  assoc n (insert_sorted e l) = if bytes_eqb n (fst e) then Some (snd e) else assoc n l.
Proof.
  induction l as [|[k v] r IH]; intros N.
  - destruct e as [ek ev]. reflexivity.
  - cbn [insert_sorted fst].
    assert (Nk : fst e <> k) by (intros H; apply N; left; symmetry; exact H).
    assert (Nr : ~ In (fst e) (keys r)) by (intros H; apply N; right; exact H).
    destruct (bytes_cmp (fst e) k); try (destruct e as [ek ev]; reflexivity).
    + cbn [assoc]. rewrite IH by exact Nr.
      destruct (bytes_eqb n k) eqn:E1; [|reflexivity].
      apply bytes_eqb_eq in E1. subst n. rewrite bytes_eqb_false by congruence. reflexivity.
    + cbn [assoc]. rewrite IH by exact Nr.
      destruct (bytes_eqb n k) eqn:E1; [|reflexivity].
      apply bytes_eqb_eq in E1. subst n. rewrite bytes_eqb_false by congruence. reflexivity.
Qed.
