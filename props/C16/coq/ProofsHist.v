(* C16 — histories: any sequence of transactions of non-dereferencing edits (mode DeletionsOnly, committed or
   rolled back) on a store without packed-refs and without directory/file relation among its names reads,
   afterwards, like the specification map folded over the history. *)
From Coq Require Import List NArith Bool Arith Lia.
From GixV.Base Require Import Bytes BytesFacts Outcome.
From GixV.C16 Require Import Model Spec ProofsMerge ProofsBasic ProofsSingle ProofsMulti.
Import ListNotations.

Definition final_loose (lo : list (bytes * target)) (edits : list refedit) : list (bytes * target) :=
  commit_deletes false (map unlock (map (prepared_of lo) edits))
    (fold_left (fun l e => upd_effect e l) (map (prepared_of lo) edits) lo).

(* the accepted case of multi_edit_refines with the store spelled out *)
Lemma multi_edit_strong (lo : list (bytes * target)) (edits : list refedit) (names : list bytes) :
  Forall simple edits -> nodf names -> incl (keys lo) names -> incl (map re_name edits) names ->
  match spec_txn (observe (mkStore lo None)) edits with
  | Some v' => step (mkStore lo None) (Txn DeletionsOnly true edits) = (ROk, mkStore (final_loose lo edits) None)
               /\ agrees (mkStore (final_loose lo edits) None) v'
  | None => exists err, step (mkStore lo None) (Txn DeletionsOnly true edits) = (RPrepareErr err, mkStore lo None)
  end.
Proof.
  intros Fs ND Il Ie.
  assert (OV : forall n, observe (mkStore lo None) n = assoc n lo)
    by (intros n; apply observe_loose_only; reflexivity).
  assert (G : Forall (good lo) edits).
  { apply Forall_forall. intros u Hu. destruct (proj1 (Forall_forall _ _) Fs u Hu) as [Hd Hv].
    split; [exact Hd|split; [exact Hv|]].
    apply (lock_ok_nodf names); [exact ND| |exact Il]. apply Ie. apply in_map. exact Hu. }
  assert (Fd : Forall (fun u => re_deref u = false) edits).
  { apply Forall_forall. intros u Hu. exact (proj1 (proj1 (Forall_forall _ _) Fs u Hu)). }
  assert (Fp : Forall plain (map mk edits)).
  { apply Forall_forall. intros e He. apply in_map_iff in He. destruct He as (u & <- & Hu).
    exact (proj1 (Forall_forall _ _) Fd u Hu). }
  unfold spec_txn. rewrite (touched_plain _ edits Fd), all_some_map_some, concat_one.
  rewrite (forallb_edit_ok _ lo edits OV).
  cbn [step]. unfold prepare_inner. cbn [loose].
  change (map (fun u : refedit => mkEdit u false None) edits) with (map mk edits).
  rewrite (pre_process_plain _ _ Fp), names_mk.
  destruct (has_dup (map re_name edits)) eqn:D.
  - cbn [obind]. eexists. reflexivity.
  - cbn [obind]. unfold prepare_packed. cbn [packed orb is_remove_loose].
    destruct (forallb (holds_now lo) edits) eqn:HB.
    + pose proof (apply_all_ok (mkStore lo None) _ _ [] (prepare_all_ok lo edits G HB)) as AA.
      cbn [length app] in AA. rewrite AA. cbn [obind].
      unfold commit_inner. cbn [is_remove_loose p_updates p_packed loose packed].
      rewrite (commit_updates_char names ND (map (prepared_of lo) edits) [] lo (plain_prepared lo edits)).
      2:{ rewrite names_prepared. exact Ie. }
      2:{ intros x []. }
      2:{ exact Il. }
      cbn [rev app]. split; [reflexivity|]. unfold final_loose.
      intros k. rewrite observe_loose_only by reflexivity. cbn [loose].
      apply has_dup_NoDup in D.
      rewrite commit_deletes_char, fold_del_char by (rewrite names_unlocked; exact D).
      rewrite fold_upd_char by (rewrite names_prepared; exact D).
      rewrite loops_agree. rewrite (spec_fold_char k edits D). rewrite OV. reflexivity.
    + destruct (forallb_false_split _ _ HB) as (ok & bad & rest & -> & Hok & Hbad).
      apply Forall_app in G. destruct G as [Gok Gbr]. inversion Gbr as [|? ? Gbad Grest]; subst.
      destruct (prep1_char lo bad Gbad) as [[Hh _]|(_ & err & Eb & Nl)];
        [unfold holds_now in Hbad; congruence|].
      pose proof (apply_all_err (mkStore lo None) err _ _ [] (mk bad) (map mk rest)
                    (prepare_all_ok lo ok Gok Hok) Eb Nl) as AE.
      cbn [length app] in AE. rewrite map_app. cbn [map]. rewrite AE. cbn [obind].
      exists err. reflexivity.
Qed.

(* the loose files after the transaction carry names of the same set *)
Lemma keys_fold_upd names us : forall l : list (bytes * target),
  incl (keys l) names -> incl (map name_of us) names ->
  incl (keys (fold_left (fun l e => upd_effect e l) us l)) names.
Proof.
  induction us as [|e r IH]; intros l Il Iu; [exact Il|].
  cbn [fold_left]. apply IH; [|intros x Hx; apply Iu; right; exact Hx].
  unfold upd_effect. destruct (eff_val e); [|exact Il].
  intros x Hx. apply keys_set_key in Hx. destruct Hx as [->|Hx]; [apply Iu; left; reflexivity|apply Il; exact Hx].
Qed.
Lemma keys_fold_del names us : forall l : list (bytes * target),
  incl (keys l) names ->
  incl (keys (fold_left (fun l e => if del_flag e then remove_key (name_of e) l else l) us l)) names.
Proof.
  induction us as [|e r IH]; intros l Il; [exact Il|].
  cbn [fold_left]. apply IH. destruct (del_flag e); [|exact Il].
  intros x Hx. apply Il. eapply keys_remove_key. exact Hx.
Qed.
Lemma keys_final_loose names lo edits :
  incl (keys lo) names -> incl (map re_name edits) names -> incl (keys (final_loose lo edits)) names.
Proof.
  intros Il Ie. unfold final_loose. rewrite commit_deletes_char. apply keys_fold_del.
  apply keys_fold_upd; [exact Il|]. rewrite names_prepared. exact Ie.
Qed.

(* ---- the specification does not see more of a view than its values --------------------------------- *)
Definition veq (v w : view) : Prop := forall n, v n = w n.

Lemma resolve_ext v w : veq v w -> forall f n, resolve f v n = resolve f w n.
Proof.
  intros H. induction f as [|f IH]; intros n; cbn [resolve]; rewrite (H n).
  - reflexivity.
  - destruct (w n) as [[r|c]|]; try reflexivity. rewrite IH. reflexivity.
Qed.
Lemma touched_ext v w e : veq v w -> touched v e = touched w e.
Proof. intros H. unfold touched. destruct (re_deref e); [apply resolve_ext; exact H|reflexivity]. Qed.
Lemma edit_ok_ext v w e t : veq v w -> edit_ok v e t = edit_ok w e t.
Proof.
  intros H. unfold edit_ok. induction t as [|[n b] r IH]; [reflexivity|].
  cbn [forallb fst snd]. rewrite IH, (H n). reflexivity.
Qed.
Lemma apply_edit_ext v w e t : veq v w -> veq (apply_edit v e t) (apply_edit w e t).
Proof.
  intros H k. unfold apply_edit. destruct (last_name t); [|apply H].
  destruct (log_mode_of (re_change e)); [|apply H]. destruct (bytes_eqb k b); [reflexivity|apply H].
Qed.
Lemma fold_apply_ext l : forall v w, veq v w ->
  veq (fold_left (fun acc (et : refedit * list (bytes * bool)) => apply_edit acc (fst et) (snd et)) l v)
      (fold_left (fun acc (et : refedit * list (bytes * bool)) => apply_edit acc (fst et) (snd et)) l w).
Proof.
  induction l as [|et r IH]; intros v w H; [exact H|]. cbn [fold_left]. apply IH. apply apply_edit_ext. exact H.
Qed.
Lemma forallb_ext {A} (f g : A -> bool) l : (forall x, f x = g x) -> forallb f l = forallb g l.
Proof. intros H. induction l as [|a r IH]; cbn [forallb]; [reflexivity|]. rewrite H, IH. reflexivity. Qed.

Lemma spec_txn_ext v w edits : veq v w ->
  match spec_txn v edits, spec_txn w edits with
  | Some a, Some b => veq a b
  | None, None => True
  | _, _ => False
  end.
Proof.
  intros H. unfold spec_txn.
  rewrite (map_ext (touched v) (touched w) (fun e => touched_ext v w e H)).
  destruct (all_some (map (touched w) edits)) as [ts|]; [|exact I].
  destruct (has_dup (map fst (concat ts))); [exact I|].
  rewrite (forallb_ext _ (fun et => edit_ok w (fst et) (snd et)) _ (fun et => edit_ok_ext v w (fst et) (snd et) H)).
  destruct (forallb _ _); [|exact I].
  apply fold_apply_ext. exact H.
Qed.

(* ---- histories ------------------------------------------------------------------------------------- *)
Definition simple_op (names : list bytes) (o : op) : Prop :=
  match o with
  | Txn DeletionsOnly _ edits => Forall simple edits /\ incl (map re_name edits) names
  | Txn _ _ _ => False
  end.

Lemma history_refines names : nodf names -> forall ops lo (v : view),
  Forall (simple_op names) ops -> incl (keys lo) names -> veq (observe (mkStore lo None)) v ->
  veq (observe (final_store (mkStore lo None) ops)) (spec_hist v ops).
Proof.
  intros ND. induction ops as [|o r IH]; intros lo v F Il HV; [exact HV|].
  inversion F as [|? ? Ho Fr]; subst.
  unfold final_store, spec_hist. cbn [fold_left].
  destruct o as [pm c edits]. destruct pm; try (destruct Ho; fail). destruct Ho as [Fs Ie].
  destruct c.
  - (* committed *)
    pose proof (multi_edit_strong lo edits names Fs ND Il Ie) as M.
    pose proof (spec_txn_ext _ _ edits HV) as X. cbn [spec_step].
    destruct (spec_txn (observe (mkStore lo None)) edits) as [a|];
      destruct (spec_txn v edits) as [b|]; try contradiction.
    + destruct M as [St Ag]. rewrite St. cbn [snd].
      apply (IH (final_loose lo edits) b Fr (keys_final_loose names lo edits Il Ie)).
      intros n. rewrite (Ag n). apply X.
    + destruct M as [err St]. rewrite St. cbn [snd]. apply (IH lo v Fr Il HV).
  - (* rolled back *)
    cbn [spec_step step].
    destruct (prepare_inner (mkStore lo None) DeletionsOnly edits); cbn [snd]; apply (IH lo v Fr Il HV).
Qed.

Definition hist_names : list bytes := [bs "HEAD"; bs "refs/heads/a"; bs "refs/tags/t"].
Definition hist_lo : list (bytes * target) := [(bs "HEAD", Sym (bs "refs/heads/a")); (bs "refs/heads/a", Obj x31)].
Definition hist_ops : list op :=
  [Txn DeletionsOnly true [mkRefEdit (bs "refs/heads/a") (Update AndRef (PMatch (Obj x31)) (Obj x32)) false;
                           mkRefEdit (bs "refs/tags/t") (Update AndRef PMustNotExist (Obj x33)) false];
   Txn DeletionsOnly false [mkRefEdit (bs "HEAD") (Delete PAny AndRef) false];
   Txn DeletionsOnly true [mkRefEdit (bs "refs/heads/a") (Update AndRef (PMatch (Obj x31)) (Obj x34)) false;
                           mkRefEdit (bs "refs/tags/t") (Delete PAny AndRef) false];
   Txn DeletionsOnly true [mkRefEdit (bs "HEAD") (Update AndRef (PExisting (Sym (bs "refs/heads/a"))) (Obj x32)) false]].
Lemma hist_hyps : nodf hist_names /\ Forall (simple_op hist_names) hist_ops /\ incl (keys hist_lo) hist_names.
Proof.
  split; [|split].
  - intros a b Ha Hb. cbn [hist_names In] in Ha, Hb.
    repeat (destruct Ha as [<-|Ha]); try destruct Ha;
      repeat (destruct Hb as [<-|Hb]); try destruct Hb; vm_compute; reflexivity.
  - unfold hist_ops.
    repeat (apply Forall_cons;
            [split; [repeat (apply Forall_cons; [split; [reflexivity|exact I]|]); apply Forall_nil
                    |intros x Hx; cbn in Hx; cbn [hist_names In]; intuition]|]).
    apply Forall_nil.
  - intros x Hx. cbn in Hx. cbn [hist_names In]. intuition.
Qed.
Lemma hist_final :
  final_store (mkStore hist_lo None) hist_ops
  = mkStore [(bs "HEAD", Obj x32); (bs "refs/tags/t", Obj x33); (bs "refs/heads/a", Obj x32)] None.
Proof. vm_compute. reflexivity. Qed.
