(* C16 — transcript printer: parses a case the way the Rust harness does, runs the model (or the
   specification map), prints the same observable line. *)
From Coq Require Import List NArith Bool Arith.
From GixV.Base Require Import Bytes Outcome.
From GixV.C16 Require Import Model Spec.
Import ListNotations.

(* ------------------------------------------------------------------ parsing *)

Fixpoint split_on (sep : byte) (l : bytes) (cur : bytes) : list bytes :=
  match l with
  | [] => [rev cur]
  | b :: r => if beqb b sep then rev cur :: split_on sep r [] else split_on sep r (b :: cur)
  end.
(* Rust helper `split`: the empty string has no parts *)
Definition split (sep : byte) (l : bytes) : list bytes :=
  match l with [] => [] | _ => split_on sep l [] end.
(* `slice::split`: the empty string has one empty part *)
Definition split1 (sep : byte) (l : bytes) : list bytes := split_on sep l [].

Definition comma : byte := x2c.
Definition colon : byte := x3a.
Definition at_sign : byte := x40.
Definition semicolon : byte := x3b.
Definition bar : byte := x7c.
Definition dash : byte := x2d.

Definition is_empty (l : bytes) : bool := match l with [] => true | _ => false end.
Definition name_char (b : byte) : bool :=
  let n := b2N b in
  (N.leb 48 n && N.leb n 57) || (N.leb 97 n && N.leb n 122)
  || N.eqb n 95 || N.eqb n 47 || N.eqb n 45.
Definition component_ok (c : bytes) : bool :=
  negb (is_empty c) && negb (starts_with [dash] c) && negb (bytes_eqb c (bs "refs")).
(* the names of the model: all-caps pseudo refs, or refs/heads/…, refs/tags/… over [a-z0-9_/-] *)
Definition nice_name (n : bytes) : bool :=
  if is_empty n then false
  else if is_pseudo_ref n then true
  else
    match split1 slash n with
    | _refs :: kind :: rest =>
        (starts_with (bs "refs/heads/") n || starts_with (bs "refs/tags/") n)
        && forallb name_char n && forallb component_ok rest
    | _ => false
    end.

Definition is_hex_char (b : byte) : bool :=
  let n := b2N b in (N.leb 48 n && N.leb n 57) || (N.leb 97 n && N.leb n 102).

Definition parse_target (t : bytes) : option target :=
  match t with
  | b :: r => if beqb b at_sign then (if nice_name r then Some (Sym r) else None)
              else if is_empty r && is_hex_char b then Some (Obj b) else None
  | [] => None
  end.
Definition parse_prev (t : bytes) : option prev :=
  match t with
  | [x41] => Some PAny
  | [x45] => Some PMustExist
  | [x4e] => Some PMustNotExist
  | x4d :: r => option_map PMatch (parse_target r)
  | x58 :: r => option_map PExisting (parse_target r)
  | _ => None
  end.
Definition parse_log (t : bytes) : option logmode :=
  match t with
  | [x52] => Some AndRef
  | [x4c] => Some LogOnly
  | _ => None
  end.
Definition parse_edit (e : bytes) : option refedit :=
  match split colon e with
  | [n; d; k; ex; nw; lg] =>
      if negb (nice_name n) then None
      else
        match (match d with [x30] => Some false | [x31] => Some true | _ => None end),
              parse_prev ex, parse_log lg with
        | Some deref, Some expected, Some log =>
            match k with
            | [x55] => match parse_target nw with
                       | Some new => Some (mkRefEdit n (Update log expected new) deref)
                       | None => None
                       end
            | [x44] => match nw with
                       | [x2d] => Some (mkRefEdit n (Delete expected log) deref)
                       | _ => None
                       end
            | _ => None
            end
        | _, _, _ => None
        end
  | _ => None
  end.

Definition parse_loose_entry (e : bytes) : option (bytes * target) :=
  match split colon e with
  | [n; t] => if nice_name n then option_map (fun t' => (n, t')) (parse_target t) else None
  | _ => None
  end.
Definition parse_packed_entry (e : bytes) : option (bytes * byte) :=
  match split colon e with
  | [n; [c]] => if nice_name n && starts_with (bs "refs/") n && is_hex_char c then Some (n, c) else None
  | _ => None
  end.
Definition parse_packed (f : bytes) : option (option (list (bytes * byte))) :=
  match f with
  | [] => Some None
  | x3d :: r => option_map Some (all_some (map parse_packed_entry (split comma r)))
  | _ => None
  end.
Definition parse_mode (m : bytes) : option packed_mode :=
  match m with
  | [x30] => Some DeletionsOnly | [x31] => Some DeletionsAndUpdates
  | [x32] => Some DeletionsAndUpdatesRemoveLoose | _ => None
  end.
Definition parse_op (o : bytes) : option op :=
  match split1 bar o with
  | [[x54]; m; c; es] =>
      match parse_mode m, (match c with [x30] => Some false | [x31] => Some true | _ => None end),
            all_some (map parse_edit (split comma es)) with
      | Some pm, Some commit, Some edits => Some (Txn pm commit edits)
      | _, _, _ => None
      end
  | _ => None
  end.

Fixpoint strictly_ascending (l : list bytes) : bool :=
  match l with
  | a :: ((b :: _) as r) => match bytes_cmp a b with Lt => strictly_ascending r | _ => false end
  | _ => true
  end.

Definition target_names (t : target) : list bytes := match t with Sym n => [n] | Obj _ => [] end.
Definition prev_names (p : prev) : list bytes :=
  match p with PMatch t | PExisting t => target_names t | _ => [] end.
Definition edit_names (e : refedit) : list bytes :=
  re_name e :: match re_change e with
               | Update _ ex nw => prev_names ex ++ target_names nw
               | Delete ex _ => prev_names ex
               end.
Definition op_names (o : op) : list bytes :=
  match o with Txn _ _ es => concat (map edit_names es) end.

Definition universe : list bytes :=
  [bs "HEAD"; bs "refs/heads/a"; bs "refs/heads/a-b"; bs "refs/heads/a/b"; bs "refs/heads/s"; bs "refs/tags/t"].

Record hist_case := mkCase { c_store : store; c_ops : list op; c_names : list bytes }.

Definition parse_case (fs : list bytes) : option hist_case :=
  match all_some (map parse_loose_entry (split comma (nth_field 1 fs))),
        parse_packed (nth_field 2 fs),
        all_some (map parse_op (split semicolon (nth_field 3 fs))) with
  | Some lo, Some pk, Some ops =>
      let pk_names := match pk with Some p => map fst p | None => [] end in
      let lo_names := map fst lo in
      if Nat.ltb 16 (length ops) || has_dup lo_names || negb (strictly_ascending pk_names)
         || existsb (fun a => existsb (fun b => dir_of a b) lo_names) lo_names
      then None
      else Some (mkCase (mkStore lo pk) ops
                   (universe ++ lo_names ++ concat (map (fun e => target_names (snd e)) lo) ++ pk_names
                    ++ concat (map op_names ops)))
  | _, _, _ => None
  end.

(* ------------------------------------------------------------------ printing *)

Fixpoint insert_by_key {A} (k : bytes) (v : A) (l : list (bytes * A)) : list (bytes * A) :=
  match l with
  | [] => [(k, v)]
  | (k', v') :: r => match bytes_cmp k k' with
                     | Lt => (k, v) :: l
                     | Eq => l
                     | Gt => (k', v') :: insert_by_key k v r
                     end
  end.
(* sorted, without duplicates *)
Definition sort_by_key {A} (l : list (bytes * A)) : list (bytes * A) :=
  fold_left (fun acc kv => insert_by_key (fst kv) (snd kv) acc) l [].

Fixpoint join (sep : byte) (ls : list bytes) : bytes :=
  match ls with
  | [] => []
  | [x] => x
  | x :: r => x ++ sep :: join sep r
  end.
Definition list_text (ls : list bytes) : bytes :=
  match ls with [] => bs "-" | _ => join comma ls end.

Definition target_text (t : target) : bytes :=
  match t with Sym n => at_sign :: n | Obj c => [c] end.

Definition err_text (e : err) : bytes :=
  match e with
  | EPreprocessingFailed => bs "PreprocessingFailed"
  | ELockAcquire n => bs "LockAcquire " ++ n
  | EDeleteReferenceMustExist => bs "DeleteReferenceMustExist"
  | EMustNotExist => bs "MustNotExist"
  | EMustExist => bs "MustExist"
  | EReferenceOutOfDate => bs "ReferenceOutOfDate"
  end.
Definition commit_err_text (e : commit_err) : bytes :=
  match e with
  | CPackedTransactionCommit => bs "PackedTransactionCommit"
  | CLockCommit => bs "LockCommit"
  | CDeleteReference => bs "DeleteReference"
  end.
Definition result_text (r : result) : bytes :=
  match r with
  | ROk => bs "ok"
  | RRollback => bs "rollback"
  | RPrepareErr e => bs "P:err " ++ err_text e
  | RCommitErr e => bs "C:err " ++ commit_err_text e
  | RPanic => bs "PANIC"
  | RHang => bs "HANG"
  end.

Definition sorted_names (l : list bytes) : list bytes :=
  map fst (sort_by_key (map (fun n => (n, tt)) l)).
Definition loose_text (l : list (bytes * target)) : bytes :=
  list_text (map (fun kv => fst kv ++ colon :: target_text (snd kv)) (sort_by_key l)).
Definition packed_text (p : option (list (bytes * byte))) : bytes :=
  match p with
  | None => bs "~"
  | Some l => bs "=" ++ join comma (map (fun kv => fst kv ++ [colon; snd kv]) l)
  end.
Definition view_text (names : list bytes) (v : bytes -> option target) : bytes :=
  list_text (concat (map (fun n => match v n with
                                   | Some t => [n ++ bs "=" ++ target_text t]
                                   | None => []
                                   end) names)).
Definition state_text (names : list bytes) (st : store) : bytes :=
  bs " S:" ++ loose_text (loose st) ++ bs "|" ++ packed_text (packed st) ++ bs " K:- V:"
  ++ view_text names (observe st).

Definition is_bad (r : result) : bool := match r with RPanic | RHang => true | _ => false end.

Definition run_case (c : hist_case) : bytes :=
  let names := sorted_names (c_names c) in
  let steps := run_hist (c_store c) (c_ops c) in
  match find (fun rs => is_bad (fst rs)) steps with
  | Some (r, _) => result_text r          (* the whole case panics / hangs *)
  | None =>
      match steps with
      | [] => bs "empty"
      | _ => join x20 (tl (concat (map (fun rs => [bs "/"; result_text (fst rs) ++ state_text names (snd rs)]) steps)))
      end
  end.

(* the specification map run over the history: final view *)
Definition run_spec (c : hist_case) : bytes :=
  let names := sorted_names (c_names c) in
  view_text names (spec_hist (observe (c_store c)) (c_ops c)).

Definition run_model (mode : bytes) (fs : list bytes) : bytes :=
  let op := nth_field 0 fs in
  if bytes_eqb op (bs "hist") then
    match parse_case fs with
    | Some c => if bytes_eqb mode (bs "spec") then run_spec c else run_case c
    | None => bs "malformed"
    end
  else bs "?".

Definition run (fs : list bytes) : bytes :=
  match fs with
  | mode :: rest => run_model mode rest
  | [] => bs "?"
  end.
