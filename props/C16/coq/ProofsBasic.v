(* C16 — sorting of the packed edits, the packed-refs commit as a whole, the expectation tables, and what a
   failed or rolled-back transaction leaves behind. *)
From Coq Require Import List NArith Bool Arith Lia.
From GixV.Base Require Import Bytes BytesFacts Outcome.
From GixV.C16 Require Import Model Spec ProofsMerge.
Import ListNotations.

Lemma mem_In k l : mem k l = true <-> In k l.
Proof.
  induction l as [|x r IH]; simpl; [intuition discriminate|].
  rewrite orb_true_iff, IH, bytes_eqb_eq. intuition.
Qed.
Lemma has_dup_NoDup l : has_dup l = false -> NoDup l.
Proof.
  induction l as [|x r IH]; simpl; intros H; [constructor|].
  apply orb_false_iff in H. destruct H as [H1 H2]. constructor; [|apply IH; exact H2].
  intros Hin. apply mem_In in Hin. congruence.
Qed.

Lemma assoc_none_notin {A} n (l : list (bytes * A)) : ~ In n (keys l) -> assoc n l = None.
Proof.
  unfold keys. induction l as [|[k v] r IH]; simpl; intros H; [reflexivity|].
  rewrite bytes_eqb_false by (intros E; apply H; left; symmetry; exact E).
  apply IH. intros Hin. apply H. right. exact Hin.
Qed.

Lemma fold_insert l : forall acc,
  ss (keys acc) -> NoDup (keys l) -> (forall x, In x (keys l) -> ~ In x (keys acc)) ->
  let r := fold_left (fun acc e => insert_sorted e acc) l acc in
  ss (keys r)
  /\ (forall x, In x (keys r) <-> In x (keys acc) \/ In x (keys l))
  /\ forall n, assoc n r = match assoc n l with Some v => Some v | None => assoc n acc end.
Proof.
  induction l as [|e l IH]; intros acc S N D; cbn [fold_left].
  - cbn. repeat split; intuition.
  - unfold keys in N. cbn [map] in N. inversion N as [|? ? Ne Nl]; subst.
    assert (De : ~ In (fst e) (keys acc)) by (apply D; left; reflexivity).
    destruct (IH (insert_sorted e acc)) as (S' & K' & A').
    + apply insert_sorted_ss; assumption.
    + exact Nl.
    + intros x Hx Hin. apply insert_sorted_keys in Hin. destruct Hin as [->|Hin].
      * apply Ne. exact Hx.
      * apply (D x); [right; exact Hx|exact Hin].
    + split; [exact S'|split].
      * intros x. rewrite K', insert_sorted_keys. unfold keys. cbn [map In]. intuition.
      * intros n. rewrite A'. rewrite insert_sorted_assoc by exact De.
        destruct e as [ek ev]. cbn [assoc fst snd].
        destruct (bytes_eqb n ek) eqn:E.
        -- apply bytes_eqb_eq in E. subst n. rewrite (assoc_none_notin ek l Ne). reflexivity.
        -- reflexivity.
Qed.

Lemma sort_edits_correct l :
  NoDup (keys l) ->
  ss (keys (sort_edits l)) /\ forall n, assoc n (sort_edits l) = assoc n l.
Proof.
  intros N. destruct (fold_insert l [] I N (fun _ _ H => H)) as (S & _ & A).
  split; [exact S|]. intros n. unfold sort_edits. rewrite A. destruct (assoc n l); reflexivity.
Qed.

(* packed::Transaction::commit on a sorted buffer: what is written is sorted, free of duplicates, and a
   lookup gives the edit's value for edited names and the old value elsewhere *)
Lemma packed_lines_correct (buf : list (bytes * byte)) (edits : list pedit) :
  ss (keys buf) -> has_dup (keys edits) = false ->
  let lines := merge_edits (sort_edits edits) buf in
  ss (keys lines) /\ forall n, assoc n lines = merged_lookup n edits buf.
Proof.
  intros S H. apply has_dup_NoDup in H. destruct (sort_edits_correct edits H) as [Ss As].
  destruct (merge_correct (sort_edits edits) buf S Ss) as (_ & S' & A').
  split; [exact S'|]. intros n. rewrite A'. unfold merged_lookup. rewrite As. reflexivity.
Qed.

(* ---- the expectation tables are the compare-and-swap conditions of the specification ------------- *)

Lemma check_update_is_cas log expected new existing :
  check_update expected new existing = Ok tt <-> holds (Update log expected new) existing = true.
Proof.
  destruct expected, existing; cbn [check_update holds];
    try (destruct (target_eqb _ _)); split; intros H; try reflexivity; try discriminate.
Qed.
Lemma check_delete_is_cas log expected existing :
  expected <> PMustNotExist ->
  (check_delete expected existing = Ok tt <-> holds (Delete expected log) existing = true).
Proof.
  intros N. destruct expected, existing; cbn [check_delete holds]; try congruence;
    try (destruct (target_eqb _ _)); split; intros H; try reflexivity; try discriminate.
Qed.
Lemma check_update_never_panics expected new existing : check_update expected new existing <> Panic.
Proof. destruct expected, existing; cbn [check_update]; try (destruct (target_eqb _ _)); discriminate. Qed.
Lemma check_delete_panics_only_on_invalid expected existing :
  check_delete expected existing = Panic -> expected = PMustNotExist.
Proof. destruct expected, existing; cbn [check_delete]; try (destruct (target_eqb _ _)); congruence. Qed.

(* ---- failed prepare, rollback ------------------------------------------------------------------- *)

Lemma failed_prepare st pmode commit edits e :
  prepare_inner st pmode edits = Err e -> step st (Txn pmode commit edits) = (RPrepareErr e, st).
Proof. intros H. cbn [step]. rewrite H. reflexivity. Qed.

Lemma rollback st pmode edits p :
  prepare_inner st pmode edits = Ok p -> step st (Txn pmode false edits) = (RRollback, st).
Proof. intros H. cbn [step]. rewrite H. reflexivity. Qed.

(* the store changes only when a commit was attempted: every other outcome leaves it as it was *)
Lemma only_commit_changes st o :
  fst (step st o) <> ROk -> (forall e, fst (step st o) <> RCommitErr e) -> snd (step st o) = st.
Proof.
  destruct o as [pmode commit edits]. cbn [step].
  destruct (prepare_inner st pmode edits) as [p|e| |]; try reflexivity.
  destruct commit; [|reflexivity].
  unfold commit_inner.
  destruct (commit_updates _ _ _ _) as [[[us l1] [e|]]|e| |]; cbn [fst snd]; intros H1 H2;
    try reflexivity; try (exfalso; eapply H2; reflexivity).
  destruct (p_packed p) as [t|].
  - destruct (packed_commit (packed st) t); cbn [fst snd] in *; try reflexivity;
      try (exfalso; apply H1; reflexivity); try (exfalso; eapply H2; reflexivity).
  - cbn [fst snd] in *. exfalso; apply H1; reflexivity.
Qed.

Lemma history_without_commits st ops :
  Forall (fun o => match o with Txn _ c _ => c = false end) ops -> final_store st ops = st.
Proof.
  unfold final_store. revert st. induction ops as [|o r IH]; intros st F; [reflexivity|].
  inversion F as [|? ? Ho Fr]; subst. cbn [fold_left].
  destruct o as [pm c es]. subst c. cbn [step].
  destruct (prepare_inner st pm es); cbn [snd]; apply IH; exact Fr.
Qed.
