(* C16 — theorems (statements only; proofs are in Proofs*.v) *)
From Coq Require Import List NArith Bool Arith.
From GixV.Base Require Import Bytes Outcome.
From GixV.C16 Require Import Model Spec ProofsMerge ProofsBasic ProofsSingle ProofsPacked ProofsMulti ProofsHist ProofsWitness.
Import ListNotations.

(* ---- packed-refs: the merge of the sorted buffer with the sorted edits ----------------------------- *)

(* what packed::Transaction::commit writes is strictly ascending by name (sorted, no duplicates) … *)
Theorem packed_merge_sorted_unique :
  forall (buf : list (bytes * byte)) (edits : list pedit),
    ss (keys buf) -> has_dup (keys edits) = false ->
    ss (keys (merge_edits (sort_edits edits) buf)).
Proof. exact (fun buf edits S H => proj1 (packed_lines_correct buf edits S H)). Qed.

(* … and holds exactly the edits' values for edited names and the old entries for all others *)
Theorem packed_merge_lookup :
  forall (buf : list (bytes * byte)) (edits : list pedit),
    ss (keys buf) -> has_dup (keys edits) = false ->
    forall n, assoc n (merge_edits (sort_edits edits) buf) = merged_lookup n edits buf.
Proof. exact (fun buf edits S H => proj2 (packed_lines_correct buf edits S H)). Qed.

(* ---- the expectation tables of lock_ref_and_apply_change are the map's compare-and-swap conditions -- *)

Theorem update_expectations_are_cas :
  forall log expected new existing,
    check_update expected new existing = Ok tt <-> holds (Update log expected new) existing = true.
Proof. exact check_update_is_cas. Qed.

Theorem delete_expectations_are_cas :
  forall log expected existing,
    expected <> PMustNotExist ->
    (check_delete expected existing = Ok tt <-> holds (Delete expected log) existing = true).
Proof. exact check_delete_is_cas. Qed.

Theorem expectation_check_panics_only_on_invalid_delete :
  forall expected existing, check_delete expected existing = Panic -> expected = PMustNotExist.
Proof. exact check_delete_panics_only_on_invalid. Qed.

(* ---- a failed prepare and a rollback change nothing ------------------------------------------------ *)

Theorem failed_prepare_changes_nothing :
  forall st pmode commit edits e,
    prepare_inner st pmode edits = Err e -> step st (Txn pmode commit edits) = (RPrepareErr e, st).
Proof. exact failed_prepare. Qed.

Theorem rollback_changes_nothing :
  forall st pmode edits p,
    prepare_inner st pmode edits = Ok p -> step st (Txn pmode false edits) = (RRollback, st).
Proof. exact rollback. Qed.

Theorem only_commit_changes_store :
  forall st o,
    fst (step st o) <> ROk -> (forall e, fst (step st o) <> RCommitErr e) -> snd (step st o) = st.
Proof. exact only_commit_changes. Qed.

Theorem history_without_commits_changes_nothing :
  forall st ops,
    Forall (fun o => match o with Txn _ c _ => c = false end) ops -> final_store st ops = st.
Proof. exact history_without_commits. Qed.

(* ---- refinement ------------------------------------------------------------------------------------ *)

(* The property as a whole.  It is FALSE of the model and of the code (directory/file conflicts,
   reflog-only edits: see the two _refuted theorems); what is proved of it is the _partial theorem. *)
Definition txn_refines_map_full_statement : Prop := forall st ops, refines_map st ops.

(* One edit without dereferencing on a store without packed-refs and without a directory/file conflict at
   that name: for every expectation kind, update and delete, both reflog modes, the transaction commits
   exactly when the map accepts it, the store then reads like the new map, and otherwise nothing changes. *)
Theorem single_edit_cas_refines_map_partial :
  forall (st : store) (e : refedit),
    packed st = None -> re_deref e = false -> valid_change (re_change e) ->
    lock_ok (loose st) (re_name e) = true -> blocked (re_name e) (loose st) [] = false ->
    match spec_txn (observe st) [e] with
    | Some v' => exists st', step st (Txn DeletionsOnly true [e]) = (ROk, st') /\ agrees st' v'
    | None => exists err, step st (Txn DeletionsOnly true [e]) = (RPrepareErr err, st)
    end.
Proof. exact single_edit_refines. Qed.

(* Several edits in one transaction, none dereferencing, on a store without packed-refs, all names (loose
   files and edit names) from a set without directory/file relation: the transaction is all-or-nothing.  It
   commits exactly when the map accepts it (no name twice, every expectation holds against the state BEFORE
   the transaction); then every name reads like the new map; otherwise it fails in prepare and the store is
   the one it was.  Covers the `for cid` loop of prepare_inner, both loops of commit_inner, every expectation
   kind, updates, deletions and reflog-only edits mixed. *)
Theorem multi_edit_txn_refines_map_partial :
  forall (lo : list (bytes * target)) (edits : list refedit) (names : list bytes),
    Forall simple edits -> nodf names -> incl (keys lo) names -> incl (map re_name edits) names ->
    match spec_txn (observe (mkStore lo None)) edits with
    | Some v' => exists st', step (mkStore lo None) (Txn DeletionsOnly true edits) = (ROk, st') /\ agrees st' v'
    | None => exists err, step (mkStore lo None) (Txn DeletionsOnly true edits) = (RPrepareErr err, mkStore lo None)
    end.
Proof. exact multi_edit_refines. Qed.

(* The refinement over HISTORIES for that class: any sequence of transactions (mode DeletionsOnly, committed or
   rolled back, any number of non-dereferencing edits each) over names without directory/file relation,
   started on a store without packed-refs, leaves a store that reads, name by name, like the specification map
   folded over the history.  This is txn_refines_map_full_statement restricted to `simple_op` histories. *)
Theorem history_refines_map_partial :
  forall names, nodf names ->
  forall ops lo (v : view),
    Forall (simple_op names) ops -> incl (keys lo) names -> veq (observe (mkStore lo None)) v ->
    veq (observe (final_store (mkStore lo None) ops)) (spec_hist v ops).
Proof. exact history_refines. Qed.

(* the specification only depends on the values of a view *)
Theorem spec_txn_extensional :
  forall v w edits, veq v w ->
    match spec_txn v edits, spec_txn w edits with
    | Some a, Some b => veq a b
    | None, None => True
    | _, _ => False
    end.
Proof. exact spec_txn_ext. Qed.

(* The same with a packed-refs file present (sorted), for a name under refs/heads/ and an edit that changes the
   reference (RefLog::AndReference): the current value is the loose one, else the packed one; an update is
   written as loose reference over the packed entry, a deletion removes the loose file and rewrites
   packed-refs without the name (the whole file goes when it was the last entry).  Reflog-only edits are
   excluded: they are the known class log-only-expectation-ignores-packed-refs. *)
Theorem single_edit_with_packed_refs_refines_map_partial :
  forall (lo : list (bytes * target)) (pk : list (bytes * byte)) (n : bytes) (c : change),
    ss (keys pk) -> starts_with heads n = true -> valid_change c -> log_mode_of c = AndRef ->
    lock_ok lo n = true -> blocked n lo [] = false ->
    match spec_txn (observe (mkStore lo (Some pk))) [mkRefEdit n c false] with
    | Some v' => exists st', step (mkStore lo (Some pk)) (Txn DeletionsOnly true [mkRefEdit n c false]) = (ROk, st')
                             /\ agrees st' v'
    | None => exists err, step (mkStore lo (Some pk)) (Txn DeletionsOnly true [mkRefEdit n c false])
                          = (RPrepareErr err, mkStore lo (Some pk))
    end.
Proof. exact single_edit_packed_refines. Qed.

Theorem txn_refines_map_refuted : exists st ops, ~ refines_map st ops.
Proof. exact (ex_intro _ df_store (ex_intro _ df_ops df_refutes)). Qed.

(* known class df-commit-failed-midway: prepare succeeds, commit fails after writing one of two refs *)
Theorem commit_not_atomic_on_directory_file_conflict_refuted :
  exists st edits st', step st (Txn DeletionsOnly true edits) = (RCommitErr CLockCommit, st') /\ st' <> st.
Proof. exact df_commit_changed_store. Qed.

(* known class log-only-expectation-ignores-packed-refs *)
Theorem log_only_expectation_ignores_packed_refs_refuted :
  exists st e n t,
    observe st n = Some t /\ re_name e = n
    /\ step st (Txn DeletionsOnly true [e]) = (RPrepareErr EMustExist, st)
    /\ exists v, spec_txn (observe st) [e] = Some v.
Proof.
  exact (ex_intro _ lo_store (ex_intro _ lo_edit (ex_intro _ ref_t (ex_intro _ (Obj x31)
          (conj (proj1 log_only_misses_packed) (conj eq_refl (proj2 log_only_misses_packed))))))).
Qed.

(* ---- non-vacuity ----------------------------------------------------------------------------------- *)

Example single_edit_hypotheses_satisfiable :
  packed ex_store = None /\ re_deref ex_edit = false /\ valid_change (re_change ex_edit)
  /\ lock_ok (loose ex_store) (re_name ex_edit) = true /\ blocked (re_name ex_edit) (loose ex_store) [] = false.
Proof. exact ex_hyps. Qed.
Example single_edit_example :
  step ex_store (Txn DeletionsOnly true [ex_edit]) = (ROk, mkStore [(ref_a, Obj x32); (head, Sym ref_a)] None).
Proof. exact ex_step. Qed.
Example merge_hypotheses_satisfiable :
  ss (keys [(ref_a, x31); (ref_ab, x33)]) /\ has_dup (keys [(ref_t, Some x32); (ref_a, @None byte)]) = false.
Proof. exact ex_sorted. Qed.
Example merge_example :
  merge_edits (sort_edits [(ref_t, Some x32); (ref_a, None)]) [(ref_a, x31); (ref_ab, x33)]
  = [(ref_ab, x33); (ref_t, x32)].
Proof. exact ex_merge. Qed.
Example deref_update_goes_to_packed_refs :
  step ex_store (Txn DeletionsAndUpdatesRemoveLoose true
                   [mkRefEdit head (Update AndRef (PMatch (Obj x31)) (Obj x32)) true])
  = (ROk, mkStore [(head, Sym ref_a)] (Some [(ref_a, x32)])).
Proof. exact ex_deref_packed. Qed.
Example head_stays_loose_in_remove_loose_mode :
  step ex_store (Txn DeletionsAndUpdatesRemoveLoose true [upd_any head x32])
  = (ROk, mkStore [(head, Obj x32); (ref_a, Obj x31)] None).
Proof. exact ex_head_stays_loose. Qed.
Example single_edit_with_packed_refs_hypotheses_satisfiable :
  ss (keys pk_pk) /\ starts_with heads pk_ref_a = true /\ valid_change pk_change /\ log_mode_of pk_change = AndRef
  /\ lock_ok pk_lo pk_ref_a = true /\ blocked pk_ref_a pk_lo [] = false.
Proof. exact pk_hyps. Qed.
Example packed_delete_example :
  step (mkStore pk_lo (Some pk_pk)) (Txn DeletionsOnly true [mkRefEdit pk_ref_a pk_change false])
  = (ROk, mkStore pk_lo (Some [(pk_ref_t, x32)])).
Proof. exact pk_step. Qed.
Example multi_edit_hypotheses_satisfiable :
  Forall simple mu_edits /\ nodf mu_names /\ incl (keys mu_lo) mu_names /\ incl (map re_name mu_edits) mu_names.
Proof. exact mu_hyps. Qed.
Example multi_edit_commits :
  step (mkStore mu_lo None) (Txn DeletionsOnly true mu_edits)
  = (ROk, mkStore [(bs "refs/tags/t", Obj x33); (bs "refs/heads/a", Obj x32)] None).
Proof. exact mu_step. Qed.
Example multi_edit_one_failing_expectation_refuses_all :
  step (mkStore mu_lo None)
       (Txn DeletionsOnly true (mu_edits ++ [mkRefEdit (bs "refs/heads/s") (Update AndRef PMustExist (Obj x31)) false]))
  = (RPrepareErr EMustExist, mkStore mu_lo None).
Proof. exact mu_refused. Qed.
Example history_hypotheses_satisfiable :
  nodf hist_names /\ Forall (simple_op hist_names) hist_ops /\ incl (keys hist_lo) hist_names.
Proof. exact hist_hyps. Qed.
Example history_example :
  final_store (mkStore hist_lo None) hist_ops
  = mkStore [(bs "HEAD", Obj x32); (bs "refs/tags/t", Obj x33); (bs "refs/heads/a", Obj x32)] None.
Proof. exact hist_final. Qed.
