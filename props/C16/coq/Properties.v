(* C16 — theorems (statements only; proofs are in Proofs*.v) *)
From Coq Require Import List NArith Bool Arith.
From GixV.Base Require Import Bytes Outcome.
From GixV.C16 Require Import Model Spec.
Import ListNotations.
