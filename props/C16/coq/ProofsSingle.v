(* C16 — refinement for the basic compare-and-swap: one edit without dereferencing on a store without
   packed-refs, every expectation kind, update and delete, both reflog modes. *)
From Coq Require Import List NArith Bool Arith Lia.
From GixV.Base Require Import Bytes BytesFacts Outcome.
From GixV.C16 Require Import Model Spec ProofsMerge ProofsBasic.
Import ListNotations.

Lemma assoc_remove_key_same {A} n (l : list (bytes * A)) : assoc n (remove_key n l) = None.
Proof.
  induction l as [|[k v] r IH]; simpl; [reflexivity|].
  destruct (bytes_eqb n k) eqn:E; [exact IH|]. simpl. rewrite E. exact IH.
Qed.
Lemma assoc_remove_key_other {A} k n (l : list (bytes * A)) :
  bytes_eqb k n = false -> assoc k (remove_key n l) = assoc k l.
Proof.
  intros H. induction l as [|[k' v] r IH]; simpl; [reflexivity|].
  destruct (bytes_eqb n k') eqn:E.
  - apply bytes_eqb_eq in E. subst k'. rewrite H. exact IH.
  - simpl. rewrite IH. reflexivity.
Qed.
Lemma assoc_set_key {A} k n (v : A) l :
  assoc k (set_key n v l) = if bytes_eqb k n then Some v else assoc k l.
Proof.
  unfold set_key. simpl. destruct (bytes_eqb k n) eqn:E; [reflexivity|].
  apply assoc_remove_key_other. exact E.
Qed.

Lemma target_eqb_eq a b : target_eqb a b = true <-> a = b.
Proof.
  destruct a, b; simpl; try (split; intros; congruence).
  - rewrite bytes_eqb_eq. split; congruence.
  - rewrite beqb_eq. split; congruence.
Qed.

Lemma not_effective new t :
  new_would_change_existing new t = (false, false) -> t = new.
Proof.
  destruct new, t; simpl; intros H; try discriminate.
  inversion H as [H1]. apply negb_false_iff in H1. apply beqb_eq in H1. congruence.
Qed.
Lemma effective_cases new t :
  let '(eff, sy) := new_would_change_existing new t in eff || sy = false -> t = new.
Proof.
  destruct (new_would_change_existing new t) as [eff sy] eqn:E. intros H.
  apply orb_false_iff in H. destruct H; subst. apply not_effective. exact E.
Qed.

Definition valid_change (c : change) : Prop :=
  match c with Delete PMustNotExist _ => False | _ => True end.

(* the observable store after the step, name by name *)
Definition agrees (st' : store) (v' : view) : Prop := forall k, observe st' k = v' k.

Lemma observe_loose_only st k : packed st = None -> observe st k = assoc k (loose st).
Proof. intros H. unfold observe, find_in. rewrite H. destruct (assoc k (loose st)); reflexivity. Qed.

Lemma single_edit_refines (st : store) (e : refedit) :
  packed st = None -> re_deref e = false -> valid_change (re_change e) ->
  lock_ok (loose st) (re_name e) = true -> blocked (re_name e) (loose st) [] = false ->
  match spec_txn (observe st) [e] with
  | Some v' => exists st', step st (Txn DeletionsOnly true [e]) = (ROk, st') /\ agrees st' v'
  | None => exists err, step st (Txn DeletionsOnly true [e]) = (RPrepareErr err, st)
  end.
Proof.
  intros Hp Hd Hv Hl Hb.
  destruct e as [n c d]. cbn [re_deref re_name re_change] in *. subst d.
  destruct st as [lo pk]. cbn [packed loose] in *. subst pk.
  unfold spec_txn, touched. cbn [re_deref re_name map all_some option_map concat app fst has_dup mem orb
    combine forallb edit_ok snd andb fold_left apply_edit last_name re_change].
  rewrite (observe_loose_only (mkStore lo None) n eq_refl). cbn [loose].
  cbn [step]. unfold prepare_inner, pre_process. cbn [map splits_loop split_pass split_one upd re_deref negb
    length app obind name_of re_name has_dup mem orb].
  unfold prepare_packed. cbn [packed orb]. cbn [apply_all nth_error length obind].
  unfold lock_ref_and_apply_change. cbn [lock upd re_name re_change re_deref loose find_in name_of andb parent_index].
  unfold acquire, find_in. rewrite Hl. cbn [is_remove_loose andb negb].
  destruct c as [log expected new|expected log].
  - (* Update *)
    cbn [re_change obind].
    pose proof (check_update_is_cas log expected new
                  (match assoc n lo with Some t => Some t | None => None end)) as CAS.
    cbn [holds].
    destruct (check_update expected new (match assoc n lo with Some t => Some t | None => None end)) as [[]|err| |] eqn:CU.
    + (* the expectation holds *)
      assert (HH : holds (Update log expected new) (assoc n lo) = true).
      { destruct (assoc n lo); apply (proj1 CAS); reflexivity. }
      cbn [holds] in HH. rewrite HH. cbn [obind].
      destruct (assoc n lo) as [t|] eqn:EX.
      * destruct (new_would_change_existing new t) as [eff sy] eqn:NW.
        assert (LK : (eff && true || sy) = (eff || sy)) by (destruct eff, sy; reflexivity).
        rewrite LK. destruct (eff || sy) eqn:ES; cbn [obind set_nth p_updates p_packed].
        -- (* the lock is taken and the new value written *)
           unfold commit_inner. cbn [is_remove_loose p_updates commit_updates upd re_deref re_change
             keeps_lock_for_packed andb lock name_of re_name app rev p_packed packed loose].
           destruct log; cbn [logmode_eqb andb log_mode_of].
           ++ rewrite Hb. cbn [commit_updates rev app commit_deletes re_change upd andb].
              eexists. split; [reflexivity|]. intros k. rewrite observe_loose_only by reflexivity.
              cbn [loose]. rewrite assoc_set_key. rewrite observe_loose_only by reflexivity. reflexivity.
           ++ cbn [commit_updates rev app commit_deletes re_change upd andb logmode_eqb].
              eexists. split; [reflexivity|]. intros k. reflexivity.
        -- (* nothing to do: the value is there already *)
           apply orb_false_iff in ES. destruct ES; subst eff sy. apply not_effective in NW. subst t.
           unfold commit_inner. cbn [is_remove_loose p_updates commit_updates upd re_deref re_change
             keeps_lock_for_packed andb lock name_of re_name app rev p_packed packed loose logmode_eqb].
           replace (logmode_eqb log AndRef && false) with false by (destruct log; reflexivity).
           cbn [commit_updates rev app commit_deletes re_change upd andb].
           eexists. split; [reflexivity|]. intros k.
           destruct log; cbn [log_mode_of]; [|reflexivity].
           rewrite !observe_loose_only by reflexivity. cbn [loose].
           destruct (bytes_eqb k n) eqn:E; [|reflexivity]. apply bytes_eqb_eq in E. subst k. exact EX.
      * (* the reference does not exist yet *)
        cbn [andb orb obind set_nth p_updates p_packed].
        unfold commit_inner. cbn [is_remove_loose p_updates commit_updates upd re_deref re_change
          keeps_lock_for_packed andb lock name_of re_name app rev p_packed packed loose].
        destruct log; cbn [logmode_eqb andb log_mode_of].
        -- rewrite Hb. cbn [commit_updates rev app commit_deletes re_change upd andb].
           eexists. split; [reflexivity|]. intros k. rewrite observe_loose_only by reflexivity.
           cbn [loose]. rewrite assoc_set_key. rewrite observe_loose_only by reflexivity. reflexivity.
        -- cbn [commit_updates rev app commit_deletes re_change upd andb logmode_eqb].
           eexists. split; [reflexivity|]. intros k. reflexivity.
    + (* the expectation fails *)
      assert (HH : holds (Update log expected new) (assoc n lo) = false).
      { destruct (holds (Update log expected new) (assoc n lo)) eqn:H; [|reflexivity].
        assert (X : @Err unit Model.err err = Ok tt) by (apply (proj2 CAS); destruct (assoc n lo); exact H).
        discriminate. }
      cbn [holds] in HH. rewrite HH. cbn [obind].
      destruct err; eexists; reflexivity.
    + exfalso. eapply check_update_never_panics. exact CU.
    + exfalso. destruct expected, (assoc n lo); cbn in CU; try destruct (target_eqb _ _); discriminate.
  - (* Delete *)
    cbn [re_change obind].
    assert (NV : expected <> PMustNotExist) by (intros ->; exact Hv).
    pose proof (check_delete_is_cas log expected
                  (match assoc n lo with Some t => Some t | None => None end) NV) as CAS.
    cbn [holds].
    destruct (check_delete expected (match assoc n lo with Some t => Some t | None => None end)) as [[]|err| |] eqn:CU.
    + assert (HH : holds (Delete expected log) (assoc n lo) = true).
      { destruct (assoc n lo); apply (proj1 CAS); reflexivity. }
      cbn [holds] in HH. rewrite HH. cbn [obind set_nth p_updates p_packed].
      unfold commit_inner. cbn [is_remove_loose p_updates commit_updates upd re_deref re_change
        keeps_lock_for_packed andb lock name_of re_name app rev p_packed packed loose commit_deletes].
      destruct (assoc n lo) as [t|] eqn:EX; cbn [re_change upd commit_deletes name_of re_name];
        (eexists; split; [reflexivity|]; intros k;
         destruct log; cbn [logmode_eqb log_mode_of]; [|reflexivity];
         rewrite !observe_loose_only by reflexivity; cbn [loose];
         destruct (bytes_eqb k n) eqn:E;
         [apply bytes_eqb_eq in E; subst k; apply assoc_remove_key_same
         |apply assoc_remove_key_other; exact E]).
    + assert (HH : holds (Delete expected log) (assoc n lo) = false).
      { destruct (holds (Delete expected log) (assoc n lo)) eqn:H; [|reflexivity].
        assert (X : @Err unit Model.err err = Ok tt) by (apply (proj2 CAS); destruct (assoc n lo); exact H).
        discriminate. }
      cbn [holds] in HH. rewrite HH. cbn [obind].
      destruct err; eexists; reflexivity.
    + exfalso. apply NV. eapply check_delete_panics_only_on_invalid. exact CU.
    + exfalso. destruct expected, (assoc n lo); cbn in CU; try destruct (target_eqb _ _); discriminate.
Qed.
