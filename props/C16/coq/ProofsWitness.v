(* C16 — concrete witnesses: where the model (and the code) leaves the simple map, and non-vacuity examples *)
From Coq Require Import List NArith Bool Arith.
From GixV.Base Require Import Bytes BytesFacts Outcome.
From GixV.C16 Require Import Model Spec ProofsMerge ProofsBasic ProofsSingle.
Import ListNotations.

Definition head : bytes := bs "HEAD".
Definition ref_a : bytes := bs "refs/heads/a".
Definition ref_ab : bytes := bs "refs/heads/a/b".
Definition ref_t : bytes := bs "refs/tags/t".
Definition upd_any (n : bytes) (c : byte) : refedit := mkRefEdit n (Update AndRef PAny (Obj c)) false.

(* the statement of the property as a whole: after any history the store reads like the map *)
Definition refines_map (st : store) (ops : list op) : Prop :=
  forall n, observe (final_store st ops) n = spec_hist (observe st) ops n.

(* creating refs/heads/a/b and refs/heads/a in one transaction: prepare succeeds, commit stops half way *)
Definition df_store : store := mkStore [(head, Obj x31)] None.
Definition df_ops : list op := [Txn DeletionsOnly true [upd_any ref_ab x32; upd_any ref_a x33]].
Lemma df_commit_fails_midway :
  step df_store (Txn DeletionsOnly true [upd_any ref_ab x32; upd_any ref_a x33])
  = (RCommitErr CLockCommit, mkStore [(ref_ab, Obj x32); (head, Obj x31)] None).
Proof. vm_compute. reflexivity. Qed.
Lemma df_commit_changed_store :
  exists st edits st', step st (Txn DeletionsOnly true edits) = (RCommitErr CLockCommit, st') /\ st' <> st.
Proof.
  eexists. eexists. eexists. split; [exact df_commit_fails_midway|].
  intros H. apply (f_equal (fun s => length (loose s))) in H. vm_compute in H. discriminate.
Qed.
Lemma df_refutes : ~ refines_map df_store df_ops.
Proof. intros H. specialize (H ref_a). vm_compute in H. discriminate. Qed.

(* a reflog-only edit alone does not make prepare look into packed-refs *)
Definition lo_store : store := mkStore [(head, Obj x31)] (Some [(ref_t, x31)]).
Definition lo_edit : refedit := mkRefEdit ref_t (Update LogOnly PMustExist (Obj x32)) false.
Lemma log_only_misses_packed :
  observe lo_store ref_t = Some (Obj x31)
  /\ step lo_store (Txn DeletionsOnly true [lo_edit]) = (RPrepareErr EMustExist, lo_store)
  /\ (exists v, spec_txn (observe lo_store) [lo_edit] = Some v).
Proof. split; [|split]; [vm_compute; reflexivity|vm_compute; reflexivity|eexists; vm_compute; reflexivity]. Qed.

(* non-vacuity *)
Definition ex_store : store := mkStore [(head, Sym ref_a); (ref_a, Obj x31)] None.
Definition ex_edit : refedit := mkRefEdit ref_a (Update AndRef (PMatch (Obj x31)) (Obj x32)) false.
Lemma ex_hyps :
  packed ex_store = None /\ re_deref ex_edit = false /\ valid_change (re_change ex_edit)
  /\ lock_ok (loose ex_store) (re_name ex_edit) = true /\ blocked (re_name ex_edit) (loose ex_store) [] = false.
Proof. repeat split; vm_compute; reflexivity. Qed.
Lemma ex_step :
  step ex_store (Txn DeletionsOnly true [ex_edit])
  = (ROk, mkStore [(ref_a, Obj x32); (head, Sym ref_a)] None).
Proof. vm_compute. reflexivity. Qed.
Lemma ex_merge :
  merge_edits (sort_edits [(ref_t, Some x32); (ref_a, None)]) [(ref_a, x31); (ref_ab, x33)]
  = [(ref_ab, x33); (ref_t, x32)].
Proof. vm_compute. reflexivity. Qed.
Lemma ex_sorted : ss (keys [(ref_a, x31); (ref_ab, x33)]) /\ has_dup (keys [(ref_t, Some x32); (ref_a, @None byte)]) = false.
Proof.
  split; [|vm_compute; reflexivity].
  cbn [keys map fst ss]. repeat split; intros x Hx; cbn [In] in Hx;
    repeat (destruct Hx as [<-|Hx]; [vm_compute; reflexivity|]); destruct Hx.
Qed.
(* a deref update through HEAD in "remove loose" mode: split, packed, loose file removed *)
Lemma ex_deref_packed :
  step ex_store (Txn DeletionsAndUpdatesRemoveLoose true
                   [mkRefEdit head (Update AndRef (PMatch (Obj x31)) (Obj x32)) true])
  = (ROk, mkStore [(head, Sym ref_a)] (Some [(ref_a, x32)])).
Proof. vm_compute. reflexivity. Qed.
(* HEAD itself cannot be packed: it stays a loose reference in that mode *)
Lemma ex_head_stays_loose :
  step ex_store (Txn DeletionsAndUpdatesRemoveLoose true [upd_any head x32])
  = (ROk, mkStore [(head, Obj x32); (ref_a, Obj x31)] None).
Proof. vm_compute. reflexivity. Qed.
