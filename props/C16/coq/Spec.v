(* C16 — the specification: a reference store is a map from names to values, a transaction is an
   all-or-nothing compare-and-swap on it (`update-ref` semantics).  Nothing here knows about loose files,
   packed-refs, locks or packed-refs modes.  Independent of the model's edit splitting: symbolic references
   are followed edit by edit. *)
From Coq Require Import List NArith Bool Arith.
From GixV.Base Require Import Bytes Outcome.
From GixV.C16 Require Import Model.
Import ListNotations.

Definition view := bytes -> option target.

(* does the expectation of a change hold for the current value? *)
Definition holds (c : change) (cur : option target) : bool :=
  match c with
  | Update _ expected new =>
      match expected, cur with
      | PAny, _ => true
      | PMustExist, Some _ => true
      | PMustExist, None => false
      | PMustNotExist, None => true
      | PMustNotExist, Some a => target_eqb a new        (* "create" tolerates the value being there already *)
      | PMatch p, Some a | PExisting p, Some a => target_eqb p a
      | PMatch _, None => false
      | PExisting _, None => true
      end
  | Delete expected _ =>
      match expected, cur with
      | PMustNotExist, _ => false                        (* documented as invalid input *)
      | PAny, _ => true
      | PMustExist, Some _ => true
      | PMustExist, None => false
      | PMatch p, Some a | PExisting p, Some a => target_eqb p a
      | PMatch _, None => false
      | PExisting _, None => true
      end
  end.

(* the names an edit touches: the symbolic references it is led through ([false]) and the name it finally
   applies to ([true]).  At most four hops. *)
Fixpoint resolve (fuel : nat) (v : view) (n : bytes) : option (list (bytes * bool)) :=
  match v n with
  | Some (Sym r) =>
      match fuel with
      | O => None
      | S f => option_map (cons (n, false)) (resolve f v r)
      end
  | _ => Some [(n, true)]
  end.

Definition touched (v : view) (e : refedit) : option (list (bytes * bool)) :=
  if re_deref e then resolve 4 v (re_name e) else Some [(re_name e, true)].

(* an update is checked where it lands; a deletion has to be justified for every name on the way *)
Definition edit_ok (v : view) (e : refedit) (t : list (bytes * bool)) : bool :=
  forallb (fun nb : bytes * bool =>
             if snd nb then holds (re_change e) (v (fst nb))
             else match re_change e with
                  | Delete _ _ => holds (re_change e) (v (fst nb))
                  | Update _ _ _ => true
                  end) t.

Fixpoint last_name (t : list (bytes * bool)) : option bytes :=
  match t with
  | [] => None
  | (n, true) :: _ => Some n
  | _ :: r => last_name r
  end.

Definition apply_edit (v : view) (e : refedit) (t : list (bytes * bool)) : view :=
  match last_name t, log_mode_of (re_change e) with
  | Some n, AndRef =>
      let value := match re_change e with Update _ _ new => Some new | Delete _ _ => None end in
      fun k => if bytes_eqb k n then value else v k
  | _, _ => v
  end.

Fixpoint all_some {A} (l : list (option A)) : option (list A) :=
  match l with
  | [] => Some []
  | Some a :: r => option_map (cons a) (all_some r)
  | None :: _ => None
  end.

(* None: the transaction is refused and the map stays as it is *)
Definition spec_txn (v : view) (edits : list refedit) : option view :=
  match all_some (map (touched v) edits) with
  | None => None
  | Some ts =>
      if has_dup (map fst (concat ts)) then None
      else if forallb (fun et => edit_ok v (fst et) (snd et)) (combine edits ts)
      then Some (fold_left (fun acc et => apply_edit acc (fst et) (snd et)) (combine edits ts) v)
      else None
  end.

Definition spec_step (v : view) (o : op) : view :=
  match o with
  | Txn _ true edits => match spec_txn v edits with Some v' => v' | None => v end
  | Txn _ false _ => v
  end.
Definition spec_hist (v : view) (ops : list op) : view := fold_left spec_step ops v.
