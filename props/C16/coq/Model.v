(* C16 — executable model of reference transactions on a file store (loose files + packed-refs).

   Follows
     gix-ref/src/transaction/ext.rs                 extend_with_splits_of_symbolic_refs, assure_one_name_has_one_edit
     gix-ref/src/store/file/transaction/prepare.rs  prepare_inner, lock_ref_and_apply_change,
                                                    possibly_adjust_name_for_prefixes
     gix-ref/src/store/packed/transaction.rs        Transaction::prepare / commit (the merge loop)
     gix-ref/src/store/file/transaction/commit.rs   commit_inner
     gix-ref/src/store/file/find.rs                 try_find for full names (loose over packed)
   The file system is abstracted to: the loose reference files (name -> content), the packed-refs file, and
   the lock files a transaction holds.  Directories are implied by the files below them; the places where
   a directory/file conflict makes a system call fail are explicit ([lock_ok], [blocked]).
   No proofs in this file. *)
From Coq Require Import List NArith Bool Arith.
From GixV.Base Require Import Bytes Outcome.
Import ListNotations.
Local Open Scope outcome_scope.

(* ------------------------------------------------------------------ data *)

Inductive target := Sym (n : bytes) | Obj (c : byte).   (* Obj c: object number c (one hex digit) *)
Definition target_eqb (a b : target) : bool :=
  match a, b with
  | Sym x, Sym y => bytes_eqb x y
  | Obj x, Obj y => beqb x y
  | _, _ => false
  end.
Definition is_sym (t : target) : bool := match t with Sym _ => true | Obj _ => false end.

Inductive prev := PAny | PMustExist | PMustNotExist | PMatch (t : target) | PExisting (t : target).
Inductive logmode := AndRef | LogOnly.
Definition logmode_eqb (a b : logmode) : bool :=
  match a, b with AndRef, AndRef | LogOnly, LogOnly => true | _, _ => false end.
Inductive change :=
| Update (log : logmode) (expected : prev) (new : target)
| Delete (expected : prev) (log : logmode).
Record refedit := mkRefEdit { re_name : bytes; re_change : change; re_deref : bool }.

(* store_impl::file::transaction::Edit (leaf_referent_previous_oid only feeds the reflog: left out) *)
Record edit := mkEdit {
  upd : refedit;
  lock : bool;                     (* Option<gix_lock::Marker>: a lock file of ours is on disk *)
  parent_index : option nat }.

Inductive err :=
| EPreprocessingFailed | ELockAcquire (full_name : bytes) | EDeleteReferenceMustExist | EMustNotExist
| EMustExist | EReferenceOutOfDate.

Record store := mkStore {
  loose : list (bytes * target);
  packed : option (list (bytes * byte)) }.

Fixpoint assoc {A} (k : bytes) (l : list (bytes * A)) : option A :=
  match l with
  | [] => None
  | (k', v) :: r => if bytes_eqb k k' then Some v else assoc k r
  end.
Fixpoint remove_key {A} (k : bytes) (l : list (bytes * A)) : list (bytes * A) :=
  match l with
  | [] => []
  | (k', v) :: r => if bytes_eqb k k' then remove_key k r else (k', v) :: remove_key k r
  end.
Definition set_key {A} (k : bytes) (v : A) (l : list (bytes * A)) : list (bytes * A) :=
  (k, v) :: remove_key k l.
Fixpoint mem (k : bytes) (l : list bytes) : bool :=
  match l with [] => false | x :: r => bytes_eqb k x || mem k r end.
Fixpoint starts_with (p s : bytes) : bool :=
  match p, s with
  | [], _ => true
  | a :: p', b :: s' => beqb a b && starts_with p' s'
  | _ :: _, [] => false
  end.
Fixpoint set_nth {A} (n : nat) (x : A) (l : list A) : list A :=
  match n, l with
  | _, [] => []
  | O, _ :: r => x :: r
  | S n', y :: r => y :: set_nth n' x r
  end.

(* ------------------------------------------------------------------ names *)

Definition slash : byte := x2f.
(* [a] names a directory that [b] lies in *)
Definition dir_of (a b : bytes) : bool := starts_with (a ++ [slash]) b.

Definition is_upper_or_underscore (b : byte) : bool :=
  (N.leb 65 (b2N b) && N.leb (b2N b) 90)%N || N.eqb (b2N b) 95%N.
Definition is_pseudo_ref (n : bytes) : bool := forallb is_upper_or_underscore n.

(* possibly_adjust_name_for_prefixes on the names of this model (no `main-worktree/`, `worktrees/`) *)
Definition adjust_name (n : bytes) : option bytes :=
  if starts_with (bs "refs/tags/") n || starts_with (bs "refs/heads/") n || starts_with (bs "refs/remotes/") n
  then Some n
  else if starts_with (bs "refs/notes/") n then Some n
  else if starts_with (bs "refs/bisect/") n || starts_with (bs "refs/worktree/") n
          || starts_with (bs "refs/rewritten/") n then None
  else if is_pseudo_ref n then None
  else Some n.
Definition packable (n : bytes) : bool := match adjust_name n with Some _ => true | None => false end.

(* packed::Buffer::try_find through transform_full_name_for_lookup: pseudo refs and refs/worktree/ are never packed *)
Definition packed_lookup (p : list (bytes * byte)) (n : bytes) : option byte :=
  if starts_with (bs "refs/tags/") n || starts_with (bs "refs/heads/") n || starts_with (bs "refs/remotes/") n
  then assoc n p
  else if starts_with (bs "refs/worktree/") n then None
  else if starts_with (bs "refs/notes/") n || starts_with (bs "refs/bisect/") n
          || starts_with (bs "refs/rewritten/") n then assoc n p
  else if is_pseudo_ref n then None
  else assoc n p.

(* file::Store::try_find of a full name: the loose file wins, then packed-refs.  A loose file is read as
   "not there" when its path is a directory or lies below a file, which the map of loose files implies. *)
Definition find_in (l : list (bytes * target)) (p : option (list (bytes * byte))) (n : bytes) : option target :=
  match assoc n l with
  | Some t => Some t
  | None => match p with
            | Some b => option_map Obj (packed_lookup b n)
            | None => None
            end
  end.
Definition observe (st : store) (n : bytes) : option target := find_in (loose st) (packed st) n.

(* ------------------------------------------------------------------ pre_process *)

Definition name_of (e : edit) : bytes := re_name (upd e).
Definition set_upd (e : edit) (u : refedit) : edit := mkEdit u (lock e) (parent_index e).

(* `find` of prepare_inner: find_existing_inner(name, packed = None) — loose references only *)
Definition sym_target (l : list (bytes * target)) (n : bytes) : option bytes :=
  match assoc n l with Some (Sym r) => Some r | _ => None end.

(* the body of the `for (eid, edit) in self[first..]` loop for one edit: the edit as left behind and
   the new edit pushed, if any *)
Definition split_one (find : bytes -> option bytes) (eid : nat) (e : edit) : edit * list edit :=
  let u := upd e in
  if negb (re_deref u) then (e, [])
  else
    match find (re_name u) with
    | Some referent =>
        match re_change u with
        | Delete previous mode =>
            (set_upd e (mkRefEdit (re_name u) (Delete previous LogOnly) false),
             [mkEdit (mkRefEdit referent (Delete previous mode) true) false (Some eid)])
        | Update log expected new =>
            (set_upd e (mkRefEdit (re_name u) (Update LogOnly PAny new) false),
             [mkEdit (mkRefEdit referent (Update log expected new) true) false (Some eid)])
        end
    | None => (set_upd e (mkRefEdit (re_name u) (re_change u) false), [])
    end.
Fixpoint split_pass (find : bytes -> option bytes) (eid : nat) (es : list edit) : list edit * list edit :=
  match es with
  | [] => ([], [])
  | e :: rest =>
      let '(e', n1) := split_one find eid e in
      let '(rest', n2) := split_pass find (S eid) rest in
      (e' :: rest', n1 ++ n2)
  end.
(* extend_with_splits_of_symbolic_refs: the `loop`; [k] = 5 - round, so `round == 5` is [k = 0].
   [done] are the edits before `first`, [cur] = self[first..] *)
Fixpoint splits_loop (k : nat) (find : bytes -> option bytes) (done cur : list edit) : outcome (list edit) err :=
  let '(cur', new_edits) := split_pass find (length done) cur in
  match new_edits with
  | [] => Ok (done ++ cur')
  | _ :: _ =>
      match k with
      | O => Err EPreprocessingFailed
      | S k' => splits_loop k' find (done ++ cur') new_edits
      end
  end.
(* assure_one_name_has_one_edit: sort the names, look for two equal neighbours *)
Fixpoint has_dup (names : list bytes) : bool :=
  match names with
  | [] => false
  | n :: r => mem n r || has_dup r
  end.
Definition pre_process (find : bytes -> option bytes) (es : list edit) : outcome (list edit) err :=
  es' <- splits_loop 4 find [] es ;;
  if has_dup (map name_of es') then Err EPreprocessingFailed else Ok es'.

(* ------------------------------------------------------------------ lock_ref_and_apply_change *)

Definition bogus : bytes := bs "borrowcheck".

(* creating `<name>.lock` (and the directories above it) fails when a leading part of the path is a file *)
Definition lock_ok (l : list (bytes * target)) (n : bytes) : bool :=
  negb (existsb (fun kv => dir_of (fst kv) n) l).
Definition acquire (l : list (bytes * target)) (n : bytes) : outcome bool err :=
  if lock_ok l n then Ok true else Err (ELockAcquire bogus).

Definition new_would_change_existing (new existing : target) : bool * bool :=
  match new, existing with
  | Obj n, Obj o => (negb (beqb o n), false)
  | Sym n, Sym o => (negb (bytes_eqb o n), true)
  | Obj _, _ => (true, false)
  | Sym _, _ => (true, true)
  end.

(* the `match (&expected, &existing_ref)` tables *)
Definition check_delete (expected : prev) (existing : option target) : outcome unit err :=
  match expected, existing with
  | PMustNotExist, _ => Panic            (* panic!("BUG: MustNotExist constraint makes no sense …") *)
  | PExisting _, None | PAny, None => Ok tt
  | PMustExist, Some _ | PAny, Some _ => Ok tt
  | PMustExist, None | PMatch _, None => Err EDeleteReferenceMustExist
  | PMatch previous, Some actual | PExisting previous, Some actual =>
      if target_eqb previous actual then Ok tt else Err EReferenceOutOfDate
  end.
Definition check_update (expected : prev) (new : target) (existing : option target) : outcome unit err :=
  match expected, existing with
  | PAny, _ => Ok tt
  | PMustExist, Some _ => Ok tt
  | PMustNotExist, None | PExisting _, None => Ok tt
  | PMustExist, None => Err EMustExist
  | PMustNotExist, Some actual =>
      if target_eqb actual new then Ok tt else Err EMustNotExist
  | PMatch previous, Some actual | PExisting previous, Some actual =>
      if target_eqb previous actual then Ok tt else Err EReferenceOutOfDate
  | PMatch _, None => Err EMustExist
  end.

Definition lock_ref_and_apply_change (st : store) (pbuf : option (list (bytes * byte))) (e : edit)
           (has_global_lock direct : bool) : outcome edit err :=
  if lock e then Panic                                   (* assert!(change.lock.is_none()) *)
  else
    let u := upd e in
    let n := re_name u in
    let existing := find_in (loose st) pbuf n in
    match re_change u with
    | Delete expected log =>
        lk <- (if has_global_lock then Ok false else acquire (loose st) n) ;;
        _ <- check_delete expected existing ;;
        let expected' := match existing with Some t => PMatch t | None => expected end in
        Ok (mkEdit (mkRefEdit n (Delete expected' log) (re_deref u)) lk (parent_index e))
    | Update log expected new =>
        lk0 <- (if has_global_lock then Ok false else acquire (loose st) n) ;;
        _ <- check_update expected new existing ;;
        let '(is_effective, is_symbolic, expected') :=
          match existing with
          | Some t => let '(eff, sy) := new_would_change_existing new t in (eff, sy, PMatch t)
          | None => (true, is_sym new, expected)
          end in
        lk <- (if (is_effective && negb direct) || is_symbolic
               then (if lk0 then Ok true else acquire (loose st) n)
               else Ok false) ;;
        Ok (mkEdit (mkRefEdit n (Update log expected' new) (re_deref u)) lk (parent_index e))
    end.

(* error path: `while let Some(parent_idx) = cursor { … }` naming the root edit of a split edit *)
Fixpoint walk_name (fuel : nat) (updates : list edit) (cursor : option nat) (ref_name : bytes)
  : outcome bytes err :=
  match fuel with
  | O => OutOfFuel
  | S f =>
      match cursor with
      | None => Ok ref_name
      | Some parent_idx =>
          match nth_error updates parent_idx with
          | None => Panic                                   (* updates[parent_idx] *)
          | Some parent =>
              match parent_index parent with
              | None => walk_name f updates (parent_index parent) (name_of parent)
              | Some _ => walk_name f updates (parent_index parent) ref_name
              end
          end
      end
  end.

(* `for cid in 0..updates.len()`: [n] iterations left.  `direct_to_packed_refs` holds for references that
   can live in packed-refs only. *)
Fixpoint apply_all (n cid : nat) (st : store) (pbuf : option (list (bytes * byte)))
         (has_global_lock remove_loose : bool) (updates : list edit) : outcome (list edit) err :=
  match n with
  | O => Ok updates
  | S n' =>
      match nth_error updates cid with
      | None => Panic
      | Some change =>
          let direct := remove_loose && packable (name_of change) in
          match lock_ref_and_apply_change st pbuf change has_global_lock direct with
          | Err (ELockAcquire _) =>
              full_name <- walk_name (S (length updates)) updates (parent_index change) (name_of change) ;;
              Err (ELockAcquire full_name)
          | Err other => Err other
          | Panic => Panic
          | OutOfFuel => OutOfFuel
          | Ok change' => apply_all n' (S cid) st pbuf has_global_lock remove_loose (set_nth cid change' updates)
          end
      end
  end.

(* ------------------------------------------------------------------ packed-refs part of prepare_inner *)

Inductive packed_mode := DeletionsOnly | DeletionsAndUpdates | DeletionsAndUpdatesRemoveLoose.
Definition log_mode_of (c : change) : logmode :=
  match c with Update l _ _ => l | Delete _ l => l end.

(* an edit of the packed transaction: Some c = `Update { new: Object(c) }`, None = `Delete` *)
Definition pedit := (bytes * option byte)%type.

(* the `for edit in &updates` loop filling edits_for_packed_transaction *)
Fixpoint collect_packed (maybe : option nat) (us : list edit) (acc : list pedit) (needs : bool)
  : option nat * list pedit * bool :=
  match us with
  | [] => (maybe, rev acc, needs)
  | e :: r =>
      let u := upd e in
      if logmode_eqb (log_mode_of (re_change u)) LogOnly then collect_packed maybe r acc needs
      else
        match adjust_name (re_name u) with
        | None => collect_packed maybe r acc needs
        | Some n =>
            match maybe, re_change u with
            | Some num, Update _ _ (Obj c) => collect_packed (Some (S num)) r ((n, Some c) :: acc) needs
            | _, Update _ _ _ => collect_packed maybe r acc true
            | _, Delete _ _ => collect_packed maybe r ((n, None) :: acc) needs
            end
        end
  end.

(* packed::Transaction: the buffer it was made from and its prepared edits *)
Record packed_txn := mkPtxn { pt_buffer : option (list (bytes * byte)); pt_edits : list pedit }.

(* packed::Transaction::prepare: drop deletions of refs that are not in the buffer.  Peeling never fails:
   every object number names an object of the harness' table. *)
Definition packed_prepare (buffer : option (list (bytes * byte))) (es : list pedit) : packed_txn :=
  mkPtxn buffer
    (filter (fun e => match snd e with
                      | Some _ => true
                      | None => match buffer with
                                | None => true
                                | Some b => match packed_lookup b (fst e) with Some _ => true | None => false end
                                end
                      end) es).

Record prepared := mkPrepared { p_updates : list edit; p_packed : option packed_txn }.

(* the packed-refs decision of prepare_inner: which packed transaction, if any, is opened and prepared
   (nobody else holds packed-refs.lock) *)
Definition prepare_packed (st : store) (pmode : packed_mode) (updates : list edit) : option packed_txn :=
  let maybe0 := match pmode with DeletionsOnly => None | _ => Some O end in
  let packed_is_file := match packed st with Some _ => true | None => false end in
  if (match maybe0 with Some _ => true | None => false end) || packed_is_file
  then
    let '(maybe, edits_for_packed, needs) := collect_packed maybe0 updates [] false in
    if negb (match edits_for_packed with [] => true | _ => false end) || needs
    then
      let transaction :=
        if Nat.ltb 0 (match maybe with Some k => k | None => O end)
        then Some (packed st)
        else match packed st with
             | Some b => Some (Some b)
             | None => None
             end in
      match transaction with
      | Some buffer => Some (packed_prepare buffer edits_for_packed)
      | None => None
      end
    else None
  else None.

Definition is_remove_loose (m : packed_mode) : bool :=
  match m with DeletionsAndUpdatesRemoveLoose => true | _ => false end.

Definition prepare_inner (st : store) (pmode : packed_mode) (edits : list refedit) : outcome prepared err :=
  let updates0 := map (fun u => mkEdit u false None) edits in
  updates <- pre_process (sym_target (loose st)) updates0 ;;
  let ptxn := prepare_packed st pmode updates in
  let pbuf := match ptxn with Some t => pt_buffer t | None => None end in
  let has_global_lock := match ptxn with Some _ => true | None => false end in
  updates' <- apply_all (length updates) 0 st pbuf has_global_lock (is_remove_loose pmode) updates ;;
  Ok (mkPrepared updates' ptxn).

(* ------------------------------------------------------------------ commit *)

Inductive commit_err := CPackedTransactionCommit | CLockCommit | CDeleteReference.

Fixpoint insert_sorted (e : pedit) (l : list pedit) : list pedit :=
  match l with
  | [] => [e]
  | x :: r => match bytes_cmp (fst e) (fst x) with
              | Lt => e :: l
              | _ => x :: insert_sorted e r
              end
  end.
Definition sort_edits (l : list pedit) : list pedit := fold_left (fun acc e => insert_sorted e acc) l [].

(* write_edit: the line an edit contributes, if any *)
Definition edit_line (e : pedit) : list (bytes * byte) :=
  match snd e with
  | Some c => [(fst e, c)]
  | None => []
  end.

(* the merge `loop` of packed::Transaction::commit over the two peekable iterators *)
Fixpoint merge_edits (edits : list pedit) : list (bytes * byte) -> list (bytes * byte) :=
  fix merge_refs (refs : list (bytes * byte)) : list (bytes * byte) :=
    match refs, edits with
    | [], [] => []
    | pref :: refs', [] => pref :: merge_refs refs'
    | [], e :: edits' => edit_line e ++ merge_edits edits' []
    | pref :: refs', e :: edits' =>
        match bytes_cmp (fst pref) (fst e) with
        | Lt => pref :: merge_refs refs'
        | Gt => edit_line e ++ merge_edits edits' refs
        | Eq => edit_line e ++ merge_edits edits' refs'
        end
    end.

(* packed::Transaction::commit: the new content of packed-refs (None = file removed / absent) *)
Definition packed_commit (current : option (list (bytes * byte))) (t : packed_txn)
  : outcome (option (list (bytes * byte))) commit_err :=
  match pt_edits t with
  | [] => Ok current
  | _ :: _ =>
      let refs_sorted := match pt_buffer t with Some b => b | None => [] end in
      let lines := merge_edits (sort_edits (pt_edits t)) refs_sorted in
      match lines with
      | [] => match current with
              | Some _ => Ok None                         (* std::fs::remove_file(packed-refs) *)
              | None => Err CPackedTransactionCommit      (* … which fails when there is no such file *)
              end
      | _ :: _ => Ok (Some lines)
      end
  end.

(* renaming `<n>.lock` to `<n>` fails when `<n>` is a directory that cannot be removed: it holds loose
   references or lock files of this transaction (empty directories are removed first) *)
Definition blocked (n : bytes) (l : list (bytes * target)) (others : list edit) : bool :=
  existsb (fun kv => dir_of n (fst kv)) l
  || existsb (fun e => lock e && dir_of n (name_of e)) others.

Definition keeps_lock_for_packed (remove_loose : bool) (e : edit) : bool :=
  match re_change (upd e) with
  | Update _ _ new => remove_loose && negb (is_sym new) && packable (name_of e)
  | Delete _ _ => false
  end.

(* first loop of commit_inner: move updated refs into place.  [done] = edits already visited (reversed).
   Returns the edits, the loose files, and the error that stopped the loop, if any. *)
Fixpoint commit_updates (remove_loose : bool) (done us : list edit) (l : list (bytes * target))
  : outcome (list edit * list (bytes * target) * option commit_err) commit_err :=
  match us with
  | [] => Ok (rev done, l, None)
  | e :: r =>
      if re_deref (upd e) then Panic                      (* assert!(!change.update.deref) *)
      else
        match re_change (upd e) with
        | Update log _ new =>
            if keeps_lock_for_packed remove_loose e
            then commit_updates remove_loose (e :: done) r l
            else
              let e' := mkEdit (upd e) false (parent_index e) in
              if logmode_eqb log AndRef && lock e
              then
                if blocked (name_of e) l (done ++ r)
                then Ok (rev done ++ e' :: r, l, Some CLockCommit)
                else commit_updates remove_loose (e' :: done) r (set_key (name_of e) new l)
              else commit_updates remove_loose (e' :: done) r l
        | Delete _ _ => commit_updates remove_loose (e :: done) r l
        end
  end.
(* last loop: delete loose refs.  A missing file, a directory in its place, or a file above it all mean
   "nothing to delete". *)
Fixpoint commit_deletes (remove_loose : bool) (us : list edit) (l : list (bytes * target))
  : list (bytes * target) :=
  match us with
  | [] => l
  | e :: r =>
      let take_lock_and_delete :=
        match re_change (upd e) with
        | Update log _ new => remove_loose && logmode_eqb log AndRef && negb (is_sym new) && packable (name_of e)
        | Delete _ log => logmode_eqb log AndRef
        end in
      commit_deletes remove_loose r (if take_lock_and_delete then remove_key (name_of e) l else l)
  end.

Inductive result :=
| ROk | RRollback | RPrepareErr (e : err) | RCommitErr (e : commit_err) | RPanic | RHang.

Definition commit_inner (st : store) (pmode : packed_mode) (p : prepared) : result * store :=
  let remove_loose := is_remove_loose pmode in
  match commit_updates remove_loose [] (p_updates p) (loose st) with
  | Panic => (RPanic, st)
  | OutOfFuel => (RHang, st)
  | Err e => (RCommitErr e, st)
  | Ok (updates, l1, Some e) => (RCommitErr e, mkStore l1 (packed st))
  | Ok (updates, l1, None) =>
      match (match p_packed p with
             | Some t => packed_commit (packed st) t
             | None => Ok (packed st)
             end) with
      | Ok packed' => (ROk, mkStore (commit_deletes remove_loose updates l1) packed')
      | Err e => (RCommitErr e, mkStore l1 (packed st))
      | Panic => (RPanic, st)
      | OutOfFuel => (RHang, st)
      end
  end.

(* ------------------------------------------------------------------ histories *)

Inductive op := Txn (pmode : packed_mode) (commit : bool) (edits : list refedit).

Definition step (st : store) (o : op) : result * store :=
  match o with
  | Txn pmode commit edits =>
      match prepare_inner st pmode edits with
      | Panic => (RPanic, st)
      | OutOfFuel => (RHang, st)
      | Err e => (RPrepareErr e, st)              (* all locks are dropped, nothing was written *)
      | Ok p => if commit then commit_inner st pmode p else (RRollback, st)
      end
  end.

Fixpoint run_hist (st : store) (ops : list op) : list (result * store) :=
  match ops with
  | [] => []
  | o :: r => let '(res, st') := step st o in (res, st') :: run_hist st' r
  end.
Definition final_store (st : store) (ops : list op) : store :=
  fold_left (fun s o => snd (step s o)) ops st.
