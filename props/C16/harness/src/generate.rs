//! Case generator: histories of 1..12 transactions x 1..4 edits over a small name space with a
//! directory/file conflict (`refs/heads/a` vs `refs/heads/a/b`), symbolic refs, packed refs.
use gixv_common::{tag, Case, Rng};
use std::collections::BTreeMap;

pub const NAMES: &[&str] = &[
    "HEAD",
    "refs/heads/a",
    "refs/heads/a-b",
    "refs/heads/a/b",
    "refs/heads/s",
    "refs/tags/t",
];
/// names used when a history is to stay free of directory/file conflicts
const NAMES_NO_DF: &[&str] = &["HEAD", "refs/heads/a", "refs/heads/a-b", "refs/heads/s", "refs/tags/t", "refs/heads/c/d"];
const OIDS: &[&str] = &["1", "2", "3", "c", "e"];

pub fn hist(loose: &str, packed: &str, ops: &str) -> Case {
    vec![tag("hist"), loose.as_bytes().to_vec(), packed.as_bytes().to_vec(), ops.as_bytes().to_vec()]
}

fn boundary() -> Vec<Case> {
    let mut v = Vec::new();
    let head_a = "HEAD:@refs/heads/a,refs/heads/a:1";
    // every expectation against an existing / a missing ref, update and delete, in every packed-refs mode
    for m in [0, 1, 2] {
        for e in ["A", "E", "N", "M1", "M2", "X1", "X2", "M@refs/heads/a", "X@refs/heads/a"] {
            for name in ["refs/heads/a", "refs/tags/t", "HEAD"] {
                for d in [0, 1] {
                    v.push(hist(head_a, "", &format!("T|{m}|1|{name}:{d}:U:{e}:2:R")));
                    if e != "N" {
                        v.push(hist(head_a, "", &format!("T|{m}|1|{name}:{d}:D:{e}:-:R")));
                    }
                }
            }
            // the same against packed refs only
            v.push(hist("HEAD:@refs/heads/a", "=refs/heads/a:1,refs/tags/t:c", &format!("T|{m}|1|refs/heads/a:0:U:{e}:2:R")));
            v.push(hist("HEAD:@refs/heads/a", "=refs/heads/a:1,refs/tags/t:c", &format!("T|{m}|1|HEAD:1:U:{e}:2:R")));
            if e != "N" {
                v.push(hist("HEAD:@refs/heads/a", "=refs/heads/a:1,refs/tags/t:c", &format!("T|{m}|1|refs/heads/a:0:D:{e}:-:R")));
                v.push(hist("HEAD:@refs/heads/a", "=refs/heads/a:1,refs/tags/t:c", &format!("T|{m}|1|HEAD:1:D:{e}:-:R")));
            }
        }
        // loose shadows packed; deletion removes both; update in mode 2 removes the loose file
        v.push(hist("HEAD:@refs/heads/a,refs/heads/a:2", "=refs/heads/a:1", &format!("T|{m}|1|refs/heads/a:0:U:M2:3:R;T|{m}|1|refs/heads/a:0:D:M3:-:R")));
        v.push(hist("HEAD:@refs/heads/a,refs/heads/a:2", "=refs/heads/a:1", &format!("T|{m}|1|refs/heads/a:0:D:M1:-:R")));
        // tags get peeled lines
        v.push(hist("HEAD:1", "", &format!("T|{m}|1|refs/tags/t:0:U:N:e:R,refs/heads/a:0:U:N:c:R;T|{m}|1|refs/tags/t:0:D:Me:-:R")));
        // the last packed ref goes away
        v.push(hist("HEAD:1", "=refs/tags/t:1", &format!("T|{m}|1|refs/tags/t:0:D:A:-:R;T|{m}|1|refs/tags/t:0:U:N:1:R")));
        // directory/file conflicts
        v.push(hist("HEAD:1,refs/heads/a:1", "", &format!("T|{m}|1|refs/heads/a/b:0:U:A:2:R")));
        v.push(hist("HEAD:1,refs/heads/a/b:1", "", &format!("T|{m}|1|refs/heads/a:0:U:A:2:R")));
        v.push(hist("HEAD:1", "=refs/heads/a:1", &format!("T|{m}|1|refs/heads/a/b:0:U:A:2:R")));
        v.push(hist("HEAD:1", "=refs/heads/a/b:1", &format!("T|{m}|1|refs/heads/a:0:U:A:2:R")));
        v.push(hist("HEAD:1", "", &format!("T|{m}|1|refs/heads/a:0:U:A:2:R,refs/heads/a/b:0:U:A:3:R")));
        v.push(hist("HEAD:1", "", &format!("T|{m}|1|refs/heads/a/b:0:U:A:2:R,refs/heads/a:0:U:A:3:R")));
        v.push(hist("HEAD:1,refs/heads/a/b:1", "", &format!("T|{m}|1|refs/heads/a/b:0:D:A:-:R;T|{m}|1|refs/heads/a:0:U:A:2:R")));
        v.push(hist("HEAD:1,refs/heads/a/b:1", "", &format!("T|{m}|1|refs/heads/a/b:0:D:A:-:R,refs/heads/a:0:U:A:2:R")));
        v.push(hist("HEAD:1,refs/heads/a:1", "", &format!("T|{m}|1|refs/heads/a:0:D:A:-:R,refs/heads/a/b:0:U:A:2:R")));
        v.push(hist("HEAD:1,refs/heads/a:1", "", &format!("T|{m}|1|refs/heads/a/b:0:D:A:-:R")));
        v.push(hist("HEAD:1,refs/heads/a:1", "", &format!("T|{m}|1|refs/heads/a/b:0:U:N:1:L")));
        // rollback
        v.push(hist(head_a, "=refs/tags/t:1", &format!("T|{m}|0|HEAD:1:U:A:2:R,refs/tags/t:0:D:A:-:R")));
    }
    // chains of 3, 4, 5 symbolic hops (the split loop gives up after five rounds), a cycle, a self reference
    let c3 = "HEAD:@refs/heads/s,refs/heads/s:@refs/heads/s2,refs/heads/s2:@refs/heads/a,refs/heads/a:1";
    let c4 = "HEAD:@refs/heads/s,refs/heads/s:@refs/heads/s2,refs/heads/s2:@refs/heads/s3,refs/heads/s3:@refs/heads/a,refs/heads/a:1";
    let c5 = "HEAD:@refs/heads/s,refs/heads/s:@refs/heads/s2,refs/heads/s2:@refs/heads/s3,refs/heads/s3:@refs/heads/s4,refs/heads/s4:@refs/heads/a,refs/heads/a:1";
    for c in [c3, c4, c5] {
        v.push(hist(c, "", "T|0|1|HEAD:1:U:M1:2:R"));
        v.push(hist(c, "", "T|0|1|HEAD:1:D:A:-:R"));
        v.push(hist(c, "", "T|1|1|refs/heads/s:1:U:A:2:R,refs/tags/t:0:U:N:3:R"));
    }
    v.push(hist("HEAD:@refs/heads/a,refs/heads/a:@refs/heads/s,refs/heads/s:@refs/heads/a", "", "T|0|1|HEAD:1:U:A:2:R"));
    v.push(hist("HEAD:@HEAD", "", "T|0|1|HEAD:1:U:A:2:R"));
    // duplicates, directly and through a symbolic ref; no edits at all; log-only edits
    v.push(hist(head_a, "", "T|0|1|refs/heads/a:0:U:A:1:R,refs/heads/a:0:U:A:2:R"));
    v.push(hist(head_a, "", "T|0|1|HEAD:1:U:A:2:R,refs/heads/a:0:U:A:3:R"));
    v.push(hist(head_a, "", "T|0|1|"));
    v.push(hist(head_a, "=refs/tags/t:1", "T|0|1|refs/tags/t:0:U:E:2:L"));
    v.push(hist(head_a, "=refs/tags/t:1", "T|0|1|refs/tags/t:0:D:E:-:L"));
    v.push(hist(head_a, "=refs/tags/t:1", "T|0|1|refs/tags/t:0:U:M1:2:L;T|1|1|refs/tags/t:0:U:M1:2:R"));
    // symbolic new values, deref and not
    v.push(hist(head_a, "", "T|1|1|HEAD:0:U:A:@refs/tags/t:R;T|1|1|HEAD:1:U:N:1:R;T|2|1|HEAD:1:U:M1:2:R"));
    v.push(hist(head_a, "=refs/heads/s:1", "T|2|1|refs/heads/s:0:U:A:@refs/heads/a:R;T|2|1|refs/heads/s:1:D:A:-:R"));
    v.push(hist(head_a, "", "T|2|1|refs/heads/a:0:U:M1:@refs/tags/t:R;T|2|1|HEAD:1:U:A:2:R"));
    v
}

struct Gen<'a> {
    rng: &'a mut Rng,
    names: &'static [&'static str],
    /// what a plain map would hold: used to aim expectations at the current values
    map: BTreeMap<String, String>,
}

impl Gen<'_> {
    fn target(&mut self, sym_num: u64) -> String {
        if self.rng.chance(sym_num, 100) {
            format!("@{}", self.rng.pick(self.names))
        } else {
            self.rng.pick(OIDS).to_string()
        }
    }
    fn resolve(&self, name: &str) -> String {
        let mut cur = name.to_string();
        for _ in 0..5 {
            match self.map.get(&cur) {
                Some(t) if t.starts_with('@') => cur = t[1..].to_string(),
                _ => break,
            }
        }
        cur
    }
    fn edit(&mut self, used: &mut Vec<String>) -> Option<String> {
        let mut name = self.rng.pick(self.names).to_string();
        if self.rng.chance(20, 100) {
            name = "HEAD".into();
        }
        let deref = self.rng.chance(50, 100);
        let leaf = if deref { self.resolve(&name) } else { name.clone() };
        if (used.contains(&name) || used.contains(&leaf)) && self.rng.chance(19, 20) {
            return None;
        }
        used.push(name.clone());
        used.push(leaf.clone());
        let current = self.map.get(&leaf).cloned();
        let hit = self.rng.chance(3, 4);
        let expected = match self.rng.below(16) {
            0..=4 => "A".to_string(),
            5 | 6 => "E".to_string(),
            7 | 8 => "N".to_string(),
            9..=12 => format!("M{}", if hit { current.clone().unwrap_or_else(|| "1".into()) } else { self.target(10) }),
            _ => format!("X{}", if hit { current.clone().unwrap_or_else(|| "2".into()) } else { self.target(10) }),
        };
        let log = if self.rng.chance(94, 100) { "R" } else { "L" };
        if self.rng.chance(30, 100) {
            let expected = if expected == "N" { "A".to_string() } else { expected };
            Some(format!("{name}:{}:D:{expected}:-:{log}", deref as u8))
        } else {
            let new = if expected == "N" && current.is_some() && self.rng.chance(1, 3) {
                current.clone().expect("some")
            } else {
                self.target(12)
            };
            Some(format!("{name}:{}:U:{expected}:{new}:{log}", deref as u8))
        }
    }
    /// follow the effect of a transaction approximately (all-or-nothing is not simulated: it only serves
    /// to aim later expectations)
    fn apply(&mut self, edits: &[String]) {
        for e in edits {
            let p: Vec<&str> = e.split(':').collect();
            let leaf = if p[1] == "1" { self.resolve(p[0]) } else { p[0].to_string() };
            if p[5] == "L" {
                continue;
            }
            if p[2] == "D" {
                self.map.remove(&leaf);
            } else {
                self.map.insert(leaf, p[4].to_string());
            }
        }
    }
}

fn random_hist(rng: &mut Rng) -> Case {
    let df = rng.chance(35, 100);
    let names: &'static [&'static str] = if df { NAMES } else { NAMES_NO_DF };
    let mut g = Gen { rng, names, map: BTreeMap::new() };
    // --- initial store
    let mut loose: Vec<(String, String)> = Vec::new();
    if g.rng.chance(92, 100) {
        let t = if g.rng.chance(75, 100) { format!("@{}", g.names[1 + g.rng.below(g.names.len() as u64 - 1) as usize]) } else { g.target(30) };
        loose.push(("HEAD".into(), t));
    }
    for name in &names[1..] {
        if g.rng.chance(35, 100) {
            let sym = if name.ends_with("/s") { 60 } else { 8 };
            let t = g.target(sym);
            // the initial loose files must form a directory tree
            let conflict = loose.iter().any(|(n, _)| n.starts_with(&format!("{name}/")) || name.starts_with(&format!("{n}/")));
            if !conflict {
                loose.push((name.to_string(), t));
            }
        }
    }
    let packed = if g.rng.chance(45, 100) {
        let mut v: Vec<String> = Vec::new();
        let mut ns: Vec<&str> = names.iter().copied().filter(|n| n.starts_with("refs/")).collect();
        ns.sort();
        for n in ns {
            if g.rng.chance(40, 100) {
                let c = g.rng.pick(OIDS).to_string();
                v.push(format!("{n}:{c}"));
                g.map.insert(n.to_string(), c);
            }
        }
        format!("={}", v.join(","))
    } else {
        String::new()
    };
    for (n, t) in &loose {
        g.map.insert(n.clone(), t.clone());
    }
    // --- ops
    let n_ops = match g.rng.below(10) {
        0..=2 => 1,
        3..=5 => g.rng.range(2, 4),
        6..=8 => g.rng.range(4, 8),
        _ => g.rng.range(8, 12),
    };
    let hist_mode = g.rng.below(4); // 0..2: one mode throughout, 3: mixed
    let mut ops: Vec<String> = Vec::new();
    for _ in 0..n_ops {
        let n_edits = match g.rng.below(20) {
            0 => 0,
            1..=9 => 1,
            10..=14 => 2,
            15..=17 => 3,
            _ => 4,
        };
        let mut edits = Vec::new();
        let mut used = Vec::new();
        for _ in 0..n_edits {
            if let Some(e) = g.edit(&mut used) {
                edits.push(e);
            }
        }
        let mode = if hist_mode < 3 { hist_mode } else { g.rng.below(3) };
        let commit = g.rng.chance(93, 100);
        if commit {
            g.apply(&edits);
        }
        ops.push(format!("T|{mode}|{}|{}", commit as u8, edits.join(",")));
    }
    let loose_s: Vec<String> = loose.iter().map(|(n, t)| format!("{n}:{t}")).collect();
    hist(&loose_s.join(","), &packed, &ops.join(";"))
}

fn malformed(rng: &mut Rng) -> Case {
    let mut c = random_hist(rng);
    let i = rng.range(1, 3) as usize;
    match rng.below(3) {
        0 => {
            let n = c[i].len();
            if n > 0 {
                let at = rng.below(n as u64) as usize;
                c[i][at] = *rng.pick(b":,@=-x1U|;T");
            }
        }
        1 => {
            let n = c[i].len();
            c[i].truncate(rng.below(n as u64 + 1) as usize);
        }
        _ => c[i] = rng.word(b":,@A1U0R-|;T", 0, 8),
    }
    c
}

pub fn gen(rng: &mut Rng, n: usize) -> Vec<Case> {
    let mut v = boundary();
    v.truncate(n);
    while v.len() < n {
        let c = if rng.below(100) < 96 { random_hist(rng) } else { malformed(rng) };
        v.push(c);
    }
    v
}

